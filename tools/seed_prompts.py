# usage: python3 tools/seed_prompts.py C01:2:7 C02:2:7 ...  (id:count:first-number) -> /tmp/seedp/prompt_<ID>.txt; agents get ONLY that file and a worktree /tmp/seed_<ID>
import json, re, sys
props = {json.loads(l)["id"]: json.loads(l) for l in open("/verif/properties.jsonl")}
rows = {}
for l in open("/verif/DESIGN.md"):
    m = re.match(r"\| (C\d\d)-(\d+) \| (.*?) \|", l)
    if m:
        rows.setdefault(m.group(1), []).append(m.group(3))
TEMPLATE = """You are helping to evaluate a verification harness for the C cryptographic library RELIC (relic-toolkit/relic).
You are NOT shown the harness. Your job: produce realistic source changes ("seeded defects") to the library that BREAK the
property below while the library still compiles and its existing test suite still passes.

## Your workspace
* A private git worktree of the library: {wt}  (work ONLY there; never touch /repo or /verif, never read /verif).
* Output directory: {wt}/out/  (create it).

## The property (id {pid}): {title}

Statement: {statement}

Quantifier: {quant}

Why the existing tests cannot settle it: {why}

Anchors (files / mechanisms the property lives in):
{anchors}

## What to deliver: {n} independent changes, numbered {k0}..{k1}
For each change k:
* `out/patch<k>.diff` — `git diff` against the worktree HEAD (apply-able with `git apply` from the worktree root), touching
  only library sources under src/ or include/ (not test/, not cmake). Keep it small (1-30 lines) and plausible: the kind of
  slip a maintainer could make in a refactoring, optimisation or "simplification" — not sabotage with magic constants.
* `out/demo<k>.c` — a small C program using only the public RELIC API (`#include <relic.h>`, `core_init()`, select
  parameters as needed, ...) that exits 0 when the property holds and exits non-zero (printing what differed) when it is
  broken. It must FAIL with your change and PASS on the unchanged tree. It is compiled as
  `gcc -O1 -I_build/include -Iinclude out/demo<k>.c _build/lib/librelic_s.a -o demo && ./demo` from the worktree root
  against the DEFAULT configuration (`cmake -G Ninja -B _build -DBENCH=0 -DDOCUM=off . && cmake --build _build`).
  If the change only manifests in another build configuration, also write `out/cmake<k>.txt` holding the extra cmake options
  (e.g. `-DFP_PRIME=381`), and the demo is then built against that configuration instead. The demo must be deterministic
  and finish in under a minute. Use an independent computation in the demo as the oracle (hard-coded expected values you
  derived independently, e.g. with python3, or a mathematically different route through the library).
* `out/README<k>.md` — what the change is (file, function), which clause of the property it breaks, WHAT IT NEEDS IN
  ORDER TO MANIFEST, why the existing tests stay green, and the commands you ran with their outcomes.

## Hard requirements for every change
1. The library compiles in the default configuration and the COMPLETE existing suite passes with the change:
   `cmake -G Ninja -B _build -DBENCH=0 -DDOCUM=off . && cmake --build _build && ctest --test-dir _build -j4 --timeout 3000`
   must report 19/19 passed (takes a few minutes; run it yourself with the change applied and report the summary line).
   Apply ONE change at a time when you test (`git apply out/patch<k>.diff`, test, `git checkout -- src include`).
2. The change must need something SPECIFIC to manifest — ordinary use must not expose it at once. Good triggers: an unusual
   input class (a digit pattern with probability 2^-32 or less on random data, an operand at a boundary length, an
   exceptional point, a particular parameter set or build option), a multi-step sequence of operations (state left over
   from an earlier call, a particular order of parameter selections), output aliasing an input, a non-default but
   documented representation (projective inputs, negative scalars, scalars longer than the order), a fault at a particular
   point, or two cooperating edits that each look harmless alone.
3. It must be a genuine violation of the property AS STATED (read the statement and quantifier carefully; stay inside the
   documented input domain: the harness is only expected to cover what the property quantifies over).
4. Do not repeat earlier attempts. These were already tried for this property (pick DIFFERENT functions / clauses /
   triggers; favour clauses of the statement that none of these touch):
{tried}

## Hints
* Read the statement clause by clause and list the library functions behind each clause before choosing; prefer clauses and
  functions that look rarely exercised (less common algorithm variants selectable at run time or through the public
  `*_basic/_comba/_karat/_monty/_slide/...` entry points, less common parameter sets, rarely used API functions named by
  the statement).
* The machine is shared: use at most -j4 for builds and tests. python3 is available for computing expected values.
* No network. Do not install anything.
* When done, reply with a short summary per change: file/function, trigger, test-suite summary line, demo result with and
  without the change. Remove your `_build*` directories before finishing (keep only out/).
"""
def anchors(p):
    a = p["anchors"]
    s = "files: " + ", ".join(a.get("files", [])) + "\n"
    for m in a.get("mechanism", []):
        s += "- %s (%s)\n" % (m["name"], m["where"])
    return s
for pid, n, k0 in [(a.split(":")[0], int(a.split(":")[1]), int(a.split(":")[2])) for a in sys.argv[1:]]:
    p = props[pid]
    t = TEMPLATE.format(wt="/tmp/seed_%s" % pid, pid=pid, title=p["title"], statement=p["statement"], quant=p["quantifier"]["text"],
                        why=p["why_tests_cant"], anchors=anchors(p), n=n, k0=k0, k1=k0 + n - 1,
                        tried="\n".join("   - " + r for r in rows.get(pid, [])))
    open("/tmp/seedp/prompt_%s.txt" % pid, "w").write(t)
    print(pid, len(t))

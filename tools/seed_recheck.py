#!/usr/bin/env python3
"""Re-run checks against an already confirmed seeded change (after strengthening a check).

usage: seed_recheck.py <seed-name> <check>[,<check>] [--only t1,t2] [--tier quick] [--scale f]
Applies seeded/<seed>/patch.diff to /repo (git apply), runs the checks from /verif, undoes the change straight
afterwards (git checkout -- .), drops the replay / evidence files the run produced, and appends the outcome to
seeded/<seed>/meta.json under "rechecks"."""
import json
import os
import subprocess
import sys
import time

V = "/verif"


def sh(cmd, cwd=None):
    p = subprocess.run(cmd, shell=True, cwd=cwd, stdout=subprocess.PIPE, stderr=subprocess.STDOUT)
    return p.returncode, p.stdout.decode(errors="replace")


def main():
    seed, checks = sys.argv[1], sys.argv[2].split(",")
    extra = ""
    for i, a in enumerate(sys.argv):
        if a in ("--only", "--tier", "--scale"):
            extra += " %s %s" % (a, sys.argv[i + 1])
    d = os.path.join(V, "seeded", seed)
    meta = json.load(open(os.path.join(d, "meta.json")))
    rc, out = sh("git -C /repo status --short")
    assert out.strip() == "", "/repo not clean:\n" + out
    rc, out = sh("git -C /repo apply %s/patch.diff" % d)
    assert rc == 0, out
    res = {}
    try:
        for c in checks:
            t0 = time.time()
            rc, out = sh("VERIF_SCRATCH_OUT=/tmp/vs_out_%s ./check %s%s" % (seed, c, extra), cwd=V)
            viol = [l for l in out.splitlines() if l.startswith("VIOLATION")]
            first = [l.strip()[:240] for l in out.splitlines() if l.startswith("  target=")][:3]
            res[c] = dict(cmd="./check %s%s" % (c, extra), exit=rc, violations=len(viol), first=first,
                          wall_s=round(time.time() - t0), time=time.strftime("%Y-%m-%d %H:%M:%S"))
            print(c, rc, len(viol), first[:1])
    finally:
        sh("git -C /repo checkout -- .")
        sh("rm -rf /tmp/vs_out_%s" % seed)
    meta.setdefault("rechecks", []).append(res)
    caught = set(meta.get("caught_by", []))
    caught |= {c for c, r in res.items() if r["exit"] == 1 and r["violations"] > 0}
    meta["caught_by"] = sorted(caught)
    json.dump(meta, open(os.path.join(d, "meta.json"), "w"), indent=1)


if __name__ == "__main__":
    main()

#!/usr/bin/env python3
"""Merge a builder's working copy into /verif: new files only; NOTES -> notes/; known findings merged by id;
prints which shared (already tracked) files differ so they can be merged by hand."""
import filecmp
import json
import os
import shutil
import subprocess
import sys

src = sys.argv[1].rstrip("/")
V = "/verif"
tracked = set(subprocess.check_output(["git", "-C", V, "ls-files"]).decode().split())
skip_dirs = (".build", ".build-alt", ".work", ".hypothesis", "__pycache__", "evidence", ".git")
changed = []
for root, dirs, files in os.walk(src):
    dirs[:] = [d for d in dirs if d not in skip_dirs]
    for f in files:
        if f.endswith(".pyc"):
            continue
        sp = os.path.join(root, f)
        rel = os.path.relpath(sp, src)
        if rel in ("MANIFEST.json", "DESIGN.md", "known_findings.json", "properties.jsonl"):
            continue
        if rel.startswith("NOTES_"):
            shutil.copy2(sp, os.path.join(V, "notes", rel))
            print("notes  ", rel)
            continue
        dp = os.path.join(V, rel)
        if rel in tracked or os.path.exists(dp):
            if not filecmp.cmp(sp, dp, shallow=False):
                changed.append(rel)
            continue
        os.makedirs(os.path.dirname(dp), exist_ok=True)
        shutil.copy2(sp, dp)
        print("new    ", rel)
# known findings
kfs = json.load(open(os.path.join(src, "known_findings.json")))
kfd = json.load(open(os.path.join(V, "known_findings.json")))
have = {e["id"] for e in kfd["findings"]}
for e in kfs.get("findings", []):
    if e["id"] not in have:
        kfd["findings"].append(e)
        print("finding", e["id"])
json.dump(kfd, open(os.path.join(V, "known_findings.json"), "w"), indent=1)
print("SHARED FILES THAT DIFFER (merge by hand):")
for c in changed:
    print("   ", c)

#!/bin/sh
# Runs the pinned baseline suite on a scratch worktree of /repo HEAD (guard off, default configuration) and removes it.
set -u
H=$(git -C /repo rev-parse --short HEAD)
W=/tmp/bl_$H
git -C /repo worktree remove --force $W 2>/dev/null; rm -rf $W
git -C /repo worktree add -q $W HEAD || exit 2
( cd $W && cmake -G Ninja -B _build . >/dev/null 2>&1 && cmake --build _build >/tmp/bl_$H.build.log 2>&1 ) || { echo "BUILD FAILED $H"; tail -20 /tmp/bl_$H.build.log; git -C /repo worktree remove --force $W; exit 1; }
( cd $W && ctest --test-dir _build -j${BL_JOBS:-8} --timeout 3000 2>&1 | tail -8 )
git -C /repo worktree remove --force $W; rm -rf $W; git -C /repo worktree prune
echo "baseline done for $H"

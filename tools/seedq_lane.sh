#!/bin/sh
# queue runner for tools/verify_seed.py: files /tmp/seedq/<n>_<ID>_<k> (content = extra args), several lanes may run in parallel; stop with /tmp/seedq/STOP
# usage: seedq_lane.sh <lane>; processes /tmp/seedq/<n>_<ID>_<k> files (content: extra args) until /tmp/seedq/STOP exists
lane=$1
cd /verif
while [ ! -e /tmp/seedq/STOP ]; do
  f=$(ls /tmp/seedq 2>/dev/null | grep -v STOP | sort | head -1)
  if [ -z "$f" ]; then sleep 10; continue; fi
  if ! mv /tmp/seedq/$f /tmp/seedq_done/$f.run 2>/dev/null; then continue; fi
  id=$(echo $f | cut -d_ -f2); k=$(echo $f | cut -d_ -f3)
  args=$(cat /tmp/seedq_done/$f.run)
  echo "[$(date +%T)] lane $lane: $id-$k $args" >> /tmp/seedq.log
  python3 tools/verify_seed.py $id /tmp/seed_$id $k $args > /tmp/seedq_done/$f.log 2>&1
  echo "[$(date +%T)] lane $lane: done $id-$k: $(grep -E '"confirmed"|"caught_by"' -A1 /tmp/seedq_done/$f.log | tr -d '\n ' )" >> /tmp/seedq.log
done

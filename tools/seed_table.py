import json,glob,os,re
rows=[]
for d in sorted(glob.glob('/verif/seeded/C*-*')):
    name=os.path.basename(d); pid,k=name.split('-'); k=int(k)
    first = 7 if pid in ('C06','C08','C09','C19') else 5
    if k<first: continue
    m=json.load(open(d+'/meta.json'))
    caught=m.get('caught_by',[])
    firstrun={c:(r['exit'],r['violations']) for c,r in m.get('checks',{}).items()}
    rec=[ (c, r.get('cmd','')[-60:], r['exit'], r['violations']) for rc in m.get('rechecks',[]) for c,r in rc.items()]
    print(name, 'confirmed' if m.get('confirmed') else 'NOT-CONFIRMED', 'first:',firstrun, 'caught_by:',caught, 'rechecks:',rec)

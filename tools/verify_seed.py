#!/usr/bin/env python3
"""Confirm a seeded change and measure whether the checks catch it.

usage: verify_seed.py <property-id> <seed-dir> <k> [--checks C01,C08] [--tier quick] [--skip-tests]

<seed-dir>/out/patch<k>.diff, demo<k>.c, README<k>.md come from an independent seeding agent. Steps, all on a scratch
git worktree of /repo (removed afterwards): apply the patch; build the default configuration and run the pinned test
suite (must pass); build the demo against the changed and against the unchanged library (must fail / pass); run the
given checks with VERIF_REPO pointing at the scratch tree (each should exit 1 with a VIOLATION line). The outcome is
stored as /verif/seeded/<id>-<k>/{patch.diff, demo.c, README.md, meta.json}."""
import hashlib
import json
import os
import shutil
import subprocess
import sys
import time

V = "/verif"


def sh(cmd, cwd=None, env=None, timeout=None):
    p = subprocess.run(cmd, shell=True, cwd=cwd, env=env, stdout=subprocess.PIPE, stderr=subprocess.STDOUT, timeout=timeout)
    return p.returncode, p.stdout.decode(errors="replace")


def main():
    pid, sdir, k = sys.argv[1], sys.argv[2].rstrip("/"), sys.argv[3]
    checks = [pid]
    tier = "quick"
    skip_tests = "--skip-tests" in sys.argv
    for i, a in enumerate(sys.argv):
        if a == "--checks":
            checks = sys.argv[i + 1].split(",")
        if a == "--tier":
            tier = sys.argv[i + 1]
    recheck = "--recheck" in sys.argv
    extra = ""
    for i, a in enumerate(sys.argv):
        if a in ("--only", "--scale"):
            extra += " %s %s" % (a, sys.argv[i + 1])
    if recheck:
        # the seed is already confirmed: only run checks against it (scratch worktree), append to meta["rechecks"]
        return do_recheck(pid, k, checks, tier, extra)
    patch = os.path.join(sdir, "out", "patch%s.diff" % k)
    demo = os.path.join(sdir, "out", "demo%s.c" % k)
    readme = os.path.join(sdir, "out", "README%s.md" % k)
    name = "%s-%s" % (pid, k)
    wt = "/tmp/vs_%s" % name
    base = "/tmp/vs_base"
    meta = dict(property=pid, seed=name, ran=[], time=time.strftime("%Y-%m-%d %H:%M:%S"))
    sh("git -C /repo worktree remove --force %s; rm -rf %s" % (wt, wt))
    rc, out = sh("git -C /repo worktree add -q %s HEAD" % wt)
    assert rc == 0, out
    try:
        rc, out = sh("git apply %s" % patch, cwd=wt)
        meta["patch_applies"] = rc == 0
        if rc != 0:
            meta["error"] = out[-500:]
            return finish(meta, name, patch, demo, readme)
        # unchanged reference build (shared, rebuilt when /repo HEAD moved)
        head = sh("git -C /repo rev-parse HEAD")[1].strip()
        if not os.path.exists(base + "/.head") or open(base + "/.head").read() != head:
            sh("git -C /repo worktree remove --force %s; rm -rf %s" % (base, base))
            sh("git -C /repo worktree add -q %s HEAD" % base)
            rc, out = sh("cmake -G Ninja -B _build -DBENCH=0 -DDOCUM=off -DTESTS=0 . && cmake --build _build", cwd=base)
            assert rc == 0, out[-2000:]
            open(base + "/.head", "w").write(head)
        t0 = time.time()
        rc, out = sh("cmake -G Ninja -B _build -DBENCH=0 -DDOCUM=off %s . && cmake --build _build" %
                     ("-DTESTS=0" if skip_tests else ""), cwd=wt)
        meta["compiles"] = rc == 0
        meta["ran"].append("cmake -G Ninja -B _build -DBENCH=0 -DDOCUM=off . && cmake --build _build")
        if rc != 0:
            meta["error"] = out[-800:]
            return finish(meta, name, patch, demo, readme)
        if not skip_tests:
            rc, out = sh("ctest --test-dir _build -j8 --timeout 3000", cwd=wt)
            meta["tests_pass"] = rc == 0 and "100% tests passed" in out
            meta["tests_summary"] = [l for l in out.splitlines() if "tests passed" in l or "Failed" in l or "***" in l][:6]
            meta["ran"].append("ctest --test-dir _build -j8 --timeout 3000")
            meta["tests_wall_s"] = round(time.time() - t0)
        # demo: default build, or a second configuration (cmake<k>.txt), or the seeder's own script (build<k>.sh)
        cmk = os.path.join(sdir, "out", "cmake%s.txt" % k)
        bsh = os.path.join(sdir, "out", "build%s.sh" % k)
        if os.path.exists(bsh):
            shutil.copy2(demo, os.path.join(wt, "demo%s.c" % k))
            shutil.copy2(demo, os.path.join(base, "demo%s.c" % k))
            rc1, o1 = sh("sh %s 2>&1" % bsh, cwd=wt, timeout=3600)
            rc0, o0 = sh("sh %s 2>&1" % bsh, cwd=base, timeout=3600)
            meta["demo_build"] = open(bsh).read()
        else:
            bd = "_build"
            if os.path.exists(cmk):
                opts = open(cmk).read().strip().replace("\n", " ")
                meta["demo_cmake_options"] = opts
                bd = "_build_demo"
                for d_ in (wt, base):
                    rc, out = sh("cmake -G Ninja -B _build_demo -DBENCH=0 -DDOCUM=off -DTESTS=0 %s . && cmake --build _build_demo"
                                 % opts, cwd=d_)
                    assert rc == 0, out[-1500:]
            cc = "gcc -O1 -I%s/include -Iinclude %s %s/lib/librelic_s.a -o demo_bin 2>&1" % (bd, demo, bd)
            rc1, o1 = sh(cc + " && ./demo_bin", cwd=wt, timeout=900)
            rc0, o0 = sh(cc + " && ./demo_bin", cwd=base, timeout=900)
            sh("rm -rf _build_demo", cwd=base)
        meta["demo_rc_with_change"] = rc1
        meta["demo_rc_without_change"] = rc0
        meta["demo_output_with_change"] = o1[-600:]
        meta["ran"].append("gcc -O1 -I_build/include -Iinclude demo.c _build/lib/librelic_s.a -o demo && ./demo  (changed / unchanged tree)")
        meta["confirmed"] = bool(meta.get("tests_pass", skip_tests) and rc1 != 0 and rc0 == 0)
        # checks
        meta["checks"] = {}
        for c in checks:
            t1 = time.time()
            env = dict(os.environ, VERIF_REPO=wt, VERIF_SCRATCH_OUT="/tmp/vs_out_%s" % name)
            rc, out = sh("./check %s --tier %s" % (c, tier), cwd=V, env=env, timeout=7200)
            viol = [l for l in out.splitlines() if l.startswith("VIOLATION")]
            detail = [l.strip() for l in out.splitlines() if l.startswith("  target=")][:4]
            meta["checks"][c] = dict(exit=rc, violations=len(viol), first=detail, wall_s=round(time.time() - t1),
                                     tail=out.splitlines()[-1][:300] if out.splitlines() else "")
            meta["ran"].append("VERIF_REPO=<scratch worktree with the patch> ./check %s --tier %s" % (c, tier))
            # violations found on the scratch tree are not findings on /repo: their replay files went to a scratch dir
            sh("rm -rf /tmp/vs_out_%s" % name)
        meta["caught_by"] = [c for c, r in meta["checks"].items() if r["exit"] == 1 and r["violations"] > 0]
        return finish(meta, name, patch, demo, readme)
    finally:
        sh("git -C /repo worktree remove --force %s; rm -rf %s; git -C /repo worktree prune" % (wt, wt))
        sh("rm -rf %s/.build-alt/%s" % (V, hashlib.sha1(os.path.realpath(wt).encode()).hexdigest()[:10]))


def do_recheck(pid, k, checks, tier, extra):
    name = "%s-%s" % (pid, k)
    d = os.path.join(V, "seeded", name)
    meta = json.load(open(os.path.join(d, "meta.json")))
    wt = "/tmp/vs_%s" % name
    sh("git -C /repo worktree remove --force %s; rm -rf %s" % (wt, wt))
    rc, out = sh("git -C /repo worktree add -q %s HEAD" % wt)
    assert rc == 0, out
    res = {}
    try:
        rc, out = sh("git apply %s/patch.diff" % d, cwd=wt)
        assert rc == 0, out
        for c in checks:
            t1 = time.time()
            env = dict(os.environ, VERIF_REPO=wt, VERIF_SCRATCH_OUT="/tmp/vs_out_%s" % name)
            cmd = "./check %s --tier %s%s" % (c, tier, extra)
            rc, out = sh(cmd, cwd=V, env=env, timeout=7200)
            viol = [l for l in out.splitlines() if l.startswith("VIOLATION")]
            first = [l.strip()[:240] for l in out.splitlines() if l.startswith("  target=")][:3]
            res[c] = dict(cmd="VERIF_REPO=<scratch worktree with the patch> " + cmd, exit=rc, violations=len(viol),
                          first=first, wall_s=round(time.time() - t1), time=time.strftime("%Y-%m-%d %H:%M:%S"))
            print(c, rc, len(viol), first[:1])
            sh("rm -rf /tmp/vs_out_%s" % name)
    finally:
        sh("git -C /repo worktree remove --force %s; rm -rf %s; git -C /repo worktree prune" % (wt, wt))
        sh("rm -rf %s/.build-alt/%s" % (V, hashlib.sha1(os.path.realpath(wt).encode()).hexdigest()[:10]))
    meta.setdefault("rechecks", []).append(res)
    caught = set(meta.get("caught_by", [])) | {c for c, r in res.items() if r["exit"] == 1 and r["violations"] > 0}
    meta["caught_by"] = sorted(caught)
    json.dump(meta, open(os.path.join(d, "meta.json"), "w"), indent=1)


def finish(meta, name, patch, demo, readme):
    d = os.path.join(V, "seeded", name)
    os.makedirs(d, exist_ok=True)
    shutil.copy2(patch, os.path.join(d, "patch.diff"))
    if os.path.exists(demo):
        shutil.copy2(demo, os.path.join(d, "demo.c"))
    for extra in ("cmake%s.txt", "build%s.sh"):
        src = os.path.join(os.path.dirname(patch), extra % name.split("-")[1])
        if os.path.exists(src):
            shutil.copy2(src, os.path.join(d, extra % ""))
    if os.path.exists(readme):
        shutil.copy2(readme, os.path.join(d, "README.md"))
        txt = open(readme).read()
        meta["needs_to_manifest"] = txt[:1200]
    json.dump(meta, open(os.path.join(d, "meta.json"), "w"), indent=1)
    print(json.dumps({k: meta.get(k) for k in ("seed", "patch_applies", "compiles", "tests_pass", "demo_rc_with_change",
                                               "demo_rc_without_change", "confirmed", "caught_by")}, indent=1))
    for c, r in meta.get("checks", {}).items():
        print(c, r["exit"], r["violations"], r["wall_s"], r["first"][:2])


if __name__ == "__main__":
    main()

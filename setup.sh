#!/bin/sh
# Builds the framework from files on disk only (offline). Checks rebuild incrementally from /repo on every run.
set -e
cd "$(dirname "$0")"
if [ "$1" = "--clean" ]; then rm -rf .build .build-alt .work; exit 0; fi
mkdir -p .build .work evidence
CFGS="${VERIF_SETUP_CFGS:-base256 w8 karat2 dyn p255 p255-extnd p381 trace256 trace255 trace381 pth map-swift fuzz256}"
/usr/local/bin/python3-vt engine/build.py $CFGS
echo "setup ok"

"""C11 — extension-field curves: group law, [k]Q, Frobenius and cofactor clearing (DESIGN §2 C11).

The twin of C03 over the quadratic extension: the twist E'(Fp2) of every k = 12 pairing set the build can select
(engine.pcctx), reference arithmetic = engine.ref.ec.Curve over the Python Fp2, psi / h_eff reference = engine.ref.g2.
The same targets run over the curves on cubic / quartic / octic extensions (engine.pcctx_k, op names ep2_x -> epK_x)
in the thorough sweep; case dictionaries always carry the ep2_ / g2_ spelling of the routine."""
import json
import struct
from math import gcd

from hypothesis import strategies as st

from engine import pcctx, pcctx_k
from engine.core import Target, Violation, Unsupported
from engine.gen import ints
from engine.proto import HarnessError, RLC_EQ, RLC_NE
from engine.ref import ec as rec
from engine.ref import ec2fast
from engine.ref import ext as rext
from engine.ref import fp as rfp
from engine.ref import g2 as rg2

PROPERTY = "C11"
RULE = ("points of the twist E'(Fp2): reference-computed multiples [m]G2 (m from 0, +-1, 2..16, r-1, p mod r, uniform), "
        "reference-lifted points with generated x in Fp2 (full order h2*r, outside the order-r subgroup), their images "
        "[h2]P (subgroup, no known relation to G2), [r]P (cofactor part) and [h2 r/q]P (small prime order q | h2 found "
        "by trial division); shipped raw in affine / homogeneous / Jacobian form with generated Z in Fp2 and either "
        "encoding of the identity; operand pairs biased to P=O, Q=O, P=Q, P=-Q; aliasing r==p, r==q, p==q; scalars from "
        "G-scalar(r, 1024 bits) (0, +-1, r-1, r, r+1, multiples of r, negative, longer than r, lambda = p mod r) plus "
        "scalars built from chosen GLS sub-scalars sum a_i lambda^i (a_i zero, negative, +-x, 64-bit); fixed-base tables "
        "by the matching ep2_mul_pre_* from G2 and from other bases; simultaneous forms with lists of 0..12 entries, "
        "identities and repeated points; one pairing set per worker job, every selectable set covered. oracle = "
        "independent affine chord-and-tangent law over the Python Fp2; frb = [p^i mod r]Q on the subgroup and "
        "untwist-Frobenius-twist evaluated in Fp12 for arbitrary points; mul_cof: on curve, [r]R = O, R = O iff "
        "[h2]P = O, homomorphism on pairs, equality with [h_eff]P once h_eff reproduced the map on three points, "
        "[h2 r]P = O. non-trivial: exceptional / non-affine / aliased group-law case; multiplication with |k| not in "
        "{0,1} and (|k| >= r or k < 0 or > 64 bits); frb/mul_cof of a non-identity point. distinct = distinct "
        "(target, cfg, case) hashes")
ASSUMPTIONS = ["twist parameters (a', b', G2, r, h2, tower non-residues, twist type) are read from the library getters "
               "and sanity-checked by the reference (G2 on E', [r]G2 = O, b' = b/xi or b*xi, psi(G2) = [p]G2, "
               "gcd(h2, r) = 1); C18 validates them in depth",
               "ep2_add_projc is fed BASIC/PROJC operands, ep2_add_jacob BASIC/JACOB operands, *_basic affine operands; "
               "multiplications, ep2_frb (documented: affine) and ep2_mul_cof get normalised affine points",
               "points outside the order-r subgroup are only given to routines that work on the plain integer "
               "(ep2_mul_basic, ep2_mul_dig, ep2_mul_sim_dig, group law, frb, mul_cof, norm, cmp)",
               "thorough sweep over ep3_/ep4_/ep8_ (engine/pcctx_k.py): one set per configuration (the one pc_param_set_any "
               "selects), selected once per runner process; no Fp^k model of those twists, so frb is checked as [p^i]Q on the "
               "subgroup and structurally (on curve, additive) elsewhere, mul_cof structurally"]
BUDGET_S = {"quick": 280, "thorough": 1750}
JOB_SIZE = {"quick": 450, "thorough": 1500}

BASICREP = {"kind": "basic", "z": [1, 0], "inf": 0}


# ------------------------------------------------------------------------------ context

# build configurations whose pairing set has its second group over Fp^K, K != 2 (engine/pcctx_k.py); every other
# configuration is served by engine/pcctx.py (k = 12, twist over Fp2)
KCFGS = {"pf-315": 4, "pf-317": 4, "pf-330": 4, "pf-354": 3, "pf-508": 3, "pf-509": 4, "pf-510": 4, "pf-575-q": 8,
         "pf-638": 3, "pf-765": 4, "pf-766": 4, "pf-768": 3}


def xctx(env, cfg, x):
    """pcctx / pcctx_k context + what C11 needs on top (derived by the reference, cached on the context object)."""
    if getattr(x, "_c11", False):
        return x
    p, r, h2 = x.F.p, x.r, x.h2
    E = x.E2c
    if h2 <= 0 or gcd(h2, r) != 1:
        raise Violation("pairing set %d: twist cofactor %d not coprime to the group order" % (x.cid, h2))
    x.lam = p % r
    if not hasattr(x, "K"):
        x.K, x.pfx, x.FK = 2, "ep2_", x.F2
    if x.K == 2:
        x.fam, x.par = rg2.family(p, r)
        x.tw = rg2.Twist(x.T, x.ttype, x.base.b, x.b2)
        want = pcctx.small_multiple2(x, x.lam)  # textbook Curve.mul
        if not (E.eq(x.tw.psi_full(x.G2), want) and E.eq(x.tw.psi(x.G2), want)):
            raise Violation("pairing set %d: reference untwist-Frobenius-twist of G2 is not [p]G2 (twist type / tower "
                            "parameters inconsistent)" % x.cid)
        x.fm = ec2fast.FastMul2(p, x.F2.nr, x.b2) if x.F2.is_zero(x.a2) else None
        x.tabsz = env.runner(cfg).info("info_ep2")[0]
    else:
        x.fam, x.tw, x.fm = "k%d" % x.kemb, None, None
    x.ops = env.runner(cfg).ops()
    x.smallq = rg2.small_prime_factors(h2)
    x.fpbits = env.runner(cfg).info("info_fp")[0]          # RLC_FP_BITS
    x.width, x.depth = x.base.inf[9], x.base.inf[10]       # RLC_WIDTH, RLC_DEPTH
    x.N2 = h2 * r
    x._pts = {}
    x._heff = None
    x.kinds_native = {x.base.BASIC: ["basic"], x.base.PROJC: ["basic", "projc", "projc"],
                      x.base.JACOB: ["basic", "jacob", "jacob"]}[x.base.EP_ADD]
    x._c11 = True
    return x


def job_x(env, cfg):
    if cfg in KCFGS:
        return xctx(env, cfg, pcctx_k.job_ctx(env, cfg))
    return xctx(env, cfg, pcctx.job_ctx(env, cfg))


def case_x(env, cfg, case):
    if cfg in KCFGS:
        return xctx(env, cfg, pcctx_k.ctx_for(env, cfg, case["cid"]))
    return xctx(env, cfg, pcctx.ctx_for(env, cfg, case["cid"]))


def run_prog(env, cfg, x, build, poison, seed=b""):
    if x.K == 2:
        return pcctx.run(env, cfg, x, build, poison, seed=seed)
    return pcctx_k.run(env, cfg, x, build, poison, seed=seed)


def opname(x, op):
    """case dictionaries carry the ep2_ / g2_ names; curves over Fp^K use the epK_ twin of the same routine"""
    return op if x.K == 2 or not op.startswith("ep2_") else x.pfx + op[4:]


def have(x, ops):
    return [o for o in ops if opname(x, o) in x.ops]


def dec1(x, blob, what):
    if x.K == 2:
        return pcctx.dec_point2(x, blob, what)
    return pcctx_k.dec_points(x, blob[:3 * x.K * x.F.nbytes + 5], what)[0]


def decn(x, blob, what):
    if x.K == 2:
        return pcctx.dec_points2(x, blob, what)
    return pcctx_k.dec_points(x, blob, what)


def is_norm(x, meta):
    return meta["coord"] == x.base.BASIC and x.FK.eq(meta["z"], x.FK.one)


def emul(x, k, P):
    """reference [k]P on the twist: fast Jacobian ladder (engine.ref.ec2fast), a deterministic sample of the results is
    recomputed with the textbook Curve.mul so that a defect of the fast path cannot go unnoticed"""
    if P is None or k == 0:
        return None
    if x.fm is None or abs(k) < 16:
        return x.E2c.mul(k, P)
    R = x.fm.mul(k, P)
    if (k ^ P[0][0]) % 61 == 0 and not x.E2c.eq(R, x.E2c.mul(k, P)):
        raise HarnessError("reference inconsistency: ec2fast.mul != Curve.mul (k=%d)" % k)
    return R


def gmul(x, m):
    """[m]G2, cached"""
    m %= x.r
    if m == 0:
        return None
    if m not in x._small2:
        if len(x._small2) > 4000:
            x._small2.clear()
        x._small2[m] = emul(x, m, x.G2)
    return x._small2[m]


# ------------------------------------------------------------------------------ generators

def fp2_elem(x, nonzero=False):
    """an element of the field of definition Fp^K as a flat list of K residues"""
    p, K = x.F.p, x.K
    pad = [0] * (K - 2)
    sp = [[1, 0] + pad, [2, 0] + pad, [p - 1, 0] + pad, [0, 1] + pad, [0, p - 1] + pad, [1] * K, [x.F.R % p, 0] + pad,
          list(range(3, 3 + 2 * K, 2)), [0] * (K - 1) + [1]]
    if not nonzero:
        sp.append([0] * K)
    return st.one_of(st.sampled_from(sp), st.lists(ints.uniform(0, p - 1), min_size=K, max_size=K))


def point_spec(x, allow_outside=True):
    """{'m': multiplier of G2} | {'x': [x0, x1], 's': sign[, 'k': 'q'|'r'|'h'[, 'q': prime]]}:
    lifted point P (first x0 + j with a point above it), optionally mapped to [h2 r/q]P, [r]P or [h2]P."""
    r = x.r
    special = [0, 1, r - 1, 2, 3, r - 2, 4, 5, 7, 8, 15, 16, r // 2, r // 2 + 1, x.lam, r - x.lam, x.lam * x.lam % r]

    @st.composite
    def s(draw):
        k = draw(st.integers(0, 8))
        if k <= 1:
            return {"m": draw(st.sampled_from(special))}
        if k <= 3:
            return {"m": draw(ints.uniform(1, r - 1))}
        sp = {"x": draw(fp2_elem(x)), "s": draw(st.integers(0, 1))}
        if k == 4 or not allow_outside:
            return dict(sp, k="h")
        if k == 7 and x.smallq:
            return dict(sp, k="q", q=draw(st.sampled_from(x.smallq)))
        if k == 8:
            return dict(sp, k="r")
        return sp
    return s()


def rep_spec(x, kinds):
    @st.composite
    def s(draw):
        kind = draw(st.sampled_from(kinds))
        z = [1] + [0] * (x.K - 1)
        if kind != "basic":
            z = draw(fp2_elem(x, nonzero=True))
        return {"kind": kind, "z": z, "inf": draw(st.integers(0, 1))}
    return s()


def _lift(x, xs, s):
    p = x.F.p
    E = x.E2c
    xs = [v % p for v in xs] + [0] * (x.K - len(xs))
    for j in range(200):
        P = E.lift_x(x.FK.unflatten([(xs[0] + j) % p] + xs[1:]))
        if P is not None:
            return E.neg(P) if s else P
    raise Unsupported()


def resolve(x, spec):
    """Affine reference point (or None = identity) of a point spec (cached: shrinking replays the same specs)."""
    if "m" in spec:
        return gmul(x, spec["m"])
    key = json.dumps(spec, sort_keys=True)
    if key in x._pts:
        return x._pts[key]
    E = x.E2c
    P = _lift(x, spec["x"], spec.get("s", 0))
    k = spec.get("k")
    if k == "q":
        P = emul(x, x.N2 // spec["q"], P)
    elif k == "r":
        P = emul(x, x.r, P)
    elif k == "h":
        P = emul(x, x.h2, P)
        # scalars are reduced modulo r for these points (ref_mul): make sure that is legitimate, so that a wrong
        # cofactor constant is reported as such and never as a defect of a multiplication routine
        if emul(x, x.r, P) is not None:
            raise Violation("pairing set %d: [r][h2]P != O for a point of the twist: the cofactor constant h2 is not "
                            "#E'/r" % x.cid, x=spec["x"])
    if len(x._pts) > 3000:
        x._pts.clear()
    x._pts[key] = P
    return P


def pt_class(spec, P):
    if P is None:
        return "pt:identity"
    if "m" in spec:
        return "pt:multiple-of-G2"
    return {"q": "pt:small-order", "r": "pt:cofactor-part", "h": "pt:subgroup-lifted", None: "pt:outside-subgroup"}[spec.get("k")]


def in_subgroup(spec):
    return "m" in spec or spec.get("k") == "h"



def stale_pt(x):
    """content of output objects before the call: a fixed multiple of G2 that no generated case expects (G2 itself is
    the expected value of [1]G2; a routine returning without writing must not pass)"""
    if getattr(x, "_stale_pt", None) is None:
        x._stale_pt = x.E2c.mul(977, x.G2)
    return x._stale_pt


def enc(x, P, rep):
    if x.K == 2:
        return pcctx.enc_point2(x, P, rep["kind"], tuple(rep["z"]), rep.get("inf", 0))
    z = x.FK.unflatten(rep["z"]) if len(rep["z"]) == x.K else x.FK.one
    return pcctx_k.enc_point(x, P, rep["kind"], z, rep.get("inf", 0))


def vec(x, pts, reps=None, n=None):
    """payload of an EP2V slot holding pts (n slots allocated, default len(pts))"""
    k = len(pts)
    n = k if n is None else n
    body = b"".join(enc(x, P, reps[i] if reps else BASICREP)[1:] for i, P in enumerate(pts))
    return bytes([x.K]) + struct.pack("<II", n, k) + body


def fp2_slot(p, x, a):
    body = pcctx.enc_fp2(x, a)
    return p.new("FPX", bytes([2]) + struct.pack("<I", len(body)) + body)


def dec_fp2(x, blob, what):
    nb = x.F.nbytes
    out = []
    for j in range(2):
        v, raw = x.F.dec(blob[j * nb:(j + 1) * nb])
        if v is None:
            raise Violation("%s: Fp2 coefficient not canonical (raw >= p)" % what, raw=raw)
        out.append(v)
    return tuple(out)


def rep_kinds_for(x, op):
    if op.endswith("_basic"):
        return ["basic"]
    if op.endswith("_projc"):
        return ["basic", "projc", "projc"]
    if op.endswith("_jacob"):
        return ["basic", "jacob", "jacob"]
    return x.kinds_native


def with_facts(facts, fn):
    """run fn(); a Violation leaves with reference-derived facts about the *inputs* attached (known-finding predicates
    are conjunctions over the case and these facts)"""
    try:
        return fn()
    except Violation as v:
        for k_, v_ in facts.items():
            v.details.setdefault(k_, v_)
        raise


def chk_call(call, what, allow_error=False):
    if call.unsupported:
        raise Unsupported()
    if call.ub:
        raise Violation("undefined behaviour in %s: %s" % (what, call.ub), ub=call.ub)
    if call.errored and not allow_error:
        raise Violation("%s reported an error (caught=%d e=%d code=%d) for valid input" % (what, call.caught, call.e, call.code),
                        errored=True, e=call.e)


def chk_point(x, blob, want, what, need_norm=False):
    got, meta = dec1(x, blob, what)
    E = x.E2c
    if got is not None and not E.on_curve(got):
        raise Violation("%s: result is not on the curve" % what, got=got, wrong=True)
    if not E.eq(got, want):
        raise Violation("%s: wrong point" % what, got=got, want=want, wrong=True)
    if need_norm and got is not None and not is_norm(x, meta):
        raise Violation("%s: result not in normalised affine form" % what, coord=meta["coord"], z=meta["z"], notnorm=True)
    return got, meta


def scalars(x):
    """G-scalar(r) + scalars with chosen GLS sub-scalars k = sum a_i lambda^i (a_i zero / negative / around +-x)."""
    r, lam = x.r, x.lam
    t = abs(x.par) if x.par else 1 << 62
    small = [0, 0, 0, 1, -1, 2, -2, t, -t, t - 1, t + 1, -(t + 1), 2 * t, 2 * t + 1, -(2 * t + 1), 6 * t * t]

    @st.composite
    def gls(draw):
        a = [draw(st.one_of(st.sampled_from(small), ints.uniform(-(1 << 64), 1 << 64))) for _ in range(4)]
        k = sum(ai * pow(lam, i, r) for i, ai in enumerate(a)) % r
        j = draw(st.sampled_from([0, 0, 0, 1, -1, 2]))
        return k + j * r
    g = ints.scalar(r, 1024, lam)
    return st.one_of(g, g, gls())


def mul_labels(x, k):
    n = x.r
    out = []
    if k < 0:
        out.append("k:negative")
    if abs(k) >= n:
        out.append("k:>=r")
    if k % n == 0:
        out.append("k:0-mod-r")
    if abs(k).bit_length() > n.bit_length():
        out.append("k:longer-than-r")
    if not out:
        out.append("k:in-range")
    return out


def gls_labels(x, k):
    """classes of the 4-dimensional GLS decomposition that are recognisable from k alone: k = a * lambda^i with a
    short a (the other three sub-scalars are zero; for i > 0 the sign-aligning first sub-scalar is zero)"""
    r = x.r
    kk = k % r
    out = []
    for i in range(4):
        a = kk * pow(x.lam, -i, r) % r
        if a > r // 2:
            a -= r
        if 0 < abs(a) < (1 << 66):
            out.append("gls:k=%sa*lambda^%d" % ("-" if a < 0 else "", i))
    return out


def nontrivial_k(x, k):
    return abs(k) not in (0, 1) and (abs(k) >= x.r or k < 0 or (k % x.r).bit_length() > 64)


# ------------------------------------------------------------------------------ group law

LAW2 = ["ep2_add", "ep2_add_basic", "ep2_add_projc", "ep2_add_jacob", "ep2_sub", "ep2_add_slp_basic", "g2_add", "g2_sub"]
LAW1 = ["ep2_neg", "ep2_dbl", "ep2_dbl_basic", "ep2_dbl_projc", "ep2_dbl_jacob", "ep2_norm", "ep2_copy",
        "ep2_dbl_slp_basic", "g2_neg", "g2_dbl", "g2_norm"]
LAWQ = ["ep2_cmp", "ep2_is_infty", "ep2_on_curve", "g2_cmp"]


def strat_law(env, cfg):
    x = job_x(env, cfg)

    @st.composite
    def s(draw):
        op = draw(st.sampled_from(have(x, LAW2 + LAW2 + LAW1 + LAWQ)))
        kinds = rep_kinds_for(x, op)
        P = draw(point_spec(x))
        rels = ["rand", "rand", "eq", "neg", "infty", "eq", "neg"] + (["t2", "t2"] if 2 in x.smallq else [])
        rel = draw(st.sampled_from(rels))
        if rel == "rand":
            Q = draw(point_spec(x))
        elif rel == "infty":
            Q = {"m": 0}
        else:
            Q = dict(P, rel=rel)                  # t2: Q = P + T with T of order two (twists of even order only)
        if draw(st.integers(0, 9)) == 0:
            P, Q = Q, P
        return dict(cid=x.cid, op=op, P=P, Q=Q, rp=draw(rep_spec(x, kinds)), rq=draw(rep_spec(x, kinds)),
                    alias=draw(st.sampled_from([0, 0, 1, 2, 3])), poison=draw(st.integers(0, 255)))
    return s()


def two_torsion(x):
    """a point of order two of the twist (None when the group order is odd)"""
    if not hasattr(x, "_t2"):
        x._t2 = None
        if 2 in x.smallq:
            m = x.N2
            while m % 2 == 0:
                m //= 2
            for j in range(1, 40):
                T_ = emul(x, m, _lift(x, [j] + list(range(1, x.K)), 0))   # in the 2-Sylow subgroup
                while T_ is not None and x.E2c.dbl(T_) is not None:
                    T_ = x.E2c.dbl(T_)
                if T_ is not None:
                    x._t2 = T_
                    break
    return x._t2


def _resolve_pair(x, case):
    E = x.E2c
    P = resolve(x, {k: v for k, v in case["P"].items() if k != "rel"})
    Q = resolve(x, {k: v for k, v in case["Q"].items() if k != "rel"})
    if case["Q"].get("rel") == "neg":
        Q = E.neg(Q)
    if case["P"].get("rel") == "neg":
        P = E.neg(P)
    if case["Q"].get("rel") == "t2":
        Q = E.add(Q, two_torsion(x))
    if case["P"].get("rel") == "t2":
        P = E.add(P, two_torsion(x))
    return P, Q


def run_law(env, cfg, case):
    x = case_x(env, cfg, case)
    E, F2 = x.E2c, x.F2
    op, alias = case["op"], case["alias"]
    P, Q = _resolve_pair(x, case)
    rp, rq = case["rp"], case["rq"]
    labels = ["op:" + op, "cid:%d" % x.cid, pt_class(case["P"], P)]
    what = "%s[cid=%d]" % (opname(x, op), x.cid)
    exceptional = P is None or Q is None or E.eq(P, Q) or E.eq(P, E.neg(Q))
    if op in LAW2:
        if alias == 3 and not E.eq(P, Q):
            alias = 0
        sub = op in ("ep2_sub", "g2_sub")
        want = E.sub(P, Q) if sub else E.add(P, Q)
        slope = None
        if op == "ep2_add_slp_basic" and not exceptional:
            slope = F2.mul(F2.sub(Q[1], P[1]), F2.inv(F2.sub(Q[0], P[0])))

        def build(p):
            sp = p.new("EP2", enc(x, P, rp))
            sq = sp if alias == 3 else p.new("EP2", enc(x, Q, rq))
            sr = p.new("EP2", enc(x, stale_pt(x), BASICREP)) if alias in (0, 3) else (sp if alias == 1 else sq)
            ss = None
            if op == "ep2_add_slp_basic":
                ss = fp2_slot(p, x, (5, 7))
                p.call(opname(x, op), sr, sp, sq, ss)
                p.dump(ss)
            else:
                p.call(opname(x, op), sr, sp, sq)
            p.dump(sr)
            ins = {}
            if sp != sr:
                ins[sp] = "p"
            if sq != sr:
                ins[sq] = "q"
            return sr, ins, ss
        facts = dict(K=x.K, native=x.kinds_native[-1],
                     diff_is_2torsion=(P is not None and Q is not None and not E.eq(P, Q) and E.dbl(E.sub(P, Q)) is None))

        def go():
            for pz in (case["poison"], case["poison"] ^ 0xFF):
                res, (sr, ins, ss) = run_prog(env, cfg, x, build, pz)
                call = res.calls[0]
                chk_call(call, what)
                chk_point(x, res.dumps[sr], want, what)
                bad = [ins[s_] for s_ in call.changed if s_ in ins]
                if bad:
                    raise Violation("%s modified its input(s) %s" % (what, bad))
                if slope is not None and not F2.eq(dec_fp2(x, res.dumps[ss], what), slope):
                    raise Violation("%s: wrong slope" % what, want=slope)
        with_facts(facts, go)
        if "t2" in (case["P"].get("rel"), case["Q"].get("rel")):
            labels.append("law:operands-differ-by-2-torsion")
        if P is None or Q is None:
            labels.append("law:identity-operand")
        elif (E.eq(P, Q) and not sub) or (sub and E.eq(P, E.neg(Q))):
            labels.append("law:doubling-inside-add")
        elif E.eq(P, E.neg(Q)) or (sub and E.eq(P, Q)):
            labels.append("law:result-identity")
        else:
            labels.append("law:generic")
        labels.append("reps:%s+%s" % (rp["kind"], rq["kind"]))
        labels.append("alias:%s" % {0: "none", 1: "r==p", 2: "r==q", 3: "p==q"}[alias])
        nt = (P is not None and Q is not None) and (exceptional or rp["kind"] != "basic" or rq["kind"] != "basic")
        return nt or alias != 0, labels
    if op in LAW1:
        if op in ("ep2_neg", "g2_neg"):
            want = E.neg(P)
        elif "dbl" in op:
            want = E.dbl(P)
        else:
            want = P
        al = alias in (1, 2)
        slope = None
        if op == "ep2_dbl_slp_basic" and P is not None:
            slope = F2.mul(F2.mul(F2.from_int(3), F2.mul(P[0], P[0])), F2.inv(F2.add(P[1], P[1])))

        def build(p):
            sp = p.new("EP2", enc(x, P, rp))
            sr = sp if al else p.new("EP2", enc(x, stale_pt(x), BASICREP))
            ss = None
            if op == "ep2_dbl_slp_basic":
                ss = fp2_slot(p, x, (5, 7))
                p.call(opname(x, op), sr, sp, ss)
                p.dump(ss)
            else:
                p.call(opname(x, op), sr, sp)
            p.dump(sr)
            return sr, ({} if al else {sp: "p"}), ss
        for pz in (case["poison"], case["poison"] ^ 0xFF):
            res, (sr, ins, ss) = run_prog(env, cfg, x, build, pz)
            call = res.calls[0]
            chk_call(call, what)
            chk_point(x, res.dumps[sr], want, what, need_norm=op in ("ep2_norm", "g2_norm"))
            if [s_ for s_ in call.changed if s_ in ins]:
                raise Violation("%s modified its input" % what)
            if slope is not None and not F2.eq(dec_fp2(x, res.dumps[ss], what), slope):
                raise Violation("%s: wrong slope" % what, want=slope)
        labels.append("rep:" + rp["kind"])
        if al:
            labels.append("alias:r==p")
        return (P is not None and (rp["kind"] != "basic" or al)), labels
    # queries
    for pz in (case["poison"], case["poison"] ^ 0xFF):
        def build(p):
            sp = p.new("EP2", enc(x, P, rp))
            if op in ("ep2_cmp", "g2_cmp"):
                sq = p.new("EP2", enc(x, Q, rq))
                p.call(opname(x, op), sp, sq)
            else:
                p.call(opname(x, op), sp)
            return None
        res, _ = run_prog(env, cfg, x, build, pz)
        call = res.calls[0]
        chk_call(call, what)
        if call.changed:
            raise Violation("%s modified its input" % what)
        got = call.ret_i(0)
        if op in ("ep2_cmp", "g2_cmp"):
            want = RLC_EQ if E.eq(P, Q) else RLC_NE
        elif op == "ep2_is_infty":
            want = int(P is None)
        else:
            want = 1
        if got != want:
            raise Violation("%s wrong" % what, got=got, want=want, P=P, Q=Q if "cmp" in op else None)
    if "cmp" in op:
        labels.append("cmp:%s" % ("eq" if E.eq(P, Q) else "ne"))
    labels.append("reps:%s+%s" % (rp["kind"], rq["kind"]))
    return (P is not None and (rp["kind"] != "basic" or rq["kind"] != "basic")), labels


# ------------------------------------------------------------------------------ variable-base multiplication

MULS = ["ep2_mul", "ep2_mul_basic", "ep2_mul_slide", "ep2_mul_monty", "ep2_mul_lwnaf", "ep2_mul_lwreg", "ep2_mul_gen",
        "ep2_mul_dig", "g2_mul", "g2_mul_sec", "g2_mul_any", "g2_mul_gen", "g2_mul_dig"]
# routines that work on the plain integer (no reduction modulo the order): usable for points outside the subgroup
NONREDUCING = {"ep2_mul_basic", "ep2_mul_dig", "g2_mul_any", "g2_mul_dig"}
GEN = {"ep2_mul_gen", "g2_mul_gen"}
DIG = {"ep2_mul_dig", "g2_mul_dig"}


def strat_mul(env, cfg):
    x = job_x(env, cfg)
    sc = scalars(x)

    @st.composite
    def s(draw):
        op = draw(st.sampled_from(have(x, MULS)))
        P = draw(point_spec(x, allow_outside=op in NONREDUCING))
        k = draw(ints.digit(x.F.W)) if op in DIG else draw(sc)
        # the point may be the result of a group operation: affine or the build's own projective system
        rp = draw(rep_spec(x, x.kinds_native)) if op not in GEN else BASICREP
        return dict(cid=x.cid, op=op, P=P, k=k, rp=rp, alias=draw(st.sampled_from([0, 0, 1])),
                    poison=draw(st.integers(0, 255)), seed=draw(st.binary(min_size=8, max_size=8)))
    return s()


def ref_mul(x, k, spec, P):
    """[k]P by the reference; scalars are reduced modulo r only for points the reference knows to have order r."""
    if P is None:
        return None
    if "m" in spec:
        return gmul(x, k * spec["m"])
    if spec.get("k") == "h":
        return emul(x, k % x.r, P) if k % x.r else None      # [r][h2]P = O is asserted by the cof target ([h2 r]P = O)
    return emul(x, k, P)


def run_mul(env, cfg, case):
    x = case_x(env, cfg, case)
    op, k, alias = case["op"], case["k"], case["alias"]
    spec = {"m": 1} if op in GEN else case["P"]
    if not in_subgroup(spec) and op not in NONREDUCING:
        raise Unsupported()
    P = resolve(x, spec)
    want = ref_mul(x, k, spec, P)
    what = "%s[cid=%d]" % (opname(x, op), x.cid)

    def build(p):
        sp = p.new("EP2", enc(x, P, case.get("rp") or BASICREP))
        sr = sp if alias else p.new("EP2", enc(x, stale_pt(x), BASICREP))
        if op in GEN:
            sk = p.bn(k)
            p.call(opname(x, op), sr, sk)
            ins = {sk: "k"}
        elif op in DIG:
            p.call(opname(x, op), sr, sp, k)
            ins = {}
        else:
            sk = p.bn(k)
            p.call(opname(x, op), sr, sp, sk)
            ins = {sk: "k"}
        if not alias and op not in GEN:
            ins[sp] = "p"
        p.dump(sr)
        return sr, ins
    facts = dict(K=x.K, kemb=getattr(x, "kemb", 12), fp_bits=x.fpbits, P_identity=P is None, r_bits=x.r.bit_length())

    def go():
        for pz in (case["poison"], case["poison"] ^ 0xFF):
            res, (sr, ins) = run_prog(env, cfg, x, build, pz, seed=case["seed"])
            call = res.calls[0]
            chk_call(call, what)
            chk_point(x, res.dumps[sr], want, what, need_norm=True)
            if [s_ for s_ in call.changed if s_ in ins]:
                raise Violation("%s modified its input" % what)
    with_facts(facts, go)
    nt = nontrivial_k(x, k) and P is not None
    return nt, (["op:" + op, "cid:%d" % x.cid, pt_class(spec, P)] + mul_labels(x, k) + (["alias:r==p"] if alias else []) +
                (gls_labels(x, k) if op not in DIG else []))


# ------------------------------------------------------------------------------ fixed-base multiplication

FIX = [("ep2_mul_pre_basic", "ep2_mul_fix_basic"), ("ep2_mul_pre_combs", "ep2_mul_fix_combs"),
       ("ep2_mul_pre_combd", "ep2_mul_fix_combd"), ("ep2_mul_pre_lwnaf", "ep2_mul_fix_lwnaf"),
       ("ep2_mul_pre", "ep2_mul_fix"), ("g2_mul_pre", "g2_mul_fix")]


def strat_fix(env, cfg):
    x = job_x(env, cfg)
    sc = scalars(x)

    @st.composite
    def s(draw):
        i = draw(st.sampled_from([j for j, (a_, b_) in enumerate(FIX) if have(x, [a_, b_]) == [a_, b_]]))
        P = draw(st.one_of(st.just({"m": 1}), point_spec(x, allow_outside=False)))
        ks = [draw(sc) for _ in range(draw(st.integers(1, 3)))]
        return dict(cid=x.cid, alg=i, P=P, ks=ks, rp=draw(rep_spec(x, x.kinds_native)), poison=draw(st.integers(0, 255)))
    return s()


def run_fix(env, cfg, case):
    x = case_x(env, cfg, case)
    pre, fix = FIX[case["alg"]]
    spec = case["P"]
    if not in_subgroup(spec):
        raise Unsupported()
    P = resolve(x, spec)
    if P is None:
        raise Unsupported()
    tabsz = x.tabsz
    what = "%s/%s[cid=%d]" % (opname(x, pre), opname(x, fix), x.cid)

    def build(p):
        sp = p.new("EP2", enc(x, P, case.get("rp") or BASICREP))
        st_ = p.new("EP2V", vec(x, [], n=tabsz))
        p.call(opname(x, pre), st_, sp)
        outs = []
        for k in case["ks"]:
            sr = p.new("EP2", enc(x, stale_pt(x), BASICREP))
            sk = p.bn(k)
            p.call(opname(x, fix), sr, st_, sk)
            p.dump(sr)
            outs.append((sr, sk))
        return sp, st_, outs
    wants = [ref_mul(x, k, spec, P) for k in case["ks"]]
    facts = dict(K=x.K, fp_bits=x.fpbits, r_bits=x.r.bit_length(), depth=x.depth)

    def go():
        for pz in (case["poison"], case["poison"] ^ 0xFF):
            res, (sp, st_, outs) = run_prog(env, cfg, x, build, pz)
            chk_call(res.calls[0], pre)
            if sp in res.calls[0].changed:
                raise Violation("%s modified its input point" % pre)
            for i, (sr, sk) in enumerate(outs):
                call = res.calls[1 + i]
                with_facts(dict(ki=i), lambda: chk_call(call, what + "(k#%d)" % i))
                with_facts(dict(ki=i), lambda: chk_point(x, res.dumps[sr], wants[i], what + "(k#%d)" % i, need_norm=True))
                if st_ in call.changed or sk in call.changed:
                    raise Violation("%s modified its table / scalar" % fix)
    with_facts(facts, go)
    lab = ["op:" + fix, "cid:%d" % x.cid, "fix:%s" % ("generator" if spec == {"m": 1} else "other-base")]
    for k in case["ks"]:
        lab += mul_labels(x, k)
    return any(nontrivial_k(x, k) for k in case["ks"]), lab


# ------------------------------------------------------------------------------ simultaneous multiplication

SIM2 = ["ep2_mul_sim", "ep2_mul_sim_basic", "ep2_mul_sim_trick", "ep2_mul_sim_inter", "ep2_mul_sim_joint",
        "ep2_mul_sim_gen", "g2_mul_sim", "g2_mul_sim_gen"]
SIMGEN = {"ep2_mul_sim_gen", "g2_mul_sim_gen"}
SIMN = ["ep2_mul_sim_lot", "ep2_mul_sim_lot", "ep2_mul_sim_dig", "g2_mul_sim_lot", "g2_mul_sim_dig"]
SIMDIG = {"ep2_mul_sim_dig", "g2_mul_sim_dig"}


def strat_sim(env, cfg):
    x = job_x(env, cfg)
    sc = scalars(x)

    @st.composite
    def s(draw):
        op = draw(st.sampled_from(have(x, SIM2 + SIMN + SIMN)))
        big = False
        if op in SIM2:
            npts = 2
        elif op in ("ep2_mul_sim_lot", "g2_mul_sim_lot") and draw(st.sampled_from([0] * 9 + [1])):
            # the many-point (bucket) branch widens its window with the number of points: sizes around the powers
            # of two; points are small multiples of G2, so the reference is one multiplication by sum k_i m_i
            npts = draw(st.sampled_from([15, 16, 17, 31, 32, 33, 40, 63, 64, 65, 100]))
            big = True
        else:
            npts = draw(st.sampled_from([0, 1, 2, 3, 4, 7, 8, 9, 10, 11, 12]))
        pts, ks = [], []
        for i in range(npts):
            rel = draw(st.integers(0, 5)) if i else 9
            if big:
                pts.append({"m": draw(st.sampled_from([1, 2, 3, 5, 7, 11, 13, 16, 17, 29, 31, 64]))})
            elif rel == 0:
                pts.append(dict(pts[draw(st.integers(0, i - 1))]))                 # repeated point
            elif rel == 1:
                pts.append(dict(pts[draw(st.integers(0, i - 1))], rel="neg"))      # the negative of an earlier point
            else:
                pts.append(draw(point_spec(x, allow_outside=op in SIMDIG)))
            ks.append(draw(ints.digit(x.F.W)) if op in SIMDIG else draw(sc))
        reps = [draw(rep_spec(x, x.kinds_native)) for _ in range(npts)] if draw(st.sampled_from([0, 1])) else None
        return dict(cid=x.cid, op=op, pts=pts, ks=ks, reps=reps, poison=draw(st.integers(0, 255)))
    return s()


def run_sim(env, cfg, case):
    x = case_x(env, cfg, case)
    E = x.E2c
    op = case["op"]
    specs = [{k: v for k, v in s_.items() if k != "rel"} for s_ in case["pts"]]
    negs = [s_.get("rel") == "neg" for s_ in case["pts"]]
    ks = case["ks"]
    if op in SIMGEN:
        specs[0], negs[0] = {"m": 1}, False
    if op not in SIMDIG and not all(in_subgroup(s_) for s_ in specs):
        raise Unsupported()
    base = [resolve(x, s_) for s_ in specs]
    pts = [E.neg(P) if ng else P for P, ng in zip(base, negs)]
    if len(specs) > 12 and all("m" in s_ for s_ in specs):
        want = gmul(x, sum((-k if ng else k) * s_["m"] for s_, ng, k in zip(specs, negs, ks)))
    else:
        want = None
        for s_, P, ng, k in zip(specs, base, negs, ks):
            want = E.add(want, ref_mul(x, -k if ng else k, s_, P))
    reps = case.get("reps") or [BASICREP] * len(specs)
    if op in SIMGEN and reps:
        reps = [BASICREP] + list(reps[1:])
    what = "%s[cid=%d](n=%d)" % (opname(x, op), x.cid, len(pts))

    def build(p):
        sr = p.new("EP2", enc(x, stale_pt(x), BASICREP))
        if op in SIM2:
            s0, s1 = p.new("EP2", enc(x, pts[0], reps[0])), p.new("EP2", enc(x, pts[1], reps[1]))
            k0, k1 = p.bn(ks[0]), p.bn(ks[1])
            if op in SIMGEN:
                p.call(opname(x, op), sr, k0, s1, k1)
                ins = [k0, s1, k1]
            else:
                p.call(opname(x, op), sr, s0, k0, s1, k1)
                ins = [s0, k0, s1, k1]
        else:
            n = len(pts)
            sv = p.new("EP2V", vec(x, pts, reps=reps))
            if op in SIMDIG:
                db = x.F.W // 8
                sk = p.buf(b"".join(k.to_bytes(db, "little") for k in ks))
            else:
                sk = p.bnv(ks)
            p.call(opname(x, op), sr, sv, sk, n)
            ins = [sv, sk]
        p.dump(sr)
        return sr, ins
    facts = dict(K=x.K, width=x.width, r_bits=x.r.bit_length(), fp_bits=x.fpbits, identity_inside=any(P is None for P in pts))
    if len(pts) == 2 and pts[0] is not None and pts[1] is not None:
        # small linear relations i*P + j*Q = O (the precomputed tables of the two-point methods hold such combinations)
        mp = {i: E.mul(i, pts[0]) for i in range(1, 4)}
        mq = {j: E.mul(j, pts[1]) for j in (-3, -2, -1, 1, 2, 3)}
        facts["rel_ij"] = [[i, j] for i in mp for j in mq if E.add(mp[i], mq[j]) is None]

    def go():
        for pz in (case["poison"], case["poison"] ^ 0xFF):
            res, (sr, ins) = run_prog(env, cfg, x, build, pz)
            call = res.calls[0]
            chk_call(call, what)
            chk_point(x, res.dumps[sr], want, what, need_norm=True)
            if [s_ for s_ in call.changed if s_ in ins]:
                raise Violation("%s modified its input" % what)
    with_facts(facts, go)
    lab = ["op:" + op, "cid:%d" % x.cid, "sim:n=%d" % len(pts)]
    if any(P is None for P in pts):
        lab.append("sim:identity-inside")
    if len(pts) == 2 and pts[0] is not None:
        if E.eq(pts[0], pts[1]):
            lab.append("sim:P=Q")
        elif E.eq(pts[0], E.neg(pts[1])):
            lab.append("sim:P=-Q")
    if any(a is not None and E.eq(a, b) for i, a in enumerate(pts) for b in pts[:i]):
        lab.append("sim:repeated-point")
    for k in ks:
        if op not in SIMDIG and k % x.r == 0:
            lab.append("sim:scalar-0-mod-r")
            break
    nt = len(pts) >= 2 and any(abs(k) >= x.r or k < 0 for k in ks) or len(pts) == 0
    return nt or any((k % x.r).bit_length() > 64 for k in ks), lab


# ------------------------------------------------------------------------------ Frobenius (untwist-Frobenius-twist)

def _frb_structural(env, cfg, x, case, P, lab):
    E = x.E2c
    op, i = case["op"], case["i"]
    what = "%s[cid=%d](i=%d)" % (opname(x, op), x.cid, i)
    D = E.dbl(P)

    def build(p):
        outs = []
        for T_ in (P, D):
            sp = p.new("EP2", enc(x, T_, BASICREP))
            sr = p.new("EP2", enc(x, stale_pt(x), BASICREP))
            p.call(opname(x, op), sr, sp, i)
            p.dump(sr)
            outs.append(sr)
        return outs
    res, outs = run_prog(env, cfg, x, build, case["poison"])
    got = []
    for c_, sr, T_ in zip(res.calls, outs, (P, D)):
        chk_call(c_, what)
        g_ = dec1(x, res.dumps[sr], what)[0]
        if (g_ is None) != (T_ is None) or not E.on_curve(g_):      # D = O when P has order two (quartic twists)
            raise Violation("%s: image of a non-identity point is %s" % (what, "O" if g_ is None else "not on the curve"), P=P)
        got.append(g_)
    if not E.eq(E.dbl(got[0]), got[1]):
        raise Violation("%s is not additive: frb([2]P) != [2]frb(P)" % what, P=P)
    if i == 0 and not E.eq(got[0], P):
        raise Violation("%s: power 0 is not the identity map" % what, P=P)
    return i > 0, lab + ["frb:structural-only"]


def strat_frb(env, cfg):
    x = job_x(env, cfg)

    @st.composite
    def s(draw):
        i = draw(st.sampled_from([0, 1, 1, 2, 2, 3, 3, 1, 2, 3, 4, 5, 6, 11, 12, 13]))
        return dict(cid=x.cid, op=draw(st.sampled_from(have(x, ["ep2_frb", "ep2_frb", "g2_frb"]))), P=draw(point_spec(x)), i=i,
                    full=draw(st.integers(0, 7)) == 0, alias=draw(st.sampled_from([0, 0, 1])),
                    poison=draw(st.integers(0, 255)))
    return s()


def run_frb(env, cfg, case):
    x = case_x(env, cfg, case)
    E = x.E2c
    op, i, alias = case["op"], case["i"], case["alias"]
    spec = case["P"]
    P = resolve(x, spec)
    what = "%s[cid=%d](i=%d)" % (opname(x, op), x.cid, i)
    lab = ["op:" + op, "cid:%d" % x.cid, "frb:i=%d" % min(i, 4), pt_class(spec, P)]
    sub = P is not None and in_subgroup(spec)
    if x.tw is None:
        # no Fp^k model of the twist for this embedding degree: [p^i]Q on the subgroup, and for any other point the
        # endomorphism property frb([2]P) = [2]frb(P) with the image on the curve
        if sub or P is None:
            want = ref_mul(x, pow(x.F.p, i, x.r), spec, P)
            lab.append("frb:checked-against-[p^i]Q")
        else:
            return _frb_structural(env, cfg, x, case, P, lab)
    else:
        want = x.tw.psi(P, i)
        if case["full"] and i <= 3:
            # every step in Fp12 (expensive): keeps the Fp2 shortcut of the reference honest on generated points
            if not E.eq(x.tw.psi_full(P, i), want):
                raise Violation("reference inconsistency: psi via Fp12 differs from psi via Fp2 constants (harness)", P=P)
            lab.append("frb:oracle-evaluated-in-Fp12")
        if sub:
            # on the order-r subgroup psi^i = [p^i mod r]
            byk = ref_mul(x, pow(x.F.p, i, x.r), spec, P)
            if not E.eq(byk, want):
                raise Violation("%s: reference untwist-Frobenius-twist differs from [p^i mod r]Q on a subgroup point "
                                "(parameters inconsistent)" % what, P=P)
            lab.append("frb:checked-against-[p^i]Q")

    def build(p):
        sp = p.new("EP2", enc(x, P, BASICREP))
        sr = sp if alias else p.new("EP2", enc(x, stale_pt(x), BASICREP))
        p.call(opname(x, op), sr, sp, i)
        p.dump(sr)
        return sr, sp
    for pz in (case["poison"], case["poison"] ^ 0xFF):
        res, (sr, sp) = run_prog(env, cfg, x, build, pz)
        call = res.calls[0]
        chk_call(call, what)
        chk_point(x, res.dumps[sr], want, what)
        if not alias and sp in call.changed:
            raise Violation("%s modified its input" % what)
    return P is not None and i > 0, lab


# ------------------------------------------------------------------------------ cofactor clearing

def heff(env, cfg, x):
    """The effective cofactor of ep2_mul_cof: the literature candidate that reproduces the library's map on G2 and on
    two reference-lifted points of full order (None when no candidate does; then only the structural oracle is used)."""
    if x._heff is not None:
        return x._heff[0]
    E = x.E2c
    probes = [x.G2, _lift(x, [3, 1], 0), _lift(x, [x.F.p - 2, 5], 1)]

    def build(p):
        outs = []
        for P in probes:
            sp = p.new("EP2", enc(x, P, BASICREP))
            sr = p.new("EP2", enc(x, stale_pt(x), BASICREP))
            p.call(opname(x, "ep2_mul_cof"), sr, sp)
            p.dump(sr)
            outs.append(sr)
        return outs
    res, outs = run_prog(env, cfg, x, build, 0x3C)
    got = []
    for c, sr in zip(res.calls, outs):
        if c.unsupported:
            raise Unsupported()
        if c.errored or c.ub:
            x._heff = (None,)
            return None
        got.append(dec1(x, res.dumps[sr], "ep2_mul_cof probe")[0])
    found = None
    for name, h in rg2.heff_candidates(x.fam if x.K == 2 else None, x.par, x.F.p, x.r, x.h2):
        if all(E.eq(emul(x, h, P), R) for P, R in zip(probes, got)):
            found = (name, h)
            break
    x._heff = (found,)
    return found


def strat_cof(env, cfg):
    x = job_x(env, cfg)

    @st.composite
    def s(draw):
        P = draw(point_spec(x))
        rel = draw(st.sampled_from(["rand", "rand", "rand", "eq", "neg", "infty"]))
        if rel == "rand":
            Q = draw(point_spec(x))
        elif rel == "infty":
            Q = {"m": 0}
        else:
            Q = dict(P, rel=rel)
        return dict(cid=x.cid, P=P, Q=Q, alias=draw(st.sampled_from([0, 0, 1])), order=draw(st.integers(0, 3)) == 0,
                    poison=draw(st.integers(0, 255)))
    return s()


def run_cof(env, cfg, case):
    x = case_x(env, cfg, case)
    E = x.E2c
    P, Q = _resolve_pair(x, case)
    S = E.add(P, Q)
    alias = case["alias"]
    he = heff(env, cfg, x)
    what = "%s[cid=%d]" % (opname(x, "ep2_mul_cof"), x.cid)
    lab = ["op:ep2_mul_cof", "cid:%d" % x.cid, pt_class(case["P"], P), pt_class(case["Q"], Q),
           "cof:h_eff=%s" % (he[0] if he else "undetermined")]
    if case["order"]:
        # #E'(Fp2) = h2 * r (library constants) annihilates every generated point
        for nm, T_ in (("P", P), ("Q", Q)):
            if emul(x, x.N2, T_) is not None:
                raise Violation("[h2*r]%s != O for a point of the twist: cofactor/order constants of set %d are not the "
                                "group order" % (nm, x.cid), point=T_)
        lab.append("cof:[h2*r]P=O-checked")
    ins_pts = [P, Q, S]

    def build(p):
        outs = []
        for T_ in ins_pts:
            sp = p.new("EP2", enc(x, T_, BASICREP))
            sr = sp if alias else p.new("EP2", enc(x, stale_pt(x), BASICREP))
            p.call(opname(x, "ep2_mul_cof"), sr, sp)
            p.dump(sr)
            outs.append((sr, sp))
        return outs
    triv = [emul(x, x.h2, T_) is None for T_ in ins_pts]
    exact = [emul(x, he[1], T_) for T_ in ins_pts] if he is not None else None
    first = None
    for pz in (case["poison"], case["poison"] ^ 0xFF):
        res, outs = run_prog(env, cfg, x, build, pz)
        R = []
        for j, (sr, sp) in enumerate(outs):
            call = res.calls[j]
            w = "%s(%s)" % (what, "PQS"[j])
            chk_call(call, w)
            got, meta = dec1(x, res.dumps[sr], w)
            T_ = ins_pts[j]
            if first is not None:
                if not E.eq(got, first[j]):
                    raise Violation("%s: result depends on stale memory (differs between poison patterns)" % w, got=got)
            else:
                if got is not None and not E.on_curve(got):
                    raise Violation("%s: result is not on the twist" % w, got=got)
                if emul(x, x.r, got) is not None:
                    raise Violation("%s: [r]R != O, the image is not in the order-r subgroup" % w, got=got, P=T_)
                if (got is None) != triv[j]:
                    raise Violation("%s: R %s O but the order-r component of P is %strivial" % (
                        w, "=" if got is None else "!=", "" if triv[j] else "non-"), got=got, P=T_)
                if exact is not None and not E.eq(got, exact[j]):
                    raise Violation("%s: R != [h_eff]P (h_eff = %s reproduced the map on three other points)" % (w, he[0]),
                                    got=got, P=T_)
            if got is not None and not is_norm(x, meta):
                raise Violation("%s: result not in normalised affine form" % w, coord=meta["coord"])
            if not alias and sp in call.changed:
                raise Violation("%s modified its input" % w)
            R.append(got)
        if first is None and not E.eq(E.add(R[0], R[1]), R[2]):
            raise Violation("%s is not a homomorphism: cof(P) + cof(Q) != cof(P + Q)" % what, P=P, Q=Q)
        first = R
    if any(T_ is not None and t_ for T_, t_ in zip(ins_pts, triv)):
        lab.append("cof:non-identity-maps-to-identity")
    return P is not None or Q is not None, lab


# ------------------------------------------------------------------------------ tables, blinding, simultaneous norm

def strat_misc(env, cfg):
    x = job_x(env, cfg)

    @st.composite
    def s(draw):
        op = draw(st.sampled_from(have(x, ["ep2_norm_sim", "ep2_norm_sim", "ep2_tab", "ep2_blind"])))
        n = draw(st.sampled_from([1, 2, 3, 5, 8]))
        pts = [draw(point_spec(x)) for _ in range(n)]
        reps = [draw(rep_spec(x, x.kinds_native)) for _ in range(n)]
        return dict(cid=x.cid, op=op, pts=pts, reps=reps, w=draw(st.integers(2, 6)), inplace=draw(st.booleans()),
                    stale=draw(st.sampled_from(["basic", "native"])), poison=draw(st.integers(0, 255)),
                    seed=draw(st.binary(min_size=8, max_size=8)))
    return s()


def run_misc(env, cfg, case):
    x = case_x(env, cfg, case)
    E = x.E2c
    op = case["op"]
    pts = [resolve(x, s_) for s_ in case["pts"]]
    reps = case["reps"]
    what = "%s[cid=%d]" % (opname(x, op), x.cid)
    lab = ["op:" + op, "cid:%d" % x.cid]
    if op == "ep2_blind":
        P = pts[0]
        other = gmul(x, 7)

        def build(p):
            sp = p.new("EP2", enc(x, P, reps[0]))
            sr = sp if case["inplace"] else p.new("EP2", enc(x, other, BASICREP))
            p.call(opname(x, op), sr, sp)
            p.dump(sr)
            return sr, sp
        facts = dict(K=x.K, ep_add=x.kinds_native[-1], P_identity=P is None)

        def go():
            for pz in (case["poison"], case["poison"] ^ 0xFF):
                res, (sr, sp) = run_prog(env, cfg, x, build, pz, seed=case["seed"])
                chk_call(res.calls[0], what)
                chk_point(x, res.dumps[sr], P, what)
                if sr != sp and sp in res.calls[0].changed:
                    raise Violation("%s modified its input" % what)
        with_facts(facts, go)
        return P is not None, lab + ["blind:%s" % ("in-place" if case["inplace"] else "r!=p"), "rep:" + reps[0]["kind"]]
    if op == "ep2_tab":
        P = pts[0]
        if P is None or not in_subgroup(case["pts"][0]):
            raise Unsupported()
        w = case["w"]
        n = 1 << (w - 2)

        def build(p):
            sp = p.new("EP2", enc(x, P, BASICREP))
            st_ = p.new("EP2V", vec(x, [], n=max(n, 1)))
            p.call(opname(x, op), st_, sp, w)
            p.dump(st_)
            return st_, sp
        res, (st_, sp) = run_prog(env, cfg, x, build, case["poison"])
        chk_call(res.calls[0], what)
        got = decn(x, res.dumps[st_], what)
        for i in range(n):
            if not E.eq(got[i][0], E.mul(2 * i + 1, P)):
                raise Violation("%s: table entry %d is not [%d]P" % (what, i, 2 * i + 1), got=got[i][0])
        return True, lab + ["tab:w=%d" % w]
    # ep2_norm_sim
    n = len(pts)
    if any(P is None for P in pts):
        lab.append("norm_sim:identity-inside")
    native = [k for k in x.kinds_native if k != "basic"]
    stale = {"kind": native[0] if (native and case["stale"] == "native") else "basic", "z": [1, 0], "inf": 0}

    def build(p):
        sv = p.new("EP2V", vec(x, pts, reps))
        so = sv if case["inplace"] else p.new("EP2V", vec(x, [x.G2] * n, [stale] * n))
        p.call(opname(x, op), so, sv, n)
        p.dump(so)
        return so, sv
    facts = dict(K=x.K, identity_inside=any(P is None for P in pts), stale_kind=stale["kind"],
                 in_kinds=sorted({r_["kind"] for P, r_ in zip(pts, reps) if P is not None}))

    def go():
        for pz in (case["poison"], case["poison"] ^ 0xFF):
            res, (so, sv) = run_prog(env, cfg, x, build, pz)
            call = res.calls[0]
            chk_call(call, what)
            got = decn(x, res.dumps[so], what)
            for i in range(n):
                if not E.eq(got[i][0], pts[i]):
                    raise Violation("%s: entry %d wrong" % (what, i), got=got[i][0], want=pts[i], wrong=True)
                if got[i][0] is not None and not is_norm(x, got[i][1]):
                    raise Violation("%s: entry %d not normalised" % (what, i), notnorm=True)
            if so != sv and sv in call.changed:
                raise Violation("%s modified its input" % what)
    with_facts(facts, go)
    lab.append("norm_sim:%s" % ("in-place" if case["inplace"] else "separate-output(stale tag %s)" % stale["kind"]))
    return any(r_["kind"] != "basic" for r_ in reps), lab + ["norm_sim:n=%d" % n]


def self_test():
    rec.self_test()
    rfp.self_test()
    rext.self_test()
    rg2.self_test()
    ec2fast.self_test()


MAIN = {"quick": ["base256"], "thorough": ["base256", "p381", "ep-jacob", "ep-basic"]}
# thorough sweep: the k = 12 twists at the other pairing field sizes (engine/pcctx.py) ...
SWEEP2 = ["pf-377", "pf-382", "pf-383", "pf-446", "pf-455"]
# ... and the curves over cubic (K18_P354), quartic (K16_P330: quartic twist, a' != 0, even order; B24_P315: sextic
# twist) and octic (B48_P575) extensions (engine/pcctx_k.py); the reference arithmetic over Fp3/Fp4/Fp8 is slow
SWEEPK = ["pf-354", "pf-330", "pf-315"]
SWEEP8 = ["pf-575-q"]
OPTIONAL_CFGS = SWEEP2 + SWEEPK + SWEEP8

# (name, strategy, run, quick, thorough, sweep2, sweepK, sweep8) — totals per configuration.  core.py schedules jobs in
# TARGETS order, so every target is listed in three slices (same name, a third of the cases each) after the sweeps:
# when the wall-clock budget cuts a run short on a loaded machine every target has still been exercised.
_BASE = [
    ("ep2-law", strat_law, run_law, 10500, 30000, 1500, 500, 60),
    ("ep2-mul", strat_mul, run_mul, 7500, 24000, 1500, 400, 40),
    ("ep2-fix", strat_fix, run_fix, 2700, 8000, 400, 100, 12),
    ("ep2-sim", strat_sim, run_sim, 3900, 12000, 600, 250, 24),
    ("ep2-frb", strat_frb, run_frb, 2700, 8000, 400, 150, 16),
    ("ep2-cof", strat_cof, run_cof, 1500, 4000, 150, 40, 6),
    ("ep2-misc", strat_misc, run_misc, 2400, 6000, 400, 150, 16),
]
SLICES = 3


def _slice():
    return [Target(n_, s_, r_, MAIN, quick=q_ // SLICES, thorough=t_ // SLICES) for (n_, s_, r_, q_, t_, _a, _b, _c) in _BASE]


def _sweeps():
    out = []
    for (n_, s_, r_, _q, _t, s2, sk, s8) in _BASE:
        out.append(Target(n_, s_, r_, {"quick": [], "thorough": SWEEP8}, quick=1, thorough=s8))    # long jobs first
        out.append(Target(n_, s_, r_, {"quick": [], "thorough": SWEEPK}, quick=1, thorough=sk))
        out.append(Target(n_, s_, r_, {"quick": [], "thorough": SWEEP2}, quick=1, thorough=s2))
    return out


# breadth first: the (small) sweeps, then three slices of the main configurations
TARGETS = _sweeps() + _slice() + _slice() + _slice()

# ------------------------------------------------------------------------------ known findings (narrow input predicates)

def _errored(v):
    return bool(v.details.get("errored")) and not v.details.get("crash")


def _k2(v):
    """the ep2_* findings are not an excuse for the same symptom in ep3_/ep4_/ep8_ (their own entries below)"""
    return v.details.get("K", 2) == 2


def kp_slide_long_scalar(case, v, entry):
    """ep2_mul_slide does not reduce k modulo r and recodes into a buffer of RLC_FP_BITS + 1 windows:
    ERR_NO_BUFFER for every scalar longer than that (ep_mul_slide reduces first)."""
    return (_k2(v) and case.get("op") == "ep2_mul_slide" and _errored(v) and not v.details.get("P_identity", True)
            and abs(case["k"]).bit_length() > v.details.get("fp_bits", 1 << 30) + 1)


def kp_sim_trick_table_identity(case, v, entry):
    """ep2_mul_sim_trick normalises its table i*P + j*Q (0 <= i, j < 2^(w/2)) with ep2_norm_sim, which throws when an
    entry is the identity: P = -Q, 2P = -Q, ..."""
    w = 1 << (v.details.get("width", 4) // 2)
    return (_k2(v) and case.get("op") == "ep2_mul_sim_trick" and _errored(v) and all(k != 0 for k in case["ks"])
            and any(1 <= i < w and 1 <= j < w for i, j in v.details.get("rel_ij", [])))


def kp_sim_joint_table_identity(case, v, entry):
    """ep2_mul_sim_joint normalises P + Q and P - Q with ep2_norm_sim, which throws when one of them is the identity"""
    return (_k2(v) and case.get("op") == "ep2_mul_sim_joint" and _errored(v) and all(k != 0 for k in case["ks"])
            and any([i, j] in ([1, 1], [1, -1]) for i, j in v.details.get("rel_ij", [])))


def kp_sim_dig_empty(case, v, entry):
    """ep2_mul_sim_dig reads k[0] before looking at len: out-of-bounds read for an empty list"""
    return (case.get("op") in SIMDIG and len(case.get("pts", [0])) == 0 and bool(v.details.get("crash"))
            and "heap-buffer-overflow" in str(v.details.get("kind"))
            and any(f.startswith("ep2_mul_sim_dig@") for f in v.details.get("frames", [])[:1]))


def kp_norm_sim_identity(case, v, entry):
    """ep2_norm_sim inverts all z coordinates at once and throws when a point at infinity is in the list"""
    return _k2(v) and case.get("op") == "ep2_norm_sim" and _errored(v) and bool(v.details.get("identity_inside"))


def kp_norm_sim_stale_tag(case, v, entry):
    """ep2_norm_sim never copies the inputs' coordinate tag and converts according to the stale tag of the OUTPUT
    entries: wrong / unnormalised output when r != t and the output entries are tagged differently from the inputs"""
    if not _k2(v) or case.get("op") != "ep2_norm_sim" or case.get("inplace") or v.details.get("crash") or v.details.get("errored"):
        return False
    kinds = v.details.get("in_kinds")
    if kinds is None:
        # raised by the decoder (tagged affine but z != 1): facts are attached to every Violation of the target
        return False
    return v.details.get("stale_kind") == "basic" and any(k != "basic" for k in kinds)


def kp_blind_jacob_not_inplace(case, v, entry):
    """EP_ADD == JACOB: ep2_blind multiplies r->x (stale output) instead of p->x by the square of the blinding factor:
    wrong point whenever r != p"""
    return (_k2(v) and case.get("op") == "ep2_blind" and not case.get("inplace") and v.details.get("ep_add") == "jacob"
            and not v.details.get("P_identity", True) and bool(v.details.get("wrong")))


# ---- curves over cubic / quartic / octic extensions (sweep): one entry per defect class, observed in ep3_, ep4_ (and
# ep8_) alike; the witness of each entry runs on the cheapest configuration that shows it

def _kx(v, ks=(3, 4, 8)):
    return v.details.get("K", 2) in ks


def kq_norm_sim(case, v, entry):
    """epK_norm_sim: same two defects as ep2_norm_sim"""
    if not _kx(v) or case.get("op") != "ep2_norm_sim" or v.details.get("crash"):
        return False
    if _errored(v):
        return bool(v.details.get("identity_inside"))
    kinds = v.details.get("in_kinds") or []
    return (not case.get("inplace")) and v.details.get("stale_kind") == "basic" and any(k != "basic" for k in kinds)


def kq_sim_dig_empty(case, v, entry):
    return (case.get("op") in SIMDIG and len(case.get("pts", [0])) == 0 and bool(v.details.get("crash"))
            and "heap-buffer-overflow" in str(v.details.get("kind"))
            and any(f[:3] in ("ep3", "ep4", "ep8") and f[3:].startswith("_mul_sim_dig@") for f in v.details.get("frames", [])[:1]))


def kq_sim_lot(case, v, entry):
    """epK_mul_sim_lot passes (order, parameter) to bn_rec_frb in the wrong order and never reduces the scalars: wrong
    for |k_i| >= r; the n > 10 branch takes the sign of every scalar from the last one"""
    if not _kx(v) or case.get("op") not in ("ep2_mul_sim_lot", "g2_mul_sim_lot") or not v.details.get("wrong"):
        return False
    ks = case["ks"]
    rb = v.details.get("r_bits", 0)
    if any(abs(k).bit_length() >= rb for k in ks):       # |k| >= 2^(rbits-1): every |k| >= r is in here
        return True
    nz = [k for k in ks if k != 0]
    return len(ks) > 10 and bool(nz) and any((k < 0) != (ks[-1] < 0) for k in nz)


def kq_sim_trick(case, v, entry):
    """epK_mul_sim_trick: table i*(+-P) + j*(+-Q) with an identity entry (signs of the scalars are moved to the points)"""
    w = 1 << (v.details.get("width", 4) // 2)
    return (_kx(v) and case.get("op") == "ep2_mul_sim_trick" and _errored(v) and all(k != 0 for k in case["ks"])
            and any(1 <= i < w and 1 <= abs(j) < w for i, j in v.details.get("rel_ij", [])))


def kq_sim_joint(case, v, entry):
    return (_kx(v) and case.get("op") == "ep2_mul_sim_joint" and _errored(v) and all(k != 0 for k in case["ks"])
            and any(i == 1 and abs(j) == 1 for i, j in v.details.get("rel_ij", [])))


def kq_sim_inter_long(case, v, entry):
    """epK_mul_sim_inter / _gen (and the epK_mul_sim / g2_mul_sim* macros on top) recode the unreduced scalars into
    buffers of 2 * RLC_FP_BITS + 1 digits: ERR_NO_BUFFER for longer scalars"""
    if not _kx(v) or not _errored(v) or case.get("op") not in ("ep2_mul_sim", "ep2_mul_sim_inter", "ep2_mul_sim_gen",
                                                              "g2_mul_sim", "g2_mul_sim_gen"):
        return False
    ks = case["ks"]
    return all(k != 0 for k in ks) and not v.details.get("identity_inside") and any(
        abs(k).bit_length() > 2 * v.details.get("fp_bits", 1 << 30) for k in ks)


def kq_slide_long(case, v, entry):
    return (_kx(v) and case.get("op") == "ep2_mul_slide" and _errored(v) and not v.details.get("P_identity", True)
            and abs(case["k"]).bit_length() > v.details.get("fp_bits", 1 << 30) + 1)


def kq_fix_combd_long(case, v, entry):
    """ep4_/ep8_mul_fix_combd do not reduce the scalar modulo the order: bits above the comb are dropped"""
    if not _kx(v, (4, 8)) or FIX[case.get("alg", 0)][1] != "ep2_mul_fix_combd" or not v.details.get("wrong"):
        return False
    d, rb = v.details.get("depth", 4), v.details.get("r_bits", 1 << 30)
    cover = d * ((rb + d - 1) // d)
    k = case["ks"][v.details.get("ki", 0)]
    return abs(k).bit_length() > cover


def kq_fix_lwnaf_long(case, v, entry):
    """ep4_/ep8_mul_fix_lwnaf do not reduce the scalar: ERR_NO_BUFFER above 2 * RLC_FP_BITS bits"""
    if not _kx(v, (4, 8)) or FIX[case.get("alg", 0)][1] != "ep2_mul_fix_lwnaf" or not _errored(v):
        return False
    k = case["ks"][v.details.get("ki", 0)]
    return abs(k).bit_length() > 2 * v.details.get("fp_bits", 1 << 30)


def kq_lwreg_not_normalised(case, v, entry):
    """ep4_/ep8_mul_lwreg: the final normalisation is commented out"""
    return (_kx(v, (4, 8)) and case.get("op") in ("ep2_mul_lwreg", "g2_mul_sec") and not v.details.get("P_identity", True)
            and (bool(v.details.get("notnorm")) or "tagged affine but z != 1" in v.msg))


def kq_add_projc_2torsion(case, v, entry):
    """homogeneous addition (Renes-Costello-Batina, complete only on curves of odd order) is wrong when the difference
    of the operands is a point of order two; such points exist on the quartic twists y^2 = x^3 + a'x"""
    op = case.get("op")
    return (_kx(v) and bool(v.details.get("diff_is_2torsion")) and bool(v.details.get("wrong"))
            and (op == "ep2_add_projc" or (op in ("ep2_add", "g2_add") and v.details.get("native") == "projc")))


def kq_lwreg_k16(case, v, entry):
    """ep4_mul_lwreg on the quartic twist of the KSS16 curves returns garbage for every scalar"""
    return (_kx(v, (4,)) and v.details.get("kemb") == 16 and case.get("op") in ("ep2_mul_lwreg", "g2_mul_sec")
            and bool(v.details.get("wrong")) and not v.details.get("P_identity", True) and case["k"] != 0)


KNOWN_PREDICATES = {
    "epK_norm_sim": kq_norm_sim,
    "epK_mul_sim_dig_empty": kq_sim_dig_empty,
    "epK_mul_sim_lot": kq_sim_lot,
    "epK_mul_sim_trick_table_identity": kq_sim_trick,
    "epK_mul_sim_joint_table_identity": kq_sim_joint,
    "epK_mul_slide_long_scalar": kq_slide_long,
    "epK_mul_sim_inter_long_scalar": kq_sim_inter_long,
    "epK_mul_fix_combd_long_scalar": kq_fix_combd_long,
    "epK_mul_fix_lwnaf_long_scalar": kq_fix_lwnaf_long,
    "epK_mul_lwreg_not_normalised": kq_lwreg_not_normalised,
    "ep4_mul_lwreg_k16": kq_lwreg_k16,
    "epK_add_projc_2torsion": kq_add_projc_2torsion,
    "ep2_blind_jacob_not_inplace": kp_blind_jacob_not_inplace,
    "ep2_mul_slide_long_scalar": kp_slide_long_scalar,
    "ep2_mul_sim_trick_table_identity": kp_sim_trick_table_identity,
    "ep2_mul_sim_joint_table_identity": kp_sim_joint_table_identity,
    "ep2_norm_sim_identity": kp_norm_sim_identity,
    "ep2_norm_sim_stale_tag": kp_norm_sim_stale_tag,
}

"""C20 — masked selection and regular exponentiation do not branch on secrets (DESIGN §2 C20).

Oracle: metamorphic over control-flow traces recorded by compiler instrumentation (trace* builds,
-fsanitize-coverage=trace-pc on the library only, recorder in engine/shim/b_trace.c):

  primitives   the complete basic-block trace of the primitive is identical for all data and both condition
               bits (copy / swap), or within each outcome class (comparisons);
  algorithms   within a batch of secret scalars of ONE public bit length (same routine, curve, point) the
               sequence of group-level operations (set B: entry events of point / field / masked-selection
               functions called from the algorithm body, nothing beneath them) is identical. Block
               differences inside the body (set A) that leave the set-B sequence alone are observations.

Positive controls (the variable-time w-NAF / sliding-window siblings of every routine) must be *detected* as
scalar dependent on every run; a control that looks regular is a harness error, not a pass."""
import hashlib
import os

from hypothesis import strategies as st

from engine import core
from engine.core import Target, Violation, Unsupported
from engine.gen import ints
from engine.proto import Prog, HarnessError
from engine.ref import ctrace

PROPERTY = "C20"
RULE = ("primitives: one case = one primitive, one public length and 2..14 generated (data, condition bit) variants "
        "(digit-alphabet data; comparisons: equal / first / last / every / single-bit / random difference); "
        "algorithms: one case = one batch of 2..24 secret scalars in [1, n) of ONE public bit length (random, low / "
        "high Hamming weight, long zero / one runs, 2^(l-1), 2^l-1, alternating, n-1, zero GLV / GLS sub-scalar), "
        "same routine, curve and point; every scalar is traced through the real routine. "
        "non-trivial: primitives - the variants contain both condition bits (copy / swap) or two unequal pairs whose "
        "first difference sits at different positions, or an equal and an unequal pair (comparisons); algorithms - "
        "the batch has >= 2 scalars of different Hamming weight. distinct = distinct (target, cfg, full case) hashes")
ASSUMPTIONS = [
    "the observable is the control-flow trace of an -O1 -fno-inline clang build of the C-only (easy) backend; "
    "what another compiler does with the same source (cmov vs. branch) is not observed",
    "nothing beneath a set-B function is observed: the field arithmetic of the easy backend is not constant time and "
    "is not claimed to be; cache / memory-access patterns and timing are never measured",
    "scalar 0 and the point at infinity take documented early exits (public by convention) and are not in batches; "
    "magnitudes are in [1, n), exponents positive; negative scalars (mixed-sign batches) are presented only to the "
    "regular-recoding routines, whose source applies the sign by a masked copy - the ladders finish with a plain "
    "conditional negation on the sign, which is read as their documented handling of a public sign",
    "the bit length of the scalar / exponent is public: batches never mix lengths",
]
BUDGET_S = {"quick": 300, "thorough": 1700}
JOB_SIZE = {"quick": 200, "thorough": 500}

STRICT_BODY = os.environ.get("C20_STRICT_BODY", "") not in ("", "0")
RLC_EQ, RLC_NE = 0, 2
F_EP, F_PAIR, F_EB, F_ED = 1, 2, 3, 4

# ------------------------------------------------------------------------------ observation sets

# never group-level: predicates, getters, comparisons, size queries, memory management, parameter access
DROP = (r"\w+_(is|get|cmp|size|bits|ham|print|on|new|free|null|clean|make|init|sign)(_\w+)?"
        r"|(ep|ep2|eb|ed|pc)_(curve|param|core)_\w+|fp_(prime|param)_\w+|fb_(poly|param)_\w+")
MASKED = r"dv_(copy|swap|cmp)_sec|util_cmp_sec"
FAM_B = {
    "ep": r"ep_\w+|fp_\w+|" + MASKED,
    "ep2": r"ep2_\w+|fp2_\w+|fp_\w+|" + MASKED,
    "ed": r"ed_\w+|fp_\w+|" + MASKED,
    "eb": r"eb_\w+|fb_\w+|" + MASKED,
    "gt": r"gt_\w+|fp12_\w+|fp6_\w+|fp4_\w+|fp2_\w+|fp_\w+|" + MASKED,
    "bn": r"bn_\w+|" + MASKED,
    "fp": r"fp_\w+|" + MASKED,
    "fb": r"fb_\w+|" + MASKED,
    "none": None,
}
PRIM_A = r"dv_(copy|swap|cmp)_sec|util_cmp_sec|fp\d*_copy_sec"

# routine -> family, binding, routine id of the binding, set A (algorithm bodies), kind of scalar domain
ROUTINES = {
    "ep_mul_monty": dict(fam="ep", bind="c20_ep", rid=0, A=r"ep_mul_monty", dom="curve"),
    "ep_mul_lwreg": dict(fam="ep", bind="c20_ep", rid=1, A=r"ep_mul_lwreg|ep_mul_reg_imp|ep_mul_reg_glv", dom="curve"),
    "ep2_mul_monty": dict(fam="ep2", bind="c20_ep2", rid=0, A=r"ep2_mul_monty", dom="pair"),
    "ep2_mul_lwreg": dict(fam="ep2", bind="c20_ep2", rid=1, A=r"ep2_mul_lwreg|ep2_mul_reg_imp|ep2_mul_reg_gls",
                          dom="pair"),
    "g1_mul_sec": dict(fam="ep", bind="c20_pc", rid=0, A=r"ep_mul_lwreg|ep_mul_reg_imp|ep_mul_reg_glv", dom="pair"),
    "g2_mul_sec": dict(fam="ep2", bind="c20_pc", rid=1, A=r"ep2_mul_lwreg|ep2_mul_reg_imp|ep2_mul_reg_gls",
                       dom="pair"),
    "gt_exp_sec": dict(fam="gt", bind="c20_pc", rid=2, A=r"gt_exp_sec|gt_exp_reg_sac|gt_exp_reg_gls|gt_exp_dig|gt_psi",
                       dom="pair"),
    "eb_mul_lodah": dict(fam="eb", bind="c20_eb", rid=0, A=r"eb_mul_lodah", dom="curve"),
    "ed_mul_monty": dict(fam="ed", bind="c20_ed", rid=0, A=r"ed_mul_monty", dom="curve"),
    "ed_mul_lwreg": dict(fam="ed", bind="c20_ed", rid=1, A=r"ed_mul_lwreg|ed_mul_reg_imp", dom="curve"),
    "bn_mxp_monty": dict(fam="bn", bind="c20_bn_mxp", rid=0, A=r"bn_mxp_monty", dom="exp"),
    "fp_exp_monty": dict(fam="fp", bind="c20_fp_exp", rid=0, A=r"fp_exp_monty", dom="exp"),
    "fb_exp_monty": dict(fam="fb", bind="c20_fb_exp", rid=0, A=r"fb_exp_monty", dom="exp"),
    "bn_rec_reg": dict(fam="none", bind="c20_rec_reg", rid=0, A=r"bn_rec_reg|bn_rshb_low|bn_rsh1_low|dv_zero|dv_copy",
                       dom="rec"),
    # positive controls: variable-time siblings, must be detected as scalar dependent
    "ep_mul_lwnaf": dict(fam="ep", bind="c20_ep", rid=2, A=r"ep_mul_lwnaf|ep_mul_naf_imp|ep_mul_glv_imp", dom="curve",
                         control=True),
    "ep2_mul_lwnaf": dict(fam="ep2", bind="c20_ep2", rid=2, A=r"ep2_mul_lwnaf|ep2_mul_naf_imp|ep2_mul_gls_imp",
                          dom="pair", control=True),
    "gt_exp": dict(fam="gt", bind="c20_pc", rid=3, A=r"gt_exp|gt_exp_gls_naf|gt_exp_gls_sac|gt_exp_dig|gt_psi",
                   dom="pair", control=True),
    "eb_mul_rwnaf": dict(fam="eb", bind="c20_eb", rid=1, A=r"eb_mul_rwnaf|eb_mul_rnaf_imp|eb_mul_rtnaf_imp", dom="curve",
                         control=True),
    "ed_mul_lwnaf": dict(fam="ed", bind="c20_ed", rid=2, A=r"ed_mul_lwnaf|ed_mul_naf_imp", dom="curve", control=True),
    "bn_mxp_slide": dict(fam="bn", bind="c20_bn_mxp", rid=1, A=r"bn_mxp_slide", dom="exp", control=True),
    "fp_exp_slide": dict(fam="fp", bind="c20_fp_exp", rid=1, A=r"fp_exp_slide", dom="exp", control=True),
    "fb_exp_slide": dict(fam="fb", bind="c20_fb_exp", rid=1, A=r"fb_exp_slide", dom="exp", control=True),
}

# routines whose source applies the sign of the scalar with a masked copy (ep_mul_reg_imp, ep2_mul_reg_imp / _gls,
# ed_mul_reg_imp, gt_exp_reg_*): they get batches with mixed signs. The ladders negate under a plain `if (sign)`.
SIGN_MASKED = ("ep_mul_lwreg", "ep2_mul_lwreg", "ed_mul_lwreg", "g1_mul_sec", "g2_mul_sec", "gt_exp_sec")

EP_CURVES = {256: ["NIST_P256", "BSI_P256", "SECG_K256", "SM2_P256", "BN_P256", "SM9_P256"],
             255: ["CURVE_25519", "TWEEDLEDUM"], 381: ["B12_P381"]}
EB_CURVES = {283: ["NIST_B283", "NIST_K283"]}
ED_CURVES = {255: ["CURVE_ED25519"]}
ALL_EP_NAMES = {x for v in EP_CURVES.values() for x in v}
PAIRING = "pairing-curve"      # the library's pairing-friendly curve of the configured field size (and its twist)
FPX_DEGS = [2, 3, 4, 6, 8, 9, 12, 16, 18, 24, 48, 54]


# ------------------------------------------------------------------------------ per-configuration context

class Ctx:
    def __init__(self, env, cfg):
        self.cfg = cfg
        r = env.runner(cfg)
        if "c20_info" not in r.ops():
            raise HarnessError("runner of %s has no c20 bindings" % cfg)
        p = Prog()
        p.call("c20_info")
        txt = r.run(p).calls[0].blobs[0].decode()
        self.info = {k: int(v) for k, v in (ln.split("=") for ln in txt.split())}
        self.st = ctrace.symtab(r.exe)
        self.tables = {}
        self.orders = {}
        self.ops = r.ops()

    def table(self, key, a_pat, b_pat):
        t = self.tables.get(key)
        if t is None:
            t = ctrace.Table(self.st, a_pat, b_pat, DROP)
            if not t.a_names:
                raise HarnessError("set A of %s is empty in %s (no such instrumented function)" % (key, self.cfg))
            self.tables[key] = t
        return t

    def order(self, env, family, name):
        key = (family, name)
        o = self.orders.get(key)
        if o is None:
            p = Prog()
            p.call("c20_order", family, self.info.get(name, 0))
            c = env.runner(self.cfg).run(p).calls[0]
            if c.errored or not c.rets or c.rets[0] != 0:
                o = None
            else:
                n = int.from_bytes(c.blobs[0], "big")
                fp = int.from_bytes(c.blobs[1], "big") if len(c.blobs) > 1 else 0
                names = [k for k, v in self.info.items() if v == c.rets[3] and k in ALL_EP_NAMES]
                o = dict(n=n, endom=c.rets[1], pairf=c.rets[2], p=fp, name=names[0] if names else name,
                         bn=bool(c.rets[2]) and c.rets[2] == self.info.get("EP_BN"))
            self.orders[key] = o if o is not None else False
        return o or None


_CTX = {}


class StaleBinary(Exception):
    """The runner process and the runner file the function table was computed from are different builds
    (the library is rebuilt from the repository's working tree whenever it changes, also during a run)."""


def fresh(fn):
    """Re-read the binary and restart the runner when the recorder refuses a table (build ids differ)."""
    def wrapper(env, cfg, case):
        for _ in range(4):
            try:
                return fn(env, cfg, case)
            except StaleBinary:
                r = env.runners.pop(cfg, None)
                if r is not None:
                    r.close()
                _CTX.pop(cfg, None)
                ctrace._CACHE.clear()
        raise Unsupported()     # the binary keeps changing under this case: no verdict
    wrapper.__name__ = fn.__name__
    return wrapper


def ctx(env, cfg):
    c = _CTX.get(cfg)
    if c is None:
        c = _CTX[cfg] = Ctx(env, cfg)
    return c


# ------------------------------------------------------------------------------ scalar batches

KINDS = ["random", "random", "lowhw", "highhw", "zerorun", "onerun", "pow2", "allones", "alt", "top", "special"]


def cube_roots_of_unity(n):
    """The two non-trivial cube roots of unity modulo a prime n = 1 mod 3 (eigenvalues of the GLV map)."""
    if n % 3 != 1:
        return []
    for g in range(2, 200):
        lam = pow(g, (n - 1) // 3, n)
        if lam != 1:
            return [lam, lam * lam % n]
    return []


def special_scalars(o, dom):
    """Scalars whose decomposition has a zero (or tiny) sub-scalar: multiples of the endomorphism eigenvalues."""
    n = o["n"]
    out = set()
    if o["endom"]:
        for lam in cube_roots_of_unity(n):
            for j in range(1, 9):
                out.add(j * lam % n)
                out.add((n - j * lam) % n)
                out.add((j * lam + 1) % n)
    if dom == "pair" and o["p"]:
        t = o["p"] % n
        for i in (1, 2, 3):
            for j in range(1, 5):
                v = j * pow(t, i, n) % n
                out.add(v)
                out.add((n - v) % n)
                out.add((v + 1) % n)
    out.discard(0)
    return sorted(out)


def fit(v, l, hi):
    """Force v into [2^(l-1), hi] keeping its bit pattern: set the top bit, mask with hi when too large."""
    lo = 1 << (l - 1)
    v = (v & (lo - 1)) | lo
    if v > hi:
        v &= hi
    return v


@st.composite
def scalar_of_length(draw, l, hi, specials):
    """(kind, value) with value.bit_length() == l and value <= hi; hi has exactly l bits."""
    lo = 1 << (l - 1)
    mask = lo - 1
    kind = draw(st.sampled_from(KINDS))
    if l == 1:
        return kind, 1
    pos = st.integers(0, l - 2)
    if kind == "random":
        c = draw(ints.uniform(0, mask))
    elif kind == "lowhw":
        c = 0
        for _ in range(draw(st.integers(0, 3))):
            c |= 1 << draw(pos)
    elif kind == "highhw":
        c = mask
        for _ in range(draw(st.integers(0, 3))):
            c &= ~(1 << draw(pos))
    elif kind in ("zerorun", "onerun"):
        a = draw(pos)
        b = draw(pos)
        a, b = min(a, b), max(a, b)
        if b - a < (l // 4):
            a = max(0, b - l // 2)
        run = ((1 << (b - a + 1)) - 1) << a
        base = draw(ints.uniform(0, mask))
        c = (base & ~run) if kind == "zerorun" else (base | run)
    elif kind == "pow2":
        c = 0
    elif kind == "allones":
        c = mask
    elif kind == "alt":
        c = int(draw(st.sampled_from(["A", "5", "C", "3"])) * ((l + 3) // 4), 16) & mask
    elif kind == "top":
        return kind, max(lo, hi - draw(st.sampled_from([0, 0, 1, 2, 3])))
    else:
        cands = [v for v in specials if v.bit_length() == l and v <= hi]
        if cands:
            return kind, draw(st.sampled_from(cands))
        kind = "random"
        c = draw(ints.uniform(0, mask))
    return kind, fit(lo | c, l, hi)


def lengths_for(nbits, minbits=2):
    # lengths of at most one digit too: `if (bn_bits(k) <= RLC_DIG) xx_mul_dig(...)` is a common shortcut of the
    # variable-time routines and must not find its way into the regular ones (seed C20-5)
    c = [nbits] * 5 + [nbits - 1, nbits - 2, nbits - 7, nbits // 2 + 1, nbits // 2, 129, 128, 80, 66, 65, 64, 64, 63, 33, 17, 5]
    return sorted({x for x in c if minbits <= x <= nbits}), c


@st.composite
def batch(draw, l, hi, specials):
    size = draw(st.sampled_from([2, 3, 6, 12, 24, 24, 24, 24]))
    items = draw(st.lists(scalar_of_length(l, hi, specials), min_size=size, max_size=size))
    return [k for k, _ in items], [v for _, v in items]


def popcount(x):
    return bin(x).count("1")


# ------------------------------------------------------------------------------ the algorithm oracle

def run_batch(env, cfg, routine, args_fn, ks):
    """Trace every scalar of ks through `routine`; returns (Table, [Trace])."""
    C = ctx(env, cfg)
    R = ROUTINES[routine]
    if R["bind"] not in C.ops:
        raise Unsupported()
    tab = C.table(routine, R["A"], FAM_B[R["fam"]])
    p = Prog(poison=0xA5, seed=b"C20 fixed DRBG seed")
    t = p.buf(tab.blob)
    v = p.bnv(ks)
    p.call(R["bind"], *args_fn(p, t, v, R["rid"]))
    res = env.runner(cfg).run(p, timeout=120.0)
    if res.failed_new:
        raise Unsupported()
    c = res.calls[0]
    if c.unsupported:
        raise Unsupported()
    if c.ub:
        raise Violation("undefined behaviour reported in %s: %s" % (routine, c.ub), ub=c.ub)
    if c.errored:
        raise Violation("%s raised an error for scalars in its domain (caught=%d e=%d code=%d)" % (
            routine, c.caught, c.e, c.code))
    if c.rets and c.rets[0] == 3:
        raise StaleBinary()
    if not c.rets or c.rets[0] != 0:
        raise Unsupported()
    traces = [ctrace.Trace(b) for b in c.blobs]
    if len(traces) != len(ks):
        raise HarnessError("%s: %d traces for %d scalars" % (routine, len(traces), len(ks)))
    for tr in traces:
        if tr.overflow:
            raise HarnessError("%s: trace buffer overflow" % routine)
        if len(tr) == 0:
            raise HarnessError("%s: empty trace (set A not instrumented?)" % routine)
        if tr.stray:
            raise HarnessError("%s: a set-B function was seen mid-body outside a set-B call (frame tracking broken)" % routine)
    return tab, traces


def _fn(st_, seq, d):
    if d >= len(seq):
        return "<end>"
    n, _ = st_.lookup(int(seq[d]) + st_.hook)
    return n or "?"


def compare_batch(env, cfg, what, tab, traces, ks):
    """The metamorphic oracle. Returns observation labels; raises Violation on a set-B difference.

    Level 1: traces with the same NUMBER of set-B events must be the same sequence. Level 2: the number itself
    must not vary. Level 1 is checked first so that a (known) length dependence never hides a reordering."""
    if all(t.evb == traces[0].evb for t in traces[1:]):
        return []
    st_ = tab.st
    ev = [t.events() for t in traces]
    bs = [e[tab.b_mask(e)] for e in ev]
    groups = {}
    for i, b in enumerate(bs):
        groups.setdefault(len(b), []).append(i)
    for members in groups.values():
        r = members[0]
        for i in members[1:]:
            d = ctrace.first_diff(bs[r], bs[i])
            if d >= 0:
                raise Violation(
                    "%s: the sequence of group-level operations depends on the value of the scalar: operation #%d of %d "
                    "is %s for one scalar and %s for another of the same bit length (%d)" % (
                        what, d, len(bs[r]), _fn(st_, bs[r], d), _fn(st_, bs[i], d), ks[r].bit_length()),
                    kind="sequence", k_ref=ks[r], k_dev=ks[i], index=d, len_ref=len(bs[r]), len_dev=len(bs[i]),
                    ctx_ref=ctrace.context(st_, bs[r], d), ctx_dev=ctrace.context(st_, bs[i], d),
                    signatures=["%s|%s|+0" % (_fn(st_, bs[r], d), _fn(st_, bs[i], d))])
    if len(groups) > 1:
        lens = sorted(groups)
        r = groups[lens[0]][0]
        sigs, first = [], None
        for L in lens[1:]:
            i = groups[L][0]
            d = ctrace.first_diff(bs[r], bs[i])
            sigs.append("%s|%s|%+d" % (_fn(st_, bs[r], d), _fn(st_, bs[i], d), L - lens[0]))
            if first is None:
                first = (i, d)
        i, d = first
        raise Violation(
            "%s: the NUMBER of group-level operations depends on the value of the scalar: %s operations for scalars of "
            "the same bit length (%d); first divergence at operation #%d: %s vs %s" % (
                what, " / ".join(str(x) for x in lens), ks[r].bit_length(), d, _fn(st_, bs[r], d), _fn(st_, bs[i], d)),
            kind="length", k_ref=ks[r], k_dev=ks[i], index=d, len_ref=len(bs[r]), len_dev=len(bs[i]),
            ctx_ref=ctrace.context(st_, bs[r], d), ctx_dev=ctrace.context(st_, bs[i], d),
            signatures=sigs, groups={str(L): [ks[m] for m in groups[L]] for L in lens})
    # same set-B sequence everywhere: block differences inside the bodies are observations (DESIGN C20: the
    # statement bounds the group-level sequence, not every instruction of the body). C20_STRICT_BODY=1 escalates
    # them to violations; that stricter oracle is also silent on the unchanged tree with this compiler.
    labels = []
    for i in range(1, len(traces)):
        if traces[i].evb != traces[0].evb:
            d = ctrace.first_diff(ev[0], ev[i])
            fn, blk = st_.block_index(ev[0][d] if d < len(ev[0]) else ev[i][d])
            if STRICT_BODY:
                raise Violation(
                    "%s: [strict mode] the algorithm body branches on the scalar: block #%d differs (%s, instrumented "
                    "block %d) although the group-level sequence is the same" % (what, d, fn, blk),
                    kind="body", k_ref=ks[0], k_dev=ks[i], index=d,
                    ctx_ref=ctrace.context(st_, ev[0], d), ctx_dev=ctrace.context(st_, ev[i], d))
            labels.append("obs:body-block-diff:%s:%s#%d" % (what, fn, blk))
    return labels


def batch_labels(case, ks, routine, where):
    hws = [popcount(k) for k in ks]
    spread = max(hws) - min(hws)
    l = case["l"]
    lb = ["routine:%s" % routine, "at:%s@%s" % (routine, where), "batch-size:%d" % len(ks),
          "hw-spread:%s" % ("0" if spread == 0 else "1-15" if spread < 16 else "16-63" if spread < 64 else ">=64")]
    lb += ["kind:" + k for k in case["kinds"]]
    full = case.get("full")
    if full:
        lb.append("len:%s" % ("full" if l == full else "full-1..7" if l >= full - 7 else
                              "<=DIG" if l <= 64 else "short"))
    if any(k.bit_length() != l for k in ks):
        raise HarnessError("generator produced a scalar of the wrong bit length")
    return len(set(hws)) >= 2, lb


def control_check(what, tab, traces, ks):
    """Positive control: a variable-time routine must show a set-B difference between scalars of different weight."""
    seqs = []
    for tr in traces:
        e = tr.events()
        seqs.append(bytes(e[tab.b_mask(e)].astype("<i4").tobytes()))
    if len(set(seqs)) < 2:
        raise HarnessError("positive control %s was NOT detected as scalar dependent (%d scalars, weights %s): the "
                           "trace recorder or the observation sets are broken" % (what, len(ks), [popcount(k) for k in ks]))


# ------------------------------------------------------------------------------ curve routines

def mk_curve_strategy(routines_fn):
    def strat(env, cfg):
        C = ctx(env, cfg)
        combos = []
        for routine, fam, cv in routines_fn(C):
            o = C.order(env, fam, cv)
            if o is None:
                continue
            combos.append((routine, fam, o["name"] if fam == F_PAIR else cv, o,
                           special_scalars(o, ROUTINES[routine]["dom"])))

        @st.composite
        def s(draw):
            routine, fam, cv, o, specials = draw(st.sampled_from(combos))
            nb = o["n"].bit_length()
            minl = 65 if routine in ("gt_exp_sec", "gt_exp") else 2
            if routine == "gt_exp_sec" and draw(st.integers(0, 9)) == 0:
                l = draw(st.sampled_from([64, 63, 33, 17]))          # the single-digit path of gt_exp_sec
            elif specials and draw(st.integers(0, 3)) == 0:
                # a length at which scalars with a zero sub-scalar exist
                l = max(minl, draw(st.sampled_from(specials)).bit_length())
            else:
                ls, weighted = lengths_for(nb, minl)
                l = draw(st.sampled_from([x for x in weighted if x in ls]))
            hi = min((1 << l) - 1, o["n"] - 1)
            if routine == "eb_mul_lodah" and draw(st.integers(0, 11)) != 0:
                # known finding C20-eb_mul_lodah-order-minus-one: k = n - 1 is kept out of most batches by
                # construction (DESIGN 1.7) so that the search goes on past it
                hi = min(hi, o["n"] - 2)
            kinds, ks = draw(batch(l, hi, specials))
            pm = draw(st.one_of(st.sampled_from([1, 2, 3, 5]), ints.uniform(1, (1 << 63) - 1)))
            case = dict(routine=routine, fam=fam, curve=cv, n=o["n"], l=l, full=nb, pm=pm, kinds=kinds, ks=ks)
            if routine in SIGN_MASKED and draw(st.sampled_from([0, 0, 1])):
                # the regular-recoding routines apply the sign of the scalar by a masked copy: the sign is part of the
                # secret value, so a batch of one magnitude length with mixed signs must give one trace as well
                case["signs"] = draw(st.lists(st.sampled_from([0, 1]), min_size=len(ks), max_size=len(ks)))
            return case
        return s()
    return strat


def curve_args(C, case):
    pm = case["pm"]

    def f(p, t, v, rid):
        bind = ROUTINES[case["routine"]]["bind"]
        if bind in ("c20_ep2", "c20_pc"):
            return (t, v, rid, pm)
        return (t, v, rid, C.info.get(case["curve"], 0), pm)
    return f


@fresh
def run_curve(env, cfg, case):
    C = ctx(env, cfg)
    routine = case["routine"]
    ks = case["ks"]
    o = C.order(env, case["fam"], case["curve"])
    if o is None or any(not (1 <= k < o["n"]) for k in ks):
        raise Unsupported()
    signs = case.get("signs")
    sks = [(-k if sg else k) for k, sg in zip(ks, signs)] if signs else ks
    tab, traces = run_batch(env, cfg, routine, curve_args(C, case), sks)
    what = "%s@%s" % (routine, case["curve"])
    nt, lb = batch_labels(case, ks, routine, case["curve"])
    if signs and len(set(signs)) == 2:
        lb.append("batch:mixed-signs")
    if any(tr.mismatch for tr in traces):
        lb.append("note:result-differs-from-basic-method:%s" % what)
    lb += compare_batch(env, cfg, what, tab, traces, ks)
    return nt, lb


def needs_of(routines_fn):
    def needs(env, cfg):
        C = ctx(env, cfg)
        return any(C.order(env, fam, cv) is not None for _, fam, cv in routines_fn(C))
    return needs


def ep_combos(C):
    out = []
    for cv in EP_CURVES.get(C.info.get("FP_PRIME", 0), []):
        out += [("ep_mul_monty", F_EP, cv), ("ep_mul_lwreg", F_EP, cv)]
    return out


def epx_combos(C):
    if "c20_ep2" not in C.ops or "c20_pc" not in C.ops:
        return []
    return [(r, F_PAIR, PAIRING) for r in ("ep2_mul_monty", "ep2_mul_lwreg", "g1_mul_sec", "g2_mul_sec")]


def gt_combos(C):
    if "c20_pc" not in C.ops:
        return []
    return [("gt_exp_sec", F_PAIR, PAIRING)]


def eb_combos(C):
    return [("eb_mul_lodah", F_EB, cv) for cv in EB_CURVES.get(C.info.get("FB_POLYN", 0), [])]


def ed_combos(C):
    out = []
    for cv in ED_CURVES.get(C.info.get("FP_PRIME", 0), []):
        out += [("ed_mul_monty", F_ED, cv), ("ed_mul_lwreg", F_ED, cv)]
    return out


# ------------------------------------------------------------------------------ exponentiations

def strat_exp(env, cfg):
    C = ctx(env, cfg)
    fpb, fbb = C.info.get("FP_PRIME", 0), C.info.get("FB_POLYN", 0)
    routines = ["bn_mxp_monty"]
    if EP_CURVES.get(fpb) and "c20_fp_exp" in C.ops:
        routines.append("fp_exp_monty")
    if EB_CURVES.get(fbb) and "c20_fb_exp" in C.ops:
        routines.append("fb_exp_monty")

    @st.composite
    def s(draw):
        routine = draw(st.sampled_from(routines))
        case = dict(routine=routine)
        if routine == "bn_mxp_monty":
            mb = draw(st.sampled_from([8, 63, 64, 65, 128, 192, 256, 384, 512]))
            m = draw(ints.uniform(1 << (mb - 1), (1 << mb) - 1)) | 1
            if m < 3:
                m = 3
            case["m"] = m
            case["a"] = draw(st.one_of(st.sampled_from([0, 1, 2, m - 1]), ints.uniform(0, m - 1)))
            l = draw(st.sampled_from([1, 2, 3, 8, 63, 64, 65, 127, 128, 160, 256, 300, mb, max(1, mb - 1)]))
        elif routine == "fp_exp_monty":
            cv = draw(st.sampled_from(EP_CURVES[fpb]))
            case["curve"] = cv
            case["a"] = draw(ints.uniform(0, (1 << fpb) - 1))
            l = draw(st.sampled_from([1, 2, 8, 64, 65, 128, fpb - 2, fpb - 1, fpb]))
        else:
            cv = draw(st.sampled_from(EB_CURVES[fbb]))
            case["curve"] = cv
            case["a"] = draw(ints.uniform(0, (1 << fbb) - 1))
            l = draw(st.sampled_from([1, 2, 8, 64, 65, 128, fbb - 2, fbb - 1, fbb]))
        kinds, ks = draw(batch(l, (1 << l) - 1, []))
        case.update(l=l, kinds=kinds, ks=ks)
        return case
    return s()


def exp_args(C, case):
    routine = case["routine"]

    def f(p, t, v, rid):
        if routine in ("bn_mxp_monty", "bn_mxp_slide"):
            return (t, v, p.bn(case["a"] % case["m"]), p.bn(case["m"]), rid)
        if routine in ("fp_exp_monty", "fp_exp_slide"):
            return (t, v, p.bn(case["a"]), C.info[case["curve"]], rid)
        nd = C.info["FB_DIGS"] * C.info["DIG"] // 8
        a = case["a"] & ((1 << C.info["FB_POLYN"]) - 1)
        return (t, v, p.buf(a.to_bytes(nd, "little")), C.info[case["curve"]], rid)
    return f


@fresh
def run_exp(env, cfg, case):
    C = ctx(env, cfg)
    routine = case["routine"]
    ks = case["ks"]
    if any(k < 1 for k in ks):
        raise Unsupported()
    tab, traces = run_batch(env, cfg, routine, exp_args(C, case), ks)
    where = case.get("curve", "m:%dbit" % case["m"].bit_length() if "m" in case else "")
    what = "%s@%s" % (routine, where)
    nt, lb = batch_labels(case, ks, routine, case.get("curve", "Z/m"))
    lb.append("explen:%s" % ("1" if case["l"] == 1 else "<=64" if case["l"] <= 64 else ">64"))
    if any(tr.mismatch for tr in traces):
        lb.append("note:result-differs-from-basic-method:%s" % what)
    lb += compare_batch(env, cfg, what, tab, traces, ks)
    return nt, lb


# ------------------------------------------------------------------------------ regular recoding

def strat_rec(env, cfg):
    @st.composite
    def s(draw):
        w = draw(st.sampled_from([2, 3, 4, 4, 5, 6, 7, 8]))
        n = draw(st.sampled_from([8, 63, 64, 65, 127, 128, 129, 160, 255, 256, 283, 381, 384, 512]))
        size = draw(st.sampled_from([2, 3, 6, 12, 24, 24, 24]))
        kinds, ks = [], []
        for _ in range(size):
            # the callers recode |k| (or a GLV half of it) made odd, of ANY length up to n: lengths vary inside a batch
            l = draw(st.sampled_from([n, n, n, n - 1, max(1, n // 2), max(1, n - 64), 1, 2, 64, 65]))
            l = max(1, min(l, n))
            kd, v = draw(scalar_of_length(l, (1 << l) - 1, []))
            kinds.append(kd)
            ks.append(v | 1)
        return dict(routine="bn_rec_reg", n=n, w=w, kinds=kinds, ks=ks)
    return s()


@fresh
def run_rec(env, cfg, case):
    ks, n, w = case["ks"], case["n"], case["w"]
    if any(k < 1 or k % 2 == 0 or k.bit_length() > n for k in ks):
        raise Unsupported()
    tab, traces = run_batch(env, cfg, "bn_rec_reg", lambda p, t, v, rid: (t, v, n, w), ks)
    # "regular fixed-length": the length may depend on (n, w) only. (The value itself is not documented, so it is
    # compared inside the batch, not against a formula.)
    for i, tr in enumerate(traces):
        if tr.aux != traces[0].aux:
            raise Violation("bn_rec_reg(n=%d, w=%d): the length of the regular recoding depends on the value: %d digits "
                            "for one scalar, %d for another" % (n, w, traces[0].aux, tr.aux),
                            kind="rec-length", k_ref=ks[0], k_dev=ks[i], len_ref=traces[0].aux, len_dev=tr.aux)
    hws = {popcount(k) for k in ks}
    lb = ["routine:bn_rec_reg", "rec:w=%d" % w, "batch-size:%d" % len(ks),
          "rec:mixed-lengths" if len({k.bit_length() for k in ks}) > 1 else "rec:one-length"]
    lb += ["kind:" + k for k in case["kinds"]]
    lb += compare_batch(env, cfg, "bn_rec_reg(n=%d,w=%d)" % (n, w), tab, traces, ks)
    return len(hws) >= 2, lb


# ------------------------------------------------------------------------------ primitives

PRIM_OPS = {"dv_copy_sec": 0, "dv_swap_sec": 1, "dv_cmp_sec": 2, "util_cmp_sec": 3, "fp_copy_sec": 4,
            "fpx_copy_sec": 5, "gt_copy_sec": 6}


def strat_prim(env, cfg):
    C = ctx(env, cfg)
    W = C.info["DIG"]
    db = W // 8
    ops = ["dv_copy_sec", "dv_swap_sec", "dv_cmp_sec", "util_cmp_sec"]
    if "FP_SIZE" in C.info and C.info.get("ALLOC_AUTO"):
        ops.append("fp_copy_sec")
    if "SZ_FP2" in C.info:
        ops.append("fpx_copy_sec")
    if "SZ_GT" in C.info:
        ops.append("gt_copy_sec")

    def data(nbytes):
        if nbytes == 0:
            return st.just(b"")
        if nbytes % db:
            return st.one_of(st.binary(min_size=nbytes, max_size=nbytes),
                             st.sampled_from([bytes(nbytes), b"\xff" * nbytes, b"\x80" + bytes(nbytes - 1)]))
        nd = nbytes // db
        if nd <= 16:
            return st.lists(ints.digit(W), min_size=nd, max_size=nd).map(
                lambda ds: b"".join(d.to_bytes(db, "little") for d in ds))
        # large objects (extension-field elements): a short digit-alphabet motif tiled over the object, or raw bytes
        motif = st.lists(ints.digit(W), min_size=1, max_size=6).map(
            lambda ds: (b"".join(d.to_bytes(db, "little") for d in ds) * (nd // len(ds) + 1))[:nbytes])
        return st.one_of(motif, st.binary(min_size=nbytes, max_size=nbytes))

    @st.composite
    def s(draw):
        op = draw(st.sampled_from(ops))
        deg = 0
        if op in ("dv_copy_sec", "dv_swap_sec", "dv_cmp_sec"):
            n = draw(st.sampled_from([0, 1, 2, 3, 4, 5, 8, 15, 16] + list(range(0, 17))))
            nbytes = n * db
        elif op == "util_cmp_sec":
            n = draw(st.sampled_from([0, 1, 2, 7, 8, 9, 16, 31, 32, 33, 63, 64] + list(range(0, 65))))
            nbytes = n
        elif op == "fp_copy_sec":
            n, nbytes = 0, C.info["FP_SIZE"]
        elif op == "fpx_copy_sec":
            deg = draw(st.sampled_from(FPX_DEGS))
            n, nbytes = deg, C.info["SZ_FP%d" % deg]
        else:
            n, nbytes = 0, C.info["SZ_GT"]
        nv = draw(st.sampled_from([2, 3, 4, 6, 8, 10, 14]))
        vs = []
        for _ in range(nv):
            x = draw(data(nbytes))
            if op in ("dv_cmp_sec", "util_cmp_sec"):
                kind = draw(st.sampled_from(["eq", "first", "last", "every", "onebit", "random", "eq"]))
                if nbytes == 0 or kind == "eq":
                    y, kind = x, "eq"
                elif kind == "first":
                    y = bytes([x[0] ^ draw(st.integers(1, 255))]) + x[1:]
                elif kind == "last":
                    y = x[:-1] + bytes([x[-1] ^ draw(st.integers(1, 255))])
                elif kind == "every":
                    y = bytes(b ^ 0xFF for b in x)
                elif kind == "onebit":
                    i = draw(st.integers(0, nbytes * 8 - 1))
                    y = bytearray(x)
                    y[i // 8] ^= 1 << (i % 8)
                    y = bytes(y)
                else:
                    y = draw(data(nbytes))
                vs.append(dict(x=x, y=y, bit=0, kind=kind))
            else:
                y = draw(st.one_of(data(nbytes), st.just(x)))
                vs.append(dict(x=x, y=y, bit=draw(st.integers(0, 1)), kind="sel"))
        return dict(op=op, n=n, vars=vs)
    return s()


def first_diff_byte(x, y):
    for i, (a, b) in enumerate(zip(x, y)):
        if a != b:
            return i
    return -1


@fresh
def run_prim(env, cfg, case):
    C = ctx(env, cfg)
    op, n, vs = case["op"], case["n"], case["vars"]
    if "c20_prim" not in C.ops:
        raise Unsupported()
    tab = C.table("prim", PRIM_A, None)
    p = Prog(poison=0x5A)
    t = p.buf(tab.blob)
    slots = []
    for v in vs:
        sx, sy = p.buf(v["x"]), p.buf(v["y"])
        p.call("c20_prim", t, PRIM_OPS[op], sx, sy, n, v["bit"])
        p.dump(sx)
        p.dump(sy)
        slots.append((sx, sy))
    res = env.runner(cfg).run(p)
    traces, outcomes = [], []
    is_cmp = op in ("dv_cmp_sec", "util_cmp_sec")
    for v, c, (sx, sy) in zip(vs, res.calls, slots):
        if c.rets and c.rets[0] == 3:
            raise StaleBinary()
        if c.unsupported or (c.rets and c.rets[0] == 2):
            raise Unsupported()
        if c.ub or c.errored:
            raise Violation("%s misbehaved (error / UB): %r" % (op, c))
        tr = ctrace.Trace(c.blobs[0])
        if tr.overflow or (len(tr) == 0):
            raise HarnessError("%s: unusable trace (overflow=%s, len=%d)" % (op, tr.overflow, len(tr)))
        traces.append(tr)
        x1, y1 = res.dumps[sx], res.dumps[sy]
        if is_cmp:
            want = RLC_EQ if v["x"] == v["y"] else RLC_NE
            got = c.ret_i(1)
            if got != want:
                raise Violation("%s returned %d, expected %d" % (op, got, want), got=got, want=want)
            if (x1, y1) != (v["x"], v["y"]):
                raise Violation("%s modified its inputs" % op)
            outcomes.append(want)
        else:
            if op == "dv_swap_sec":
                wx, wy = (v["y"], v["x"]) if v["bit"] else (v["x"], v["y"])
            else:
                wx, wy = (v["y"] if v["bit"] else v["x"]), v["y"]
            if (x1, y1) != (wx, wy):
                raise Violation("%s(bit=%d) selected wrongly" % (op, v["bit"]), got_x=x1, got_y=y1, want_x=wx, want_y=wy)
            outcomes.append(0)
    name = op if op != "fpx_copy_sec" else "fp%d_copy_sec" % n
    # oracle: identical complete block traces (comparisons: within each outcome class)
    by_class = {}
    for i, oc in enumerate(outcomes):
        by_class.setdefault(oc, []).append(i)
    for oc, members in by_class.items():
        r = members[0]
        for i in members[1:]:
            if traces[i].evb != traces[r].evb:
                e_r, e_i = traces[r].events(), traces[i].events()
                d = ctrace.first_diff(e_r, e_i)
                raise Violation(
                    "%s: the executed instruction sequence depends on %s: block #%d differs (%d vs %d blocks)" % (
                        name, "the compared data" if is_cmp else "the condition bit / the data", d, len(e_r), len(e_i)),
                    var_ref=dict(vs[r]), var_dev=dict(vs[i]), index=d, len_ref=len(e_r), len_dev=len(e_i),
                    ctx_ref=ctrace.context(tab.st, e_r, d), ctx_dev=ctrace.context(tab.st, e_i, d))
    lb = ["prim:" + name, "prim-len:%s" % ("0" if len(vs[0]["x"]) == 0 else "1-digit" if len(vs[0]["x"]) <= 8 else "multi")]
    if is_cmp:
        lb += ["cmp:" + v["kind"] for v in vs]
        pos = {first_diff_byte(v["x"], v["y"]) for v in vs}
        nt = len(pos) >= 2
    else:
        lb += ["bit:%d" % v["bit"] for v in vs]
        nt = len({v["bit"] for v in vs}) == 2
    return nt, lb


# ------------------------------------------------------------------------------ positive controls

def control_combos(env, C):
    fpb, fbb = C.info.get("FP_PRIME", 0), C.info.get("FB_POLYN", 0)
    combos = [("ep_mul_lwnaf", F_EP, cv) for cv in EP_CURVES.get(fpb, [])]
    combos += [("ed_mul_lwnaf", F_ED, cv) for cv in ED_CURVES.get(fpb, [])]
    combos += [("eb_mul_rwnaf", F_EB, cv) for cv in EB_CURVES.get(fbb, [])]
    if "c20_pc" in C.ops and C.order(env, F_PAIR, PAIRING):
        combos += [("ep2_mul_lwnaf", F_PAIR, PAIRING), ("gt_exp", F_PAIR, PAIRING)]
    combos.append(("bn_mxp_slide", 0, ""))
    if EP_CURVES.get(fpb) and "c20_fp_exp" in C.ops:
        combos.append(("fp_exp_slide", 0, EP_CURVES[fpb][0]))
    if EB_CURVES.get(fbb) and "c20_fb_exp" in C.ops:
        combos.append(("fb_exp_slide", 0, EB_CURVES[fbb][0]))
    return [c for c in combos if ROUTINES[c[0]]["bind"] in C.ops and (not c[1] or C.order(env, c[1], c[2]))]


def strat_control(env, cfg):
    """One case = raw material for a sparse, a dense and a random scalar; EVERY control routine of the
    configuration is run on it (so every control is exercised in every run, whatever the sampling does)."""
    @st.composite
    def s(draw):
        return dict(routine="controls", bitpos=draw(st.integers(0, 150)), dense=draw(ints.uniform(0, (1 << 600) - 1)),
                    rnd=draw(ints.uniform(0, (1 << 600) - 1)), pm=draw(st.sampled_from([1, 2, 3])),
                    a=draw(ints.uniform(2, 1 << 200)), m=draw(ints.uniform(1 << 255, (1 << 256) - 1)) | 1)
    return s()


@fresh
def run_control(env, cfg, case):
    C = ctx(env, cfg)
    labels = []
    for routine, fam, cv in control_combos(env, C):
        if fam:
            o = C.order(env, fam, cv)
            nb, hi = o["n"].bit_length(), o["n"] - 1
        else:
            nb = 200
            hi = (1 << nb) - 1
        lo = 1 << (nb - 1)
        sparse = fit(lo | (1 << (case["bitpos"] % (nb - 1))), nb, hi)
        dense = fit(lo | case["dense"] | int("7" * (nb // 4 - 2), 16), nb, hi)
        rnd = fit(lo | case["rnd"], nb, hi)
        ks = [sparse, dense, rnd]
        sub = dict(routine=routine, fam=fam, curve=cv, pm=case["pm"], a=case["a"], m=case["m"])
        if ROUTINES[routine]["dom"] == "exp":
            tab, traces = run_batch(env, cfg, routine, exp_args(C, sub), ks)
        else:
            tab, traces = run_batch(env, cfg, routine, curve_args(C, sub), ks)
        name = "%s@%s" % (routine, (o["name"] if fam == F_PAIR else cv) if fam else (cv or "Z/m"))
        control_check(name, tab, traces, ks)
        labels.append("control-detected:%s" % name)
    if not labels:
        raise Unsupported()
    return True, labels


# ------------------------------------------------------------------------------ targets

def _cfgs(quick, thorough):
    return {"quick": quick, "thorough": thorough}


ALL = ["trace256", "trace255", "trace381"]
PAIR_CFGS = _cfgs(["trace256", "trace381"], ["trace256", "trace381"])     # a BN curve and a BLS12 curve
TARGETS = [
    Target("prim", strat_prim, run_prim, _cfgs(["trace256"], ALL), quick=12000, thorough=60000),
    Target("ep", mk_curve_strategy(ep_combos), run_curve, _cfgs(["trace256"], ALL), quick=3500, thorough=12000,
           needs=needs_of(ep_combos)),
    Target("epx", mk_curve_strategy(epx_combos), run_curve, PAIR_CFGS, quick=1000, thorough=5000,
           needs=needs_of(epx_combos)),
    Target("gt", mk_curve_strategy(gt_combos), run_curve, PAIR_CFGS, quick=400, thorough=2000,
           needs=needs_of(gt_combos)),
    Target("eb", mk_curve_strategy(eb_combos), run_curve, _cfgs(["trace256"], ["trace256"]), quick=500, thorough=3000,
           needs=needs_of(eb_combos)),
    Target("ed", mk_curve_strategy(ed_combos), run_curve, _cfgs(["trace255"], ["trace255"]), quick=600, thorough=6000,
           needs=needs_of(ed_combos)),
    Target("exp", strat_exp, run_exp, _cfgs(["trace256"], ALL), quick=2000, thorough=10000),
    Target("rec_reg", strat_rec, run_rec, _cfgs(["trace256"], ["trace256"]), quick=4000, thorough=20000),
    Target("control", strat_control, run_control, _cfgs(["trace256"], ALL), quick=48, thorough=200),
]


# ------------------------------------------------------------------------------ known findings (narrow predicates)

def _sigs(v):
    return set(v.details.get("signatures") or [])


def _kf_bn_sac_length(case, v, entry):
    """ep2_mul_lwreg (= g2_mul_sec) and gt_exp_sec on a BN curve: bn_rec_sac(cof = 1) extends the recoding length to
    the bit length of the longest GLS sub-scalar, so the main loop runs 1 or 2 extra iterations for some scalars.
    Only that exact divergence (post-loop operation vs. one more loop iteration, whole iterations of difference)
    is matched, for these routines on that curve."""
    per_iter = entry["per_iteration"].get(case.get("routine"))
    if per_iter is None or case.get("curve") not in entry["curves"] or v.details.get("kind") != "length":
        return False
    if case["routine"] == "gt_exp_sec" and case["l"] <= 64:
        return False
    want = {"%s|+%d" % (entry["divergence"][case["routine"]], per_iter * j) for j in (1, 2)}
    s = _sigs(v)
    return bool(s) and s <= want


def _kf_gt_exp_sec_digit(case, v, entry):
    """gt_exp_sec with an exponent of at most RLC_DIG bits takes the variable-time gt_exp_dig (NAF) path."""
    return case.get("routine") == "gt_exp_sec" and case["l"] <= 64 and v.details.get("kind") in ("length", "sequence")


def _kf_lodah_nm1(case, v, entry):
    """eb_mul_lodah with k = n - 1: the y-recovery after the ladder branches on z2 == 0 ((k+1)P = O)."""
    if case.get("routine") != "eb_mul_lodah" or v.details.get("kind") != "length":
        return False
    g = v.details.get("groups") or {}
    if len(g) != 2:
        return False
    short = g[str(min(int(x) for x in g))]
    longg = g[str(max(int(x) for x in g))]
    n = case["n"]
    return all(k == n - 1 for k in short) and all(k != n - 1 for k in longg) and _sigs(v) == set(entry["signatures"])


KNOWN_PREDICATES = {"bn_sac_length": _kf_bn_sac_length, "gt_exp_sec_digit": _kf_gt_exp_sec_digit,
                    "lodah_order_minus_one": _kf_lodah_nm1}


def self_test():
    ctrace.self_test()
    # cube roots of unity: secp256k1 group order (SEC 2, section 2.4.1); lambda from the GLV literature
    n = 0xFFFFFFFFFFFFFFFFFFFFFFFFFFFFFFFEBAAEDCE6AF48A03BBFD25E8CD0364141
    lam = 0x5363AD4CC05C30E0A5261C028812645A122E22EA20816678DF02967C1B23BD72
    roots = cube_roots_of_unity(n)
    assert len(roots) == 2 and lam in roots and all(pow(r, 3, n) == 1 and r != 1 for r in roots)
    assert (lam * lam + lam + 1) % n == 0
    # the length-forcing helper keeps its contract
    for l, hi in ((256, n - 1), (255, (1 << 255) - 1), (2, 3), (9, 0x1A5)):
        for v in (0, 1, hi, (1 << l) - 1, 0xAAAA, 1 << (l - 1)):
            f = fit(v, l, hi)
            assert f.bit_length() == l and f <= hi, (l, hi, v, f)
    assert hashlib.sha256(b"").hexdigest().startswith("e3b0c442")

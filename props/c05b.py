"""C05 (part B) — pairing-based, homomorphic and ring / extendable signature schemes are complete and sound
(DESIGN §2 C05, oracle groups B and C)."""
import hashlib
import struct

from hypothesis import strategies as st

from engine import ecctx, pcctx
from engine.core import Target, Violation, Unsupported
from engine.gen import ints
from engine.proto import Prog, NULL, RunnerCrash, sanitizer_signature
from engine.ref import ec as rec
from engine.ref import ext as rext

PROPERTY = "C05"
RULE = ("keys and honest signatures come from cp_*_gen / cp_*_sig under a DRBG seed drawn per case (message lengths "
        "0, 1, 31..33, 64, 200; scalar messages 0, 1, r-1, uniform, >= r). Every honest triple must verify. Then a "
        "mutation (1-2 elementary substitutions, or a scheme-specific recipe that yields another VALID triple such as "
        "PS/CL re-randomisation) is applied: group elements -> identity, generator, -P, 2P, [k]G, the same component of "
        "a second signature (other message / other key), off-curve coordinates, P + N with N on the curve but outside "
        "the order-r subgroup (twist points from lift_x; G1 only where the cofactor is > 1), GT elements -> 1, 0, z^2, "
        "-z, foreign; scalars -> 0, 1, r, r+1, m+1, r-m, m+r, bit flips; messages -> bit flips, truncation, extension, "
        "foreign message; public keys -> foreign key, identity, generator, non-member. Group B oracle: verdict_lib == "
        "(every element on its curve and of order dividing r BY THE PYTHON REFERENCE, identity excluded where the "
        "scheme excludes it) AND (the scheme's pairing-product equation, re-evaluated by the harness with pc_map / "
        "pc_map_sim / g1_map on reference-computed points). Group C (ring signatures, on every prime curve of the "
        "build): completeness for ring sizes 1..8 with the signer at every position, extension then verification, "
        "rejection of every single-component substitution and of a foreign ring / message / parameters. "
        "non-trivial = a mutated triple; distinct = distinct (scheme, curve, case) hashes")
ASSUMPTIONS = ["pc_map, pc_map_sim, g1_map and md_map are correct on members of G1/G2 (C04, C13, C14 check them); the "
               "harness only pairs points that the Python reference has shown to be group members",
               "signing keys always come from key generation; messages, signatures and public keys given to a verifier "
               "are untrusted",
               "scalar *messages* (PS, CL, homomorphic schemes) live in Z with implicit reduction mod r because the "
               "signing functions reduce them; only non-negative values that fit the bignum precision are used",
               "the multiplication / pairing triples of the MPC variants come from mpc_mt_gen / pc_map_tri as in the "
               "documented usage",
               "cp_cmlhs in ECDSA mode uses cp_ecdsa_ver (checked by part A) as the inner verifier of the oracle",
               "a verifier that reports an error (exception / error code) counts as a rejection"]
BUDGET_S = {"quick": 230, "thorough": 1700}
JOB_SIZE = {"quick": 40, "thorough": 250}

MSG_LENS = [0, 1, 31, 32, 33, 64, 200]
HUGE_BITS = 2176          # RLC_BN_SIZE digits of the 1024-bit-precision builds (info_cp_pbs reports it; checked in info())
_INFO = {}


# ====================================================================================== contexts / transport

def job_ctx(env, cfg):
    cs = pcctx.discover(env, cfg)["ctxs"]
    if not cs:
        raise Unsupported()
    return cs[env.job_seed % len(cs)]


def info(env, cfg):
    if cfg not in _INFO:
        r = env.runner(cfg)
        if "cp_bls_ver" not in r.ops():
            raise Unsupported()
        v = r.info("info_cp_pbs")
        p = Prog()
        b = p.buf(b"abc")
        p.call("pbs_md_map", b)
        md = r.run(p).calls[0].blobs[0]
        if v[5] * 8 != HUGE_BITS:
            raise Unsupported()
        _INFO[cfg] = dict(md_len=v[0], digb=v[1], terms=v[2], mpc=v[4], bn_bytes=v[5], ec_prime=v[7],
                          sha256=(md == hashlib.sha256(b"abc").digest()))
    return _INFO[cfg]


def s_g1(p, x, P):
    return p.new("EP", ecctx.enc_point(x.base, P))


def s_g2(p, x, Q):
    return p.new("EP2", pcctx.enc_point2(x, Q))


def s_gt(p, x, a):
    return p.new("FPX", pcctx.enc_gt(x, a))


def s_g1v(p, x, Ps, n=None):
    n = len(Ps) if n is None else n
    return p.new("EPV", struct.pack("<II", n, len(Ps)) + b"".join(ecctx.enc_point(x.base, P) for P in Ps))


def s_g2v(p, x, Qs, n=None):
    n = len(Qs) if n is None else n
    return p.new("EP2V", bytes([2]) + struct.pack("<II", n, len(Qs)) + b"".join(pcctx.enc_point2(x, Q)[1:] for Q in Qs))


def s_gtv(p, x, As, n=None):
    n = len(As) if n is None else n
    body = b"".join(pcctx.enc_gt(x, a)[5:] for a in As)
    return p.new("FPXV", bytes([12]) + struct.pack("<I", n) + struct.pack("<I", len(body)) + body)


def s_str(p, s):
    return p.buf(s + b"\x00")


def s_strs(p, ss):
    return p.buf(b"".join(s + b"\x00" for s in ss))


def d_g1(x, res, slot, what):
    P, _ = ecctx.dec_point(x.base, res.dumps[slot], what)
    return P


def d_g1v(x, res, slot, what):
    return [P for P, _ in ecctx.dec_points(x.base, res.dumps[slot], what)]


def d_g2(x, res, slot, what):
    Q, _ = pcctx.dec_point2(x, res.dumps[slot], what)
    return Q


def d_g2v(x, res, slot, what):
    return [Q for Q, _ in pcctx.dec_points2(x, res.dumps[slot], what)]


def d_gt(x, res, slot, what):
    return pcctx.dec_gt(x, res.dumps[slot], what)


def d_gtv(x, res, slot, what):
    nb = 12 * x.F.nbytes
    b = res.dumps[slot]
    return [pcctx.dec_gt(x, b[i * nb:(i + 1) * nb], what) for i in range(len(b) // nb)]


def d_bn(res, slot):
    return res.dumps[slot].value


def d_bnv(res, slot):
    return [b.value for b in res.dumps[slot]]


def chk(c, what, allow_error=False):
    if c.unsupported:
        raise Unsupported()
    if c.ub:
        raise Violation("undefined behaviour in %s: %s" % (what, c.ub), ub=c.ub)
    if c.errored and not allow_error:
        raise Violation("%s reported an error (caught=%d e=%d code=%d) on the honest path" % (what, c.caught, c.e, c.code),
                        honest_error=True)


def ok_rets(c, what, n=None):
    """every integer the binding returned is RLC_OK (0)"""
    chk(c, what)
    for i, v in enumerate(c.rets if n is None else c.rets[:n]):
        if v != 0:
            raise Violation("%s returned %d (RLC_ERR) on the honest path" % (what, c.ret_i(i)), honest_error=True)


# ====================================================================================== reference-side predicates

def _cache(x):
    if not hasattr(x, "_c05"):
        x._c05 = dict(g1={}, g2={}, gt={}, nm1={}, nm2={})
    return x._c05


def in_g1(x, P):
    """None if P is on E(Fp) and [r]P = O (the identity counts as a member), else the reason."""
    if P is None:
        return None
    c = _cache(x)["g1"]
    if P not in c:
        if len(c) > 20000:
            c.clear()
        E = x.base.E
        if not E.on_curve(P):
            c[P] = "off-curve"
        elif x.base.h != 1 and E.mul(x.r, P) is not None:
            c[P] = "outside-subgroup"
        else:
            c[P] = None
    return c[P]


def in_g2(x, Q):
    if Q is None:
        return None
    c = _cache(x)["g2"]
    if Q not in c:
        if len(c) > 20000:
            c.clear()
        if not x.E2c.on_curve(Q):
            c[Q] = "off-curve"
        elif x.E2c.mul(x.r, Q) is not None:
            c[Q] = "outside-subgroup"
        else:
            c[Q] = None
    return c[Q]


def in_gt(x, a):
    F12 = x.F12
    key = tuple(F12.flatten(a))
    c = _cache(x)["gt"]
    if key not in c:
        if len(c) > 5000:
            c.clear()
        if F12.is_zero(a):
            c[key] = "zero"
        elif not F12.eq(F12.pow(a, x.r), F12.one):
            c[key] = "outside-subgroup"
        else:
            c[key] = None
    return c[key]


def nonmember1(x, aux):
    """a point of E(Fp) outside the order-r subgroup (None when the cofactor is 1), and its cofactor-order part"""
    if x.base.h == 1:
        return None
    k = aux % 4
    c = _cache(x)["nm1"]
    if k not in c:
        xx = (0x1234567 * (k + 1)) % x.F.p
        while True:
            P = x.base.E.lift_x(xx)
            if P is not None and x.base.E.mul(x.r, P) is not None:
                break
            xx += 1
        c[k] = (P, x.base.E.mul(x.r, P))
    return c[k]


def nonmember2(x, aux):
    """a twist point outside the order-r subgroup built by the reference (lift_x), and its part of order coprime to r"""
    k = aux % 4
    c = _cache(x)["nm2"]
    if k not in c:
        p = x.F.p
        xx = [(0x2468ACE * (k + 1)) % p, (k + 1) % p]
        while True:
            Q = x.E2c.lift_x(tuple(xx))
            if Q is not None and x.E2c.mul(x.r, Q) is not None:
                break
            xx[0] += 1
        c[k] = (Q, x.E2c.mul(x.r, Q))
    return c[k]


def hash_scalar(x, inf, msg, hashed):
    """the scalar cp_bbs / cp_zss derive from a message (header: 'hash' flag says the message already is a digest)"""
    if hashed:
        return int.from_bytes(msg, "big") % x.r
    if not inf["sha256"]:
        raise Unsupported()
    return int.from_bytes(hashlib.sha256(msg).digest(), "big") % x.r


def ser_g2(x, Q):
    """uncompressed serialisation g2_write_bin(., 0) (cross-checked against the library inside the equation programs)"""
    if Q is None:
        return b"\x00"
    nb = (x.F.p.bit_length() + 7) // 8
    return b"\x04" + b"".join(v.to_bytes(nb, "big") for v in (Q[0][0], Q[0][1], Q[1][0], Q[1][1]))


def unity(x, res, slot, what):
    return x.F12.eq(d_gt(x, res, slot, what), x.F12.one)


def pair_product(p, x, pairs):
    """emit pc_map_sim over [(P in G1, Q in G2)] (reference points, all members); returns the GT slot"""
    s1 = s_g1v(p, x, [a for a, _ in pairs])
    s2 = s_g2v(p, x, [b for _, b in pairs])
    sg = s_gt(p, x, x.F12.one)
    p.call("pc_map_sim", sg, s1, s2, len(pairs))
    p.dump(sg)
    return sg


def g1_lin(x, terms):
    """sum [k_i]P_i by the reference"""
    E = x.base.E
    R = None
    for k, P in terms:
        R = E.add(R, E.mul(k % x.r, P))
    return R


def g2_lin(x, terms):
    E = x.E2c
    R = None
    for k, Q in terms:
        R = E.add(R, E.mul(k % x.r, Q) if k % x.r else None)
    return R


# ====================================================================================== mutations

# component types: g1 g2 gt sc (scalar, reduced mod r by the scheme) msg (bytes) str (NUL-free bytes) dig (coefficient)
# flag (small int parameter); vectors are python lists of those.
PT_KINDS = ["identity", "generator", "neg", "dbl", "rand", "other", "other", "offcurve", "nonmember", "cofactor", "xflip"]
GT_KINDS = ["one", "zero", "sqr", "minus", "rand", "other", "junk"]
SC_KINDS = ["zero", "one", "r", "r+1", "plus1", "neg", "plus-r", "bit", "other", "rand", "huge"]
MSG_KINDS = ["bit", "trunc", "extend", "empty", "other", "bit", "long"]
STR_KINDS = ["bit", "trunc", "extend", "other"]
DIG_KINDS = ["zero", "plus1", "bit", "other"]
KINDS = dict(g1=PT_KINDS, g2=PT_KINDS, gt=GT_KINDS, sc=SC_KINDS, msg=MSG_KINDS, str=STR_KINDS, dig=DIG_KINDS,
             flag=["flip"])


def mutate_value(x, typ, v, other, kind, aux):
    """one elementary substitution; returns the new value (may equal the old one: the oracle classifies, not the kind)"""
    r = x.r
    if typ in ("g1", "g2"):
        E = x.base.E if typ == "g1" else x.E2c
        G = x.G1 if typ == "g1" else x.G2
        K = E.K
        if kind == "identity":
            return None
        if kind == "generator":
            return G
        if kind == "neg":
            return E.neg(v)
        if kind == "dbl":
            return E.dbl(v) if v is not None and E.on_curve(v) else G
        if kind == "rand":
            k = 2 + aux % (r - 2)
            return E.mul(k, G)
        if kind == "mul":
            return E.mul(aux % r, v) if aux % r else None
        if kind == "other":
            return other
        if kind == "offcurve":
            b = v if v is not None else G
            y = K.add(b[1], K.one)
            while E.on_curve((b[0], y)):
                y = K.add(y, K.one)
            return (b[0], y)
        if kind == "xflip":
            b = v if v is not None else G
            if typ == "g1":
                return (b[0] ^ (1 << (aux % (x.F.p.bit_length() - 1))), b[1])
            i = aux % 2
            xx = list(b[0])
            xx[i] ^= 1 << ((aux >> 1) % (x.F.p.bit_length() - 1))
            return (tuple(xx), b[1])
        if kind in ("nonmember", "cofactor"):
            nm = nonmember1(x, aux) if typ == "g1" else nonmember2(x, aux)
            if nm is None:
                return E.neg(v)                 # prime-order G1: no such point exists; fall back to -P
            N = nm[0] if kind == "nonmember" else nm[1]
            if v is None or not E.on_curve(v):
                return N
            return E.add(v, N)
        raise ValueError(kind)
    if typ == "gt":
        F12 = x.F12
        if kind == "one":
            return F12.one
        if kind == "zero":
            return F12.zero
        if kind == "sqr":
            return F12.mul(v, v)
        if kind == "minus":
            return F12.neg(v)                   # times the element -1 of order 2: leaves the order-r subgroup
        if kind == "rand":
            return F12.pow(x.gt_gen, 2 + aux % (r - 2))
        if kind == "pow":
            return F12.pow(v, aux % r)
        if kind == "other":
            return other
        if kind == "junk":
            p = x.F.p
            return F12.unflatten([(aux * (i + 3) + i) % p for i in range(12)])
        raise ValueError(kind)
    if typ == "sc":
        if kind == "zero":
            return 0
        if kind == "one":
            return 1
        if kind == "r":
            return r
        if kind == "r+1":
            return r + 1
        if kind == "plus1":
            return v + 1
        if kind == "neg":
            return (-v) % r
        if kind == "plus-r":
            return v + r
        if kind == "bit":
            return v ^ (1 << (aux % 256))
        if kind == "other":
            return other
        if kind == "rand":
            return aux % r
        if kind == "huge":
            return (1 << (HUGE_BITS - 1 - aux % 6)) + v       # fills the bignum precision: products overflow inside
        raise ValueError(kind)
    if typ in ("msg", "str"):
        lo = 1 if typ == "str" else 0           # strings cannot contain NUL
        if kind == "bit":
            if not v:
                return b"\x01"
            i = aux % len(v)
            b = v[i] ^ (1 << ((aux >> 16) % 8))
            if typ == "str" and b == 0:
                b = 0x41 if v[i] != 0x41 else 0x42
            return v[:i] + bytes([b]) + v[i + 1:]
        if kind == "trunc":
            return v[:-1] if v else b"\x01"
        if kind == "extend":
            return v + bytes([max(lo, aux % 256)])
        if kind == "empty":
            return b"" if v else b"\x00"
        if kind == "other":
            return other
        if kind == "long":
            return (v + bytes([1 + aux % 255])) * (1 + (HUGE_BITS // 8 + 20) // (len(v) + 1))   # longer than a bignum
        raise ValueError(kind)
    if typ == "dig":
        if kind == "zero":
            return 0
        if kind == "plus1":
            return v + 1
        if kind == "bit":
            return v ^ (1 << (aux % 31))
        if kind == "other":
            return other
        raise ValueError(kind)
    if typ == "flag":
        return v ^ 1
    raise ValueError(typ)


def derive_mutation(ncomp, entropy):
    """1-2 elementary substitutions, a recipe, or none, cut out of a hash of EVERYTHING the case drew. Measured:
    Hypothesis fills any single draw with its simplest value (or a copy of an earlier example's) in 25-50 % of the
    examples of a multi-draw strategy, while whole examples stay distinct; hashing the whole case makes the selectors
    uniform and independent. Component / element indices are reduced modulo the actual sizes when applied."""
    h = b"".join(hashlib.sha256(entropy + bytes([i])).digest() for i in range(4))
    sel = h[0] % 40
    if sel <= 1:
        return dict(mode="none", elems=[], recipe=0, aux=0)
    if sel <= 5:
        return dict(mode="recipe", elems=[], recipe=h[1] % 8, aux=2 + int.from_bytes(h[32:64], "little"))
    elems = []
    for j in range(2 if sel >= 36 else 1):
        v = int.from_bytes(h[2 + 8 * j:10 + 8 * j], "little")
        elems.append(dict(comp=(v & 0xFFFF) % ncomp, k=(v >> 16) & 0xFFFF, elt=(v >> 32) & 0xFF, src=(v >> 40) & 1,
                          aux=int.from_bytes(h[32 + 40 * j:72 + 40 * j], "little")))
    return dict(mode="elem", elems=elems, recipe=0, aux=0)


def case_entropy(case, extra=b""):
    import json
    from engine.core import jsonable
    return json.dumps(jsonable(case), sort_keys=True).encode() + extra


def get_comp(T, name, elt):
    v = T[name]
    if isinstance(v, list):
        if not v:
            return None, None
        i = elt % len(v)
        if isinstance(v[i], list):
            j = (elt // len(v)) % len(v[i]) if v[i] else 0
            return (v[i][j] if v[i] else None), (i, j)
        return v[i], (i,)
    return v, ()


def set_comp(T, name, idx, val):
    if idx == ():
        T[name] = val
    elif len(idx) == 1:
        T[name] = list(T[name])
        T[name][idx[0]] = val
    else:
        T[name] = [list(row) for row in T[name]]
        T[name][idx[0]][idx[1]] = val


def apply_mutation(x, sch, mut, T, alts):
    """returns (T', labels). alts = [T2 (same key, other message), T3 (other key, same message)]"""
    T = dict(T)
    labels = []
    if mut["mode"] == "none":
        return T, ["mut:none"]
    if mut["mode"] == "recipe":
        rs = sch.recipes()
        name, fn = rs[mut["recipe"] % len(rs)]
        fn(x, T, alts, mut["aux"])
        return T, ["mut:recipe:" + name]
    for e in mut["elems"]:
        name, typ, role = sch.COMPS[e["comp"] % len(sch.COMPS)]
        v, idx = get_comp(T, name, e["elt"])
        if idx is None:
            labels.append("mut:empty-vector")
            continue
        ov, _ = get_comp(alts[e["src"] % len(alts)], name, e["elt"])
        if ov == v:
            ov, _ = get_comp(alts[(e["src"] + 1) % len(alts)], name, e["elt"])
        kinds = KINDS[typ]
        kind = kinds[e["k"] % len(kinds)]
        if typ == "sc" and role == "strict" and kind == "plus-r":
            pass
        nv = mutate_value(x, typ, v, ov, kind, e["aux"])
        set_comp(T, name, idx, nv)
        labels.append("mut:%s:%s:%s" % (role, typ, kind))
    return T, labels


# ====================================================================================== generic group-B machinery

def run_prog(env, cfg, x, builder, poison, seed=b"", unprotected=False):
    """pcctx.run with the option of calling the way an application does (no enclosing RLC_TRY): then a function that
    raises internally still RETURNS, and what it returns is what the caller acts on."""
    p = Prog(poison=poison, seed=seed, unprotected=unprotected)
    skip = pcctx.select(env, cfg, p, x)
    p.base = p.ncalls
    meta = builder(p)
    try:
        res = env.runner(cfg).run(p)
    except Exception:
        pcctx.discover(env, cfg)["cur"] = None
        raise
    if res.failed_new:
        raise Unsupported()
    res.calls = res.calls[skip:]
    return res, meta


def call(p, name, *args):
    """emit a call; returns its index relative to the calls pcctx.run reports"""
    return p.call(name, *args) - p.base


def msg_strategy():
    @st.composite
    def s(draw):
        n = draw(st.sampled_from(MSG_LENS))
        k = draw(st.integers(0, 5))
        if k == 0:
            return bytes(n)
        if k == 1:
            return b"\xff" * n
        return draw(st.binary(min_size=n, max_size=n))
    return s()


def scalar_msg(x):
    r = x.r
    return st.one_of(st.sampled_from([0, 1, r - 1, 2, r, r + 1, 2 * r - 1, (1 << 300) + 12345]), ints.uniform(0, r - 1),
                     ints.uniform(0, r - 1))


def text(maxlen=12):
    return st.binary(min_size=0, max_size=maxlen).map(lambda b: bytes((c % 255) + 1 for c in b))


class Scheme:
    name = "?"
    COMPS = []
    needs_mpc = False

    def params(self, x, draw):
        return {}

    def facts(self, x, T):
        """input facts a known-finding predicate may need (derived from the triple given to the verifier)"""
        return {}

    def role_of(self, why, what=2):
        name = why.split(":")[0].split("[")[0]
        for comp in self.COMPS:
            if comp[0] == name:
                return comp[what]
        return None

    def annihilated(self, x, T, comp):
        """True when the named public-key element enters the verification equation with multiplier 0 mod r (so that its
        value cannot influence the verdict)"""
        return False

    def recipes(self):
        return [("foreign-message-and-signature", self._r_other_msg), ("foreign-key-and-signature", self._r_other_key)]

    # the two universal 'still valid' recipes: take message+signature of T2, or key+signature of T3
    def _r_other_msg(self, x, T, alts, aux):
        for name, typ, role in self.COMPS:
            if role in ("sig", "msg"):
                T[name] = alts[0][name]

    def _r_other_key(self, x, T, alts, aux):
        for name, typ, role in self.COMPS:
            if role in ("sig", "pk"):
                T[name] = alts[1][name]


def strat_b(sch):
    def strategy(env, cfg):
        x = job_ctx(env, cfg)
        inf = info(env, cfg)
        if sch.needs_mpc and not inf["mpc"]:
            raise Unsupported()

        @st.composite
        def s(draw):
            case = dict(scheme=sch.name, cid=x.cid, seed=draw(st.binary(min_size=8, max_size=8)),
                        poison=draw(st.integers(0, 255)))
            case.update(sch.params(x, draw))
            case["mut"] = derive_mutation(len(sch.COMPS), case_entropy(case, draw(st.binary(min_size=8, max_size=8))))
            return case
        return s()
    return strategy


def run_b(sch):
    def run(env, cfg, case):
        x = pcctx.ctx_for(env, cfg, case["cid"])
        inf = info(env, cfg)
        if sch.needs_mpc and not inf["mpc"]:
            raise Unsupported()
        what = "cp_%s[cid=%d]" % (sch.name, x.cid)
        T, alts = sch.honest(env, cfg, x, inf, case)
        why = sch.wf(x, inf, T)
        if why:
            raise Violation("%s: honest key/signature is not well-formed by the reference: %s" % (what, why))
        Tm, labels = apply_mutation(x, sch, case["mut"], T, alts)
        changed = any(Tm[k] != T[k] for k in T)

        def build(p):
            i0 = sch.lib_ver(p, x, T)
            i1 = sch.lib_ver(p, x, Tm) if changed else None
            return i0, i1
        try:
            res, (i0, i1) = run_prog(env, cfg, x, build, case["poison"], case["seed"], unprotected=True)
        except RunnerCrash as rc:
            if rc.why == "timeout":
                raise
            stage = "mutated"
            try:
                run_prog(env, cfg, x, lambda p: sch.lib_ver(p, x, T), case["poison"], case["seed"], unprotected=True)
            except RunnerCrash:
                stage = "honest"
            kind, frames = sanitizer_signature(rc.stderr_tail)
            raise Violation("%s verification crashed the runner on the %s triple (%s)" % (what, stage, kind or "rc=%r" % rc.rc),
                            crash=True, kind=kind, frames=frames, stage=stage, stderr=rc.stderr_tail[-2500:],
                            facts=sch.facts(x, T if stage == "honest" else Tm), mutation=labels[0] if labels else None)
        c0 = res.calls[i0]
        chk(c0, what + " verification of the honest signature")
        if not sch.verdict(c0):
            raise Violation("%s rejected an honest signature (completeness)" % what, kind="completeness")
        labels += ["scheme:" + sch.name, "cid:%d" % x.cid] + sch.labels(x, case)
        if not changed:
            return False, labels + ["class:honest-only"]
        c1 = res.calls[i1]
        if c1.unsupported:
            raise Unsupported()
        if c1.ub:
            raise Violation("undefined behaviour in %s verification: %s" % (what, c1.ub), ub=c1.ub)
        # the verdict is what a plain call returns; an error that is only visible in the library's error state does not
        # turn a returned 1 into a rejection
        got = (not c1.caught) and bool(c1.rets) and sch.verdict(c1)
        if c1.errored:
            labels.append("verdict:error-raised-and-%s" % ("accepted" if got else "rejected"))
        why = sch.wf(x, inf, Tm)
        if why:
            want = False
            labels.append("class:ill-formed:" + why.split(":")[-1])
        else:
            want = sch.equation(env, cfg, x, inf, Tm, case)
            labels.append("class:well-formed:" + ("equation-holds" if want else "equation-fails"))
        if got and not want:
            raise Violation("%s ACCEPTED a triple that is not valid: %s" % (what, why or "the verification equation fails"),
                            kind="soundness", reason=why or "equation", mutation=labels[0], accepted=True,
                            mutations=[l_ for l_ in labels if l_.startswith("mut:")],
                            errored=bool(c1.errored),
                            role=sch.role_of(why) if why else None, ctype=sch.role_of(why, 1) if why else None,
                            annihilated=bool(why and sch.annihilated(x, Tm, why.split(":")[0])))
        if want and not got:
            raise Violation("%s REJECTED a well-formed triple that satisfies the verification equation%s" % (
                what, " (by raising an error)" if c1.errored else ""), kind="completeness-mutated", mutation=labels[0],
                accepted=False, errored=bool(c1.errored))
        labels.append("verdict:accept" if got else "verdict:reject")
        return True, labels
    return run


def _first(*reasons):
    for r in reasons:
        if r:
            return r
    return None


def wf_g1(x, name, P, nonzero=False):
    if P is None:
        return "%s:identity" % name if nonzero else None
    r = in_g1(x, P)
    return "%s:%s" % (name, r) if r else None


def wf_g2(x, name, Q, nonzero=False):
    if Q is None:
        return "%s:identity" % name if nonzero else None
    r = in_g2(x, Q)
    return "%s:%s" % (name, r) if r else None


def wf_gt(x, name, a):
    r = in_gt(x, a)
    return "%s:%s" % (name, r) if r else None


def eq_products(env, cfg, x, case, products):
    """products: list of pair lists; every product must be 1 in GT. One program, one pc_map_sim per product."""
    def build(p):
        return [pair_product(p, x, pr) for pr in products]
    res, slots = run_prog(env, cfg, x, build, case["poison"] ^ 0x5A)
    for c in res.calls:
        chk(c, "pc_map_sim (harness equation)")
    return all(unity(x, res, s, "pc_map_sim") for s in slots)


# ====================================================================================== BLS / BB / ZSS

class BLS(Scheme):
    """Boneh-Lynn-Shacham: pk = [d]g2, sig = [d]H(m) with H = g1_map; valid iff e(sig, g2) = e(H(m), pk), sig in G1,
    pk in G2 \\ {O} (the source's own 'adversarial' test and IETF KeyValidate exclude the identity key)."""
    name = "bls"
    COMPS = [("sig", "g1", "sig"), ("msg", "msg", "msg"), ("pk", "g2", "pk")]

    def params(self, x, draw):
        return dict(msg=draw(msg_strategy()), msg2=draw(msg_strategy()))

    def labels(self, x, case):
        return ["msglen:%d" % len(case["msg"])]

    def honest(self, env, cfg, x, inf, case):
        msgs = [case["msg"], case["msg2"] if case["msg2"] != case["msg"] else case["msg"] + b"\x01"]

        def build(p):
            d = [p.bn(0), p.bn(0)]
            q = [s_g2(p, x, None), s_g2(p, x, None)]
            s = [s_g1(p, x, None) for _ in range(3)]
            m = [p.buf(mm) for mm in msgs]
            cs = [call(p, "cp_bls_gen", d[0], q[0]), call(p, "cp_bls_gen", d[1], q[1]),
                  call(p, "cp_bls_sig", s[0], m[0], d[0]), call(p, "cp_bls_sig", s[1], m[1], d[0]),
                  call(p, "cp_bls_sig", s[2], m[0], d[1])]
            for v in q + s:
                p.dump(v)
            return cs, q, s
        res, (cs, q, s) = run_prog(env, cfg, x, build, case["poison"], case["seed"])
        for i in cs:
            ok_rets(res.calls[i], "cp_bls_gen/sig")
        Q = [d_g2(x, res, v, "cp_bls_gen pk") for v in q]
        S = [d_g1(x, res, v, "cp_bls_sig") for v in s]
        T = dict(sig=S[0], msg=msgs[0], pk=Q[0])
        return T, [dict(sig=S[1], msg=msgs[1], pk=Q[0]), dict(sig=S[2], msg=msgs[0], pk=Q[1])]

    def lib_ver(self, p, x, T):
        return call(p, "cp_bls_ver", s_g1(p, x, T["sig"]), p.buf(T["msg"]), s_g2(p, x, T["pk"]))

    def verdict(self, c):
        return c.rets[0] == 1

    def wf(self, x, inf, T):
        return _first(wf_g1(x, "sig", T["sig"]), wf_g2(x, "pk", T["pk"], nonzero=True))

    def equation(self, env, cfg, x, inf, T, case):
        E = x.base.E

        def build(p):
            h = s_g1(p, x, None)
            call(p, "g1_map", h, p.buf(T["msg"]))
            p.dump(h)
            return h
        res, h = run_prog(env, cfg, x, build, case["poison"] ^ 0x33)
        chk(res.calls[0], "g1_map (harness equation)")
        H = d_g1(x, res, h, "g1_map")
        if in_g1(x, H):
            raise Violation("g1_map produced a point outside G1 (reference check)", H=H)
        return eq_products(env, cfg, x, case, [[(T["sig"], x.G2), (E.neg(H), T["pk"])]])

    def recipes(self):
        def degenerate(x, T, alts, aux):
            # e(O, g2) = e(H(m), O) = 1 for every message: only the exclusion of the identity key stops this forgery
            T["sig"], T["pk"] = None, None
        return Scheme.recipes(self) + [("identity-key-and-signature", degenerate)]


class BBS(Scheme):
    """Boneh-Boyen short signature: pk = ([d]g2, z = e(g1, g2)), sig = [1/(m+d)]g1; valid iff e(sig, pk + [m]g2) = z with
    sig in G1 \\ {O} (a BB signature is never the identity), pk in G2, z in GT; m = msg as integer (hash flag) or
    H(msg), reduced mod r."""
    name = "bbs"
    COMPS = [("sig", "g1", "sig"), ("msg", "msg", "msg"), ("hash", "flag", "msg"), ("pk", "g2", "pk"), ("z", "gt", "pk")]
    G1SIG = True

    def params(self, x, draw):
        h = draw(st.integers(0, 1))
        ms = msg_strategy() if not h else st.sampled_from([0, 1, 20, 31, 32, 33, 64]).flatmap(
            lambda n: st.binary(min_size=n, max_size=n))
        return dict(msg=draw(ms), msg2=draw(ms), hash=h)

    def labels(self, x, case):
        return ["msglen:%d" % len(case["msg"]), "hashflag:%d" % case["hash"]]

    def _slots(self, p, x):
        return (s_g2(p, x, None), s_g1(p, x, None)) if self.G1SIG else (s_g1(p, x, None), s_g2(p, x, None))

    def honest(self, env, cfg, x, inf, case):
        msgs = [case["msg"], case["msg2"] if case["msg2"] != case["msg"] else case["msg"] + b"\x01"]
        nm = "cp_%s_" % self.name

        def build(p):
            d = [p.bn(0), p.bn(0)]
            q, s, z = [], [], []
            for _ in range(2):
                a, b = self._slots(p, x)
                q.append(a)
                z.append(s_gt(p, x, x.F12.one))
            for _ in range(3):
                a, b = self._slots(p, x)
                s.append(b)
            m = [p.buf(mm) for mm in msgs]
            cs = [call(p, nm + "gen", d[0], q[0], z[0]), call(p, nm + "gen", d[1], q[1], z[1]),
                  call(p, nm + "sig", s[0], m[0], case["hash"], d[0]), call(p, nm + "sig", s[1], m[1], case["hash"], d[0]),
                  call(p, nm + "sig", s[2], m[0], case["hash"], d[1])]
            for v in q + s + z:
                p.dump(v)
            return cs, q, s, z
        res, (cs, q, s, z) = run_prog(env, cfg, x, build, case["poison"], case["seed"])
        for i in cs:
            ok_rets(res.calls[i], nm + "gen/sig")
        dq, ds = (d_g2, d_g1) if self.G1SIG else (d_g1, d_g2)
        Q = [dq(x, res, v, nm + "gen pk") for v in q]
        S = [ds(x, res, v, nm + "sig") for v in s]
        Z = [d_gt(x, res, v, nm + "gen z") for v in z]
        T = dict(sig=S[0], msg=msgs[0], hash=case["hash"], pk=Q[0], z=Z[0])
        return T, [dict(sig=S[1], msg=msgs[1], hash=case["hash"], pk=Q[0], z=Z[0]),
                   dict(sig=S[2], msg=msgs[0], hash=case["hash"], pk=Q[1], z=Z[1])]

    def lib_ver(self, p, x, T):
        if self.G1SIG:
            s, q = s_g1(p, x, T["sig"]), s_g2(p, x, T["pk"])
        else:
            s, q = s_g2(p, x, T["sig"]), s_g1(p, x, T["pk"])
        return call(p, "cp_%s_ver" % self.name, s, p.buf(T["msg"]), T["hash"], q, s_gt(p, x, T["z"]))

    def verdict(self, c):
        return c.rets[0] == 1

    def wf(self, x, inf, T):
        if self.G1SIG:
            return _first(wf_g1(x, "sig", T["sig"], nonzero=True), wf_g2(x, "pk", T["pk"]), wf_gt(x, "z", T["z"]))
        return _first(wf_g2(x, "sig", T["sig"], nonzero=True), wf_g1(x, "pk", T["pk"]), wf_gt(x, "z", T["z"]))

    def equation(self, env, cfg, x, inf, T, case):
        m = hash_scalar(x, inf, T["msg"], T["hash"])
        if self.G1SIG:
            P, Q = T["sig"], x.E2c.add(T["pk"], g2_lin(x, [(m, x.G2)]))
        else:
            P, Q = x.base.E.add(T["pk"], g1_lin(x, [(m, x.G1)])), T["sig"]

        def build(p):
            sg = s_gt(p, x, x.F12.one)
            call(p, "pc_map", sg, s_g1(p, x, P), s_g2(p, x, Q))
            p.dump(sg)
            return sg
        res, sg = run_prog(env, cfg, x, build, case["poison"] ^ 0x5A)
        chk(res.calls[0], "pc_map (harness equation)")
        return x.F12.eq(d_gt(x, res, sg, "pc_map"), T["z"])

    def recipes(self):
        def scaled(x, T, alts, aux):
            # (sig, z) -> ([t]sig, z^t) satisfies the same equation with a foreign (but well-formed) z
            t = 2 + aux % (x.r - 2)
            E = x.base.E if self.G1SIG else x.E2c
            T["sig"] = E.mul(t, T["sig"])
            T["z"] = x.F12.pow(T["z"], t)

        def degenerate(x, T, alts, aux):
            # e(O, .) = 1: with z = 1 the equation holds for every message; the signature must not be the identity
            T["sig"], T["z"] = None, x.F12.one
        return Scheme.recipes(self) + [("scaled-signature-and-z", scaled), ("identity-signature-and-unit-z", degenerate)]


class ZSS(BBS):
    """Zhang-Safavi-Naini-Susilo: pk = ([d]g1, z = e(g1, g2)), sig = [1/(H(m)+d)]g2; valid iff e(pk + [m]g1, sig) = z,
    sig in G2 \\ {O}, pk in G1, z in GT."""
    name = "zss"
    COMPS = [("sig", "g2", "sig"), ("msg", "msg", "msg"), ("hash", "flag", "msg"), ("pk", "g1", "pk"), ("z", "gt", "pk")]
    G1SIG = False


# ====================================================================================== Camenisch-Lysyanskaya

def bytes_scalar(x, msg):
    """CL signatures read the message bytes as a big-endian integer and reduce it mod r (bn_read_bin + bn_mod)"""
    return int.from_bytes(msg, "big") % x.r


def _distinct(a, b):
    return b if b != a else a + b"\x01"


class CLS(Scheme):
    """Camenisch-Lysyanskaya scheme A: pk = (X = [x]g2, Y = [y]g2), sig = (a, b = [y]a, c = [x + mxy]a); valid iff
    e(a, Y) = e(b, g2) and e(a + [m]b, X) = e(c, g2), with a, b, c in G1 \\ {O} (source: identity components are the
    documented 'adversarial signature')."""
    name = "cls"
    COMPS = [("a", "g1", "sig"), ("b", "g1", "sig"), ("c", "g1", "sig"), ("msg", "msg", "msg"), ("X", "g2", "pk"),
             ("Y", "g2", "pk")]

    def params(self, x, draw):
        return dict(msg=draw(msg_strategy()), msg2=draw(msg_strategy()))

    def labels(self, x, case):
        return ["msglen:%d" % len(case["msg"])]

    def honest(self, env, cfg, x, inf, case):
        msgs = [case["msg"], _distinct(case["msg"], case["msg2"])]

        def build(p):
            sk = [(p.bn(0), p.bn(0)) for _ in range(2)]
            pk = [(s_g2(p, x, None), s_g2(p, x, None)) for _ in range(2)]
            sg = [tuple(s_g1(p, x, None) for _ in range(3)) for _ in range(3)]
            m = [p.buf(mm) for mm in msgs]
            cs = [call(p, "cp_cls_gen", sk[i][0], sk[i][1], pk[i][0], pk[i][1]) for i in range(2)]
            for (k, mi), s in zip([(0, 0), (0, 1), (1, 0)], sg):
                cs.append(call(p, "cp_cls_sig", s[0], s[1], s[2], m[mi], sk[k][0], sk[k][1]))
            for t in pk + sg:
                for v in t:
                    p.dump(v)
            return cs, pk, sg
        res, (cs, pk, sg) = run_prog(env, cfg, x, build, case["poison"], case["seed"])
        for i in cs:
            ok_rets(res.calls[i], "cp_cls_gen/sig")
        PK = [[d_g2(x, res, v, "cp_cls_gen") for v in t] for t in pk]
        SG = [[d_g1(x, res, v, "cp_cls_sig") for v in t] for t in sg]

        def mk(s, m, k):
            return dict(a=s[0], b=s[1], c=s[2], msg=m, X=k[0], Y=k[1])
        return mk(SG[0], msgs[0], PK[0]), [mk(SG[1], msgs[1], PK[0]), mk(SG[2], msgs[0], PK[1])]

    def lib_ver(self, p, x, T):
        return call(p, "cp_cls_ver", s_g1(p, x, T["a"]), s_g1(p, x, T["b"]), s_g1(p, x, T["c"]), p.buf(T["msg"]),
                    s_g2(p, x, T["X"]), s_g2(p, x, T["Y"]))

    def verdict(self, c):
        return c.rets[0] == 1

    def wf(self, x, inf, T):
        return _first(*[wf_g1(x, n, T[n], nonzero=True) for n in "abc"], wf_g2(x, "X", T["X"]), wf_g2(x, "Y", T["Y"]))

    def equation(self, env, cfg, x, inf, T, case):
        E = x.base.E
        m = bytes_scalar(x, T["msg"])
        return eq_products(env, cfg, x, case, [
            [(T["a"], T["Y"]), (E.neg(T["b"]), x.G2)],
            [(E.add(T["a"], g1_lin(x, [(m, T["b"])])), T["X"]), (E.neg(T["c"]), x.G2)]])

    def recipes(self):
        def rerand(x, T, alts, aux):
            t = 2 + aux % (x.r - 2)
            for n, typ, role in self.COMPS:
                if role == "sig":
                    v = T[n]
                    T[n] = [x.base.E.mul(t, q) for q in v] if isinstance(v, list) else x.base.E.mul(t, v)
        return Scheme.recipes(self) + [("rerandomised-signature", rerand)]


class CLI(CLS):
    """Camenisch-Lysyanskaya scheme B (signature on a committed message with opening r): pk = (X, Y, Z), sig = (a, A = [z]a,
    b = [y]a, B = [y]A, c = [x + xym]a + [xyr]A); valid iff e(a, Z) = e(A, g2), e(a, Y) = e(b, g2), e(A, Y) = e(B, g2),
    e(a + [m]b + [r]B, X) = e(c, g2), all five components in G1 \\ {O}."""
    name = "cli"
    COMPS = [("a", "g1", "sig"), ("A", "g1", "sig"), ("b", "g1", "sig"), ("B", "g1", "sig"), ("c", "g1", "sig"),
             ("msg", "msg", "msg"), ("rr", "sc", "msg"), ("X", "g2", "pk"), ("Y", "g2", "pk"), ("Z", "g2", "pk")]

    def params(self, x, draw):
        return dict(msg=draw(msg_strategy()), msg2=draw(msg_strategy()), rr=draw(scalar_msg(x)))

    def honest(self, env, cfg, x, inf, case):
        msgs = [case["msg"], _distinct(case["msg"], case["msg2"])]

        def build(p):
            sk = [tuple(p.bn(0) for _ in range(3)) for _ in range(2)]
            pk = [tuple(s_g2(p, x, None) for _ in range(3)) for _ in range(2)]
            sg = [tuple(s_g1(p, x, None) for _ in range(5)) for _ in range(3)]
            m = [p.buf(mm) for mm in msgs]
            rr = p.bn(case["rr"])
            cs = [call(p, "cp_cli_gen", *sk[i], *pk[i]) for i in range(2)]
            for (k, mi), s in zip([(0, 0), (0, 1), (1, 0)], sg):
                cs.append(call(p, "cp_cli_sig", *s, m[mi], rr, *sk[k]))
            for t in pk + sg:
                for v in t:
                    p.dump(v)
            return cs, pk, sg
        res, (cs, pk, sg) = run_prog(env, cfg, x, build, case["poison"], case["seed"])
        for i in cs:
            ok_rets(res.calls[i], "cp_cli_gen/sig")
        PK = [[d_g2(x, res, v, "cp_cli_gen") for v in t] for t in pk]
        SG = [[d_g1(x, res, v, "cp_cli_sig") for v in t] for t in sg]

        def mk(s, m, k):
            return dict(a=s[0], A=s[1], b=s[2], B=s[3], c=s[4], msg=m, rr=case["rr"], X=k[0], Y=k[1], Z=k[2])
        return mk(SG[0], msgs[0], PK[0]), [mk(SG[1], msgs[1], PK[0]), mk(SG[2], msgs[0], PK[1])]

    def labels(self, x, case):
        return ["msglen:%d" % len(case["msg"]), "opening:%s" % (">=r" if case["rr"] >= x.r else "<r")]

    def lib_ver(self, p, x, T):
        return call(p, "cp_cli_ver", *[s_g1(p, x, T[n]) for n in ("a", "A", "b", "B", "c")], p.buf(T["msg"]), p.bn(T["rr"]),
                    *[s_g2(p, x, T[n]) for n in "XYZ"])

    def wf(self, x, inf, T):
        return _first(*[wf_g1(x, n, T[n], nonzero=True) for n in ("a", "A", "b", "B", "c")],
                      *[wf_g2(x, n, T[n]) for n in "XYZ"])

    def equation(self, env, cfg, x, inf, T, case):
        E = x.base.E
        m = bytes_scalar(x, T["msg"])
        g = x.G2
        return eq_products(env, cfg, x, case, [
            [(T["a"], T["Z"]), (E.neg(T["A"]), g)],
            [(T["a"], T["Y"]), (E.neg(T["b"]), g)],
            [(T["A"], T["Y"]), (E.neg(T["B"]), g)],
            [(E.add(T["a"], g1_lin(x, [(m, T["b"]), (T["rr"], T["B"])])), T["X"]), (E.neg(T["c"]), g)]])


class CLB(CLS):
    """Camenisch-Lysyanskaya scheme C (block of l messages): pk = (X, Y, Z_1..Z_{l-1}), sig = (a, A_i = [z_i]a, b = [y]a,
    B_i = [y]A_i, c); valid iff e(a, Z_i) = e(A_i, g2), e(a, Y) = e(b, g2), e(A_i, Y) = e(B_i, g2) and
    e(a + [m_0]b + sum [m_i]B_i, X) = e(c, g2), every component in G1 \\ {O}."""
    name = "clb"
    COMPS = [("a", "g1", "sig"), ("A", "g1", "sig"), ("b", "g1", "sig"), ("B", "g1", "sig"), ("c", "g1", "sig"),
             ("msgs", "msg", "msg"), ("X", "g2", "pk"), ("Y", "g2", "pk"), ("Z", "g2", "pk")]

    def params(self, x, draw):
        l = draw(st.sampled_from([1, 2, 2, 3, 4]))
        return dict(l=l, msgs=[draw(msg_strategy()) for _ in range(l)], msg2=draw(msg_strategy()))

    def labels(self, x, case):
        return ["block:l=%d" % case["l"]]

    def honest(self, env, cfg, x, inf, case):
        l = case["l"]
        m1 = list(case["msgs"])
        m2 = list(m1)
        m2[-1] = _distinct(m1[-1], case["msg2"])

        def build(p):
            sk = [(p.bn(0), p.bn(0), p.bnv([0] * (l - 1))) for _ in range(2)]
            pk = [(s_g2(p, x, None), s_g2(p, x, None), s_g2v(p, x, [None] * (l - 1))) for _ in range(2)]
            sg = [(s_g1(p, x, None), s_g1v(p, x, [None] * (l - 1)), s_g1(p, x, None), s_g1v(p, x, [None] * (l - 1)),
                   s_g1(p, x, None)) for _ in range(3)]
            mb = [[p.buf(mm) for mm in m1], [p.buf(mm) for mm in m2]]
            cs = [call(p, "cp_clb_gen", sk[i][0], sk[i][1], sk[i][2], pk[i][0], pk[i][1], pk[i][2], l) for i in range(2)]
            for (k, mi), s in zip([(0, 0), (0, 1), (1, 0)], sg):
                cs.append(call(p, "cp_clb_sig", *s, sk[k][0], sk[k][1], sk[k][2], l, *mb[mi]))
            for t in pk + sg:
                for v in t:
                    p.dump(v)
            return cs, pk, sg
        res, (cs, pk, sg) = run_prog(env, cfg, x, build, case["poison"], case["seed"])
        for i in cs:
            ok_rets(res.calls[i], "cp_clb_gen/sig")

        def mk(s, m, k):
            return dict(a=d_g1(x, res, s[0], "clb a"), A=d_g1v(x, res, s[1], "clb A")[:l - 1], b=d_g1(x, res, s[2], "clb b"),
                        B=d_g1v(x, res, s[3], "clb B")[:l - 1], c=d_g1(x, res, s[4], "clb c"), msgs=m,
                        X=d_g2(x, res, k[0], "clb X"), Y=d_g2(x, res, k[1], "clb Y"), Z=d_g2v(x, res, k[2], "clb Z")[:l - 1])
        return mk(sg[0], m1, pk[0]), [mk(sg[1], m2, pk[0]), mk(sg[2], m1, pk[1])]

    def lib_ver(self, p, x, T):
        l = len(T["msgs"])
        return call(p, "cp_clb_ver", s_g1(p, x, T["a"]), s_g1v(p, x, T["A"]), s_g1(p, x, T["b"]), s_g1v(p, x, T["B"]),
                    s_g1(p, x, T["c"]), s_g2(p, x, T["X"]), s_g2(p, x, T["Y"]), s_g2v(p, x, T["Z"]), l,
                    *[p.buf(m) for m in T["msgs"]])

    def wf(self, x, inf, T):
        return _first(*[wf_g1(x, n, T[n], nonzero=True) for n in "abc"],
                      *[wf_g1(x, "A[%d]" % i, v, nonzero=True) for i, v in enumerate(T["A"])],
                      *[wf_g1(x, "B[%d]" % i, v, nonzero=True) for i, v in enumerate(T["B"])],
                      wf_g2(x, "X", T["X"]), wf_g2(x, "Y", T["Y"]), *[wf_g2(x, "Z[%d]" % i, v) for i, v in enumerate(T["Z"])])

    def recipes(self):
        def recombine(x, T, alts, aux):
            """linear recombination across blocks (the classical attack on a batched check without random exponents):
            B_i += t B_j, B_j *= (1 - t) keeps sum B_i, and the message of block j is solved so that sum m_i B_i is
            kept as well; every per-block equation e(A_i, Y) = e(B_i, g) is broken, so the triple is invalid"""
            n = len(T["B"])
            if n < 2:
                return
            E = x.base.E
            i, j = aux % n, (aux // n) % n
            if i == j:
                j = (i + 1) % n
            t = [2, 3, x.r - 1, 2 + (aux >> 16) % (x.r - 3)][(aux >> 8) % 4]
            if (1 - t) % x.r == 0:
                t = 2
            ms = [bytes_scalar(x, m) for m in T["msgs"]]
            B = list(T["B"])
            B[i] = E.add(B[i], E.mul(t, B[j]))
            B[j] = E.mul((1 - t) % x.r, B[j])
            T["B"] = B
            mj = (ms[j + 1] - t * ms[i + 1]) * pow(1 - t, -1, x.r) % x.r
            msgs = list(T["msgs"])
            msgs[j + 1] = mj.to_bytes(max(1, (mj.bit_length() + 7) // 8), "big")
            T["msgs"] = msgs
        return CLS.recipes(self) + [("block-recombination", recombine)] * 3

    def equation(self, env, cfg, x, inf, T, case):
        E = x.base.E
        g = x.G2
        ms = [bytes_scalar(x, m) for m in T["msgs"]]
        prods = [[(T["a"], T["Y"]), (E.neg(T["b"]), g)]]
        for Ai, Bi, Zi in zip(T["A"], T["B"], T["Z"]):
            prods.append([(T["a"], Zi), (E.neg(Ai), g)])
            prods.append([(Ai, T["Y"]), (E.neg(Bi), g)])
        lin = E.add(T["a"], g1_lin(x, [(ms[0], T["b"])] + [(mi, Bi) for mi, Bi in zip(ms[1:], T["B"])]))
        prods.append([(lin, T["X"]), (E.neg(T["c"]), g)])
        return eq_products(env, cfg, x, case, prods)


# ====================================================================================== Pointcheval-Sanders

class PSS(Scheme):
    """Pointcheval-Sanders: pk = (g, X = [x]g, Y = [y]g) in G2, sig = (s1, s2 = [x + my]s1); valid iff s1 != O and
    e(s1, X + [m]Y) = e(s2, g); s1, s2 in G1, g, X, Y in G2, m in Z (reduced mod r by signer and verifier)."""
    name = "pss"
    COMPS = [("s1", "g1", "sig"), ("s2", "g1", "sig"), ("m", "sc", "msg"), ("g", "g2", "pk"), ("X", "g2", "pk"),
             ("Y", "g2", "pk")]

    def params(self, x, draw):
        return dict(m=draw(scalar_msg(x)), m2=draw(scalar_msg(x)))

    def labels(self, x, case):
        m = case["m"]
        return ["scalar:%s" % ("0" if m == 0 else "1" if m == 1 else "r-1" if m == x.r - 1 else ">=r" if m >= x.r else "random")]

    def honest(self, env, cfg, x, inf, case):
        ms = [case["m"], case["m2"] if case["m2"] % x.r != case["m"] % x.r else case["m"] + 1]

        def build(p):
            sk = [(p.bn(0), p.bn(0)) for _ in range(2)]
            pk = [tuple(s_g2(p, x, None) for _ in range(3)) for _ in range(2)]
            sg = [(s_g1(p, x, None), s_g1(p, x, None)) for _ in range(3)]
            mb = [p.bn(m) for m in ms]
            cs = [call(p, "cp_pss_gen", sk[i][0], sk[i][1], *pk[i]) for i in range(2)]
            for (k, mi), s in zip([(0, 0), (0, 1), (1, 0)], sg):
                cs.append(call(p, "cp_pss_sig", s[0], s[1], mb[mi], sk[k][0], sk[k][1]))
            for t in pk + sg:
                for v in t:
                    p.dump(v)
            return cs, pk, sg
        res, (cs, pk, sg) = run_prog(env, cfg, x, build, case["poison"], case["seed"])
        for i in cs:
            ok_rets(res.calls[i], "cp_pss_gen/sig")
        PK = [[d_g2(x, res, v, "cp_pss_gen") for v in t] for t in pk]
        SG = [[d_g1(x, res, v, "cp_pss_sig") for v in t] for t in sg]

        def mk(s, m, k):
            return dict(s1=s[0], s2=s[1], m=m, g=k[0], X=k[1], Y=k[2])
        return mk(SG[0], ms[0], PK[0]), [mk(SG[1], ms[1], PK[0]), mk(SG[2], ms[0], PK[1])]

    def lib_ver(self, p, x, T):
        return call(p, "cp_pss_ver", s_g1(p, x, T["s1"]), s_g1(p, x, T["s2"]), p.bn(T["m"]),
                    *[s_g2(p, x, T[n]) for n in "gXY"])

    def verdict(self, c):
        return c.rets[0] == 1

    def wf(self, x, inf, T):
        return _first(wf_g1(x, "s1", T["s1"], nonzero=True), wf_g1(x, "s2", T["s2"]), *[wf_g2(x, n, T[n]) for n in "gXY"])

    def equation(self, env, cfg, x, inf, T, case):
        Q = x.E2c.add(T["X"], g2_lin(x, [(T["m"], T["Y"])]))
        return eq_products(env, cfg, x, case, [[(T["s1"], Q), (x.base.E.neg(T["s2"]), T["g"])]])

    def annihilated(self, x, T, comp):
        return comp == "Y" and T["m"] % x.r == 0

    def recipes(self):
        def rerand(x, T, alts, aux):
            t = 2 + aux % (x.r - 2)
            T["s1"], T["s2"] = x.base.E.mul(t, T["s1"]), x.base.E.mul(t, T["s2"])

        def degenerate(x, T, alts, aux):
            # the classical trivial forgery: (O, O) satisfies the pairing equation for every message
            T["s1"], T["s2"] = None, None
        return Scheme.recipes(self) + [("rerandomised-signature", rerand), ("identity-pair", degenerate)]


class PSB(PSS):
    """Pointcheval-Sanders for a block of l messages: pk = (g, X, Y_1..Y_l), valid iff s1 != O and
    e(s1, X + sum [m_i]Y_i) = e(s2, g)."""
    name = "psb"
    COMPS = [("s1", "g1", "sig"), ("s2", "g1", "sig"), ("ms", "sc", "msg"), ("g", "g2", "pk"), ("X", "g2", "pk"),
             ("Y", "g2", "pk")]

    def params(self, x, draw):
        l = draw(st.sampled_from([1, 2, 2, 3, 5]))
        return dict(l=l, ms=[draw(scalar_msg(x)) for _ in range(l)], m2=draw(scalar_msg(x)))

    def labels(self, x, case):
        return ["block:l=%d" % case["l"], "scalar:%s" % (">=r" if any(m >= x.r for m in case["ms"]) else "<r")]

    def honest(self, env, cfg, x, inf, case):
        l = case["l"]
        m1 = list(case["ms"])
        m2 = list(m1)
        m2[-1] = case["m2"] if case["m2"] % x.r != m1[-1] % x.r else m1[-1] + 1

        def build(p):
            sk = [(p.bn(0), p.bnv([0] * l)) for _ in range(2)]
            pk = [(s_g2(p, x, None), s_g2(p, x, None), s_g2v(p, x, [None] * l)) for _ in range(2)]
            sg = [(s_g1(p, x, None), s_g1(p, x, None)) for _ in range(3)]
            mb = [p.bnv(m1), p.bnv(m2)]
            cs = [call(p, "cp_psb_gen", sk[i][0], sk[i][1], pk[i][0], pk[i][1], pk[i][2], l) for i in range(2)]
            for (k, mi), s in zip([(0, 0), (0, 1), (1, 0)], sg):
                cs.append(call(p, "cp_psb_sig", s[0], s[1], mb[mi], sk[k][0], sk[k][1], l))
            for t in pk + sg:
                for v in t:
                    p.dump(v)
            return cs, pk, sg
        res, (cs, pk, sg) = run_prog(env, cfg, x, build, case["poison"], case["seed"])
        for i in cs:
            ok_rets(res.calls[i], "cp_psb_gen/sig")

        def mk(s, m, k):
            return dict(s1=d_g1(x, res, s[0], "psb s1"), s2=d_g1(x, res, s[1], "psb s2"), ms=m, g=d_g2(x, res, k[0], "psb g"),
                        X=d_g2(x, res, k[1], "psb X"), Y=d_g2v(x, res, k[2], "psb Y")[:l])
        return mk(sg[0], m1, pk[0]), [mk(sg[1], m2, pk[0]), mk(sg[2], m1, pk[1])]

    def lib_ver(self, p, x, T):
        return call(p, "cp_psb_ver", s_g1(p, x, T["s1"]), s_g1(p, x, T["s2"]), p.bnv(T["ms"]), s_g2(p, x, T["g"]),
                    s_g2(p, x, T["X"]), s_g2v(p, x, T["Y"]), len(T["ms"]))

    def wf(self, x, inf, T):
        return _first(wf_g1(x, "s1", T["s1"], nonzero=True), wf_g1(x, "s2", T["s2"]), wf_g2(x, "g", T["g"]),
                      wf_g2(x, "X", T["X"]), *[wf_g2(x, "Y[%d]" % i, v) for i, v in enumerate(T["Y"])])

    def annihilated(self, x, T, comp):
        return comp.startswith("Y[") and T["ms"][int(comp[2:-1])] % x.r == 0

    def equation(self, env, cfg, x, inf, T, case):
        Q = x.E2c.add(T["X"], g2_lin(x, list(zip(T["ms"], T["Y"]))))
        return eq_products(env, cfg, x, case, [[(T["s1"], Q), (x.base.E.neg(T["s2"]), T["g"])]])


# ====================================================================================== multi-party PS

class MPSS(Scheme):
    """Two-party Pointcheval-Sanders on additive shares: a, (b_0, b_1), (m_0, m_1); public key (h, X, Y) after the
    broadcast step. The verification protocol outputs e in GT, e = 1 meaning 'valid'. Defining equation (the source's own
    cross-check against cp_pss_ver): a != O and e(a, X + [m_0 + m_1]Y) = e(b_0 + b_1, h)."""
    name = "mpss"
    needs_mpc = True
    COMPS = [("a", "g1", "sig"), ("b", "g1", "sig"), ("m", "sc", "msg"), ("h", "g2", "pk"), ("X", "g2", "pk"), ("Y", "g2", "pk")]
    L = None

    def params(self, x, draw):
        return dict(m=[draw(scalar_msg(x)), draw(scalar_msg(x))], m2=draw(scalar_msg(x)))

    def labels(self, x, case):
        return ["scalar:%s" % (">=r" if any(v >= x.r for v in case["m"]) else "<r")]

    def honest(self, env, cfg, x, inf, case):
        m1 = list(case["m"])
        m2 = [m1[0], case["m2"] if (case["m2"] - m1[1]) % x.r else m1[1] + 1]

        def build(p):
            sk = [(p.bnv([0, 0]), p.bnv([0, 0])) for _ in range(2)]
            pk = [(s_g2(p, x, None), s_g2v(p, x, [None] * 2), s_g2v(p, x, [None] * 2)) for _ in range(2)]
            sg = [(s_g1(p, x, None), s_g1v(p, x, [None] * 2)) for _ in range(3)]
            mb = [p.bnv(m1), p.bnv(m2)]
            cs = []
            for i in range(2):
                cs.append(call(p, "cp_mpss_gen", sk[i][0], sk[i][1], pk[i][0], pk[i][1], pk[i][2]))
                cs.append(call(p, "cp_mpss_bct", pk[i][1], pk[i][2]))
            for (k, mi), s in zip([(0, 0), (0, 1), (1, 0)], sg):
                cs.append(call(p, "cp_mpss_sig", s[0], s[1], mb[mi], sk[k][0], sk[k][1]))
            for t in pk + sg:
                for v in t:
                    p.dump(v)
            return cs, pk, sg
        res, (cs, pk, sg) = run_prog(env, cfg, x, build, case["poison"], case["seed"])
        for i in cs:
            ok_rets(res.calls[i], "cp_mpss_gen/bct/sig")

        def mk(s, m, k):
            X = d_g2v(x, res, k[1], "mpss X")
            Y = d_g2v(x, res, k[2], "mpss Y")
            if X[0] != X[1] or Y[0] != Y[1]:
                raise Violation("cp_mpss_bct did not replicate the opened public key")
            return dict(a=d_g1(x, res, s[0], "mpss a"), b=d_g1v(x, res, s[1], "mpss b")[:2], m=m,
                        h=d_g2(x, res, k[0], "mpss h"), X=X[0], Y=Y[0])
        return mk(sg[0], m1, pk[0]), [mk(sg[1], m2, pk[0]), mk(sg[2], m1, pk[1])]

    def lib_ver(self, p, x, T):
        return call(p, "cp_mpss_ver", s_gt(p, x, x.F12.one), s_g1(p, x, T["a"]), s_g1v(p, x, T["b"]), p.bnv(T["m"]),
                    s_g2(p, x, T["h"]), s_g2(p, x, T["X"]), s_g2(p, x, T["Y"]))

    def verdict(self, c):
        return c.rets[0] == 0 and c.rets[1] == 1

    def wf(self, x, inf, T):
        return _first(wf_g1(x, "a", T["a"], nonzero=True), wf_g1(x, "b[0]", T["b"][0]), wf_g1(x, "b[1]", T["b"][1]),
                      *[wf_g2(x, n, T[n]) for n in "hXY"])

    def equation(self, env, cfg, x, inf, T, case):
        E = x.base.E
        Q = x.E2c.add(T["X"], g2_lin(x, [(T["m"][0] + T["m"][1], T["Y"])]))
        return eq_products(env, cfg, x, case, [[(T["a"], Q), (E.neg(E.add(T["b"][0], T["b"][1])), T["h"])]])

    def annihilated(self, x, T, comp):
        return comp == "Y" and sum(T["m"]) % x.r == 0

    def recipes(self):
        E = lambda x: x.base.E          # noqa: E731

        def rerand(x, T, alts, aux):
            t = 2 + aux % (x.r - 2)
            T["a"] = E(x).mul(t, T["a"])
            T["b"] = [E(x).mul(t, v) for v in T["b"]]

        def reshare_sig(x, T, alts, aux):
            D = E(x).mul(2 + aux % (x.r - 2), x.G1)
            T["b"] = [E(x).add(T["b"][0], D), E(x).sub(T["b"][1], D)]

        def degenerate(x, T, alts, aux):
            T["a"], T["b"] = None, [None, None]
        return Scheme.recipes(self) + [("rerandomised-signature", rerand), ("reshared-signature", reshare_sig),
                                      ("identity-pair", degenerate)]


class MPSB(MPSS):
    """Two-party Pointcheval-Sanders for blocks of l messages (shares m[j][0], m[j][1]); public key (h, X, Y_1..Y_l);
    a != O and e(a, X + sum_j [m_j0 + m_j1]Y_j) = e(b_0 + b_1, h). Verified without the secret shares (v = NULL)."""
    name = "mpsb"
    COMPS = [("a", "g1", "sig"), ("b", "g1", "sig"), ("m", "sc", "msg"), ("h", "g2", "pk"), ("X", "g2", "pk"), ("Y", "g2", "pk")]

    def params(self, x, draw):
        l = draw(st.sampled_from([1, 2, 3]))
        return dict(l=l, m=[[draw(scalar_msg(x)), draw(scalar_msg(x))] for _ in range(l)], m2=draw(scalar_msg(x)))

    def labels(self, x, case):
        return ["block:l=%d" % case["l"]]

    def honest(self, env, cfg, x, inf, case):
        l = case["l"]
        m1 = [list(v) for v in case["m"]]
        m2 = [list(v) for v in m1]
        m2[-1][1] = case["m2"] if (case["m2"] - m1[-1][1]) % x.r else m1[-1][1] + 1
        flat = lambda mm: [v for row in mm for v in row]        # noqa: E731

        def build(p):
            sk = [(p.bnv([0, 0]), p.bnv([0] * (2 * l))) for _ in range(2)]
            pk = [(s_g2(p, x, None), s_g2v(p, x, [None] * 2), s_g2v(p, x, [None] * (2 * l))) for _ in range(2)]
            sg = [(s_g1(p, x, None), s_g1v(p, x, [None] * 2)) for _ in range(3)]
            mb = [p.bnv(flat(m1)), p.bnv(flat(m2))]
            cs = []
            for i in range(2):
                cs.append(call(p, "cp_mpsb_gen", sk[i][0], sk[i][1], pk[i][0], pk[i][1], pk[i][2], l))
                cs.append(call(p, "cp_mpsb_bct", pk[i][1], pk[i][2], l))
            for (k, mi), s in zip([(0, 0), (0, 1), (1, 0)], sg):
                cs.append(call(p, "cp_mpsb_sig", s[0], s[1], mb[mi], sk[k][0], sk[k][1], l))
            for t in pk + sg:
                for v in t:
                    p.dump(v)
            return cs, pk, sg
        res, (cs, pk, sg) = run_prog(env, cfg, x, build, case["poison"], case["seed"])
        for i in cs:
            ok_rets(res.calls[i], "cp_mpsb_gen/bct/sig")

        def mk(s, m, k):
            X = d_g2v(x, res, k[1], "mpsb X")
            Y = d_g2v(x, res, k[2], "mpsb Y")
            if X[0] != X[1] or any(Y[2 * j] != Y[2 * j + 1] for j in range(l)):
                raise Violation("cp_mpsb_bct did not replicate the opened public key")
            return dict(a=d_g1(x, res, s[0], "mpsb a"), b=d_g1v(x, res, s[1], "mpsb b")[:2], m=m,
                        h=d_g2(x, res, k[0], "mpsb h"), X=X[0], Y=[Y[2 * j] for j in range(l)])
        return mk(sg[0], m1, pk[0]), [mk(sg[1], m2, pk[0]), mk(sg[2], m1, pk[1])]

    def lib_ver(self, p, x, T):
        l = len(T["m"])
        return call(p, "cp_mpsb_ver", s_gt(p, x, x.F12.one), s_g1(p, x, T["a"]), s_g1v(p, x, T["b"]),
                    p.bnv([v for row in T["m"] for v in row]), s_g2(p, x, T["h"]), s_g2(p, x, T["X"]),
                    s_g2v(p, x, [Y for Y in T["Y"] for _ in range(2)]), NULL, l)

    def wf(self, x, inf, T):
        return _first(wf_g1(x, "a", T["a"], nonzero=True), wf_g1(x, "b[0]", T["b"][0]), wf_g1(x, "b[1]", T["b"][1]),
                      wf_g2(x, "h", T["h"]), wf_g2(x, "X", T["X"]), *[wf_g2(x, "Y[%d]" % i, v) for i, v in enumerate(T["Y"])])

    def annihilated(self, x, T, comp):
        return comp.startswith("Y[") and sum(T["m"][int(comp[2:-1])]) % x.r == 0

    def equation(self, env, cfg, x, inf, T, case):
        E = x.base.E
        Q = x.E2c.add(T["X"], g2_lin(x, [(row[0] + row[1], Y) for row, Y in zip(T["m"], T["Y"])]))
        return eq_products(env, cfg, x, case, [[(T["a"], Q), (E.neg(E.add(T["b"][0], T["b"][1])), T["h"])]])


# ====================================================================================== linearly homomorphic signatures

def coeff():
    return st.one_of(st.sampled_from([0, 1, 1, 2, 3, (1 << 31) - 1]), st.integers(1, (1 << 31) - 1), ints.uniform(1, (1 << 31) - 1))


def dig_buf(inf, rows, L):
    """S x L coefficient matrix as dig_t array (rows padded with zeros)"""
    out = b""
    for row in rows:
        for j in range(L):
            out += (row[j] if j < len(row) else 0).to_bytes(inf["digb"], "little")
    return out


def u32_buf(vals):
    return b"".join(struct.pack("<I", v) for v in vals)


def i32_buf(vals):
    return b"".join(struct.pack("<i", v) for v in vals)


def map_to_g1(env, cfg, x, case, msgs):
    """g1_map of each byte string (library hash-to-curve, checked by C13); results verified to be in G1"""
    def build(p):
        out = []
        for m in msgs:
            h = s_g1(p, x, None)
            call(p, "g1_map", h, p.buf(m))
            p.dump(h)
            out.append(h)
        return out
    res, hs = run_prog(env, cfg, x, build, case["poison"] ^ 0x33)
    for c in res.calls:
        chk(c, "g1_map (harness equation)")
    out = [d_g1(x, res, h, "g1_map") for h in hs]
    for H in out:
        if in_g1(x, H):
            raise Violation("g1_map produced a point outside G1 (reference check)", H=H)
    return out


class CMLHS(Scheme):
    """Schabhueser-Butin-Buchmann context-hiding multi-key linearly homomorphic signature, as documented in the source
    comments of cp_cmlhs_sig / ver. Signer i: dataset tag Z_i = [z_i]g2 certified by an ordinary signature sig_i on
    (Z_i || data) under pk_i; per label l: h_{i,l} = e(g1,g2)^{x_l}; Y_i = [y_i]g2. For coefficients f_ij and message
    m = sum f_ij m_ij the evaluated signature (R, S, A_i, C_i) is valid iff
      (i)   every sig_i verifies (BLS: e(sig_i, g2) = e(H(Z_i||data), pk_i), pk_i in G2 \\ {O}),
      (ii)  prod e(A_i, Z_i) = prod e(C_i, Y_i) * e(R, g2) * prod_i prod_j h_{i,label_j}^{f_ij},
      (iii) e(g1, S) * e(sum C_i, g2) = e([m]H, g2)."""
    name = "cmlhs"
    COMPS = [("r", "g1", "sig"), ("s", "g2", "sig"), ("sig", "g1", "sig"), ("z", "g2", "sig"), ("a", "g1", "sig"),
             ("c", "g1", "sig"), ("m", "sc", "msg"), ("data", "str", "msg"), ("f", "dig", "msg"), ("h", "g1", "pk"),
             ("hs", "gt", "pk"), ("y", "g2", "pk"), ("pk", "g2", "pk")]

    def params(self, x, draw):
        S = draw(st.sampled_from([1, 2, 2, 3]))
        L = draw(st.sampled_from([1, 2, 3]))
        flen = [draw(st.integers(1, L)) for _ in range(S)]
        f = [[draw(coeff()) if j < flen[i] else 0 for j in range(L)] for i in range(S)]
        return dict(S=S, L=L, bls=draw(st.sampled_from([1, 1, 1, 0])), flen=flen, f=f,
                    msgs=[[draw(scalar_msg(x)) for _ in range(L)] for _ in range(S)],
                    labels=draw(st.permutations(list(range(L)))), data=draw(text(16)))

    def labels(self, x, case):
        return ["signers:%d" % case["S"], "labels:%d" % case["L"], "inner:%s" % ("bls" if case["bls"] else "ecdsa")]

    def _instance(self, env, cfg, x, inf, case, shift):
        """one complete honest instance; shift != 0 changes the messages"""
        S, L = case["S"], case["L"]
        lab = list(case["labels"])
        # the composite signs message (i, l) under label l; verification lists label[j] for coefficient j, so the
        # coefficient given to the signer-side evaluation for label l is f[i][j] with label[j] = l
        fsig = [[0] * L for _ in range(S)]
        for i in range(S):
            for j in range(case["flen"][i]):
                fsig[i][lab[j]] = case["f"][i][j]
        msgs = [[(v + shift * (7 + 3 * i + l)) for l, v in enumerate(row)] for i, row in enumerate(case["msgs"])]
        m = sum(fsig[i][l] * (msgs[i][l] % x.r) for i in range(S) for l in range(L)) % x.r

        def build(p):
            h = s_g1(p, x, None)
            r, s = s_g1(p, x, None), s_g2(p, x, None)
            sig, z = s_g1v(p, x, [None] * S), s_g2v(p, x, [None] * S)
            a, c = s_g1v(p, x, [None] * S), s_g1v(p, x, [None] * S)
            hs = s_gtv(p, x, [x.F12.one] * (S * L))
            y, pk = s_g2v(p, x, [None] * S), s_g2v(p, x, [None] * S)
            c0 = call(p, "cp_cmlhs_init", h)
            c1 = call(p, "cmlhs_honest", h, r, s, sig, z, a, c, s_str(p, case["data"]), hs, p.buf(dig_buf(inf, fsig, L)), y, pk,
                      p.bnv([v for row in msgs for v in row]), S | (L << 8) | (case["bls"] << 16))
            vs = (h, r, s, sig, z, a, c, hs, y, pk)
            for v in vs:
                p.dump(v)
            return (c0, c1), vs
        res, ((c0, c1), (h, r, s, sig, z, a, c, hs, y, pk)) = run_prog(env, cfg, x, build, case["poison"],
                                                                    case["seed"] + bytes([shift]))
        ok_rets(res.calls[c0], "cp_cmlhs_init")
        ok_rets(res.calls[c1], "cp_cmlhs_gen/sig/fun/evl")
        HS = d_gtv(x, res, hs, "cmlhs hs")
        return dict(r=d_g1(x, res, r, "cmlhs r"), s=d_g2(x, res, s, "cmlhs s"), sig=d_g1v(x, res, sig, "cmlhs sig")[:S],
                    z=d_g2v(x, res, z, "cmlhs z")[:S], a=d_g1v(x, res, a, "cmlhs a")[:S], c=d_g1v(x, res, c, "cmlhs c")[:S],
                    m=m, data=case["data"], f=[list(case["f"][i][:case["flen"][i]]) for i in range(S)],
                    h=d_g1(x, res, h, "cmlhs h"), hs=[HS[i * L:(i + 1) * L] for i in range(S)],
                    y=d_g2v(x, res, y, "cmlhs y")[:S], pk=d_g2v(x, res, pk, "cmlhs pk")[:S],
                    labels=lab, flen=list(case["flen"]), bls=case["bls"], L=L)

    def honest(self, env, cfg, x, inf, case):
        T = self._instance(env, cfg, x, inf, case, 0)
        return T, [self._instance(env, cfg, x, inf, case, 1), self._instance(env, cfg, x, inf, case, 2)]

    def lib_ver(self, p, x, T, inf=None):
        S, L = len(T["sig"]), T["L"]
        inf = self._inf
        return call(p, "cp_cmlhs_ver", s_g1(p, x, T["r"]), s_g2(p, x, T["s"]), s_g1v(p, x, T["sig"]), s_g2v(p, x, T["z"]),
                    s_g1v(p, x, T["a"]), s_g1v(p, x, T["c"]), p.bn(T["m"]), s_str(p, T["data"]), s_g1(p, x, T["h"]),
                    p.buf(i32_buf(T["labels"])), s_gtv(p, x, [v for row in T["hs"] for v in row]),
                    p.buf(dig_buf(inf, T["f"], L)), p.buf(u32_buf(T["flen"])), s_g2v(p, x, T["y"]), s_g2v(p, x, T["pk"]),
                    S | (L << 8) | (T["bls"] << 16))

    def verdict(self, c):
        return c.rets[0] == 1

    def wf(self, x, inf, T):
        self._inf = inf
        S = len(T["sig"])
        rs = [wf_g1(x, "r", T["r"]), wf_g2(x, "s", T["s"]), wf_g1(x, "h", T["h"])]
        for i in range(S):
            rs += [wf_g2(x, "z[%d]" % i, T["z"][i]), wf_g1(x, "a[%d]" % i, T["a"][i]), wf_g1(x, "c[%d]" % i, T["c"][i]),
                   wf_g2(x, "y[%d]" % i, T["y"][i])]
            if T["bls"]:
                rs += [wf_g1(x, "sig[%d]" % i, T["sig"][i]), wf_g2(x, "pk[%d]" % i, T["pk"][i], nonzero=True)]
            for j in range(T["flen"][i]):
                rs.append(wf_gt(x, "hs[%d][%d]" % (i, T["labels"][j]), T["hs"][i][T["labels"][j]]))
        return _first(*rs)

    def equation(self, env, cfg, x, inf, T, case):
        E, F12 = x.base.E, x.F12
        S = len(T["sig"])
        inner = [ser_g2(x, T["z"][i]) + T["data"] for i in range(S)]
        if T["bls"]:
            Hs = map_to_g1(env, cfg, x, case, inner)
            prods = [[(T["sig"][i], x.G2), (E.neg(Hs[i]), T["pk"][i])] for i in range(S)]
        else:
            prods = []
        pairs2 = [(T["a"][i], T["z"][i]) for i in range(S)] + [(E.neg(T["c"][i]), T["y"][i]) for i in range(S)] + \
                 [(E.neg(T["r"]), x.G2)]
        C = None
        for v in T["c"]:
            C = E.add(C, v)
        prods.append([(x.G1, T["s"]), (E.sub(C, g1_lin(x, [(T["m"], T["h"])])), x.G2)])

        def build(p):
            out = [pair_product(p, x, pr) for pr in prods]
            v = pair_product(p, x, pairs2)
            ser = []
            for i in range(S):
                b = p.buf(bytes(len(inner[i]) - len(T["data"])))
                call(p, "g2_write_bin", b, s_g2(p, x, T["z"][i]), 0)
                p.dump(b)
                ser.append(b)
            ecd = []
            if not T["bls"]:
                for i in range(S):
                    sg = T["sig"][i] or (0, 0)
                    Q = T["pk"][i]
                    P1 = None if Q is None else (Q[0][0], Q[1][0])
                    ecd.append(call(p, "pbs_ecdsa_ver", p.bn(sg[0]), p.bn(sg[1]), p.buf(inner[i]), 0, s_g1(p, x, P1)))
            return out, v, ser, ecd
        res, (out, v, ser, ecd) = run_prog(env, cfg, x, build, case["poison"] ^ 0x5A)
        for i, c in enumerate(res.calls):
            chk(c, "harness equation call %d" % i, allow_error=(i in ecd))
        for i, b in enumerate(ser):
            if res.dumps[b] != inner[i][:len(inner[i]) - len(T["data"])]:
                raise Unsupported()            # serialisation differs from the harness model: C07's subject, not ours
        ok = all(unity(x, res, sl, "pc_map_sim") for sl in out)
        for i in ecd:
            c = res.calls[i]
            ok = ok and (not c.errored) and c.rets[0] == 1
        want = F12.one
        for i in range(S):
            for j in range(T["flen"][i]):
                want = F12.mul(want, F12.pow(T["hs"][i][T["labels"][j]], T["f"][i][j]))
        return ok and F12.eq(d_gt(x, res, v, "pc_map_sim"), want)

    def annihilated(self, x, T, comp):
        if comp.startswith("hs["):
            # the element enters only as a^F (F = sum of its coefficients): 'annihilated' = a^F lies in GT although a
            # does not (F = 0, or an even F for the order-2 factor -1, ...)
            i, l = (int(v) for v in comp[3:-1].split("]["))
            F = sum(T["f"][i][j] for j in range(T["flen"][i]) if T["labels"][j] == l)
            a = T["hs"][i][l]
            return F == 0 or (not x.F12.is_zero(a) and in_gt(x, x.F12.pow(a, F)) is None)
        if comp.startswith("y["):
            return T["c"][int(comp[2:-1])] is None
        if comp == "h":
            # h enters only as [m]h (g1_mul(g1, h, m)): a malformed h cannot reach the equation when m = 0 mod r
            return T["m"] % x.r == 0
        return False

    def facts(self, x, T):
        return dict(s_identity=T["s"] is None, z_identity=[v is None for v in T["z"]], datalen=len(T["data"]))

    def recipes(self):
        def all_foreign(x, T, alts, aux):
            for k in alts[1]:
                T[k] = alts[1][k]

        def scaled(x, T, alts, aux):
            t = 2 + aux % 2
            E = x.base.E
            T["r"], T["s"] = E.mul(t, T["r"]), x.E2c.mul(t, T["s"])
            T["a"] = [E.mul(t, v) for v in T["a"]]
            T["c"] = [E.mul(t, v) for v in T["c"]]
            T["m"] = T["m"] * t % x.r
            T["f"] = [[v * t for v in row] for row in T["f"]]

        def foreign_parts(x, T, alts, aux):
            for k in ("r", "s", "a", "c", "m"):
                T[k] = alts[0][k]
        return [("complete-foreign-instance", all_foreign), ("scaled-function-and-signature", scaled),
                ("foreign-evaluated-part", foreign_parts)]


class MKLHS(Scheme):
    """Aranha-Pagnin multi-key linearly homomorphic signature: pk_i = [sk_i]g2, sig_ij = [sk_i](H(data||id_i) +
    H(id_i||tag_j) + [m_ij]g1); evaluated signature sig = sum f_ij sig_ij, mu_i = sum_j f_ij m_ij. Valid iff
    m = sum mu_i mod r (m in [0, r)) and e(sig, g2) = prod_i e(sum_j f_ij (H(id_i||tag_j) + H(data||id_i)) + [mu_i]g1, pk_i)."""
    name = "mklhs"
    COMPS = [("sig", "g1", "sig"), ("m", "sc", "msg"), ("mu", "sc", "msg"), ("data", "str", "msg"), ("ids", "str", "msg"),
             ("tags", "str", "msg"), ("f", "dig", "msg"), ("pk", "g2", "pk")]

    def params(self, x, draw):
        S = draw(st.sampled_from([1, 2, 2, 3]))
        L = draw(st.sampled_from([1, 2, 3, 4]))
        rare = draw(st.integers(0, 7)) == 7
        if not rare:
            L = max(L, S)
        flen = [draw(st.integers(1, L)) for _ in range(S)]
        if not rare:
            flen[0] = max(flen[0], S)      # 'more signers than terms' crashes the verifier (known finding): keep it rare
        f = [[draw(coeff()) if j < flen[i] else 0 for j in range(L)] for i in range(S)]
        return dict(S=S, L=L, flen=flen, f=f, msgs=[[draw(scalar_msg(x)) for _ in range(L)] for _ in range(S)],
                    data=draw(text(16)), ids=[draw(text(8)) for _ in range(S)], tags=[draw(text(6)) for _ in range(L)])

    def labels(self, x, case):
        return ["signers:%d" % case["S"], "tags:%d" % case["L"], "shape:%s" % (
            "signers>terms" if case["S"] > max(case["flen"]) else "signers<=terms")]

    def _instance(self, env, cfg, x, inf, case, shift):
        S, L = case["S"], case["L"]
        msgs = [[(v + shift * (5 + 2 * i + l)) for l, v in enumerate(row)] for i, row in enumerate(case["msgs"])]

        def build(p):
            sig = s_g1(p, x, None)
            mu = p.bnv([0] * S)
            pk = s_g2v(p, x, [None] * S)
            c0 = call(p, "mklhs_honest", sig, mu, pk, s_str(p, case["data"]), s_strs(p, case["ids"]), s_strs(p, case["tags"]),
                      p.buf(dig_buf(inf, case["f"], L)), p.bnv([v for row in msgs for v in row]), S | (L << 8))
            p.dump(sig), p.dump(mu), p.dump(pk)
            return c0, sig, mu, pk
        res, (c0, sig, mu, pk) = run_prog(env, cfg, x, build, case["poison"], case["seed"] + bytes([shift]))
        ok_rets(res.calls[c0], "cp_mklhs_gen/sig/fun/evl")
        MU = d_bnv(res, mu)[:S]
        want = [sum(case["f"][i][j] * msgs[i][j] for j in range(L)) % x.r for i in range(S)]
        if MU != want:
            raise Violation("cp_mklhs_fun: combined message differs from sum f_j m_j mod r", got=MU, want=want)
        return dict(sig=d_g1(x, res, sig, "mklhs sig"), m=sum(MU) % x.r, mu=MU, data=case["data"], ids=list(case["ids"]),
                    tags=list(case["tags"]), f=[list(case["f"][i][:case["flen"][i]]) for i in range(S)],
                    pk=d_g2v(x, res, pk, "mklhs pk")[:S], flen=list(case["flen"]), L=L)

    def honest(self, env, cfg, x, inf, case):
        T = self._instance(env, cfg, x, inf, case, 0)
        return T, [self._instance(env, cfg, x, inf, case, 1), self._instance(env, cfg, x, inf, case, 2)]

    def lib_ver(self, p, x, T):
        S, L = len(T["pk"]), T["L"]
        return call(p, "cp_mklhs_ver", s_g1(p, x, T["sig"]), p.bn(T["m"]), p.bnv(T["mu"]), s_str(p, T["data"]),
                    s_strs(p, T["ids"]), s_strs(p, T["tags"]), p.buf(dig_buf(self._inf, T["f"], L)), p.buf(u32_buf(T["flen"])),
                    s_g2v(p, x, T["pk"]), S | (L << 8))

    def verdict(self, c):
        return c.rets[0] == 1

    def wf(self, x, inf, T):
        self._inf = inf
        return _first(wf_g1(x, "sig", T["sig"]), *[wf_g2(x, "pk[%d]" % i, v) for i, v in enumerate(T["pk"])])

    def equation(self, env, cfg, x, inf, T, case):
        E = x.base.E
        S = len(T["pk"])
        if T["m"] != sum(T["mu"]) % x.r:
            return False
        strs = [T["data"] + T["ids"][i] for i in range(S)]
        idx = {}
        for i in range(S):
            for j in range(T["flen"][i]):
                idx[(i, j)] = len(strs)
                strs.append(T["ids"][i] + T["tags"][j])
        Hs = map_to_g1(env, cfg, x, case, strs)
        pairs = [(T["sig"], x.G2)]
        for i in range(S):
            g = g1_lin(x, [(T["mu"][i], x.G1)])
            for j in range(T["flen"][i]):
                g = E.add(g, E.mul(T["f"][i][j], E.add(Hs[idx[(i, j)]], Hs[i])))
            pairs.append((E.neg(g), T["pk"][i]))
        return eq_products(env, cfg, x, case, [pairs])

    def annihilated(self, x, T, comp):
        if comp.startswith("pk["):
            i = int(comp[3:-1])
            return T["mu"][i] % x.r == 0 and all(v == 0 for v in T["f"][i][:T["flen"][i]])
        return False

    def facts(self, x, T):
        return dict(signers=len(T["pk"]), fmax=max(T["flen"]))

    def recipes(self):
        def all_foreign(x, T, alts, aux):
            for k in alts[1]:
                T[k] = alts[1][k]

        def scaled(x, T, alts, aux):
            t = 2 + aux % 2
            T["sig"] = x.base.E.mul(t, T["sig"])
            T["m"] = T["m"] * t % x.r
            T["mu"] = [v * t % x.r for v in T["mu"]]
            T["f"] = [[v * t for v in row] for row in T["f"]]

        def shifted_shares(x, T, alts, aux):
            # mu_i are only constrained through their sum and through [mu_i]g1: adding r to one is the same share
            T["mu"] = [T["mu"][0] + x.r] + list(T["mu"][1:])
        return [("complete-foreign-instance", all_foreign), ("scaled-function-and-signature", scaled),
                ("share-plus-r", shifted_shares)]


# ====================================================================================== group C: ring signatures

RING_PT_KINDS = ["other-member", "other-field", "identity", "generator", "neg", "offcurve", "foreign", "other-member"]
RING_SC_KINDS = ["zero", "order", "plus-order", "other-member", "plus1", "foreign", "other-member", "huge"]


def e_pt(p, c, P):
    return p.new("EP", ecctx.enc_point(c, P))


def e_ptv(p, c, Ps, n=None):
    n = len(Ps) if n is None else n
    return p.new("EPV", struct.pack("<II", n, len(Ps)) + b"".join(ecctx.enc_point(c, P) for P in Ps))


def dd_pt(c, res, slot, what):
    return ecctx.dec_point(c, res.dumps[slot], what)[0]


def dd_ptv(c, res, slot, what):
    return [P for P, _ in ecctx.dec_points(c, res.dumps[slot], what)]


def ec_run(env, cfg, c, builder, poison, seed=b"", unprotected=False):
    p = Prog(poison=poison, seed=seed, unprotected=unprotected)
    skip = ecctx.select(env, cfg, p, c.cid)
    p.base = p.ncalls
    meta = builder(p)
    try:
        res = env.runner(cfg).run(p)
    except Exception:
        ecctx.invalidate(env, cfg)
        raise
    if res.failed_new:
        raise Unsupported()
    res.calls = res.calls[skip:]
    return res, meta


class Ring:
    """A ring signature travels as a dict: pp (point), td (scalar or list), members = list of dicts with point fields
    PT and scalar fields SC (c, r, ... are pairs). Oracle (DESIGN group C): honest rings of every size verify with the
    signer at every position; every single-component substitution, a foreign ring / message / parameter is rejected."""
    name = "ers"
    PT = ["h", "pk"]
    SC = ["c0", "c1", "r0", "r1"]
    honest_op, ver_op = "ers_honest", "cp_ers_ver"

    def sizes(self, h):
        return dict(n=1 + h[0] % 8)

    def n_of(self, case):
        return case["n"]

    def make(self, p, c, msg, case):
        n = case["n"]
        pp, td = e_pt(p, c, None), p.bn(0)
        hV, pkV = e_ptv(p, c, [None] * n), e_ptv(p, c, [None] * n)
        cV, rV = p.bnv([0] * (2 * n)), p.bnv([0] * (2 * n))
        sk = p.bnv([0] * n)
        ci = call(p, self.honest_op, pp, td, hV, pkV, cV, rV, p.buf(msg), n, sk)
        vs = (pp, td, hV, pkV, cV, rV)
        for v in vs:
            p.dump(v)
        return ci, vs

    def collect(self, c, res, vs, case):
        pp, td, hV, pkV, cV, rV = vs
        n = case["n"]
        H, PK, C, R = dd_ptv(c, res, hV, "ring h"), dd_ptv(c, res, pkV, "ring pk"), d_bnv(res, cV), d_bnv(res, rV)
        return dict(pp=dd_pt(c, res, pp, "pp"), td=d_bn(res, td),
                    members=[dict(h=H[i], pk=PK[i], c0=C[2 * i], c1=C[2 * i + 1], r0=R[2 * i], r1=R[2 * i + 1])
                             for i in range(n)])

    def check_honest_rets(self, call_, case):
        ok_rets(call_, self.honest_op, n=len(call_.rets) - 1)
        if call_.rets[-1] != self.n_of(case):
            raise Violation("%s: ring has %d members after signing and extending, expected %d" % (
                self.honest_op, call_.rets[-1], self.n_of(case)))

    def ver(self, p, c, R, msg):
        M = R["members"]
        n = len(M)
        return call(p, self.ver_op, p.bn(R["td"]), e_ptv(p, c, [m["h"] for m in M]), e_ptv(p, c, [m["pk"] for m in M]),
                    p.bnv([v for m in M for v in (m["c0"], m["c1"])]), p.bnv([v for m in M for v in (m["r0"], m["r1"])]),
                    n, p.buf(msg), e_pt(p, c, R["pp"]))

    def extra_targets(self, R):
        return [("td", None)]


class SMLRing(Ring):
    name = "smlers"
    PT = ["h", "pk", "tau"]
    SC = ["c0", "c1", "r0", "r1", "d0", "d1", "s0", "s1"]
    honest_op, ver_op = "smlers_honest", "cp_smlers_ver"

    def make(self, p, c, msg, case):
        n = case["n"]
        pp, td = e_pt(p, c, None), p.bn(0)
        hV, pkV, tauV = e_ptv(p, c, [None] * n), e_ptv(p, c, [None] * n), e_ptv(p, c, [None] * n)
        cV, rV, c2V, r2V = (p.bnv([0] * (2 * n)) for _ in range(4))
        ci = call(p, self.honest_op, pp, td, hV, pkV, cV, rV, tauV, c2V, r2V, p.buf(msg), n)
        vs = (pp, td, hV, pkV, cV, rV, tauV, c2V, r2V)
        for v in vs:
            p.dump(v)
        return ci, vs

    def collect(self, c, res, vs, case):
        pp, td, hV, pkV, cV, rV, tauV, c2V, r2V = vs
        n = case["n"]
        H, PK, TAU = dd_ptv(c, res, hV, "ring h"), dd_ptv(c, res, pkV, "ring pk"), dd_ptv(c, res, tauV, "ring tau")
        C, R, C2, R2 = d_bnv(res, cV), d_bnv(res, rV), d_bnv(res, c2V), d_bnv(res, r2V)
        return dict(pp=dd_pt(c, res, pp, "pp"), td=d_bn(res, td),
                    members=[dict(h=H[i], pk=PK[i], tau=TAU[i], c0=C[2 * i], c1=C[2 * i + 1], r0=R[2 * i], r1=R[2 * i + 1],
                                  d0=C2[2 * i], d1=C2[2 * i + 1], s0=R2[2 * i], s1=R2[2 * i + 1]) for i in range(n)])

    def ver(self, p, c, R, msg):
        M = R["members"]
        n = len(M)
        pair = lambda a, b: p.bnv([v for m in M for v in (m[a], m[b])])      # noqa: E731
        return call(p, self.ver_op, p.bn(R["td"]), e_ptv(p, c, [m["h"] for m in M]), e_ptv(p, c, [m["pk"] for m in M]),
                    pair("c0", "c1"), pair("r0", "r1"), e_ptv(p, c, [m["tau"] for m in M]), pair("d0", "d1"), pair("s0", "s1"),
                    n, p.buf(msg), e_pt(p, c, R["pp"]))


class ETRing(Ring):
    """Extendable threshold ring signature: td / y are vectors with one entry per remaining extension slot; every member
    carries its own evaluation point y. thres = number of real signers (1 + joins)."""
    name = "etrs"
    PT = ["h", "pk"]
    SC = ["y", "c0", "c1", "r0", "r1"]
    honest_op, ver_op = "etrs_honest", "cp_etrs_ver"

    def sizes(self, h):
        nuni = [0, 0, 1, 2][h[0] % 4]
        next_ = min([0, 1, 2, 3, 5][h[1] % 5], 7 - nuni)
        return dict(nuni=nuni, next=next_, max=max(1, next_ + h[2] % 3))

    def n_of(self, case):
        return 1 + case["nuni"] + case["next"]

    def make(self, p, c, msg, case):
        n, mx = self.n_of(case), case["max"]
        pp = e_pt(p, c, None)
        tdV, yV, ryV = p.bnv([0] * mx), p.bnv([0] * mx), p.bnv([0] * n)
        hV, pkV = e_ptv(p, c, [None] * n), e_ptv(p, c, [None] * n)
        cV, rV = p.bnv([0] * (2 * n)), p.bnv([0] * (2 * n))
        ci = call(p, self.honest_op, pp, tdV, yV, ryV, hV, pkV, cV, rV, p.buf(msg),
                  mx | (case["nuni"] << 8) | (case["next"] << 16))
        vs = (pp, tdV, yV, ryV, hV, pkV, cV, rV)
        for v in vs:
            p.dump(v)
        return ci, vs

    def collect(self, c, res, vs, case):
        pp, tdV, yV, ryV, hV, pkV, cV, rV = vs
        n = self.n_of(case)
        H, PK, C, R, RY = dd_ptv(c, res, hV, "ring h"), dd_ptv(c, res, pkV, "ring pk"), d_bnv(res, cV), d_bnv(res, rV), d_bnv(res, ryV)
        off = case["next"]                 # consumed extension slots (zeroed, at the front) are dropped by the caller
        return dict(pp=dd_pt(c, res, pp, "pp"), td=d_bnv(res, tdV)[off:], ys=d_bnv(res, yV)[off:], thres=1 + case["nuni"],
                    members=[dict(y=RY[i], h=H[i], pk=PK[i], c0=C[2 * i], c1=C[2 * i + 1], r0=R[2 * i], r1=R[2 * i + 1])
                             for i in range(n)])

    def ver(self, p, c, R, msg):
        M = R["members"]
        n = len(M)
        mx = len(R["td"])
        return call(p, self.ver_op, R["thres"], p.bnv(R["td"]), p.bnv(R["ys"]), 0 | (mx << 8), p.bnv([m["y"] for m in M]),
                    e_ptv(p, c, [m["h"] for m in M]), e_ptv(p, c, [m["pk"] for m in M]),
                    p.bnv([v for m in M for v in (m["c0"], m["c1"])]), p.bnv([v for m in M for v in (m["r0"], m["r1"])]),
                    n, p.buf(msg), e_pt(p, c, R["pp"]))

    def extra_targets(self, R):
        return [("td", i) for i in range(len(R["td"]))] + [("ys", i) for i in range(len(R["ys"]))] + [("thres", None)]


def ring_mutate(c, sch, R, R2, msg, msg2, sel):
    """one substitution; returns (R', msg', label) or None when the substitution is not applicable / changes nothing"""
    M = [dict(m) for m in R["members"]]
    out = dict(R, members=M)
    for k in ("td", "ys"):
        if isinstance(out.get(k), list):
            out[k] = list(out[k])
    n = len(M)
    E = c.E
    what = sel["what"] % 12
    i = sel["i"] % n
    j = (i + 1 + sel["j"] % max(1, n - 1)) % n
    if what == 0:
        return out, (msg2 if sel["k"] % 2 else mutate_bytes(msg, sel["aux"])), "foreign-or-altered-message"
    if what == 1:
        if sel["k"] % 3 == 0:
            out2 = dict(R2)
            return out2, msg, "foreign-ring-own-message"
        if sel["k"] % 3 == 1:
            out["pp"] = R2["pp"]
            return out, msg, "foreign-parameters"
        if n >= 2:
            out["members"] = M[:i] + M[i + 1:]
            return out, msg, "member-dropped"
        out["members"] = M + [dict(R2["members"][0])]
        return out, msg, "foreign-member-added"
    if what == 2:
        ts = sch.extra_targets(R)
        name, idx = ts[sel["k"] % len(ts)]
        if name == "thres":
            out["thres"] = R["thres"] + 1 if sel["aux"] % 4 else max(0, R["thres"] - 1)
            if len(R["td"]) + n - out["thres"] < 1:
                return None
            return out, msg, "threshold-%s" % ("overclaimed" if out["thres"] > R["thres"] else "underclaimed")
        v = R[name] if idx is None else R[name][idx]
        kind = ["zero", "order", "plus-order", "plus1", "foreign", "plus1"][sel["aux"] % 6]
        fv = R2[name] if idx is None else R2[name][idx % len(R2[name])] if R2[name] else 0
        nv = {"zero": 0, "order": c.n, "plus-order": v + c.n, "plus1": (v + 1) % c.n, "foreign": fv}[kind]
        if idx is None:
            out[name] = nv
        else:
            out[name][idx] = nv
        return (out, msg, "%s:%s" % (name, kind)) if nv != v else None
    if what <= 6:
        f = sch.PT[sel["k"] % len(sch.PT)]
        kind = RING_PT_KINDS[sel["aux"] % len(RING_PT_KINDS)]
        v = M[i][f]
        if kind == "other-member":
            if n < 2:
                return None
            nv = M[j][f]
        elif kind == "other-field":
            nv = M[i][sch.PT[(sel["k"] + 1) % len(sch.PT)]]
        elif kind == "identity":
            nv = None
        elif kind == "generator":
            nv = c.G
        elif kind == "neg":
            nv = E.neg(v)
        elif kind == "offcurve":
            b = v if v is not None else c.G
            y = (b[1] + 1) % c.F.p
            while E.on_curve((b[0], y)):
                y = (y + 1) % c.F.p
            nv = (b[0], y)
        else:
            nv = R2["members"][i % len(R2["members"])][f]
        if nv == v:
            return None
        M[i][f] = nv
        return out, msg, "point:%s:%s" % (f, kind)
    f = sch.SC[sel["k"] % len(sch.SC)]
    kind = RING_SC_KINDS[sel["aux"] % len(RING_SC_KINDS)]
    v = M[i][f]
    if kind == "other-member":
        if n < 2:
            return None
        nv = M[j][f]
    else:
        nv = {"zero": 0, "order": c.n, "plus-order": v + c.n, "plus1": (v + 1) % c.n, "huge": (1 << (HUGE_BITS - 1)) + v,
              "foreign": R2["members"][i % len(R2["members"])][f]}[kind]
    if nv == v:
        return None
    M[i][f] = nv
    return out, msg, "scalar:%s:%s" % (f[0] if f != "y" else "y", kind)


def mutate_bytes(v, aux):
    if not v:
        return b"\x01"
    k = aux % 4
    if k == 0:
        return v[:-1]
    if k == 1:
        return v + b"\x00"
    i = (aux >> 8) % len(v)
    return v[:i] + bytes([v[i] ^ (1 << ((aux >> 2) % 8))]) + v[i + 1:]


def strat_ring(sch):
    def strategy(env, cfg):
        if not info(env, cfg)["ec_prime"]:
            raise Unsupported()
        cs = ecctx.discover(env, cfg)["curves"]
        c = cs[env.job_seed % len(cs)]

        @st.composite
        def s(draw):
            case = dict(scheme=sch.name, cid=c.cid, seed=draw(st.binary(min_size=8, max_size=8)),
                        poison=draw(st.integers(0, 255)), msg=draw(msg_strategy()), msg2=draw(msg_strategy()))
            h = hashlib.sha256(case_entropy(case, draw(st.binary(min_size=8, max_size=8)))).digest()
            case["pos"] = h[13] % 8
            case.update(sch.sizes(h[14:]))
            case["sel"] = dict(what=h[0], i=h[1], j=h[2], k=h[3], aux=int.from_bytes(h[4:12], "little"), none=int(h[12] < 10))
            return case
        return s()
    return strategy


def run_ring(sch):
    def run(env, cfg, case):
        c = ecctx.curve(env, cfg, case["cid"])
        what = "cp_%s[cid=%d]" % (sch.name, c.cid)
        msg = case["msg"]
        msg2 = _distinct(msg, case["msg2"])

        def build(p):
            return sch.make(p, c, msg, case), sch.make(p, c, msg2, case)
        res, ((c1, v1), (c2, v2)) = ec_run(env, cfg, c, build, case["poison"], case["seed"])
        for ci in (c1, c2):
            sch.check_honest_rets(res.calls[ci], case)
        R, R2 = sch.collect(c, res, v1, case), sch.collect(c, res, v2, case)
        n = len(R["members"])
        # signer position: the verifier must not depend on the order of the ring
        k = case["pos"] % n
        if sch.name != "etrs":
            R = dict(R, members=R["members"][n - k:] + R["members"][:n - k])
        labels = ["scheme:" + sch.name, "cid:%d" % c.cid, "ring:n=%d" % n, "signer-position:%d" % (k if sch.name != "etrs" else 0),
                  "msglen:%d" % len(msg)]
        if sch.name == "etrs":
            labels += ["threshold:%d" % R["thres"], "free-slots:%d" % len(R["td"])]
        mt = None if case["sel"]["none"] else ring_mutate(c, sch, R, R2, msg, msg2, case["sel"])

        def build2(p):
            i0 = sch.ver(p, c, R, msg)
            i1 = sch.ver(p, c, mt[0], mt[1]) if mt else None
            return i0, i1
        try:
            res, (i0, i1) = ec_run(env, cfg, c, build2, case["poison"], case["seed"], unprotected=True)
        except RunnerCrash as rc:
            if rc.why == "timeout":
                raise
            stage = "mutated"
            try:
                ec_run(env, cfg, c, lambda p: sch.ver(p, c, R, msg), case["poison"], case["seed"], unprotected=True)
            except RunnerCrash:
                stage = "honest"
            kind, frames = sanitizer_signature(rc.stderr_tail)
            Rx = R if stage == "honest" or mt is None else mt[0]
            raise Violation("%s verification crashed the runner on the %s ring (%s)" % (what, stage, kind or "rc=%r" % rc.rc),
                            crash=True, kind=kind, frames=frames, stage=stage, stderr=rc.stderr_tail[-2500:],
                            mutation=mt[2] if mt else None,
                            facts=dict(size=len(Rx["members"]), thres=Rx.get("thres"), slots=len(Rx["td"]) if isinstance(
                                Rx.get("td"), list) else None))
        c0 = res.calls[i0]
        chk(c0, what + " verification of the honest ring")
        if c0.rets[0] != 1:
            raise Violation("%s rejected an honest ring signature (size %d, signer position %d)" % (what, n, k),
                            kind="completeness", n=n)
        if mt is None:
            return False, labels + ["mut:none"]
        cm = res.calls[i1]
        if cm.unsupported:
            raise Unsupported()
        if cm.ub:
            raise Violation("undefined behaviour in %s verification: %s" % (what, cm.ub), ub=cm.ub)
        labels.append("mut:" + mt[2])
        if cm.errored:
            labels.append("verdict:error-raised")
        if cm.caught or not cm.rets:
            labels.append("verdict:reject")
        elif cm.rets[0] == 1:
            raise Violation("%s ACCEPTED a ring signature after the substitution '%s'%s" % (
                what, mt[2], " (returned 1 with the error flag raised)" if cm.errored else ""), kind="soundness",
                mutation=mt[2], accepted=True, n=n, thres=R.get("thres"), errored=bool(cm.errored))
        elif cm.rets[0] != 0:
            raise Violation("%s returned %d (neither 0 nor 1)" % (what, cm.ret_i(0)), mutation=mt[2])
        else:
            labels.append("verdict:reject")
        return True, labels
    return run



# ====================================================================================== targets

def self_test():
    rec.self_test()
    rext.self_test()
    # mutation helpers on a toy context-free level: byte mutations always change the value
    for v in (b"", b"a", b"abc"):
        for aux in range(12):
            assert mutate_bytes(v, aux) != v
    assert derive_mutation(5, b"x") == derive_mutation(5, b"x")


def _cfgs():
    return {"quick": ["base256"], "thorough": ["base256", "p381"]}


SCHEMES = [BLS(), BBS(), ZSS(), CLS(), CLI(), CLB(), PSS(), PSB(), MPSS(), MPSB(), CMLHS(), MKLHS()]
RINGS = [Ring(), SMLRing(), ETRing()]
_N = dict(bls=(480, 5000), bbs=(400, 4000), zss=(400, 4000), cls=(360, 3500), cli=(240, 2000), clb=(240, 2000),
          pss=(400, 4000), psb=(320, 3000), mpss=(160, 1200), mpsb=(160, 1200), cmlhs=(200, 1500), mklhs=(280, 2500),
          ers=(480, 5000), smlers=(400, 4000), etrs=(400, 4000))
_STOP = {}
_KNOWN = []


def guarded(name, fn):
    """Cases carry hash-derived selectors (see derive_mutation), so there is no monotone structure for Hypothesis to
    shrink along, and every shrink candidate costs a full sign + verify + pairing evaluation (measured: > 5 minutes of
    futile shrinking per failure). After the first failure that is NOT a known finding, every *other* case of the same
    job is answered 'held' without being executed, which ends the shrink phase at once with the original failing case
    (cases are already explicit and small: all keys derive from an 8-byte DRBG seed). Runner crashes outside the
    verification calls are converted to violations here so that they take the same path."""
    def run(env, cfg, case):
        import sys
        from engine import core
        key = (name, cfg, env.job_seed)
        h = core.case_hash(case)
        if env.job_seed and key in _STOP and _STOP[key] != h:      # never during replays (job_seed = 0)
            return False, ["skipped-after-failure"]
        try:
            return fn(env, cfg, case)
        except RunnerCrash as rc:
            if rc.why == "timeout":
                raise
            kind, frames = sanitizer_signature(rc.stderr_tail)
            v = Violation("runner %s outside the verification call (%s)" % (rc.why, kind or "rc=%r" % rc.rc), crash=True,
                          kind=kind, frames=frames, stage="setup", stderr=rc.stderr_tail[-2500:])
        except Violation as vv:
            v = vv
        if not _KNOWN:
            _KNOWN.append(core.Known(sys.modules[__name__]))
        if _KNOWN[0].match(name, cfg, case, v) is None:
            _STOP[key] = h
        raise v
    return run


_T = {}
for _s in SCHEMES:
    _T[_s.name] = Target("sig-" + _s.name, strat_b(_s), guarded("sig-" + _s.name, run_b(_s)), _cfgs(), quick=_N[_s.name][0],
                         thorough=_N[_s.name][1])
for _s in RINGS:
    _T[_s.name] = Target("ring-" + _s.name, strat_ring(_s), guarded("ring-" + _s.name, run_ring(_s)), _cfgs(),
                         quick=_N[_s.name][0], thorough=_N[_s.name][1])
# order: jobs are dispatched roughly in target order; under a budget hit the tail starves, so cheap / structurally
# different schemes alternate and the expensive multi-party / homomorphic ones are spread out
ORDER = ["bls", "ers", "pss", "mklhs", "bbs", "etrs", "cls", "cmlhs", "zss", "smlers", "psb", "mpss", "cli", "clb", "mpsb"]
TARGETS = [_T[n] for n in ORDER]


# ---------------------------------------------------------------------------------- known findings (narrow matchers)

def _d(v):
    return v.details if hasattr(v, "details") else {}


def _frames(v, *names):
    fr = " ".join(_d(v).get("frames") or [])
    return all(n in fr for n in names)


ETRS_INTERPOLATION_ONLY = ("td:", "ys:", "scalar:y:", "foreign-parameters", "threshold-overclaimed", "member-dropped")


def k_mklhs_overflow(case, v, e):
    d = _d(v)
    return (case.get("scheme") == "mklhs" and d.get("crash") and "stack-buffer-overflow" in (d.get("kind") or "")
            and _frames(v, "cp_mklhs_ver", "ep_norm_sim") and (d.get("facts") or {}).get("signers", 0) > (d.get("facts") or {}).get("fmax", 99))


def k_cmlhs_overflow(case, v, e):
    d = _d(v)
    f = d.get("facts") or {}
    return (case.get("scheme") == "cmlhs" and d.get("crash") and "stack-buffer-overflow" in (d.get("kind") or "")
            and _frames(v, "cp_cmlhs_ver", "ep2_write_bin") and f.get("s_identity") and not all(f.get("z_identity", [True])))


def k_pk_annihilated(case, v, e):
    """a public-key element that is off its curve / outside its group but whose defect cannot reach the equation: its
    multiplier is 0 mod r, its small-order factor is killed by the exponent, or it is a G1 element with a cofactor-order
    component (e(T, Q) = 1 for T of order prime to r; only on curves with a G1 cofactor)"""
    d = _d(v)
    if not (d.get("kind") == "soundness" and d.get("accepted") and d.get("role") == "pk" and not d.get("errored")):
        return False
    if case.get("scheme") in ("pss", "psb", "mpss", "mpsb", "cmlhs", "mklhs") and d.get("annihilated") is True:
        return True
    return (case.get("scheme") in ("zss", "cmlhs") and d.get("ctype") == "g1"
            and (d.get("reason") or "").endswith(":outside-subgroup"))


def k_sig_g1_cofactor(case, v, e):
    """a G1 SIGNATURE element plus a point of order prime to r (only on curves whose G1 has a cofactor): e(T, Q) = 1, so
    the verification equations of the linearly homomorphic / multi-party PS verifiers cannot see it, and these
    verifiers have no membership test for signature elements (cp_bls_ver, cp_pss_ver, cp_cls_ver do)"""
    d = _d(v)
    return (case.get("scheme") in ("mklhs", "cmlhs", "mpss", "mpsb") and d.get("kind") == "soundness"
            and d.get("accepted") and not d.get("errored") and d.get("role") == "sig" and d.get("ctype") == "g1"
            and "mut:sig:g1:cofactor" in (d.get("mutations") or [d.get("mutation")])
            and (d.get("reason") or "").endswith(":outside-subgroup"))


def k_error_accept_b(case, v, e):
    """verifiers that start from result = 1 and only RLC_THROW on an internal error: a plain call returns 1"""
    d = _d(v)
    return (case.get("scheme") in ("cls", "cli", "clb", "cmlhs") and d.get("kind") == "soundness" and d.get("accepted")
            and d.get("errored") is True)


def k_error_accept_ring(case, v, e):
    d = _d(v)
    return (case.get("scheme") in ("ers", "smlers", "etrs") and d.get("kind") == "soundness" and d.get("accepted")
            and d.get("errored") is True and (d.get("mutation") or "").endswith(":huge"))


def k_ring_scalar_range(case, v, e):
    d = _d(v)
    m = d.get("mutation") or ""
    return (case.get("scheme") in ("ers", "smlers", "etrs") and d.get("kind") == "soundness" and d.get("accepted")
            and m.endswith(":plus-order") and (m.startswith("scalar:") or m.startswith("td:")) and not m.startswith("scalar:y:"))


def k_etrs_interpolation(case, v, e):
    d = _d(v)
    m = d.get("mutation") or ""
    return (case.get("scheme") == "etrs" and d.get("kind") == "soundness" and d.get("accepted")
            and any(m.startswith(pfx) for pfx in ETRS_INTERPOLATION_ONLY))


def k_etrs_overflow(case, v, e):
    d = _d(v)
    f = d.get("facts") or {}
    return (case.get("scheme") == "etrs" and d.get("crash") and "stack-buffer-overflow" in (d.get("kind") or "")
            and _frames(v, "cp_etrs_ver") and f.get("thres") is not None and f.get("size") is not None
            and f["thres"] > f["size"])


def k_g1_sig_subgroup(case, v, e):
    d = _d(v)
    return (case.get("scheme") in ("bls", "cls", "cli", "clb", "pss", "psb", "mpss", "mpsb", "cmlhs", "mklhs")
            and d.get("kind") == "soundness" and d.get("accepted") and d.get("role") == "sig" and d.get("ctype") == "g1"
            and (d.get("reason") or "").endswith(":outside-subgroup"))


def k_zss_identity(case, v, e):
    d = _d(v)
    return (case.get("scheme") == "zss" and d.get("kind") == "soundness" and d.get("accepted")
            and d.get("reason") == "sig:identity" and d.get("mutation") == "mut:recipe:identity-signature-and-unit-z")


KNOWN_PREDICATES = {
    "c05b_zss_identity": k_zss_identity,
    "c05b_error_accept_b": k_error_accept_b,
    "c05b_error_accept_ring": k_error_accept_ring,
    "c05b_mklhs_overflow": k_mklhs_overflow,
    "c05b_cmlhs_overflow": k_cmlhs_overflow,
    "c05b_pk_annihilated": k_pk_annihilated,
    "c05b_sig_g1_cofactor": k_sig_g1_cofactor,
    "c05b_ring_scalar_range": k_ring_scalar_range,
    "c05b_etrs_interpolation": k_etrs_interpolation,
    "c05b_etrs_overflow": k_etrs_overflow,
    "c05b_g1_sig_subgroup": k_g1_sig_subgroup,
}

"""C03 — prime-curve group law and every scalar multiplication equal [k]P (DESIGN §2 C03)."""
import struct

from hypothesis import strategies as st

from engine import ecctx
from engine.core import Target, Violation, Unsupported
from engine.gen import ints
from engine.proto import Prog, RLC_EQ, RLC_NE
from engine.ref import ec as rec
from engine.ref import fp as rfp

PROPERTY = "C03"
RULE = ("points = reference-computed multiples [m]G (m from 0, +-1, 2..16, n-1, uniform) or reference-lifted curve points "
        "outside the subgroup on cofactor curves, shipped raw in affine / homogeneous / Jacobian form with generated Z; "
        "operand pairs biased to P=O, Q=O, P=Q, P=-Q, same point in different representations; scalars from G-scalar "
        "(0, +-1, 2, n-1, n, n+1, multiples of n, negative, up to the bignum precision, sparse / runs / alternating, "
        "lambda and GLV boundary values); tables built by the matching ep_mul_pre_*; one curve per worker job, all "
        "selectable curves covered. oracle = independent affine chord-and-tangent reference, result compared after "
        "reference-side normalisation + normalised-affine-output check for multiplications + on-curve + input "
        "preservation. non-trivial: exceptional or non-affine group-law case; multiplication with |k| not in {0,1} and "
        "(k >= n or k < 0 or > 64 bits). distinct = distinct (target, cfg, case) hashes")
ASSUMPTIONS = ["curve parameters (a, b, G, n, h) are read from the library getters and sanity-checked by the reference "
               "([n]G = O, G on curve); C18 validates them in depth",
               "ep_add_projc is fed BASIC/PROJC operands, ep_add_jacob BASIC/JACOB operands, *_basic affine operands",
               "points outside the prime-order subgroup are only given to routines that do not reduce the scalar mod n"]
BUDGET_S = {"quick": 260, "thorough": 1700}
JOB_SIZE = {"quick": 700, "thorough": 2500}


# ------------------------------------------------------------------------------ generators


_STALE = {}


def stale_pt(c):
    """content of output objects before the call: a fixed multiple of G that no generated case expects as its result
    (the generator itself is the expected value of [1]G: a routine returning without writing must not pass)"""
    key = (c.cid, c.F.p)
    if key not in _STALE:
        _STALE[key] = c.E.mul(0x5DEECE66D1234567 % c.n or 3, c.G)
    return _STALE[key]


def point_spec(c, allow_outside=True):
    """A point description: {'m': multiplier of G} or {'x': x-coordinate, 's': sign} for arbitrary curve points."""
    n = c.n
    special = [0, 1, n - 1, 2, 3, n - 2, 4, 5, 7, 8, 15, 16, n // 2, n // 2 + 1]

    @st.composite
    def s(draw):
        k = draw(st.integers(0, 5))
        if k <= 1:
            return {"m": draw(st.sampled_from(special))}
        if k == 2 and c.h > 1 and allow_outside:
            return {"x": draw(ints.uniform(0, c.F.p - 1)), "s": draw(st.integers(0, 1))}
        return {"m": draw(ints.uniform(1, n - 1))}
    return s()


def rep_spec(c, kinds):
    @st.composite
    def s(draw):
        kind = draw(st.sampled_from(kinds))
        z = 1
        if kind != "basic":
            z = draw(st.one_of(st.sampled_from([1, 2, c.F.p - 1, c.F.R % c.F.p]), ints.uniform(1, c.F.p - 1)))
        return {"kind": kind, "z": z, "inf": draw(st.integers(0, 1))}
    return s()


def resolve(c, spec):
    """Affine reference point (or None) of a point spec; Unsupported if x lifts to no point."""
    if "m" in spec:
        if spec["m"] % c.n == 0:
            return None
        return ecctx.small_multiple(c, spec["m"])
    P = c.E.lift_x(spec["x"] % c.F.p)
    if P is None:
        raise Unsupported()
    if spec.get("s"):
        P = c.E.neg(P)
    return P


def enc(c, P, rep):
    return ecctx.enc_point(c, P, rep["kind"], rep["z"], rep.get("inf", 0))


REPS = {"basic": ["basic"], "projc": ["basic", "projc", "projc"], "jacob": ["basic", "jacob", "jacob"]}


def NATIVE(c):
    """affine plus the build's own projective system: what a caller holds after a group operation"""
    return REPS[{c.BASIC: "basic", c.PROJC: "projc", c.JACOB: "jacob"}[c.EP_ADD]]


def rep_kinds_for(c, op):
    if op.endswith("_basic") or "slp" in op:
        return REPS["basic"]
    if op.endswith("_projc"):
        return REPS["projc"]
    if op.endswith("_jacob"):
        return REPS["jacob"]
    # macros and generic routines follow the build's EP_ADD
    return REPS[{c.BASIC: "basic", c.PROJC: "projc", c.JACOB: "jacob"}[c.EP_ADD]]


def chk_call(call, what, allow_error=False):
    if call.unsupported:
        raise Unsupported()
    if call.ub:
        raise Violation("undefined behaviour in %s: %s" % (what, call.ub), ub=call.ub)
    if call.errored and not allow_error:
        raise Violation("%s reported an error (caught=%d e=%d code=%d) for valid input" % (what, call.caught, call.e, call.code))


def chk_point(c, blob, want, what, need_norm=False):
    got, meta = ecctx.dec_point(c, blob, what)
    if got is not None and not c.E.on_curve(got):
        raise Violation("%s: result is not on the curve" % what, got=got)
    if not c.E.eq(got, want):
        raise Violation("%s: wrong point" % what, got=got, want=want)
    if need_norm and got is not None and (meta["coord"] != c.BASIC or meta["z"] != 1):
        raise Violation("%s: result not in normalised affine form" % what, coord=meta["coord"], z=meta["z"])
    return got, meta


# ------------------------------------------------------------------------------ group law

LAW2 = ["ep_add", "ep_add_basic", "ep_add_projc", "ep_add_jacob", "ep_sub", "ep_add_slp_basic"]
LAW1 = ["ep_neg", "ep_dbl", "ep_dbl_basic", "ep_dbl_projc", "ep_dbl_jacob", "ep_norm", "ep_copy", "ep_dbl_slp_basic"]
LAWQ = ["ep_cmp", "ep_is_infty", "ep_on_curve"]


def strat_law(env, cfg):
    c = ecctx.job_curve(env, cfg)

    @st.composite
    def s(draw):
        op = draw(st.sampled_from(LAW2 + LAW2 + LAW1 + LAWQ))
        kinds = rep_kinds_for(c, op)
        P = draw(point_spec(c))
        rel = draw(st.sampled_from(["rand", "rand", "eq", "neg", "infty", "eq", "neg"]))
        if rel == "rand":
            Q = draw(point_spec(c))
        elif rel == "infty":
            Q = {"m": 0}
        else:
            Q = dict(P, rel=rel)
        if draw(st.integers(0, 9)) == 0:
            P, Q = Q, P
        return dict(cid=c.cid, op=op, P=P, Q=Q, rp=draw(rep_spec(c, kinds)), rq=draw(rep_spec(c, kinds)),
                    alias=draw(st.sampled_from([0, 0, 1, 2, 3])), poison=draw(st.integers(0, 255)))
    return s()


def _resolve_pair(c, case):
    P = resolve(c, {k: v for k, v in case["P"].items() if k != "rel"})
    Qs = case["Q"]
    Q = resolve(c, {k: v for k, v in Qs.items() if k != "rel"})
    if Qs.get("rel") == "neg":
        Q = c.E.neg(Q)
    if case["P"].get("rel") == "neg":
        P = c.E.neg(P)
    return P, Q


def run_law(env, cfg, case):
    c = ecctx.curve(env, cfg, case["cid"])
    op, alias = case["op"], case["alias"]
    P, Q = _resolve_pair(c, case)
    E = c.E
    rp, rq = case["rp"], case["rq"]
    labels = ["op:" + op, "cid:%d" % c.cid]
    what = "%s[cid=%d]" % (op, c.cid)
    exceptional = P is None or Q is None or E.eq(P, Q) or E.eq(P, E.neg(Q))
    if op in LAW2:
        if alias == 3 and not (E.eq(P, Q)):
            alias = 0
        if op == "ep_sub" and alias == 3:
            pass
        want = E.sub(P, Q) if op == "ep_sub" else E.add(P, Q)

        def build(p):
            sp = p.new("EP", enc(c, P, rp))
            sq = sp if alias == 3 else p.new("EP", enc(c, Q, rq))
            sr = p.new("EP", enc(c, stale_pt(c), {"kind": "basic", "z": 1})) if alias in (0, 3) else (sp if alias == 1 else sq)
            if op == "ep_add_slp_basic":
                ss = p.new("FP", c.F.enc(5))
                p.call(op, sr, sp, sq, ss)
            else:
                p.call(op, sr, sp, sq)
            p.dump(sr)
            ins = {}
            if sp != sr:
                ins[sp] = "p"
            if sq != sr:
                ins[sq] = "q"
            return sr, ins
        for pz in (case["poison"], case["poison"] ^ 0xFF):
            res, (sr, ins) = ecctx.run(env, cfg, c.cid, build, pz)
            call = res.calls[0]
            chk_call(call, what)
            chk_point(c, res.dumps[sr], want, what)
            bad = [ins[s_] for s_ in call.changed if s_ in ins]
            if bad:
                raise Violation("%s modified its input(s) %s" % (what, bad))
        if P is None or Q is None:
            labels.append("law:identity-operand")
        elif E.eq(P, Q):
            labels.append("law:P=Q")
        elif E.eq(P, E.neg(Q)):
            labels.append("law:P=-Q")
        else:
            labels.append("law:generic")
        labels.append("reps:%s+%s" % (rp["kind"], rq["kind"]))
        nt = (P is not None and Q is not None) and (exceptional or rp["kind"] != "basic" or rq["kind"] != "basic")
        return nt or alias != 0, labels
    if op in LAW1:
        if op == "ep_neg":
            want = E.neg(P)
        elif "dbl" in op:
            want = E.dbl(P)
        else:
            want = P
        al = alias in (1, 2)

        def build(p):
            sp = p.new("EP", enc(c, P, rp))
            sr = sp if al else p.new("EP", enc(c, stale_pt(c), {"kind": "basic", "z": 1}))
            if op == "ep_dbl_slp_basic":
                ss = p.new("FP", c.F.enc(5))
                p.call(op, sr, sp, ss)
            else:
                p.call(op, sr, sp)
            p.dump(sr)
            return sr, ({} if al else {sp: "p"})
        for pz in (case["poison"], case["poison"] ^ 0xFF):
            res, (sr, ins) = ecctx.run(env, cfg, c.cid, build, pz)
            call = res.calls[0]
            chk_call(call, what)
            chk_point(c, res.dumps[sr], want, what, need_norm=(op == "ep_norm"))
            if [s_ for s_ in call.changed if s_ in ins]:
                raise Violation("%s modified its input" % what)
        labels.append("rep:" + rp["kind"])
        return (P is not None and (rp["kind"] != "basic" or al)), labels
    # queries
    for pz in (case["poison"], case["poison"] ^ 0xFF):
        def build(p):
            sp = p.new("EP", enc(c, P, rp))
            if op == "ep_cmp":
                sq = p.new("EP", enc(c, Q, rq))
                p.call(op, sp, sq)
            else:
                p.call(op, sp)
            return None
        res, _ = ecctx.run(env, cfg, c.cid, build, pz)
        call = res.calls[0]
        chk_call(call, what)
        if call.changed:
            raise Violation("%s modified its input" % what)
        got = call.ret_i(0)
        if op == "ep_cmp":
            want = RLC_EQ if E.eq(P, Q) else RLC_NE
            labels.append("cmp:%s" % ("eq" if want == RLC_EQ else "ne"))
        elif op == "ep_is_infty":
            want = int(P is None)
        else:
            want = 1
        if got != want:
            raise Violation("%s wrong" % what, got=got, want=want, P=P, Q=Q if op == "ep_cmp" else None)
    labels.append("reps:%s+%s" % (rp["kind"], rq["kind"]))
    return (P is not None and (rp["kind"] != "basic" or rq["kind"] != "basic")), labels


# ------------------------------------------------------------------------------ variable-base multiplication

MULS = ["ep_mul", "ep_mul_basic", "ep_mul_slide", "ep_mul_monty", "ep_mul_lwnaf", "ep_mul_lwreg", "ep_mul_gen",
        "ep_mul_dig"]
# routines that work on the plain integer (no reduction modulo the order): usable for points outside the subgroup
NONREDUCING = {"ep_mul_basic", "ep_mul_dig"}


def strat_mul(env, cfg):
    c = ecctx.job_curve(env, cfg)
    bn_bits = 1024
    others = [o.cid for o in ecctx.discover(env, cfg)["curves"] if o.cid != c.cid]

    @st.composite
    def s(draw):
        op = draw(st.sampled_from(MULS))
        P = draw(point_spec(c, allow_outside=op in NONREDUCING))
        k = draw(ints.scalar(c.n, bn_bits, c.lam))
        if op == "ep_mul_dig":
            k = draw(ints.digit(c.F.W))
        # the point may arrive as the result of a group operation, i.e. in the build's projective system
        kinds = REPS[{c.BASIC: "basic", c.PROJC: "projc", c.JACOB: "jacob"}[c.EP_ADD]] if op != "ep_mul_gen" else ["basic"]
        # now and then another curve is selected right before this one (flags / tables / lattice constants left
        # behind by the previous selection must not leak into the multiplication)
        prev = draw(st.sampled_from(others)) if others and draw(st.integers(0, 24)) == 0 else None
        return dict(cid=c.cid, op=op, P=P, k=k, rp=draw(rep_spec(c, kinds)), alias=draw(st.sampled_from([0, 0, 1])),
                    poison=draw(st.integers(0, 255)), seed=draw(st.binary(min_size=8, max_size=8)), prev=prev)
    return s()


def mul_labels(c, k):
    n = c.n
    out = []
    if k < 0:
        out.append("k:negative")
    if abs(k) >= n:
        out.append("k:>=n")
    if k % n == 0:
        out.append("k:0-mod-n")
    if abs(k).bit_length() > n.bit_length():
        out.append("k:longer-than-n")
    if not out:
        out.append("k:in-range")
    return out


def run_mul(env, cfg, case):
    c = ecctx.curve(env, cfg, case["cid"])
    op, k, alias = case["op"], case["k"], case["alias"]
    E = c.E
    P = c.G if op == "ep_mul_gen" else resolve(c, case["P"])
    want = E.mul(k, P)
    what = "%s[cid=%d]" % (op, c.cid)

    def build(p):
        sp = p.new("EP", enc(c, P, case["rp"]))
        sr = sp if alias else p.new("EP", enc(c, stale_pt(c), {"kind": "basic", "z": 1}))
        if op == "ep_mul_gen":
            sk = p.bn(k)
            p.call(op, sr, sk)
            ins = {sk: "k"}
        elif op == "ep_mul_dig":
            p.call(op, sr, sp, k)
            ins = {}
        else:
            sk = p.bn(k)
            p.call(op, sr, sp, sk)
            ins = {sk: "k"}
        if not alias and op != "ep_mul_gen":
            ins[sp] = "p"
        p.dump(sr)
        return sr, ins
    for pz in (case["poison"], case["poison"] ^ 0xFF):
        res, (sr, ins) = ecctx.run(env, cfg, c.cid, build, pz, seed=case["seed"], prev=case.get("prev"))
        call = res.calls[0]
        chk_call(call, what)
        chk_point(c, res.dumps[sr], want, what, need_norm=True)
        if [s_ for s_ in call.changed if s_ in ins]:
            raise Violation("%s modified its input" % what)
    n = c.n
    nt = abs(k) not in (0, 1) and (abs(k) >= n or k < 0 or (k % n).bit_length() > 64) and P is not None
    return nt, ["op:" + op, "cid:%d" % c.cid] + mul_labels(c, k) + (["after-other-curve"] if case.get("prev") else [])


# ------------------------------------------------------------------------------ fixed-base multiplication

FIX = [("ep_mul_pre_basic", "ep_mul_fix_basic"), ("ep_mul_pre_combs", "ep_mul_fix_combs"),
       ("ep_mul_pre_combd", "ep_mul_fix_combd"), ("ep_mul_pre_lwnaf", "ep_mul_fix_lwnaf"), ("ep_mul_pre", "ep_mul_fix")]


def strat_fix(env, cfg):
    c = ecctx.job_curve(env, cfg)

    @st.composite
    def s(draw):
        i = draw(st.integers(0, len(FIX) - 1))
        P = draw(st.one_of(st.just({"m": 1}), point_spec(c, allow_outside=False)))
        ks = [draw(ints.scalar(c.n, 1024, c.lam)) for _ in range(draw(st.integers(1, 3)))]
        rp = draw(rep_spec(c, NATIVE(c)))
        return dict(cid=c.cid, alg=i, P=P, ks=ks, rp=rp, poison=draw(st.integers(0, 255)))
    return s()


def run_fix(env, cfg, case):
    c = ecctx.curve(env, cfg, case["cid"])
    pre, fix = FIX[case["alg"]]
    P = resolve(c, case["P"])
    if P is None:
        raise Unsupported()
    tabsz = c.inf[8]
    what = "%s/%s[cid=%d]" % (pre, fix, c.cid)

    def build(p):
        sp = p.new("EP", enc(c, P, case.get("rp") or {"kind": "basic", "z": 1}))
        st_ = p.new("EPV", struct.pack("<II", tabsz, 0))
        p.call(pre, st_, sp)
        outs = []
        for k in case["ks"]:
            sr = p.new("EP", enc(c, stale_pt(c), {"kind": "basic", "z": 1}))
            sk = p.bn(k)
            p.call(fix, sr, st_, sk)
            p.dump(sr)
            outs.append((sr, sk))
        return sp, st_, outs
    for pz in (case["poison"], case["poison"] ^ 0xFF):
        res, (sp, st_, outs) = ecctx.run(env, cfg, c.cid, build, pz)
        chk_call(res.calls[0], pre)
        if sp in res.calls[0].changed:
            raise Violation("%s modified its input point" % pre)
        for i, (sr, sk) in enumerate(outs):
            call = res.calls[1 + i]
            chk_call(call, what)
            chk_point(c, res.dumps[sr], c.E.mul(case["ks"][i], P), what + "(k#%d)" % i, need_norm=True)
            if st_ in call.changed or sk in call.changed:
                raise Violation("%s modified its table / scalar" % fix)
    lab = ["op:" + fix, "cid:%d" % c.cid, "fix:%s" % ("generator" if case["P"] == {"m": 1} else "other-base")]
    for k in case["ks"]:
        lab += mul_labels(c, k)
    nt = any(abs(k) not in (0, 1) and (abs(k) >= c.n or k < 0 or (k % c.n).bit_length() > 64) for k in case["ks"])
    return nt, lab


# ------------------------------------------------------------------------------ simultaneous multiplication

SIM2 = ["ep_mul_sim", "ep_mul_sim_basic", "ep_mul_sim_trick", "ep_mul_sim_inter", "ep_mul_sim_joint", "ep_mul_sim_gen"]


def strat_sim(env, cfg):
    c = ecctx.job_curve(env, cfg)

    @st.composite
    def s(draw):
        op = draw(st.sampled_from(SIM2 + ["ep_mul_sim_lot", "ep_mul_sim_lot", "ep_mul_sim_dig"]))
        big = False
        if op in SIM2:
            npts = 2
        elif op == "ep_mul_sim_lot" and draw(st.sampled_from([0] * 7 + [1])):
            # the many-point (bucket) branch widens its window with the number of points (w = bits(n) - 2): sizes
            # around every power of two up to 130. Points are small multiples of G so that the reference is one
            # multiplication by sum k_i m_i
            npts = draw(st.sampled_from([15, 16, 17, 31, 32, 33, 40, 63, 64, 65, 100, 127, 128, 130]))
            big = True
        else:
            npts = draw(st.sampled_from([0, 1, 2, 3, 4, 7, 8, 9, 10, 11, 12]))
        pts, ks = [], []
        for i in range(npts):
            if big:
                pts.append({"m": draw(st.sampled_from([1, 2, 3, 5, 7, 11, 13, 16, 17, -1, -2, -3, 29, 31, 64]))})
            elif i and draw(st.integers(0, 4)) == 0:
                pts.append(dict(pts[draw(st.integers(0, i - 1))]))     # repeated point
            else:
                pts.append(draw(point_spec(c, allow_outside=False)))
            ks.append(draw(ints.digit(c.F.W)) if op == "ep_mul_sim_dig" else draw(ints.scalar(c.n, 1024, c.lam)))
        reps = [draw(rep_spec(c, NATIVE(c))) for _ in range(npts)] if draw(st.sampled_from([0, 1])) else None
        return dict(cid=c.cid, op=op, pts=pts, ks=ks, reps=reps, poison=draw(st.integers(0, 255)))
    return s()


def run_sim(env, cfg, case):
    c = ecctx.curve(env, cfg, case["cid"])
    op = case["op"]
    E = c.E
    pts = [resolve(c, s_) for s_ in case["pts"]]
    ks = case["ks"]
    if op == "ep_mul_sim_gen":
        pts = [c.G, pts[1]]
    if len(pts) > 12 and all("m" in s_ for s_ in case["pts"]):
        want = E.mul(sum(k * s_["m"] for k, s_ in zip(ks, case["pts"])) % c.n, c.G)
    else:
        want = None
        for P, k in zip(pts, ks):
            want = E.add(want, E.mul(k, P))
    what = "%s[cid=%d](n=%d)" % (op, c.cid, len(pts))
    basic = {"kind": "basic", "z": 1}
    reps = case.get("reps") or [basic] * len(pts)
    if op == "ep_mul_sim_gen" and len(reps) > 1:
        reps = [basic, reps[1]]

    def build(p):
        sr = p.new("EP", enc(c, stale_pt(c), basic))
        if op in SIM2:
            s0, s1 = p.new("EP", enc(c, pts[0], reps[0])), p.new("EP", enc(c, pts[1], reps[1]))
            k0, k1 = p.bn(ks[0]), p.bn(ks[1])
            if op == "ep_mul_sim_gen":
                p.call(op, sr, k0, s1, k1)
                ins = [k0, s1, k1]
            else:
                p.call(op, sr, s0, k0, s1, k1)
                ins = [s0, k0, s1, k1]
        else:
            n = len(pts)
            body = b"".join(enc(c, P, r_) for P, r_ in zip(pts, reps))
            sv = p.new("EPV", struct.pack("<II", n, n) + body)
            if op == "ep_mul_sim_dig":
                db = c.F.W // 8
                sk = p.buf(b"".join(k.to_bytes(db, "little") for k in ks))
            else:
                sk = p.bnv(ks)
            p.call(op, sr, sv, sk, n)
            ins = [sv, sk]
        p.dump(sr)
        return sr, ins
    for pz in (case["poison"], case["poison"] ^ 0xFF):
        res, (sr, ins) = ecctx.run(env, cfg, c.cid, build, pz)
        call = res.calls[0]
        chk_call(call, what)
        chk_point(c, res.dumps[sr], want, what, need_norm=True)
        if [s_ for s_ in call.changed if s_ in ins]:
            raise Violation("%s modified its input" % what)
    lab = ["op:" + op, "cid:%d" % c.cid, "sim:n=%d" % len(pts)]
    if any(P is None for P in pts):
        lab.append("sim:identity-inside")
    nt = len(pts) >= 2 and any(abs(k) >= c.n or k < 0 for k in ks) or len(pts) == 0
    return nt or any((k % c.n).bit_length() > 64 for k in ks), lab


# ------------------------------------------------------------------------------ endomorphism, tables, simultaneous norm

def strat_misc(env, cfg):
    c = ecctx.job_curve(env, cfg)

    @st.composite
    def s(draw):
        op = draw(st.sampled_from((["ep_psi"] if c.lam else []) + ["ep_norm_sim", "ep_tab", "ep_blind"]))
        kinds = rep_kinds_for(c, "ep_add")
        n = draw(st.sampled_from([1, 2, 3, 5, 8]))
        pts = [draw(point_spec(c)) for _ in range(n)]
        reps = [draw(rep_spec(c, kinds)) for _ in range(n)]
        return dict(cid=c.cid, op=op, pts=pts, reps=reps, w=draw(st.integers(2, 6)), poison=draw(st.integers(0, 255)),
                    seed=draw(st.binary(min_size=8, max_size=8)))
    return s()


def run_misc(env, cfg, case):
    c = ecctx.curve(env, cfg, case["cid"])
    op = case["op"]
    E = c.E
    pts = [resolve(c, s_) for s_ in case["pts"]]
    reps = case["reps"]
    what = "%s[cid=%d]" % (op, c.cid)
    basic = {"kind": "basic", "z": 1}
    lab = ["op:" + op, "cid:%d" % c.cid]
    if op == "ep_psi":
        P = pts[0]
        if P is not None and c.h > 1 and E.mul(c.n, P) is not None:
            raise Unsupported()

        def build(p):
            sp = p.new("EP", enc(c, P, basic))
            sr = p.new("EP", enc(c, stale_pt(c), basic))
            p.call(op, sr, sp)
            p.dump(sr)
            return sr, sp
        res, (sr, sp) = ecctx.run(env, cfg, c.cid, build, case["poison"])
        chk_call(res.calls[0], what)
        chk_point(c, res.dumps[sr], E.mul(c.lam, P), what)
        return P is not None, lab
    if op == "ep_blind":
        P = pts[0]

        def build(p):
            sp = p.new("EP", enc(c, P, basic))
            sr = p.new("EP", enc(c, stale_pt(c), basic))
            p.call(op, sr, sp)
            p.dump(sr)
            return sr, sp
        res, (sr, sp) = ecctx.run(env, cfg, c.cid, build, case["poison"], seed=case["seed"])
        chk_call(res.calls[0], what)
        chk_point(c, res.dumps[sr], P, what)
        return P is not None, lab
    if op == "ep_tab":
        P = pts[0]
        if P is None:
            raise Unsupported()
        w = case["w"]
        n = 1 << (w - 2)

        def build(p):
            sp = p.new("EP", enc(c, P, basic))
            st_ = p.new("EPV", struct.pack("<II", max(n, 1), 0))
            p.call(op, st_, sp, w)
            p.dump(st_)
            return st_, sp
        res, (st_, sp) = ecctx.run(env, cfg, c.cid, build, case["poison"])
        chk_call(res.calls[0], what)
        got = ecctx.dec_points(c, res.dumps[st_], what)
        for i in range(n):
            if not E.eq(got[i][0], E.mul(2 * i + 1, P)):
                raise Violation("%s: table entry %d is not [%d]P" % (what, i, 2 * i + 1), got=got[i][0])
        return True, lab + ["tab:w=%d" % w]
    # ep_norm_sim
    n = len(pts)
    if any(P is None for P in pts):
        lab.append("norm_sim:identity-inside")

    def build(p):
        body = b"".join(enc(c, P, r_) for P, r_ in zip(pts, reps))
        sv = p.new("EPV", struct.pack("<II", n, n) + body)
        so = p.new("EPV", struct.pack("<II", n, n) + b"".join(enc(c, stale_pt(c), basic) for _ in range(n)))
        p.call(op, so, sv, n)
        p.dump(so)
        return so, sv
    for pz in (case["poison"], case["poison"] ^ 0xFF):
        res, (so, sv) = ecctx.run(env, cfg, c.cid, build, pz)
        call = res.calls[0]
        chk_call(call, what)
        got = ecctx.dec_points(c, res.dumps[so], what)
        for i in range(n):
            if not E.eq(got[i][0], pts[i]):
                raise Violation("%s: entry %d wrong" % (what, i), got=got[i][0], want=pts[i])
            if got[i][0] is not None and (got[i][1]["coord"] != c.BASIC or got[i][1]["z"] != 1):
                raise Violation("%s: entry %d not normalised" % (what, i))
        if sv in call.changed:
            raise Violation("%s modified its input" % what)
    return any(r_["kind"] != "basic" for r_ in reps), lab + ["norm_sim:n=%d" % n]


def self_test():
    rec.self_test()
    rfp.self_test()


def _cfgs():
    return {"quick": ["base256"],
            "thorough": ["base256", "p255", "p381", "ep-jacob", "ep-basic", "ep-nomixed", "ep-noendom", "ep-nopreco", "w2d2",
                         "w6d8", "fp-quick"]}


OPTIONAL_CFGS = ["fp-quick"]

TARGETS = [
    Target("ep-law", strat_law, run_law, _cfgs(), quick=14000, thorough=60000),
    Target("ep-mul", strat_mul, run_mul, _cfgs(), quick=9000, thorough=40000),
    Target("ep-fix", strat_fix, run_fix, _cfgs(), quick=3000, thorough=15000),
    Target("ep-sim", strat_sim, run_sim, _cfgs(), quick=5000, thorough=25000),
    Target("ep-misc", strat_misc, run_misc, _cfgs(), quick=3000, thorough=15000),
]

KNOWN_PREDICATES = {}

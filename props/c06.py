"""C06 — encryption, key agreement and sharing invert correctly; bad input is rejected.
Aggregates part A (integer-based public-key encryption: props/c06a.py) and part B (curve / pairing / MPC protocols:
props/c06b.py); each part is a complete module that can also be run on its own (./check c06a, ./check c06b)."""
from props import c06a, c06b

PROPERTY = "C06"
RULE = "PART A: " + c06a.RULE + " || PART B: " + c06b.RULE
ASSUMPTIONS = list(c06a.ASSUMPTIONS) + list(c06b.ASSUMPTIONS)
BUDGET_S = {"quick": 300, "thorough": 1800}
JOB_SIZE = {"quick": min(c06a.JOB_SIZE["quick"], c06b.JOB_SIZE["quick"]),
            "thorough": min(c06a.JOB_SIZE["thorough"], c06b.JOB_SIZE["thorough"])}
OPTIONAL_CFGS = list(getattr(c06a, "OPTIONAL_CFGS", [])) + list(getattr(c06b, "OPTIONAL_CFGS", []))
TARGETS = list(c06a.TARGETS) + list(c06b.TARGETS)
assert len({t.name for t in TARGETS}) == len(TARGETS), "target names of the two parts must be distinct"
KNOWN_PREDICATES = dict(getattr(c06a, "KNOWN_PREDICATES", {}), **getattr(c06b, "KNOWN_PREDICATES", {}))


def self_test():
    c06a.self_test()
    c06b.self_test()

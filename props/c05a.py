"""C05 part A — signature schemes with a full independent verifier: ECDSA, EC-Schnorr, RSA (PSS / PKCS#1 v1.5 /
BASIC), vBNN-IBS, proofs and signatures of knowledge of a discrete logarithm, Pedersen commitment (DESIGN §2 C05)."""
import struct

from hypothesis import strategies as st

from engine import ecctx
from engine.core import Target, Violation, Unsupported
from engine.gen import ints
from engine.proto import Prog, NULL, RunnerCrash, sanitizer_signature
from engine.ref import ec as rec
from engine.ref import fp as rfp
from engine.ref import sigs as rs

PROPERTY = "C05"
RULE = ("one case = one accepted triple plus a list of 1..10 variants; every variant is one verdict of the library compared "
        "with the verdict of an independent Python verifier, both directions (counted in classes as verdicts:<scheme>). "
        "accepted triple: key from cp_*_gen and signature from cp_*_sig under the case's DRBG seed (the reference must "
        "accept it; RSA signatures must equal the reference signature byte for byte), or key + signature computed by the "
        "reference (the library must accept it); messages of length {0,1,31,32,33,55,56,63,64,65,119,120,128,200} "
        "random / all-zero / all-0xFF, pre-hashed digests of {20,28,32,48,64} bytes; RSA moduli requested with "
        "{512,514,520,522,768,770,1016,1018,1024} bits; one curve per worker job, all selectable curves. variants: "
        "single-bit flips of every signature component / message / signature byte, +n, +2n, 0, n, n+1, negated, n-v, +-1, "
        "swapped components; RSA sig=0,1,N-1,N-sig,N, truncated, one byte longer, other key, arbitrary strings of length "
        "k-1,k,k+1,2k and EM-level forgeries built by the reference and signed with the private exponent in Python "
        "(trailer / PS / separator / DigestInfo / garbage after the hash / salt / wrong H with consistent mask); public "
        "keys: another key, identity, off-curve, generator, -Q, arbitrary; constructed valid triples for arbitrary keys "
        "(pre-hashed ECDSA forgery, x(R) >= n, key derived from R, invalid-curve point); entirely arbitrary tuples with "
        "scalars up to the bignum capacity. The input classes in which the unchanged tree is known to answer wrongly "
        "(known_findings.json) live in the *-sus targets, one class per case. non-trivial: a case with at least one "
        "mutated or arbitrary variant whose verdicts all agree; distinct = distinct (target, cfg, case) hashes")
ASSUMPTIONS = ["curve parameters are read from the library getters and sanity-checked by the reference (C18 validates them)",
               "md_map is the configured hash (C14 validates it); the reference uses hashlib for the same function",
               "signing keys always come from key generation (library or reference [d]G); messages, signatures and public "
               "keys given to a verifier are untrusted and unrestricted",
               "RSA pre-hashed mode: only digests of RLC_MD_LEN bytes have an oracle; other lengths are executed for "
               "memory safety only and labelled",
               "EC-Schnorr, vBNN-IBS, PoK/SoK byte encodings inside the hash (compressed points, zero padded block) follow the "
               "construction realised by the signer; range / membership requirements follow the property statement"]
BUDGET_S = {"quick": 230, "thorough": 1700}
JOB_SIZE = {"quick": 250, "thorough": 1200}

MSG_LENS = [0, 1, 31, 32, 33, 55, 56, 63, 64, 65, 119, 120, 128, 200]
DIG_LENS = [20, 28, 32, 48, 64]


# ------------------------------------------------------------------------------------------ shared helpers

class Info:
    pass


def info(env, cfg):
    key = ("c05info", cfg)
    if key not in env.cache:
        # a fresh Env means a fresh runner process: forget which curve ecctx believes to be selected (its cache is keyed
        # by id(runner), which Python may reuse for the Runner of the next Env in the same process, e.g. in the 3x replay)
        ecctx.invalidate(env, cfg)
        r = env.runner(cfg)
        if "info_cp_sig" not in r.ops():
            raise Unsupported()
        v = r.info("info_cp_sig")
        i = Info()
        i.md = {v[2]: "SH224", v[3]: "SH256", v[4]: "SH384", v[5]: "SH512", v[6]: "B2S160", v[7]: "B2S256"}[v[1]]
        i.H, i.hlen = rs.hash_fn(i.md)
        if i.hlen != v[0]:
            raise Violation("RLC_MD_LEN does not match the configured hash", md=i.md, md_len=v[0])
        i.pad = {v[9]: "BASIC", v[10]: "PKCS1", v[11]: "PKCS2"}[v[8]]
        i.crt, i.bn_bits, i.bn_size, i.dig, i.fc_bytes = v[12], v[13], v[14], v[15], v[16]
        i.has_ec = "cp_ecdsa_ver" in r.ops()
        env.cache[key] = i
    return env.cache[key]


def lib_compress(c, inf):
    """The library's compressed point format (ec_write_bin(.., 1)), which is what its protocols hash: 00 for O, else
    (02 | b) || x with b = least significant bit of y *in the internal field representation* on ordinary curves and
    b = [y > (p - 1) / 2] on pairing-friendly curves. Whether that format is acceptable is C07's question; here it is
    only the agreed byte string, and it is validated against ep_write_bin before use (grp())."""
    F = c.F

    def f(P):
        if P is None:
            return b"\x00"
        b = (1 if P[1] > (F.p - 1) // 2 else 0) if c.is_pairf else F.to_raw_int(P[1]) & 1
        return bytes([2 | b]) + P[0].to_bytes(inf.fc_bytes, "big")
    return f


def grp(env, cfg, c, inf):
    g = getattr(c, "_c05grp", None)
    if g is None:
        g = rs.Group(c.E, c.G, c.n, c.h, c.F.p, fbytes=inf.fc_bytes, compress_fn=lib_compress(c, inf))
        pts = [c.G, c.E.neg(c.G)] + [ecctx.small_multiple(c, m) for m in (2, 3, 5, 7, 11, c.n - 2, c.n // 3)]

        def build(p):
            out = []
            for P in pts:
                sb = p.buf(bytes(inf.fc_bytes + 1))
                sp = p.new("EP", ecctx.enc_point(c, P))
                p.call("ep_write_bin", sb, sp, 1)
                p.dump(sb)
                out.append(sb)
            return out
        res, out = ecctx.run(env, cfg, c.cid, build, 0x3C)
        for P, sb, call in zip(pts, out, res.calls):
            if call.errored or res.dumps[sb] != g.compress_fn(P):
                from engine.proto import HarnessError
                raise HarnessError("model of the library's compressed point format is wrong on curve %d" % c.cid)
        c._c05grp = g
    return g


def job_curve(env, cfg):
    """one curve per worker job (consecutive job seeds walk through all selectable curves)"""
    cs = ecctx.discover(env, cfg)["curves"]
    if not cs:
        raise Unsupported()
    return cs[env.job_seed % len(cs)]


def any_curve(strat):
    """the curve becomes part of the case (small targets with too few jobs to cover every curve otherwise)"""
    def wrapped(env, cfg):
        if not info(env, cfg).has_ec:
            raise Unsupported()
        cs = ecctx.discover(env, cfg)["curves"]
        if not cs:
            raise Unsupported()
        built = {}

        def get(i):
            if i not in built:
                built[i] = strat(env, cfg, cs[i])
            return built[i]
        return st.integers(0, len(cs) - 1).flatmap(get)
    return wrapped


def chk(call, what, allow_error=False):
    if call.unsupported:
        raise Unsupported()
    if call.ub:
        raise Violation("undefined behaviour in %s: %s" % (what, call.ub), ub=call.ub)
    if call.errored and not allow_error:
        raise Violation("%s reported an error (caught=%d e=%d code=%d) for valid input" % (
            what, call.caught, call.e, call.code))


def lib_verdict(call, what):
    """(accepted?, threw?) of a verification call; UB is a violation of its own."""
    if call.unsupported:
        raise Unsupported()
    if call.ub:
        raise Violation("undefined behaviour in %s: %s" % (what, call.ub), ub=call.ub)
    if call.errored:
        return (bool(call.rets and call.rets[0] != 0) and not call.caught), True
    return call.rets[0] != 0, False


@st.composite
def messages(draw, lens=MSG_LENS):
    n = draw(st.sampled_from(lens))
    fill = draw(st.sampled_from(["rand", "rand", "rand", "zero", "ff"]))
    if fill == "zero":
        return bytes(n)
    if fill == "ff":
        return b"\xff" * n
    return draw(st.binary(min_size=n, max_size=n))


def flip(b, bit):
    """flip one bit of a byte string (bit index reduced modulo the length); empty input gets a byte appended"""
    if not b:
        return b"\x01"
    bit %= 8 * len(b)
    a = bytearray(b)
    a[bit // 8] ^= 0x80 >> (bit % 8)
    return bytes(a)


def mismatch(cls, lab, lib, ref, why, **kw):
    d = dict(cls=cls, variant=lab, lib=int(lib), ref=int(ref), ref_reason=why)
    d.update(kw)
    return d


def finish(scheme, mism, labels, nt=True):
    if mism:
        m = mism[0]
        raise Violation("%s: library verdict %d, reference verdict %d (%s) on variant %s [%s]%s" % (
            scheme, m["lib"], m["ref"], m["ref_reason"], m["variant"], m["cls"],
            "" if len(mism) == 1 else " (+%d more)" % (len(mism) - 1)), mismatches=mism)
    return nt, labels


def crash_violation(rc, what, **kw):
    """a sanitizer abort whose trigger is identified from the inputs (so that a known-finding predicate can be narrow)"""
    kind, frames = sanitizer_signature(rc.stderr_tail)
    return Violation("runner %s in %s (%s)" % (rc.why, what, kind or "rc=%r" % rc.rc), crash=True, kind=kind, frames=frames,
                     why=rc.why, stderr=rc.stderr_tail[-2500:], **kw)


def point_spec(c, identity=True):
    """a public key / point given to a verifier: multiple of G, identity, off-curve"""
    @st.composite
    def s(draw):
        k = draw(st.integers(0, 9))
        if k == 0 and identity:
            return {"m": 0}
        if k == 1:
            return {"m": draw(st.sampled_from([1, 2, c.n - 1, 3]))}
        if k == 2:
            return {"xy": [draw(ints.uniform(0, c.F.p - 1)), draw(ints.uniform(0, c.F.p - 1))]}
        if k == 3 and c.h > 1:
            return {"x": draw(ints.uniform(0, c.F.p - 1))}
        return {"m": draw(ints.uniform(1, c.n - 1))}
    return s()


def resolve_point(c, spec):
    if "m" in spec:
        return None if spec["m"] % c.n == 0 else ecctx.small_multiple(c, spec["m"])
    if "xy" in spec:
        return (spec["xy"][0] % c.F.p, spec["xy"][1] % c.F.p)
    x = spec["x"] % c.F.p
    for i in range(64):
        P = c.E.lift_x((x + i) % c.F.p)
        if P is not None:
            return P
    raise Unsupported()


def arb_scalar(c, huge=True):
    """scalars handed to a verifier: in range, around the order, negative, up to the bignum capacity (34 digits)"""
    alts = [ints.uniform(1, c.n - 1), ints.uniform(1, c.n - 1), ints.uniform(1, c.n - 1), ints.scalar(c.n, 1088, c.lam),
            ints.scalar(c.n, 1088, c.lam)]
    if huge:
        alts.append(st.builds(lambda b, v: (1 << (b - 1)) | (v >> (2177 - b)), st.sampled_from([1500, 2048, 2112, 2113, 2176]),
                              ints.uniform(0, (1 << 2176) - 1)))
    return st.one_of(*alts)


KEY_MUTS = ["other", "identity", "offcurve", "generator", "neg", "offcurve-x", "outside"]


def mutate_key(c, Q, spec):
    """foreign / malformed public keys derived from the honest one"""
    k = spec["key"]
    p = c.F.p
    if k == "other":
        return ecctx.small_multiple(c, 1 + spec["v"] % (c.n - 1))
    if k == "identity":
        return None
    if k == "generator":
        return c.G
    if Q is None:
        return c.G
    if k == "neg":
        return c.E.neg(Q)
    if k == "offcurve":
        return (Q[0], (Q[1] + 1 + spec["v"] % (p - 1)) % p)
    if k == "offcurve-x":
        return ((Q[0] + 1 + spec["v"] % (p - 1)) % p, Q[1])
    if k == "outside":
        # Q + T with T of small prime order outside <G> (cofactor curves only; otherwise another key): the verification
        # equation still holds whenever that order divides the scalar applied to the key
        if c.h == 1:
            return ecctx.small_multiple(c, 2 + spec["v"] % (c.n - 2))
        ell = getattr(c, "_c05ell", None)
        if ell is None:
            from sympy import factorint
            ell = c._c05ell = min(factorint(c.h, limit=1 << 20))
        x = spec["v"] % p
        for i in range(64):
            T = c.E.lift_x((x + i) % p)
            if T is not None:
                T = c.E.mul(c.n * (c.h // ell), T)
                if T is not None:
                    return c.E.add(Q, T)
        return Q
    raise ValueError(k)


SUBS = ["+n", "+2n", "0", "n", "n+1", "neg", "n-", "+1", "-1", "neg-n", "2^"]


def substitute(v, n, how):
    return {"+n": v + n, "+2n": v + 2 * n, "0": 0, "n": n, "n+1": n + 1, "neg": -v, "n-": n - v, "+1": v + 1, "-1": v - 1,
            "neg-n": v - n, "2^": v + (1 << (n.bit_length() + 3))}[how]


# ------------------------------------------------------------------------------ ECDSA and EC-Schnorr (pair schemes)

PAIR_KINDS = ["flip-a", "flip-b", "flip-a", "flip-b", "flip-msg", "flip-msg", "msg-append", "msg-drop", "sub-a", "sub-b",
              "sub-a", "sub-b", "swap", "key", "key", "arb", "arb", "arb-key"]
ECDSA_KINDS = PAIR_KINDS + ["mode-cross", "mode-confuse", "forge", "forge", "xwrap", "forge-offcurve"]
ECSS_KINDS = PAIR_KINDS + ["e-zero-s", "ss-xwrap", "ss-derive"]
# classes in which the unchanged tree is known to answer wrongly (known_findings.json): one class per case, in targets
# of their own, so that a known finding never hides another variant of the same case
PAIR_SUSPECT = [("ecdsa", "forge-inf"), ("ecss", "ss-forge-inf"), ("ecss", "r-inf"), ("ecdsa", "key-outside"),
                ("ecss", "key-outside")]           # the last two only on curves with a cofactor


def pair_mut(c, kinds):
    nb = c.n.bit_length()

    @st.composite
    def s(draw):
        k = draw(st.sampled_from(kinds))
        m = {"k": k}
        if k in ("flip-a", "flip-b"):
            m["bit"] = draw(st.integers(0, nb + 6))
        elif k == "flip-msg":
            m["bit"] = draw(st.integers(0, 8 * 200 - 1))
        elif k == "msg-append":
            m["byte"] = draw(st.integers(0, 255))
        elif k in ("sub-a", "sub-b"):
            m["how"] = draw(st.sampled_from(SUBS))
        elif k == "key":
            m["key"] = draw(st.sampled_from([x for x in KEY_MUTS if x != "outside" or c.h == 1]))
            m["v"] = draw(ints.uniform(0, c.F.p - 1))
        elif k == "key-outside":
            m["key"] = "outside"
            m["v"] = draw(ints.uniform(0, c.F.p - 1))
        elif k == "arb":
            m["a"] = draw(arb_scalar(c))
            m["b"] = draw(arb_scalar(c))
            m["keep"] = draw(st.sampled_from(["key", "key+msg", "none"]))
            m["msg"] = draw(messages())
            m["Q"] = draw(point_spec(c))
            m["mode"] = draw(st.integers(0, 1))
        elif k == "arb-key":
            m["Q"] = draw(point_spec(c))
        elif k == "ss-forge-inf":
            m["s"] = draw(ints.uniform(1, c.n - 1))
        elif k in ("ss-xwrap", "ss-derive"):
            m["s"] = draw(ints.uniform(1, c.n - 1))
            m["x0"] = draw(ints.uniform(c.n, max(c.n, c.F.p - 1)) if k == "ss-xwrap" else ints.uniform(0, c.F.p - 1))
        elif k == "forge-offcurve":
            m["xy"] = [draw(ints.uniform(0, c.F.p - 1)), draw(ints.uniform(1, c.F.p - 1))]
            m["u2"] = draw(st.one_of(st.integers(1, 16), ints.uniform(1, c.n - 1)))
        elif k in ("forge", "xwrap", "forge-inf"):
            m["u1"] = draw(st.one_of(st.sampled_from([0, 1, c.n - 1]), ints.uniform(0, c.n - 1)))
            m["u2"] = draw(ints.uniform(1, c.n - 1))
            m["Q"] = draw(st.one_of(st.just({"own": 1}), st.builds(lambda v: {"m": v}, ints.uniform(1, c.n - 1))))
            m["tail"] = draw(st.binary(max_size=8))
            m["x0"] = draw(ints.uniform(c.n, max(c.n, c.F.p - 1)))
            m["plus_n"] = draw(st.integers(0, 1))
            m["hm"] = draw(st.integers(0, 1))
        return m
    return s()


def strat_pair(scheme_):
    def strat(env, cfg, c=None):
        inf = info(env, cfg)
        if not inf.has_ec:
            raise Unsupported()
        c = c or job_curve(env, cfg)

        @st.composite
        def s(draw):
            if scheme_ is None:
                scheme, kd = draw(st.sampled_from([x for x in PAIR_SUSPECT if x[1] != "key-outside" or c.h > 1]))
                kinds = [kd]
            else:
                scheme = scheme_
                kinds = ECDSA_KINDS if scheme == "ecdsa" else ECSS_KINDS
            mode = draw(st.sampled_from([0, 0, 1])) if scheme == "ecdsa" else 0
            if mode == 1:
                msg = draw(st.one_of(messages(DIG_LENS), messages(DIG_LENS), messages()))
            else:
                msg = draw(messages())
            signer = draw(st.sampled_from(["lib", "lib", "ref"]))
            case = dict(cid=c.cid, scheme=scheme, mode=mode, msg=msg, signer=signer,
                        seed=draw(st.binary(min_size=8, max_size=8)), poison=draw(st.integers(0, 255)),
                        muts=draw(st.lists(pair_mut(c, kinds), min_size=1, max_size=10)))
            if signer == "ref":
                case["d"] = draw(st.one_of(st.sampled_from([1, 2, c.n - 1]), ints.uniform(1, c.n - 1)))
                case["k"] = draw(st.one_of(st.sampled_from([1, 2, c.n - 1]), ints.uniform(1, c.n - 1)))
            return case
        return s()
    return strat


def _digest(inf, msg, mode):
    return inf.H(msg) if mode == 0 else bytes(msg)


def ref_pair_verify(scheme, g, inf, v):
    if scheme == "ecdsa":
        return rs.ecdsa_verify(g, v["Q"], v["a"], v["b"], _digest(inf, v["msg"], v["mode"]))
    return rs.ecss_verify(g, v["Q"], v["a"], v["b"], v["msg"], inf.H)


def pair_variants(scheme, c, g, inf, case, a, b, Q, d):
    """expand the mutation specs of a case into concrete (a, b, msg, mode, Q) tuples"""
    n, p = c.n, c.F.p
    msg, mode = case["msg"], case["mode"]
    nbytes = (n.bit_length() + 7) // 8
    out = [dict(a=a, b=b, msg=msg, mode=mode, Q=Q, lab="honest")]
    for m in case["muts"]:
        k = m["k"]
        v = dict(a=a, b=b, msg=msg, mode=mode, Q=Q, lab=k)
        if k == "flip-a":
            v["a"] = a ^ (1 << m["bit"])
        elif k == "flip-b":
            v["b"] = b ^ (1 << m["bit"])
        elif k == "flip-msg":
            v["msg"] = flip(msg, m["bit"])
        elif k == "msg-append":
            v["msg"] = msg + bytes([m["byte"]])
        elif k == "msg-drop":
            v["msg"] = msg[:-1] if msg else b"\x00"
        elif k == "sub-a":
            v["a"] = substitute(a, n, m["how"])
            v["lab"] = "a:" + m["how"]
        elif k == "sub-b":
            v["b"] = substitute(b, n, m["how"])
            v["lab"] = "b:" + m["how"]
        elif k == "swap":
            v["a"], v["b"] = b, a
        elif k in ("key", "key-outside"):
            v["Q"] = mutate_key(c, Q, m)
            v["lab"] = "key:" + m["key"]
        elif k == "arb":
            v["a"], v["b"] = m["a"], m["b"]
            if m["keep"] == "none":
                v["msg"], v["Q"], v["mode"] = m["msg"], resolve_point(c, m["Q"]), (m["mode"] if scheme == "ecdsa" else 0)
            elif m["keep"] == "key":
                v["msg"] = m["msg"]
            v["lab"] = "arb:" + m["keep"]
        elif k == "arb-key":
            v["Q"] = resolve_point(c, m["Q"])
        elif k == "mode-cross":
            # the same signature presented in the other mode with the matching input: must stay valid
            if mode == 0:
                v["mode"], v["msg"] = 1, inf.H(msg)
            else:
                v["mode"] = 0           # the digest taken as a message: a different statement
                v["lab"] = "mode-confuse"
        elif k == "mode-confuse":
            v["mode"] = 1 - mode
        elif k in ("forge", "xwrap", "forge-inf"):
            # valid pre-hashed triple without the private key: R = [u1]G + [u2]Q', r = x(R) mod n, s = r / u2,
            # e = u1 s, digest = e written on |n| bits (plus an ignored tail)
            u1, u2 = m["u1"] % n, m["u2"] % n or 1
            Qf = Q if "own" in m["Q"] else ecctx.small_multiple(c, m["Q"]["m"])
            if k == "forge-inf":
                # the same construction for the "public key" O: R = [u1]G, any s (a key that must be refused)
                Qf = None
                R = g.mul_g(u1)
            elif k == "forge":
                if Qf is None:
                    continue
                R = c.E.add(g.mul_g(u1), c.E.mul(u2, Qf))
            else:
                # R with x(R) in [n, p): the reduction of x modulo n matters; the key is derived from R
                if n >= p:
                    continue
                R = None
                for i in range(64):
                    x = m["x0"] + i
                    if x >= p:
                        break
                    R = c.E.lift_x(x)
                    if R is not None:
                        break
                if R is None:
                    continue
                Qf = c.E.mul(pow(u2, -1, n), c.E.sub(R, g.mul_g(u1)))
                if Qf is None:
                    continue
            if R is None:
                continue
            r = R[0] % n
            if r == 0:
                continue
            s_ = r * pow(u2, -1, n) % n
            e = u1 * s_ % n
            dig = (e << (8 * nbytes - n.bit_length())).to_bytes(nbytes, "big") + m["tail"]
            v.update(a=r, b=s_, msg=dig, mode=1, Q=Qf)
            if k == "forge-inf" and m["hm"]:
                # hash-then-sign flavour for the case's own message: u1 = e / s for a free s
                e = rs.bits2int(inf.H(msg), n.bit_length())
                R = g.mul_g(e * pow(u2, -1, n) % n)
                if R is None or R[0] % n == 0:
                    continue
                v.update(a=R[0] % n, b=u2, msg=msg, mode=0, Q=None, lab="forge-inf:msg")
            if k == "xwrap" and m["plus_n"]:
                v["a"] = R[0]           # the unreduced x-coordinate: out of range, must be rejected
                v["lab"] = "xwrap:r=x"
        elif k == "forge-offcurve":
            # invalid-curve triple: Q' lies on y^2 = x^3 + a x + b' with b' != b. For e = 0 verification only computes
            # [r / s]Q', and formulas that never use b evaluate that on the other curve: the triple "verifies" unless
            # the point is tested for membership
            x, y = m["xy"][0] % p, m["xy"][1] % p
            b2 = (y * y - x * x * x - c.a * x) % p
            if b2 == c.b % p:
                continue
            u2 = 1 + (m["u2"] - 1) % (n - 1)
            R = rec.Curve(c.K, c.a, b2).mul(u2, (x, y))
            if R is None or R[0] % n == 0:
                continue
            v.update(a=R[0] % n, b=R[0] % n * pow(u2, -1, n) % n, msg=bytes(nbytes), mode=1, Q=(x, y))
        elif k == "r-inf":
            # Schnorr pair whose R = [s]G + [e]Q is the identity (only the key owner can build it)
            if d is None or Q is None:
                continue
            e = rs.ecss_challenge(g, msg, 0, inf.H)
            v["a"], v["b"] = e, (-e * d) % n
        elif k == "e-zero-s":
            v["a"] = 0
        elif k in ("ss-xwrap", "ss-derive"):
            # valid Schnorr triple for a key derived from it: choose R (ss-xwrap: with x(R) in [n, p), so that the
            # reduction of x modulo n matters), r = x(R) mod n, e = H(m || r), any s, Q = (R - [s]G) / e
            R = None
            for i in range(64):
                x = m["x0"] + i
                if x >= p:
                    break
                R = c.E.lift_x(x)
                if R is not None:
                    break
            if R is None or R[0] % n == 0:
                continue
            e = rs.ecss_challenge(g, msg, R[0] % n, inf.H)
            s_ = 1 + (m["s"] - 1) % (n - 1)
            if e == 0:
                continue
            Qf = c.E.mul(pow(e, -1, n), c.E.sub(R, g.mul_g(s_)))
            if Qf is None:
                continue
            v.update(a=e, b=s_, Q=Qf)
        elif k == "ss-forge-inf":
            # Schnorr pair that satisfies the equation for the "public key" O: R = [s]G, e = H(m || x(R))
            s_ = 1 + (m["s"] - 1) % (n - 1)
            r = g.mul_g(s_)[0] % n
            v.update(a=rs.ecss_challenge(g, msg, r, inf.H), b=s_, Q=None)
        out.append(v)
    return out


def eval_pair(env, cfg, case):
    """returns (mismatches, labels)"""
    scheme = case["scheme"]
    inf = info(env, cfg)
    c = ecctx.curve(env, cfg, case["cid"])
    g = grp(env, cfg, c, inf)
    n = c.n
    msg, mode = case["msg"], case["mode"]
    ver = "cp_%s_ver" % scheme
    what = "%s[cid=%d]" % (scheme, c.cid)
    labels = ["scheme:" + scheme, "%s:cid:%d" % (scheme, c.cid), "%s:signer:%s" % (scheme, case["signer"]),
              "%s:mode:%s" % (scheme, "prehashed" if mode else "hash-then-sign"), "%s:msglen:%d" % (scheme, len(msg))]
    basic = ecctx.enc_point(c, c.G)
    mism = []
    if case["signer"] == "lib":
        def build(p):
            sd, sq = p.bn(0), p.new("EP", basic)
            sa, sb = p.bn(0), p.bn(0)
            sm = p.buf(msg)
            p.call("cp_%s_gen" % scheme, sd, sq)
            if scheme == "ecdsa":
                p.call("cp_ecdsa_sig", sa, sb, sm, mode, sd)
            else:
                p.call("cp_ecss_sig", sa, sb, sm, sd)
            for s_ in (sd, sq, sa, sb):
                p.dump(s_)
            return sd, sq, sa, sb, sm
        res, (sd, sq, sa, sb, sm) = ecctx.run(env, cfg, c.cid, build, case["poison"], seed=case["seed"])
        chk(res.calls[0], what + " key generation")
        chk(res.calls[1], what + " signing")
        if res.calls[0].rets[0] != 0 or res.calls[1].rets[0] != 0:
            raise Violation("%s: key generation / signing returned an error code" % what,
                            rets=[res.calls[0].rets, res.calls[1].rets])
        if sm in res.calls[1].changed or sd in res.calls[1].changed:
            raise Violation("%s: signing modified its inputs" % what)
        d = res.dumps[sd].value
        a, b = res.dumps[sa].value, res.dumps[sb].value
        Q, _ = ecctx.dec_point(c, res.dumps[sq], what + " public key")
        if not 0 <= d < n or Q != g.mul_g(d):
            raise Violation("%s: generated key pair inconsistent (Q != [d]G or d out of range)" % what, d=d, Q=Q)
        for nm, x in (("a", res.dumps[sa]), ("b", res.dumps[sb])):
            if x.normal_form_error():
                raise Violation("%s: signature component not normalised: %s" % (what, x.normal_form_error()))
        ok, why = ref_pair_verify(scheme, g, inf, dict(a=a, b=b, msg=msg, mode=mode, Q=Q))
        if not ok and d != 0:
            mism.append(mismatch("honest-signature-invalid", "honest", 1, 0, why, a=a, b=b, d=d))
    else:
        d = 1 + (case["d"] - 1) % (n - 1)
        k = 1 + (case["k"] - 1) % (n - 1)
        Q = g.mul_g(d)
        sg = rs.ecdsa_sign(g, d, k, _digest(inf, msg, mode)) if scheme == "ecdsa" else rs.ecss_sign(g, d, k, msg, inf.H)
        if sg is None or sg[1] == 0:
            raise Unsupported()
        a, b = sg
    vs = pair_variants(scheme, c, g, inf, case, a, b, Q, d)

    def build2(p):
        sa, sb, sm, sq = p.slot(), p.slot(), p.slot(), p.slot()
        for v in vs:
            p.bn(v["a"], slot=sa)
            p.bn(v["b"], slot=sb)
            p.buf(v["msg"], slot=sm)
            p.new("EP", ecctx.enc_point(c, v["Q"]), slot=sq)
            if scheme == "ecdsa":
                p.call(ver, sa, sb, sm, v["mode"], sq)
            else:
                p.call(ver, sa, sb, sm, sq)
        return None
    res, _ = ecctx.run(env, cfg, c.cid, build2, case["poison"] ^ 0xFF, seed=case["seed"])
    env.label("verdicts:" + scheme, len(vs))
    for v, call in zip(vs, res.calls):
        lib, threw = lib_verdict(call, what + " verification")
        if call.changed:
            raise Violation("%s verification modified its inputs" % what, variant=v["lab"])
        ok, why = ref_pair_verify(scheme, g, inf, v)
        labels.append("%s:variant:%s" % (scheme, v["lab"]))
        labels.append("%s:ref:%s:%s" % (scheme, "accept" if ok else "reject", why))
        if threw:
            labels.append("%s:lib-threw" % scheme)
        if ok and v["lab"] != "honest":
            labels.append("%s:accepted-nonhonest:%s" % (scheme, v["lab"]))
        if lib != ok:
            mism.append(mismatch(classify_pair(scheme, v, lib, ok, why), v["lab"], lib, ok, why, a=v["a"], b=v["b"],
                                 msg=v["msg"], mode=v["mode"], Q=v["Q"], threw=threw))
    return mism, labels


def classify_pair(scheme, v, lib, ok, why):
    if lib and not ok:
        if why == "key:identity" and v["Q"] is None:
            return scheme + ":accepts-identity-public-key"
        if scheme == "ecss" and why == "R=O":
            return "ecss:accepts-R-at-infinity"
        if why == "key:outside-subgroup":
            return scheme + ":accepts-public-key-outside-subgroup"
        return "%s:accepts:%s" % (scheme, why)
    return "%s:rejects-valid:%s" % (scheme, v["lab"])


def run_pair(env, cfg, case):
    mism, labels = eval_pair(env, cfg, case)
    return finish(case["scheme"], mism, labels)


KNOWN_CLASSES = {"ecdsa:accepts-identity-public-key", "ecss:accepts-identity-public-key", "ecss:accepts-R-at-infinity",
                 "ecdsa:accepts-public-key-outside-subgroup", "ecss:accepts-public-key-outside-subgroup"}


# ------------------------------------------------------------------------------------------------------ RSA

RSA_BITS = [512, 514, 520, 522, 768, 770, 1016, 1018, 1024]
RSA_COMMON = ["flip-sig", "flip-sig", "flip-sig", "flip-msg", "flip-msg", "msg-append", "msg-drop", "const", "const",
              "otherkey", "mode-cross", "arb", "arb", "em", "em", "em", "em", "trunc-tail", "empty", "append", "const-N", "cap"]
RSA_CONSTS = ["0", "1", "N-1", "N-sig", "2", "N-2"]
EM_KINDS = {
    "PKCS2": ["trailer", "ps", "sep", "salt", "hflip", "dbflip", "short", "hremask", "hremask"],
    "PKCS1": ["bt", "lead", "ps-garbage", "ps-garbage", "ps-nonff", "sep", "di", "di", "hflip", "ps-lead0"],
    "BASIC": ["pad", "lead", "hflip"],
}
# classes with a known wrong answer on the unchanged tree (one class per case, target rsa-sus)
RSA_SUSPECT = {
    "PKCS2": [("noncanonical", None), ("em", "topbit")],
    "PKCS1": [("noncanonical", None)],
    "BASIC": [("noncanonical", None), ("em", "d-long"), ("em", "d-short"), ("em", "d-over"), ("em", "pad-shift")],
}
RSA_NONCANONICAL = ["sig+N", "sig+N", "lead0", "lead0", "trunc-lead"]


def rsa_key(env, cfg, bits, kseed):
    """key generated by cp_rsa_gen under the DRBG seed kseed (cached per process; regenerated on replay)"""
    ck = ("c05rsa", cfg, bits, bytes(kseed))
    if ck in env.cache:
        return env.cache[ck]
    p = Prog(seed=bytes(kseed))
    p.call("c05_rsa_gen", 0, bits)
    v = p.bnv([0] * 9)
    p.call("c05_rsa_get", 0, v)
    p.dump(v)
    res = env.runner(cfg).run(p)
    chk(res.calls[0], "cp_rsa_gen(%d)" % bits)
    if res.calls[0].rets[0] != 0:
        raise Violation("cp_rsa_gen(%d) failed" % bits, rets=res.calls[0].rets)
    vals = [x.value for x in res.dumps[v]]
    key = dict(zip(("n", "e", "d", "p", "q", "dp", "dq", "qi", "n2"), vals))
    bad = rs.rsa_key_defect(key)
    if bad is None and key["n2"] != key["n"]:
        bad = "public and private modulus differ"
    if bad is None and not 2 * (bits // 2) - 1 <= key["n"].bit_length() <= 2 * (bits // 2):
        bad = "modulus of %d bits for a request of %d" % (key["n"].bit_length(), bits)
    if bad:
        raise Violation("cp_rsa_gen(%d) produced an inconsistent key: %s" % (bits, bad), key=key)
    env.cache[ck] = key
    return key


def rsa_mut(pad, kinds, emkinds):
    @st.composite
    def s(draw):
        k = draw(st.sampled_from(kinds))
        m = {"k": k}
        if k in ("flip-sig", "flip-msg"):
            m["bit"] = draw(st.integers(0, 8 * 200 - 1))
        elif k == "msg-append":
            m["byte"] = draw(st.integers(0, 255))
        elif k == "const":
            m["v"] = draw(st.sampled_from(RSA_CONSTS))
        elif k == "const-N":
            m["v"] = draw(st.sampled_from(["N", "N+1", "max"]))
        elif k == "sig+N":
            m["j"] = draw(st.sampled_from([1, 1, 2, 3]))
        elif k == "lead0":
            m["j"] = draw(st.sampled_from([1, 1, 2, 8]))
        elif k == "append":
            m["byte"] = draw(st.integers(0, 255))
        elif k == "cap":
            m["d"] = draw(st.sampled_from([-1, -1, 0, 3, -200]))
        elif k == "arb":
            m["len"] = draw(st.sampled_from(["k", "k", "k-1", "k+1", "1", "2k", "200"]))
            m["sig"] = draw(st.binary(min_size=260, max_size=260))
            m["newmsg"] = draw(st.integers(0, 1))
            m["msg"] = draw(messages())
        elif k == "em":
            m["em"] = draw(st.sampled_from(emkinds))
            m["v"] = draw(st.integers(0, 255))
            m["pos"] = draw(st.integers(0, 4095))
            m["j"] = draw(st.sampled_from([1, 1, 2, 3, 8]))
            if m["em"] == "d-over":
                m["j"] = draw(st.sampled_from([9, 16, 40, 100]))
            m["g"] = draw(st.binary(min_size=8, max_size=8))
        return m
    return s()


def strat_rsa(pool):
    def strat(env, cfg):
        inf = info(env, cfg)
        # two key sizes and four key seeds per job
        js = env.job_seed
        sizes = [RSA_BITS[js % len(RSA_BITS)], RSA_BITS[(js // 9 + 3) % len(RSA_BITS)]]
        seeds = [struct.pack("<QI", js, i) for i in range(4)]

        @st.composite
        def s(draw):
            mode = draw(st.sampled_from([0, 0, 1]))
            if mode == 1:
                msg = draw(st.one_of(messages([inf.hlen]), messages([inf.hlen]), messages([inf.hlen]),
                                     messages(sorted(set(DIG_LENS + [inf.hlen - 1, inf.hlen + 1, 0, 1]) - {inf.hlen}))))
            else:
                msg = draw(messages())
            if pool == "clean":
                kinds, emk = RSA_COMMON, EM_KINDS[inf.pad]
            else:
                kd, em = draw(st.sampled_from(RSA_SUSPECT[inf.pad]))
                kinds, emk = (RSA_NONCANONICAL, []) if kd == "noncanonical" else (["em"], [em])
                if em == "d-short":
                    # only a digest that ends in zero bytes has a shorter block that opens to "the same" value
                    mode = 1
                    msg = draw(st.binary(min_size=inf.hlen - 4, max_size=inf.hlen - 1)).ljust(inf.hlen, b"\x00")
            return dict(bits=draw(st.sampled_from(sizes)), kseed=draw(st.sampled_from(seeds)), mode=mode, msg=msg,
                        poison=draw(st.integers(0, 255)), seed=draw(st.binary(min_size=8, max_size=8)),
                        muts=draw(st.lists(rsa_mut(inf.pad, kinds, emk), min_size=1, max_size=10)))
        return s()
    return strat


def rsa_expected_em(inf, n, msg, mode):
    """the k-byte block a valid signature must open to (None: not encodable / no oracle)"""
    k = (n.bit_length() + 7) // 8
    dig = _digest(inf, msg, mode)
    if inf.pad == "PKCS2":
        if len(dig) != inf.hlen:
            return None
        em = rs.emsa_pss_encode(dig, n.bit_length() - 1, inf.H, inf.hlen)
        return None if em is None else em.rjust(k, b"\x00")
    if inf.pad == "PKCS1":
        if mode == 0:
            return rs.emsa_pkcs1_v15_encode(dig, k, inf.md)
        return rs.em_type1_raw(dig, k)
    return rs.em_basic(dig, k)


def rsa_ref_verify(inf, key, sig, msg, mode):
    """(verdict, reason) or (None, why) when the case has no oracle"""
    n, e = key["n"], key["e"]
    if mode == 1 and len(msg) != inf.hlen:
        return None, "pre-hashed input of %d bytes" % len(msg)
    dig = _digest(inf, msg, mode)
    if inf.pad == "PKCS2":
        return rs.rsa_pss_verify(n, e, sig, dig, inf.H, inf.hlen, 0)
    if inf.pad == "PKCS1" and mode == 0:
        return rs.rsa_pkcs1_verify(n, e, sig, dig, inf.md)
    return rs.rsa_em_verify(n, e, sig, rsa_expected_em(inf, n, msg, mode))


def rsa_forge_em(inf, n, msg, mode, m):
    """EM-level forgery: a k-byte block that differs from the valid encoding in one structural element"""
    k = (n.bit_length() + 7) // 8
    dig = _digest(inf, msg, mode)
    if mode == 1 and len(dig) != inf.hlen:
        return None
    em0 = rsa_expected_em(inf, n, msg, mode)
    if em0 is None:
        return None
    kind, v, pos, j, gb = m["em"], m["v"], m["pos"], m["j"], m["g"]
    H, hlen = inf.H, inf.hlen
    if kind == "hflip":
        # a bit inside the hash field
        em = bytearray(em0)
        off = k - 1 - hlen if inf.pad == "PKCS2" else k - hlen
        bit = pos % (8 * hlen)
        em[off + bit // 8] ^= 0x80 >> (bit % 8)
        return bytes(em)
    if kind == "lead":
        return b"\x01" + em0[1:]
    if inf.pad == "PKCS2":
        embits = n.bit_length() - 1
        emlen = (embits + 7) // 8
        em = bytearray(em0[k - emlen:])
        if kind == "trailer":
            em[-1] = v if v != 0xBC else 0xCC
        elif kind == "topbit":
            # the lowest bit above emBits (must be zero in maskedDB, step 6; any higher one makes the block >= n)
            x = rs.os2ip(bytes(em)) | (1 << embits)
            return x.to_bytes(k, "big") if x.bit_length() <= 8 * k else None
        elif kind == "hremask":
            # a wrong H (one bit) with DB masked consistently under it: everything but the final comparison passes
            h = bytearray(em[emlen - hlen - 1:emlen - 1])
            bit = pos % (8 * hlen)
            h[bit // 8] ^= 0x80 >> (bit % 8)
            db = bytes(emlen - hlen - 2) + b"\x01"
            mdb = bytearray(a ^ b for a, b in zip(db, rs.mgf1(bytes(h), len(db), H)))
            mdb[0] &= 0xFF >> (8 * emlen - embits)
            em = mdb + h + b"\xbc"
        elif kind in ("ps", "sep"):
            h = bytes(em[emlen - hlen - 1:emlen - 1])
            db = bytearray(bytes(emlen - hlen - 2) + b"\x01")
            if kind == "ps":
                if len(db) < 2:
                    return None
                db[pos % (len(db) - 1)] = v or 1
            else:
                db[-1] = v if v != 1 else 2
            mask = rs.mgf1(h, len(db), H)
            mdb = bytearray(a ^ b for a, b in zip(db, mask))
            if kind == "sep" or pos % (len(db) - 1) != 0 or (v or 1) >> (8 - (8 * emlen - embits)) == 0:
                mdb[0] &= 0xFF >> (8 * emlen - embits)
            em = mdb + h + b"\xbc"
        elif kind == "salt":
            e2 = rs.emsa_pss_encode(dig, embits, H, hlen, salt=gb[:j])
            if e2 is None:
                return None
            em = bytearray(e2)
        elif kind == "dbflip":
            bit = pos % (8 * (emlen - hlen - 1))
            em[bit // 8] ^= 0x80 >> (bit % 8)
        elif kind == "short":
            e2 = rs.emsa_pss_encode(dig, embits - 8 * j, H, hlen)
            if e2 is None:
                return None
            em = bytearray(e2)
        return bytes(em).rjust(k, b"\x00")
    if inf.pad == "PKCS1":
        t = (rs.DIGEST_INFO[inf.md] if mode == 0 else b"") + dig
        ps = k - 3 - len(t)
        if kind == "bt":
            return b"\x00" + bytes([0 if v % 2 else 2]) + em0[2:]
        if kind == "ps-garbage":
            jj = min(j, ps)
            return b"\x00\x01" + b"\xff" * (ps - jj) + b"\x00" + t + gb[:jj]
        if kind == "ps-nonff":
            em = bytearray(em0)
            em[2 + pos % ps] = v if v != 0xFF else 0xFE
            return bytes(em)
        if kind == "sep":
            em = bytearray(em0)
            em[2 + ps] = v or 1
            return bytes(em)
        if kind == "ps-lead0":
            jj = min(j, ps)
            return bytes(jj) + b"\x00\x01" + b"\xff" * (ps - jj) + b"\x00" + t
        if kind == "di":
            if mode != 0:
                return None
            di = bytearray(rs.DIGEST_INFO[inf.md])
            if v % 3 == 0:
                bit = pos % (8 * len(di))
                di[bit // 8] ^= 0x80 >> (bit % 8)
                di = bytes(di)
            elif v % 3 == 1:
                di = rs.DIGEST_INFO["SHA1"] if inf.md != "SHA1" else rs.DIGEST_INFO["SH256"]
            else:
                # the alternative DigestInfo without the NULL parameters (two bytes shorter)
                d0 = bytes(di)
                di = bytes([0x30, d0[1] - 2, 0x30, d0[3] - 2]) + d0[4:4 + 2 + d0[5]] + d0[-2:]
            t2 = bytes(di) + dig
            if k - 3 - len(t2) < 0:
                return None
            return b"\x00\x01" + b"\xff" * (k - 3 - len(t2)) + b"\x00" + t2
        return None
    # BASIC: 00 .. 00 FF D
    if kind == "pad":
        em = bytearray(em0)
        em[k - len(dig) - 1] = v if v != 0xFF else 0xFE
        return bytes(em)
    if kind in ("d-long", "d-over"):
        jj = min(j, k - len(dig) - 2)
        return bytes(k - len(dig) - 1 - jj) + b"\xff" + dig + (gb * 13)[:jj]
    if kind == "pad-shift":
        # the 0xFF marker one or more bytes further left, zeros between it and the digest
        jj = min(j, k - len(dig) - 2)
        return bytes(k - len(dig) - 1 - jj) + b"\xff" + bytes(jj) + dig
    if kind == "d-short":
        jj = min(j, len(dig))
        return bytes(k - len(dig) - 1 + jj) + b"\xff" + dig[:len(dig) - jj]
    return None


def rsa_variants(inf, key, key2, case, sig0):
    n, d = key["n"], key["d"]
    k = (n.bit_length() + 7) // 8
    msg, mode = case["msg"], case["mode"]
    s0 = rs.os2ip(sig0)
    out = [dict(sig=sig0, msg=msg, mode=mode, key=0, lab="honest")]
    for m in case["muts"]:
        kd = m["k"]
        v = dict(sig=sig0, msg=msg, mode=mode, key=0, lab=kd)
        if kd == "flip-sig":
            v["sig"] = flip(sig0, m["bit"])
        elif kd == "flip-msg":
            v["msg"] = flip(msg, m["bit"])
        elif kd == "msg-append":
            v["msg"] = msg + bytes([m["byte"]])
        elif kd == "msg-drop":
            v["msg"] = msg[:-1] if msg else b"\x00"
        elif kd in ("const", "const-N"):
            x = {"0": 0, "1": 1, "2": 2, "N-1": n - 1, "N-2": n - 2, "N-sig": n - s0, "N": n, "N+1": n + 1,
                 "max": (1 << (8 * k)) - 1}[m["v"]]
            v["sig"] = x.to_bytes(max(k, (x.bit_length() + 7) // 8), "big")
            v["lab"] = "sig=" + m["v"]
        elif kd == "sig+N":
            x = s0 + m["j"] * n
            v["sig"] = x.to_bytes(max(k, (x.bit_length() + 7) // 8), "big")
            v["lab"] = "sig+%dN" % m["j"]
        elif kd == "lead0":
            v["sig"] = bytes(m["j"]) + sig0
        elif kd == "trunc-lead":
            v["sig"] = sig0[1:]
        elif kd == "trunc-tail":
            v["sig"] = sig0[:-1]
        elif kd == "append":
            v["sig"] = sig0 + bytes([m["byte"]])
        elif kd == "empty":
            v["sig"] = b""
        elif kd == "otherkey":
            v["key"] = 1
        elif kd == "mode-cross":
            if mode == 0:
                v["mode"], v["msg"] = 1, inf.H(msg)
            else:
                v["mode"] = 0
                v["lab"] = "mode-confuse"
        elif kd == "arb":
            L = {"k": k, "k-1": k - 1, "k+1": k + 1, "1": 1, "2k": 2 * k, "200": 200}[m["len"]]
            v["sig"] = (m["sig"] * 2)[:L]
            if m["newmsg"]:
                v["msg"] = m["msg"]
            v["lab"] = "arb:len=" + m["len"]
        elif kd == "em":
            em = rsa_forge_em(inf, n, msg, mode, m)
            if em is None or rs.os2ip(em) >= n:
                continue
            v["sig"] = rs.rsa_em_sign(n, d, em)
            v["lab"] = "em:" + m["em"]
            v["em"] = em
        elif kd == "cap":
            continue
        out.append(v)
    return out


def eval_rsa(env, cfg, case):
    inf = info(env, cfg)
    key = rsa_key(env, cfg, case["bits"], case["kseed"])
    key2 = rsa_key(env, cfg, case["bits"], bytes(case["kseed"]) + b"/2")
    n = key["n"]
    k = (n.bit_length() + 7) // 8
    msg, mode = case["msg"], case["mode"]
    what = "rsa-%s[%d bits]" % (inf.pad, n.bit_length())
    in_domain = mode == 0 or len(msg) == inf.hlen
    labels = ["scheme:rsa-" + inf.pad, "rsa:modbits%%8=%d" % (n.bit_length() % 8), "rsa:request:%d" % case["bits"],
              "rsa:mode:%s" % ("hash-then-sign" if mode == 0 else "prehashed" if in_domain else "prehashed-other-length"),
              "rsa:msglen:%d" % len(msg)]
    mism = []
    em0 = rsa_expected_em(inf, n, msg, mode) if in_domain else None
    ref_sig = rs.rsa_em_sign(n, key["d"], em0) if em0 is not None else None
    caps = [m["d"] for m in case["muts"] if m["k"] == "cap"]
    p = Prog(poison=case["poison"], seed=case["seed"])
    for i, ky in enumerate((key, key2)):
        sv = p.bnv([ky[f] for f in ("n", "e", "d", "p", "q", "dp", "dq", "qi")])
        p.call("c05_rsa_set", i, sv)
    sm = p.buf(msg)
    ss = p.buf(bytes([case["poison"]]) * k)
    c_sig = p.call("cp_rsa_sig", ss, NULL, sm, mode, 0)
    p.dump(ss)
    cap_calls = []
    for dlt in caps:
        sc = p.buf(bytes([case["poison"]]) * max(0, k + dlt))
        cap_calls.append((dlt, sc, p.call("cp_rsa_sig", sc, NULL, sm, mode, 0)))
        p.dump(sc)
    res = env.runner(cfg).run(p)
    call = res.calls[c_sig]
    if not in_domain:
        # no oracle: executed for memory safety only
        if call.ub:
            raise Violation("undefined behaviour in %s signing: %s" % (what, call.ub), ub=call.ub)
        labels.append("rsa:other-length-sign:%s" % ("ok" if not call.errored and call.rets[0] == 0 else "refused"))
        sig0 = res.dumps[ss][:call.rets[1]] if not call.errored and call.rets[0] == 0 and call.rets[1] <= k else None
    else:
        chk(call, what + " signing")
        if ref_sig is None:
            raise Unsupported()
        if call.rets[0] != 0 or call.rets[1] != k:
            raise Violation("%s: cp_rsa_sig failed (rc=%d, len=%d, expected %d)" % (what, call.rets[0], call.rets[1], k))
        sig0 = res.dumps[ss]
        if sm in call.changed:
            raise Violation("%s: cp_rsa_sig modified the message" % what)
        if sig0 != ref_sig:
            ok, why = rsa_ref_verify(inf, key, sig0, msg, mode)
            if not ok:
                mism.append(mismatch("rsa:honest-signature-invalid", "honest", 1, 0, why, sig=sig0, want=ref_sig))
            else:
                mism.append(mismatch("rsa:signature-differs-from-standard", "honest", 1, 1, "valid but not the deterministic "
                                     "signature", sig=sig0, want=ref_sig))
        for dlt, sc, ci in cap_calls:
            cc = res.calls[ci]
            if cc.ub:
                raise Violation("undefined behaviour in %s signing: %s" % (what, cc.ub), ub=cc.ub)
            labels.append("rsa:capacity:k%+d" % dlt)
            okc = (not cc.errored) and cc.rets[0] == 0
            if dlt >= 0 and not (okc and cc.rets[1] == k and res.dumps[sc][:k] == sig0):
                raise Violation("%s: cp_rsa_sig with capacity k%+d did not produce the signature" % (what, dlt), rets=cc.rets)
            if dlt < 0 and okc:
                raise Violation("%s: cp_rsa_sig reported success with a capacity of k%+d bytes" % (what, dlt), rets=cc.rets)
    if sig0 is None:
        return mism, labels
    vs = rsa_variants(inf, key, key2, case, sig0 if in_domain else sig0)
    p = Prog(poison=case["poison"] ^ 0xFF, seed=case["seed"])
    for i, ky in enumerate((key, key2)):
        sv = p.bnv([ky[f] for f in ("n", "e", "d", "p", "q", "dp", "dq", "qi")])
        p.call("c05_rsa_set", i, sv)
    s1, s2 = p.slot(), p.slot()
    idx = []
    for v in vs:
        p.buf(v["sig"], slot=s1)
        p.buf(v["msg"], slot=s2)
        idx.append(p.call("cp_rsa_ver", s1, s2, v["mode"], v["key"]))
    ovf = []
    if inf.pad == "BASIC":
        # signatures that open to 00 .. 00 FF D' with D' longer than the comparison buffer of cp_rsa_ver
        for v in vs:
            kk = (key, key2)[v["key"]]
            if len(v["sig"]) <= 2 * k + 8:
                body = pow(rs.os2ip(v["sig"]), kk["e"], kk["n"]).to_bytes(k, "big")
                b2 = body.lstrip(b"\x00")
                if len(b2) < len(body) and b2[:1] == b"\xff" and len(b2) - 1 > max(len(v["msg"]), inf.hlen) + 8:
                    ovf.append(v["lab"])
    try:
        res = env.runner(cfg).run(p)
    except RunnerCrash as rc:
        if ovf and rc.why == "crash":
            raise crash_violation(rc, what + " verification", basic_block_longer_than_buffer=ovf)
        raise
    env.label("verdicts:rsa-" + inf.pad, len(vs))
    for v, ci in zip(vs, idx):
        call = res.calls[ci]
        lib, threw = lib_verdict(call, what + " verification")
        if call.changed:
            raise Violation("%s: cp_rsa_ver modified its inputs" % what, variant=v["lab"])
        ok, why = rsa_ref_verify(inf, (key, key2)[v["key"]], v["sig"], v["msg"], v["mode"])
        labels.append("rsa:variant:" + v["lab"])
        if ok is None:
            labels.append("rsa:no-oracle:lib=%d" % lib)
            continue
        labels.append("rsa:ref:%s:%s" % ("accept" if ok else "reject", why))
        if ok and v["lab"] != "honest":
            labels.append("rsa:accepted-nonhonest:" + v["lab"])
        if lib != ok:
            mism.append(mismatch(classify_rsa(inf, key, v, lib, ok, why), v["lab"], lib, ok, why, sig=v["sig"], msg=v["msg"],
                                 mode=v["mode"], key=v["key"], modbits=n.bit_length(), threw=threw, em=v.get("em")))
    return mism, labels


def classify_rsa(inf, key, v, lib, ok, why):
    n = key["n"]
    k_ = (n.bit_length() + 7) // 8
    if lib and not ok and why not in ("length", "representative out of range"):
        em = pow(rs.os2ip(v["sig"]), key["e"], n).to_bytes(k_, "big")
        want = rsa_expected_em(inf, n, v["msg"], v["mode"])
        if inf.pad == "PKCS2" and why.startswith("step6") and want is not None:
            embits = n.bit_length() - 1
            if rs.os2ip(em) == rs.os2ip(want) | (1 << embits):
                return "rsa-pss:accepts-nonzero-bit-above-emBits"
        if inf.pad == "BASIC" and want is not None:
            dig = _digest(inf, v["msg"], v["mode"])
            body = em.lstrip(b"\x00")
            if body[:1] == b"\xff":
                d2 = body[1:]
                if len(d2) > len(dig) and d2.startswith(dig):
                    return "rsa-basic:accepts-garbage-after-the-digest"
                if len(d2) < len(dig) and dig.startswith(d2) and not any(dig[len(d2):]):
                    return "rsa-basic:accepts-truncated-digest"
    if not lib and ok and inf.pad == "PKCS2":
        if n.bit_length() % 8 == 1:
            return "rsa-pss:rejects-valid:modbits=1mod8"
        want = rsa_expected_em(inf, n, v["msg"], v["mode"])
        emlen = (n.bit_length() - 1 + 7) // 8
        mdb = want[k_ - emlen:][:emlen - inf.hlen - 1]
        dg = inf.dig
        if (rs.os2ip(mdb).bit_length() + dg - 1) // dg < (8 * len(mdb) + dg - 1) // dg:
            return "rsa-pss:rejects-valid:maskedDB-with-leading-zero-digit"
    if lib and not ok:
        if why in ("length", "representative out of range"):
            # would the canonical k-byte encoding of sig mod n be accepted by the standard?
            k = (n.bit_length() + 7) // 8
            red = (rs.os2ip(v["sig"]) % n).to_bytes(k, "big")
            ok2, _ = rsa_ref_verify(inf, key, red, v["msg"], v["mode"])
            if ok2:
                return "rsa:accepts-noncanonical-signature"
        return "rsa-%s:accepts:%s:%s" % (inf.pad, v["lab"].split(":len")[0], why)
    return "rsa-%s:rejects-valid:%s:modbits%%8=%d" % (inf.pad, v["lab"], n.bit_length() % 8)


def run_rsa(env, cfg, case):
    mism, labels = eval_rsa(env, cfg, case)
    return finish("rsa", mism, labels)


KNOWN_CLASSES |= {"rsa:accepts-noncanonical-signature", "rsa-pss:accepts-nonzero-bit-above-emBits",
                  "rsa-basic:accepts-garbage-after-the-digest", "rsa-basic:accepts-truncated-digest",
                  "rsa-pss:rejects-valid:modbits=1mod8", "rsa-pss:rejects-valid:maskedDB-with-leading-zero-digit"}


# ------------------------------------------------------------------------------------------------ vBNN-IBS

VBNN_KINDS = ["flip-z", "flip-h", "flip-z", "flip-h", "sub-z", "sub-h", "flip-msg", "flip-id", "boundary", "swap-idmsg",
              "R", "R", "mpk", "mpk", "arb", "arb"]
VBNN_SUSPECT = ["R-identity", "sub-z-range", "mpk-identity", "mpk-outside"]      # the last one only with a cofactor
PT_MUTS = ["other", "offcurve", "generator", "neg", "offcurve-x", "outside"]


def strat_vbnn(pool):
    def strat(env, cfg, c=None):
        inf = info(env, cfg)
        if not inf.has_ec:
            raise Unsupported()
        c = c or job_curve(env, cfg)
        nb = c.n.bit_length()

        @st.composite
        def mut(draw, kinds):
            k = draw(st.sampled_from(kinds))
            m = {"k": k}
            if k in ("flip-z", "flip-h"):
                m["bit"] = draw(st.integers(0, nb + 6))
            elif k in ("flip-msg", "flip-id"):
                m["bit"] = draw(st.integers(0, 8 * 200 - 1))
            elif k == "sub-z":
                m["how"] = draw(st.sampled_from(["0", "+1", "-1", "n-"]))
            elif k == "sub-z-range":
                m["how"] = draw(st.sampled_from(["+n", "+2n", "neg-n", "2^"]))
            elif k == "sub-h":
                m["how"] = draw(st.sampled_from(SUBS))
            elif k in ("R", "mpk"):
                m["key"] = draw(st.sampled_from([x for x in PT_MUTS if x != "outside" or c.h == 1 or k == "R"]))
                m["v"] = draw(ints.uniform(0, c.F.p - 1))
            elif k == "mpk-outside":
                m["key"] = "outside"
                m["v"] = draw(ints.uniform(0, c.F.p - 1))
            elif k == "arb":
                m["z"] = draw(arb_scalar(c))
                m["h"] = draw(arb_scalar(c))
                m["R"] = draw(point_spec(c, identity=False))
                m["mpk"] = draw(point_spec(c))
                m["keep"] = draw(st.sampled_from(["points", "none"]))
            elif k in ("R-identity", "mpk-identity"):
                m["y"] = draw(ints.uniform(1, c.n - 1))
            return m

        @st.composite
        def s(draw):
            signer = draw(st.sampled_from(["lib", "lib", "ref"]))
            kinds = VBNN_KINDS if pool == "clean" else [draw(st.sampled_from(
                [x for x in VBNN_SUSPECT if x != "mpk-outside" or c.h > 1]))]
            case = dict(cid=c.cid, idb=draw(messages([0, 1, 5, 16, 32, 33, 64, 100])), msg=draw(messages()), signer=signer,
                        seed=draw(st.binary(min_size=8, max_size=8)), poison=draw(st.integers(0, 255)),
                        muts=draw(st.lists(mut(kinds), min_size=1, max_size=8)))
            if signer == "ref":
                for f in ("x", "r", "y"):
                    case[f] = draw(st.one_of(st.sampled_from([1, 2, c.n - 1]), ints.uniform(1, c.n - 1)))
            return case
        return s()
    return strat


def vbnn_variants(c, g, inf, case, R, z, h, mpk, keys):
    n = c.n
    idb, msg = case["idb"], case["msg"]
    out = [dict(R=R, z=z, h=h, idb=idb, msg=msg, mpk=mpk, lab="honest")]
    for m in case["muts"]:
        k = m["k"]
        v = dict(R=R, z=z, h=h, idb=idb, msg=msg, mpk=mpk, lab=k)
        if k == "flip-z":
            v["z"] = z ^ (1 << m["bit"])
        elif k == "flip-h":
            v["h"] = h ^ (1 << m["bit"])
        elif k in ("sub-z", "sub-z-range"):
            v["z"] = substitute(z, n, m["how"])
            v["lab"] = "z:" + m["how"]
        elif k == "sub-h":
            v["h"] = substitute(h, n, m["how"])
            v["lab"] = "h:" + m["how"]
        elif k == "flip-msg":
            v["msg"] = flip(msg, m["bit"])
        elif k == "flip-id":
            v["idb"] = flip(idb, m["bit"])
        elif k == "boundary":
            # the same concatenation ID || m split at another place
            if msg:
                v["idb"], v["msg"] = idb + msg[:1], msg[1:]
            elif idb:
                v["idb"], v["msg"] = idb[:-1], idb[-1:]
            else:
                continue
        elif k == "swap-idmsg":
            v["idb"], v["msg"] = msg, idb
        elif k == "R":
            v["R"] = mutate_key(c, R, m)
            v["lab"] = "R:" + m["key"]
        elif k in ("mpk", "mpk-outside"):
            v["mpk"] = mutate_key(c, mpk, m)
            v["lab"] = "mpk:" + m["key"]
        elif k == "arb":
            v["z"], v["h"] = m["z"], m["h"]
            if m["keep"] == "none":
                v["R"], v["mpk"] = resolve_point(c, m["R"]), resolve_point(c, m["mpk"])
            v["lab"] = "arb:" + m["keep"]
        elif k == "R-identity":
            # a triple that satisfies the verification equation with R = O (user key r = 0): needs the master key
            if keys is None:
                v["R"] = None
            else:
                x = keys
                sk = rs.hash_to_zn(g, bytes(idb) + rs.compress(g, None), inf.H) * x % n
                _, z2, h2 = rs.vbnn_sign(g, None, sk, 1 + (m["y"] - 1) % (n - 1), idb, msg, inf.H)
                v.update(R=None, z=z2, h=h2)
        elif k == "mpk-identity":
            # with P0 = O the equation only needs s = r: forgeable by anyone
            r_ = 1 + (m["y"] - 1) % (n - 1)
            R2 = g.mul_g(r_)
            _, z2, h2 = rs.vbnn_sign(g, R2, r_, 1 + (m["y"] * 7 - 1) % (n - 1), idb, msg, inf.H)
            v.update(R=R2, z=z2, h=h2, mpk=None)
        out.append(v)
    return out


def eval_vbnn(env, cfg, case):
    inf = info(env, cfg)
    c = ecctx.curve(env, cfg, case["cid"])
    g = grp(env, cfg, c, inf)
    n = c.n
    idb, msg = case["idb"], case["msg"]
    what = "vbnn[cid=%d]" % c.cid
    labels = ["scheme:vbnn", "vbnn:cid:%d" % c.cid, "vbnn:signer:" + case["signer"], "vbnn:idlen:%d" % len(idb),
              "vbnn:msglen:%d" % len(msg)]
    basic = ecctx.enc_point(c, c.G)
    mism = []
    if case["signer"] == "lib":
        def build(p):
            smsk, smpk, ssk, spk = p.bn(0), p.new("EP", basic), p.bn(0), p.new("EP", basic)
            sr, sz, sh = p.new("EP", basic), p.bn(0), p.bn(0)
            sid, sm = p.buf(idb), p.buf(msg)
            p.call("cp_vbnn_gen", smsk, smpk)
            p.call("cp_vbnn_gen_prv", ssk, spk, smsk, sid)
            p.call("cp_vbnn_sig", sr, sz, sh, sid, sm, ssk, spk)
            for s_ in (smsk, smpk, ssk, spk, sr, sz, sh):
                p.dump(s_)
            return smsk, smpk, ssk, spk, sr, sz, sh
        res, (smsk, smpk, ssk, spk, sr, sz, sh) = ecctx.run(env, cfg, c.cid, build, case["poison"], seed=case["seed"])
        for i, nm in enumerate(("cp_vbnn_gen", "cp_vbnn_gen_prv", "cp_vbnn_sig")):
            chk(res.calls[i], what + " " + nm)
            if res.calls[i].rets[0] != 0:
                raise Violation("%s: %s returned an error code" % (what, nm))
        x = res.dumps[smsk].value
        mpk, _ = ecctx.dec_point(c, res.dumps[smpk], what + " mpk")
        sk = res.dumps[ssk].value
        pk, _ = ecctx.dec_point(c, res.dumps[spk], what + " pk")
        R, _ = ecctx.dec_point(c, res.dumps[sr], what + " R")
        z, h = res.dumps[sz].value, res.dumps[sh].value
        if mpk != g.mul_g(x) or not 0 <= x < n:
            raise Violation("%s: master key pair inconsistent" % what, x=x, mpk=mpk)
        cc = rs.hash_to_zn(g, bytes(idb) + rs.compress(g, pk), inf.H)
        if rs.point_defect(g, pk, allow_identity=True) or g.mul_g(sk) != c.E.add(pk, c.E.mul(cc, mpk)) or not 0 <= sk < n:
            raise Violation("%s: extracted user key does not satisfy [s]G = R + [H1(ID || R)]P0" % what, sk=sk, pk=pk)
        if R != pk:
            raise Violation("%s: signature does not carry the user's R" % what)
        ok, why = rs.vbnn_verify(g, mpk, R, z, h, idb, msg, inf.H)
        if not ok:
            mism.append(mismatch("vbnn:honest-signature-invalid", "honest", 1, 0, why, z=z, h=h, R=R))
    else:
        x, r_, y_ = (1 + (case[f] - 1) % (n - 1) for f in ("x", "r", "y"))
        mpk = g.mul_g(x)
        R, sk = rs.vbnn_extract(g, x, r_, idb, inf.H)
        R, z, h = rs.vbnn_sign(g, R, sk, y_, idb, msg, inf.H)
    vs = vbnn_variants(c, g, inf, case, R, z, h, mpk, x)

    def build2(p):
        sr, sz, sh, sid, sm, sk_ = (p.slot() for _ in range(6))
        for v in vs:
            p.new("EP", ecctx.enc_point(c, v["R"]), slot=sr)
            p.bn(v["z"], slot=sz)
            p.bn(v["h"], slot=sh)
            p.buf(v["idb"], slot=sid)
            p.buf(v["msg"], slot=sm)
            p.new("EP", ecctx.enc_point(c, v["mpk"]), slot=sk_)
            p.call("cp_vbnn_ver", sr, sz, sh, sid, sm, sk_)
    rinf = [v["lab"] for v in vs if v["R"] is None]
    try:
        res, _ = ecctx.run(env, cfg, c.cid, build2, case["poison"] ^ 0xFF, seed=case["seed"])
    except RunnerCrash as rc:
        if rinf and rc.why == "crash":
            raise crash_violation(rc, what + " verification", r_at_infinity=rinf)
        raise
    env.label("verdicts:vbnn", len(vs))
    for v, call in zip(vs, res.calls):
        lib, threw = lib_verdict(call, what + " verification")
        if call.changed:
            raise Violation("%s verification modified its inputs" % what, variant=v["lab"])
        ok, why = rs.vbnn_verify(g, v["mpk"], v["R"], v["z"], v["h"], v["idb"], v["msg"], inf.H)
        labels += ["vbnn:variant:" + v["lab"], "vbnn:ref:%s:%s" % ("accept" if ok else "reject", why)]
        if threw:
            labels.append("vbnn:lib-threw")
        if ok and v["lab"] != "honest":
            labels.append("vbnn:accepted-nonhonest:" + v["lab"])
        if lib != ok:
            cls = "vbnn:accepts:" + why if lib else "vbnn:rejects-valid:" + v["lab"]
            if lib and why == "z-range" and rs.vbnn_verify(g, v["mpk"], v["R"], v["z"] % n, v["h"], v["idb"], v["msg"], inf.H)[0]:
                cls = "vbnn:accepts-z-out-of-range"
            if lib and why == "mpk:identity" and v["mpk"] is None:
                cls = "vbnn:accepts-identity-master-key"
            if lib and why == "mpk:outside-subgroup":
                cls = "vbnn:accepts-master-key-outside-subgroup"
            mism.append(mismatch(cls, v["lab"], lib, ok, why, R=v["R"], z=v["z"], h=v["h"], idb=v["idb"], msg=v["msg"],
                                 mpk=v["mpk"], threw=threw))
    return mism, labels


def run_vbnn(env, cfg, case):
    mism, labels = eval_vbnn(env, cfg, case)
    return finish("vbnn", mism, labels)


KNOWN_CLASSES |= {"vbnn:accepts-z-out-of-range", "vbnn:accepts-identity-master-key",
                  "vbnn:accepts-master-key-outside-subgroup"}


# ---------------------------------------------------------------------- proofs / signatures of knowledge (DL, OR)

ZK_SUBS = ["pokdl", "pokor", "sokdl", "sokor", "sokor-g"]
ZK_KINDS = ["flip-c", "flip-r", "flip-c", "flip-r", "sub-c", "sub-r", "swap-cr", "swap-branch", "flip-msg", "msg-append",
            "Y", "Y", "B", "arb", "arb", "arb-big"]
ZK_SUSPECT = ["sub-r-range", "sub-c-range", "y-identity", "t-identity", "arb-full"]


def strat_zk(pool):
    def strat(env, cfg, c=None):
        inf = info(env, cfg)
        if not inf.has_ec:
            raise Unsupported()
        c = c or job_curve(env, cfg)
        nb = c.n.bit_length()
        sc = st.one_of(st.sampled_from([1, 2, c.n - 1]), ints.uniform(1, c.n - 1))

        @st.composite
        def mut(draw, kinds):
            k = draw(st.sampled_from(kinds))
            m = {"k": k, "i": draw(st.integers(0, 1))}
            if k in ("flip-c", "flip-r"):
                m["bit"] = draw(st.integers(0, nb + 6))
            elif k == "flip-msg":
                m["bit"] = draw(st.integers(0, 8 * 200 - 1))
            elif k == "msg-append":
                m["byte"] = draw(st.integers(0, 255))
            elif k in ("sub-c", "sub-r"):
                m["how"] = draw(st.sampled_from(["0", "+1", "-1", "n-", "n", "neg"] if k == "sub-c" else ["0", "+1", "-1", "n-"]))
            elif k in ("sub-r-range", "sub-c-range"):
                m["how"] = draw(st.sampled_from(["+n", "+2n", "neg-n", "2^", "neg", "n"]))
            elif k in ("Y", "B"):
                m["key"] = draw(st.sampled_from(PT_MUTS + ["identity"]))
                m["v"] = draw(ints.uniform(0, c.F.p - 1))
            elif k == "arb":
                m["c"] = [draw(arb_scalar(c, huge=False)), draw(arb_scalar(c, huge=False))]
                m["r"] = [draw(arb_scalar(c, huge=False)), draw(arb_scalar(c, huge=False))]
                m["Y"] = [draw(point_spec(c)), draw(point_spec(c))]
                m["keep"] = draw(st.sampled_from(["points", "none"]))
            elif k in ("arb-big", "arb-full"):
                # scalars of up to 33 digits (arb-big) and of all 34 digits a bn_t can hold (arb-full)
                m["bits"] = draw(st.sampled_from([1025, 1088, 1500, 2048, 2100, 2112] if k == "arb-big" else [2113, 2150, 2176]))
                m["v"] = draw(st.binary(min_size=272, max_size=272))
                m["which"] = draw(st.sampled_from(["c", "r"]))
            elif k == "y-identity":
                m["v"] = draw(sc)
            return m

        @st.composite
        def s(draw):
            sub = draw(st.sampled_from(ZK_SUBS))
            kinds = ZK_KINDS if pool == "clean" else [draw(st.sampled_from(ZK_SUSPECT))]
            if kinds in (["y-identity"], ["t-identity"]):
                sub = draw(st.sampled_from(["sokdl", "sokor", "sokor-g"]))
            case = dict(cid=c.cid, sub=sub, signer=draw(st.sampled_from(["lib", "lib", "ref"])), x=draw(sc), yo=draw(sc),
                        first=draw(st.integers(0, 1)), gs=[draw(sc), draw(sc)], fake=draw(sc), vs=[draw(sc), draw(sc)],
                        msg=draw(messages()) if sub.startswith("sok") else b"",
                        seed=draw(st.binary(min_size=8, max_size=8)), poison=draw(st.integers(0, 255)),
                        muts=draw(st.lists(mut(kinds), min_size=1, max_size=8)))
            return case
        return s()
    return strat


def zk_ref_verify(g, inf, sub, v):
    if sub in ("pokdl", "sokdl"):
        return rs.zk_dl_verify(g, v["c"][0], v["r"][0], v["Y"][0], v["msg"], inf.H)
    return rs.zk_or_verify(g, v["c"], v["r"], v["Y"], v["B"], v["msg"], inf.H)


def zk_variants(c, g, inf, case, cs, rs_, Ys, Bs):
    n = c.n
    sub, msg = case["sub"], case["msg"]
    two = sub not in ("pokdl", "sokdl")
    out = [dict(c=list(cs), r=list(rs_), Y=list(Ys), B=list(Bs), msg=msg, lab="honest")]
    for m in case["muts"]:
        k = m["k"]
        i = m["i"] if two else 0
        v = dict(c=list(cs), r=list(rs_), Y=list(Ys), B=list(Bs), msg=msg, lab=k)
        if k == "flip-c":
            v["c"][i] ^= 1 << m["bit"]
        elif k == "flip-r":
            v["r"][i] ^= 1 << m["bit"]
        elif k in ("sub-c", "sub-c-range"):
            v["c"][i] = substitute(cs[i], n, m["how"])
            v["lab"] = "c:" + m["how"]
        elif k in ("sub-r", "sub-r-range"):
            v["r"][i] = substitute(rs_[i], n, m["how"])
            v["lab"] = "r:" + m["how"]
        elif k == "swap-cr":
            v["c"][i], v["r"][i] = rs_[i], cs[i]
        elif k == "swap-branch":
            if not two:
                continue
            v["c"].reverse()
            v["r"].reverse()
        elif k == "flip-msg":
            if not sub.startswith("sok"):
                continue
            v["msg"] = flip(msg, m["bit"])
        elif k == "msg-append":
            if not sub.startswith("sok"):
                continue
            v["msg"] = msg + bytes([m["byte"]])
        elif k == "Y":
            v["Y"][i] = mutate_key(c, Ys[i], m)
            v["lab"] = "Y:" + m["key"]
        elif k == "B":
            if sub != "sokor-g":
                continue
            v["B"][i] = mutate_key(c, Bs[i], m)
            v["lab"] = "B:" + m["key"]
        elif k == "arb":
            v["c"], v["r"] = list(m["c"]), list(m["r"])
            if m["keep"] == "none":
                v["Y"] = [resolve_point(c, s_) for s_ in m["Y"]]
            v["lab"] = "arb:" + m["keep"]
        elif k in ("arb-big", "arb-full"):
            x = int.from_bytes(m["v"], "big") >> (8 * 272 - m["bits"]) | (1 << (m["bits"] - 1))
            v[m["which"]][i] = x
            v["lab"] = "big-%s:%d" % (m["which"], m["bits"])
        elif k == "t-identity":
            # a commitment T at infinity: response -c x for the known branch (v = 0), proof computed by the reference
            if two:
                kn = 0 if (sub != "pokor" and case["first"]) else 1
                xk = 1 + (case["x"] - 1) % (n - 1)
                vv = [case["vs"][0], case["vs"][1]]
                vv[kn] = 0
                c2, r2 = rs.zk_or_prove(g, xk, kn, Ys, Bs, case["fake"], vv, msg, inf.H)
                v.update(c=c2, r=r2)
            else:
                xk = 1 + (case["x"] - 1) % (n - 1)
                c2, r2 = rs.zk_dl_prove(g, xk, 0, Ys[0], msg, inf.H)
                v.update(c=[c2, 0], r=[r2, 0])
        elif k == "y-identity":
            # a statement at infinity (x = 0) with a proof computed by the reference
            if two:
                Y2 = list(Ys)
                Y2[i] = None
                c2, r2 = rs.zk_or_prove(g, 0, i, Y2, Bs, case["fake"], [m["v"], case["vs"][1]], msg, inf.H)
                v.update(c=c2, r=r2, Y=Y2)
            else:
                c2, r2 = rs.zk_dl_prove(g, 0, m["v"], None, msg, inf.H)
                v.update(c=[c2, 0], r=[r2, 0], Y=[None, Ys[1]])
        out.append(v)
    return out


def eval_zk(env, cfg, case):
    inf = info(env, cfg)
    c = ecctx.curve(env, cfg, case["cid"])
    g = grp(env, cfg, c, inf)
    n = c.n
    sub, msg = case["sub"], case["msg"]
    two = sub not in ("pokdl", "sokdl")
    what = "%s[cid=%d]" % (sub, c.cid)
    labels = ["scheme:" + sub, "%s:cid:%d" % (sub, c.cid), "%s:signer:%s" % (sub, case["signer"])]
    x = 1 + (case["x"] - 1) % (n - 1)
    Bs = [c.G, c.G]
    if sub == "sokor-g":
        Bs = [ecctx.small_multiple(c, 1 + (v - 1) % (n - 1)) for v in case["gs"]]
    # which statement the prover knows: pokor -> index 1; sokor -> index 0 if first else 1
    known = 0 if not two else (1 if sub == "pokor" else (0 if case["first"] else 1))
    Ys = [ecctx.small_multiple(c, 1 + (case["yo"] - 1) % (n - 1))] * 2
    Ys = list(Ys)
    Ys[known] = c.E.mul(x, Bs[known])
    if not two:
        Ys[1] = c.G
    basic = ecctx.enc_point(c, c.G)

    def epv(p, pts):
        return p.new("EPV", struct.pack("<II", 2, 2) + b"".join(ecctx.enc_point(c, P) for P in pts))
    mism = []
    if case["signer"] == "lib":
        def build(p):
            sx = p.bn(x)
            sm = p.buf(msg)
            if two:
                sc_, sr_ = p.bnv([0, 0]), p.bnv([0, 0])
                sy = epv(p, Ys)
                if sub == "pokor":
                    p.call("cp_pokor_prv", sc_, sr_, sy, sx)
                else:
                    sg = epv(p, Bs) if sub == "sokor-g" else NULL
                    p.call("cp_sokor_sig", sc_, sr_, sm, sy, sg, sx, case["first"])
            else:
                sc_, sr_ = p.bn(0), p.bn(0)
                sy = p.new("EP", ecctx.enc_point(c, Ys[0]))
                if sub == "pokdl":
                    p.call("cp_pokdl_prv", sc_, sr_, sy, sx)
                else:
                    p.call("cp_sokdl_sig", sc_, sr_, sm, sy, sx)
            p.dump(sc_)
            p.dump(sr_)
            return sc_, sr_, sx, sy, sm
        res, (sc_, sr_, sx, sy, sm) = ecctx.run(env, cfg, c.cid, build, case["poison"], seed=case["seed"])
        chk(res.calls[0], what + " proving")
        if res.calls[0].rets[0] != 0:
            raise Violation("%s: prover returned an error code" % what)
        if {sx, sy, sm} & res.calls[0].changed:
            raise Violation("%s: prover modified its inputs" % what)
        if two:
            cs, rr = [b.value for b in res.dumps[sc_]], [b.value for b in res.dumps[sr_]]
        else:
            cs, rr = [res.dumps[sc_].value, 0], [res.dumps[sr_].value, 0]
        ok, why = zk_ref_verify(g, inf, sub, dict(c=cs, r=rr, Y=Ys, B=Bs, msg=msg))
        if not ok:
            mism.append(mismatch(sub + ":honest-proof-invalid", "honest", 1, 0, why, c=cs, r=rr))
    else:
        if two:
            cs, rr = rs.zk_or_prove(g, x, known, Ys, Bs, case["fake"], case["vs"], msg, inf.H)
        else:
            c0, r0 = rs.zk_dl_prove(g, x, case["vs"][0], Ys[0], msg, inf.H)
            cs, rr = [c0, 0], [r0, 0]
    vs = zk_variants(c, g, inf, case, cs, rr, Ys, Bs)

    def build2(p):
        if two:
            s1, s2, s3, s4, s5 = (p.slot() for _ in range(5))
            for v in vs:
                p.bnv(v["c"], slot=s1)
                p.bnv(v["r"], slot=s2)
                p.new("EPV", struct.pack("<II", 2, 2) + b"".join(ecctx.enc_point(c, P) for P in v["Y"]), slot=s3)
                p.buf(v["msg"], slot=s4)
                if sub == "pokor":
                    p.call("cp_pokor_ver", s1, s2, s3)
                elif sub == "sokor":
                    p.call("cp_sokor_ver", s1, s2, s4, s3, NULL)
                else:
                    p.new("EPV", struct.pack("<II", 2, 2) + b"".join(ecctx.enc_point(c, P) for P in v["B"]), slot=s5)
                    p.call("cp_sokor_ver", s1, s2, s4, s3, s5)
        else:
            s1, s2, s3, s4 = (p.slot() for _ in range(4))
            for v in vs:
                p.bn(v["c"][0], slot=s1)
                p.bn(v["r"][0], slot=s2)
                p.new("EP", ecctx.enc_point(c, v["Y"][0]), slot=s3)
                p.buf(v["msg"], slot=s4)
                if sub == "pokdl":
                    p.call("cp_pokdl_ver", s1, s2, s3)
                else:
                    p.call("cp_sokdl_ver", s1, s2, s4, s3)
    res, _ = ecctx.run(env, cfg, c.cid, build2, case["poison"] ^ 0xFF, seed=case["seed"])
    env.label("verdicts:" + sub, len(vs))
    for v, call in zip(vs, res.calls):
        lib, threw = lib_verdict(call, what + " verification")
        if call.changed:
            raise Violation("%s verification modified its inputs" % what, variant=v["lab"])
        ok, why = zk_ref_verify(g, inf, sub, v)
        labels += ["%s:variant:%s" % (sub, v["lab"]), "%s:ref:%s:%s" % (sub, "accept" if ok else "reject", why)]
        if threw:
            labels.append(sub + ":lib-threw")
        if ok and v["lab"] != "honest":
            labels.append("%s:accepted-nonhonest:%s" % (sub, v["lab"]))
        if lib != ok:
            cls = "%s:accepts:%s" % (sub, why) if lib else "%s:rejects-valid:%s" % (sub, v["lab"])
            cls = classify_zk(g, inf, sub, v, lib, ok, why, threw, call) or cls
            mism.append(mismatch(cls, v["lab"], lib, ok, why, c=v["c"], r=v["r"], Y=v["Y"], B=v["B"] if sub == "sokor-g" else None,
                                 msg=v["msg"], threw=threw, ret=call.rets[0] if call.rets else None))
    return mism, labels


def classify_zk(g, inf, sub, v, lib, ok, why, threw, call):
    n = g.n
    two = sub not in ("pokdl", "sokdl")
    if lib and not ok:
        if threw and not call.caught and call.rets and call.rets[0] == 1 and any(
                abs(x).bit_length() > 33 * inf.dig for x in v["c"] + v["r"]):
            return "zk:accepts-on-internal-error"
        if why in ("r-range", "c-range"):
            v2 = dict(v, c=[x % n for x in v["c"]], r=[x % n for x in v["r"]])
            if zk_ref_verify(g, inf, sub, v2)[0]:
                return "zk:accepts-scalar-out-of-range"
    if ok and not lib and sub.startswith("sok"):
        # is one of the hashed points the identity?
        if two:
            Ts = [g.lincomb(v["r"][i], v["B"][i], v["c"][i], v["Y"][i]) for i in range(2)]
            pts = v["Y"] + Ts
        else:
            pts = [v["Y"][0], g.E.add(g.mul_g(v["r"][0]), g.E.mul(v["c"][0], v["Y"][0]))]
        if any(P is None for P in pts):
            return "sok:rejects-valid-with-identity-in-hash"
    return None


KNOWN_CLASSES |= {"zk:accepts-on-internal-error", "zk:accepts-scalar-out-of-range", "sok:rejects-valid-with-identity-in-hash"}


def run_zk(env, cfg, case):
    mism, labels = eval_zk(env, cfg, case)
    return finish(case["sub"], mism, labels)


# ------------------------------------------------------------------------------------------- Pedersen commitment

def strat_ped(env, cfg, c=None):
    inf = info(env, cfg)
    if not inf.has_ec:
        raise Unsupported()
    c = c or job_curve(env, cfg)

    @st.composite
    def s(draw):
        return dict(cid=c.cid, x=draw(st.one_of(ints.uniform(1, c.n - 1), ints.scalar(c.n, 1024, c.lam))),
                    r=draw(st.one_of(ints.uniform(0, c.n - 1), st.sampled_from([0, 1, c.n - 1]))),
                    H=draw(st.one_of(st.builds(lambda v: {"m": v}, ints.uniform(1, c.n - 1)), st.sampled_from([{"m": 0}, {"m": 1}]))),
                    poison=draw(st.integers(0, 255)))
    return s()


def run_ped(env, cfg, case):
    inf = info(env, cfg)
    c = ecctx.curve(env, cfg, case["cid"])
    g = grp(env, cfg, c, inf)
    n = c.n
    x, r_ = case["x"], case["r"]
    Hp = resolve_point(c, case["H"])
    what = "cp_ped_com[cid=%d]" % c.cid
    if x < 0:
        raise Unsupported()             # the header does not say what a negative message means
    expect_err = Hp is None or x == 0 or x >= n

    def build(p):
        sc_ = p.new("EP", ecctx.enc_point(c, c.G))
        sh = p.new("EP", ecctx.enc_point(c, Hp))
        sr_, sx = p.bn(r_), p.bn(x)
        p.call("cp_ped_com", sc_, sh, sr_, sx)
        p.dump(sc_)
        return sc_, sh, sr_, sx
    res, (sc_, sh, sr_, sx) = ecctx.run(env, cfg, c.cid, build, case["poison"])
    call = res.calls[0]
    if call.ub:
        raise Violation("undefined behaviour in %s: %s" % (what, call.ub), ub=call.ub)
    failed = call.errored or call.rets[0] != 0
    lab = ["scheme:ped", "ped:%s" % ("error-expected" if expect_err else "commit")]
    if failed != expect_err:
        raise Violation("%s: %s" % (what, "accepted an inadmissible input (h = O, x = 0 or x >= n)" if expect_err else
                                    "refused an admissible input"), x=x, r=r_, H=Hp, rets=call.rets)
    if {sh, sr_, sx} & call.changed:
        raise Violation("%s modified its inputs" % what)
    if not expect_err:
        got, _ = ecctx.dec_point(c, res.dumps[sc_], what)
        want = c.E.add(g.mul_g(x), c.E.mul(r_, Hp))
        if got != want:
            raise Violation("%s: commitment is not [x]G + [r]H" % what, got=got, want=want, x=x, r=r_)
    return not expect_err and r_ != 0, lab


def self_test():
    rec.self_test()
    rfp.self_test()
    rs.self_test()


def _cfgs_ec():
    return {"quick": ["base256"], "thorough": ["base256", "p381"]}


def _cfgs_rsa():
    return {"quick": ["base256"], "thorough": ["base256", "rsapd-pkcs1", "rsapd-basic"]}


TARGETS = [
    Target("ecdsa", strat_pair("ecdsa"), run_pair, _cfgs_ec(), quick=8000, thorough=40000),
    Target("ecss", strat_pair("ecss"), run_pair, _cfgs_ec(), quick=5000, thorough=25000),
    Target("ec-sus", any_curve(strat_pair(None)), run_pair, _cfgs_ec(), quick=500, thorough=3000),
    Target("rsa", strat_rsa("clean"), run_rsa, _cfgs_rsa(), quick=8000, thorough=30000),
    Target("rsa-sus", strat_rsa("suspect"), run_rsa, _cfgs_rsa(), quick=600, thorough=2500),
    Target("vbnn", strat_vbnn("clean"), run_vbnn, _cfgs_ec(), quick=2500, thorough=12000),
    Target("vbnn-sus", any_curve(strat_vbnn("suspect")), run_vbnn, _cfgs_ec(), quick=200, thorough=1500),
    Target("zk", strat_zk("clean"), run_zk, _cfgs_ec(), quick=4500, thorough=20000),
    Target("zk-sus", any_curve(strat_zk("suspect")), run_zk, _cfgs_ec(), quick=500, thorough=2000),
    Target("ped", any_curve(strat_ped), run_ped, _cfgs_ec(), quick=1000, thorough=5000),
    # the 255-bit configuration: Curve25519 in Weierstrass form, the only selectable curve with cofactor 8 (x(R) ranges
    # over several multiples of the group order) and a group order far below 2^bits(p)
    Target("ecdsa-255", strat_pair("ecdsa"), run_pair, {"quick": ["p255"], "thorough": ["p255"]}, quick=1200, thorough=8000),
    Target("ecss-255", strat_pair("ecss"), run_pair, {"quick": ["p255"], "thorough": ["p255"]}, quick=800, thorough=5000),
]

def _class_pred(cls):
    """matches when every verdict mismatch of the case belongs to a documented class and this class is among them"""
    def pred(case, v, entry):
        ms = v.details.get("mismatches")
        return bool(ms) and all(m["cls"] in KNOWN_CLASSES for m in ms) and any(m["cls"] == cls for m in ms)
    return pred


def _pred_rsa_gen(case, v, entry):
    k = v.details.get("key")
    if not k or "inconsistent key" not in v.msg:
        return False
    # the function left p - 1 and q - 1 in the key because gcd(e, (p - 1)(q - 1)) != 1
    import math
    return (k["p"] + 1) * (k["q"] + 1) == k["n"] and math.gcd(k["e"], k["p"] * k["q"]) != 1


def _pred_basic_overflow(case, v, entry):
    d = v.details
    return bool(d.get("crash") and d.get("basic_block_longer_than_buffer") and "stack-buffer-overflow" in (d.get("kind") or "")
                and any(f.startswith("cp_rsa_ver@") for f in d.get("frames", [])))


def _pred_vbnn_overflow(case, v, entry):
    d = v.details
    return bool(d.get("crash") and d.get("r_at_infinity") and "stack-buffer-overflow" in (d.get("kind") or "")
                and any(f.startswith("cp_vbnn_ver@") for f in d.get("frames", [])))


KNOWN_PREDICATES = {"c05_" + c_.replace(":", "_").replace("-", "_").replace("=", ""): _class_pred(c_) for c_ in KNOWN_CLASSES}
KNOWN_PREDICATES.update(c05_rsa_gen_e_divides_phi=_pred_rsa_gen, c05_rsa_basic_stack_overflow=_pred_basic_overflow,
                        c05_vbnn_r_infinity_stack_overflow=_pred_vbnn_overflow)

"""C08 — no out-of-object access; overflow is reported, not performed (DESIGN §2 C08).

Part 2 (boundary sweep) and part 3 (allocation-fault enumeration) live here; part 1 (piggy-back) is inherent: every
other property's check runs on the same ASan+UBSan builds and reports sanitizer findings itself."""
import struct

from hypothesis import strategies as st

from engine import ecctx
from engine.core import Target, Violation, Unsupported
from engine.gen import ints
from engine.proto import NULL, Prog, ERR, RLC_ERR, RLC_OK, RunnerCrash, sanitizer_signature
from engine.ref import ec as rec

PROPERTY = "C08"
RULE = ("requests concentrated at the limits: integer results needing SIZE-1 / SIZE / SIZE+1 digits (products, squares, "
        "shifts, carries, bn_set_2b / bn_set_bit beyond the precision, bn_read_bin / read_raw / read_str of over-long "
        "input), caller buffers and *len in/out values of need-1 / need / need+1 / 0 for every writer and recoding, "
        "counts n in {0,1,2,3,8,9,17} for the array-taking functions, invalid selectors (radix 0/1/65, unknown ids), in "
        "BOTH calling styles (inside RLC_TRY, and unprotected with err_get_code()); exact-size heap buffers so that "
        "ASan sees any byte outside. oracle: no sanitizer report; exact value if the result fits, otherwise an error "
        "is observable (caught exception / sticky code) ; after every case a probe computation is correct and the "
        "error state is clean. Part 3: every allocation of a workload operation is failed in turn (ALLOC=DYNAMIC): "
        "error reported, no sanitizer report, live-block count restored, probe correct. non-trivial: the case reaches "
        "a limit (result > SIZE digits, buffer < need, n = 0, invalid selector, injected fault)")
ASSUMPTIONS = ["objects are created through the library's own constructors and never forged (used <= alloc, normalised)",
               "value correctness below the limits is decided by C01/C02/C03/C07/C09; here only fit-or-error"]
BUDGET_S = {"quick": 330, "thorough": 1500}
JOB_SIZE = {"quick": 2500, "thorough": 6000}

_INFO = {}


def info(env, cfg):
    if cfg not in _INFO:
        r = env.runner(cfg).info("info_bn")
        _INFO[cfg] = dict(W=r[0], BITS=r[1], DIGS=r[2], SIZE=r[3])
    return _INFO[cfg]


def probe(p):
    """library-remains-usable probe appended to every request"""
    a, b, c = p.bn(0xFFFFFFFFFFFF), p.bn(-0x10001), p.bn(5)
    p.call("bn_mul", c, a, b)
    p.dump(c)
    return c


def check_probe(res, slot, what):
    c = res.calls[-1]
    if c.errored or c.ub:
        raise Violation("after %s the library is not usable: probe multiplication reported an error" % what, call=repr(c))
    if res.dumps[slot].value != 0xFFFFFFFFFFFF * -0x10001:
        raise Violation("after %s the probe multiplication is wrong" % what, got=res.dumps[slot].value)


def observe(c, what):
    if c.unsupported:
        raise Unsupported()
    if c.ub:
        raise Violation("undefined behaviour in %s: %s" % (what, c.ub), ub=c.ub)


# ------------------------------------------------------------------------------ integer capacity

CAP_OPS = ["bn_mul", "bn_mul_basic", "bn_mul_comba", "bn_mul_karat", "bn_sqr", "bn_sqr_basic", "bn_sqr_comba",
           "bn_sqr_karat", "bn_add", "bn_sub", "bn_add_dig", "bn_sub_dig", "bn_mul_dig", "bn_dbl", "bn_lsh", "bn_set_2b",
           "bn_set_bit", "bn_read_bin", "bn_read_raw", "bn_read_str", "bn_lcm", "bn_mxp_basic", "bn_neg", "bn_copy"]


def strat_cap(env, cfg):
    I = info(env, cfg)
    W, SIZE = I["W"], I["SIZE"]

    @st.composite
    def s(draw):
        op = draw(st.sampled_from(CAP_OPS))
        na = draw(st.sampled_from([SIZE, SIZE, SIZE - 1, SIZE // 2, SIZE // 2 + 1, 1, SIZE - 2]))
        nb = draw(st.sampled_from([SIZE, SIZE - 1, SIZE // 2, SIZE // 2 + 1, 1, 2, SIZE - na, SIZE - na + 1, max(0, SIZE - na - 1)]))
        full = lambda n: (1 << (W * max(0, n))) - 1
        a = draw(st.one_of(st.just(full(na)), ints.uniform(full(na) >> 1, full(na)))) if na > 0 else 0
        b = draw(st.one_of(st.just(full(nb)), ints.uniform(full(nb) >> 1, full(nb)))) if nb > 0 else 0
        if draw(st.booleans()):
            a = -a
        if draw(st.booleans()):
            b = -b
        k = draw(st.sampled_from([0, 1, W - 1, W, W + 1, SIZE * W - 1, SIZE * W, SIZE * W + 1, SIZE * W + W, 2 * SIZE * W,
                                  (SIZE - na) * W, (SIZE - na) * W + 1, max(0, (SIZE - na) * W - 1), (1 << 31) - 1, 1 << 20]))
        nbytes = draw(st.sampled_from([0, 1, SIZE * W // 8 - 1, SIZE * W // 8, SIZE * W // 8 + 1, SIZE * W // 8 + W // 8,
                                       2 * SIZE * W // 8, 5000]))
        return dict(op=op, a=a, b=b, k=k, nbytes=nbytes, d=draw(ints.digit(W)), radix=draw(st.sampled_from([2, 10, 16, 64])),
                    alias=draw(st.sampled_from([0, 0, 1])), unprot=draw(st.booleans()), poison=draw(st.integers(0, 255)),
                    fill=draw(st.sampled_from([0xFF, 0x01, 0x80, 0x5A])))
    return s()


def run_cap(env, cfg, case):
    I = info(env, cfg)
    W, SIZE = I["W"], I["SIZE"]
    op, a, b, k = case["op"], case["a"], case["b"], case["k"]
    nd = lambda x: max(1, ints.ndigits(x, W))
    p = Prog(poison=case["poison"], unprotected=case["unprot"])
    sa, sb = p.bn(a), p.bn(b)
    sc = sa if case["alias"] else p.bn(12345)
    want, scratch = None, 0
    if op.startswith("bn_mul") and op != "bn_mul_dig":
        p.call(op, sc, sa, sb)
        want, scratch = a * b, nd(a) + nd(b)
    elif op.startswith("bn_sqr"):
        p.call(op, sc, sa)
        want, scratch = a * a, 2 * nd(a)
    elif op in ("bn_add", "bn_sub"):
        p.call(op, sc, sa, sb)
        want = a + b if op == "bn_add" else a - b
        scratch = max(nd(a), nd(b)) + 1
    elif op in ("bn_add_dig", "bn_sub_dig", "bn_mul_dig"):
        p.call(op, sc, sa, case["d"])
        want = {"bn_add_dig": a + case["d"], "bn_sub_dig": a - case["d"], "bn_mul_dig": a * case["d"]}[op]
        scratch = nd(a) + 1
    elif op == "bn_dbl":
        p.call(op, sc, sa)
        want, scratch = 2 * a, nd(a) + 1
    elif op == "bn_lsh":
        if k > 4 * SIZE * W:
            k = 4 * SIZE * W
        p.call(op, sc, sa, k)
        want, scratch = a << k, nd(a) + k // W + 1
    elif op == "bn_set_2b":
        p.call(op, sc, k)
        want, scratch = (1 << k) if k < 64 * SIZE * W else None, k // W + 1
    elif op == "bn_set_bit":
        p.call(op, sa, k, 1)
        sc = sa
        m = abs(a) | (1 << k) if k < 64 * SIZE * W else None
        want = None if m is None else (-m if a < 0 else m)
        scratch = k // W + 1
    elif op == "bn_read_bin":
        data = bytes([case["fill"]]) * case["nbytes"]
        sbuf = p.buf(data)
        p.call(op, sc, sbuf)
        want, scratch = int.from_bytes(data, "big"), (case["nbytes"] * 8 + W - 1) // W
    elif op == "bn_read_raw":
        n = case["nbytes"] // (W // 8) * (W // 8)
        data = bytes([case["fill"]]) * n
        sbuf = p.buf(data)
        p.call(op, sc, sbuf)
        want, scratch = int.from_bytes(data, "little"), n // (W // 8)
    elif op == "bn_read_str":
        rdx = case["radix"]
        ch = {2: b"1", 10: b"9", 16: b"F", 64: b"/"}[rdx]
        n = max(1, min(case["nbytes"], 6000))      # the empty string is not a documented input
        sbuf = p.buf(ch * n)
        p.call(op, sc, sbuf, rdx, 0)
        want = rdx ** n - 1
        scratch = (n * (rdx - 1).bit_length() + W - 1) // W + 1
    elif op == "bn_lcm":
        p.call(op, sc, sa, sb)
        import math
        want = 0 if a == 0 or b == 0 else abs(a * b) // math.gcd(a, b)
        scratch = nd(a) + nd(b)
    elif op == "bn_mxp_basic":
        m = abs(a) | 1
        e = case["d"] & 0xFFFF
        sm, se = p.bn(m), p.bn(e)
        sx = p.bn(abs(b))
        p.call(op, sc, sx, se, sm)
        want, scratch = pow(abs(b), e, m), max(2 * nd(m) + 2, nd(b) + nd(m) + 1)
        sa = sm
    elif op == "bn_neg":
        p.call(op, sc, sa)
        want, scratch = -a, nd(a)
    else:
        p.call("bn_copy", sc, sa)
        want, scratch = a, nd(a)
    p.dump(sc)
    sp = probe(p)
    res = env.runner(cfg).run(p)
    if res.failed_new:
        raise Unsupported()
    c = res.calls[0]
    what = "%s(%s)" % (op, "unprotected" if case["unprot"] else "protected")
    observe(c, what)
    fits_result = want is not None and ints.ndigits(want, W) <= SIZE
    fits_scratch = scratch <= SIZE
    lab = ["op:" + op, "style:" + ("unprotected" if case["unprot"] else "protected")]
    if not fits_result:
        lab.append("limit:result-exceeds-precision")
        if not c.errored:
            raise Violation("%s: result needs more than RLC_BN_SIZE digits but no error was reported" % what,
                            result=repr(res.dumps[sc]))
    elif fits_scratch:
        lab.append("limit:fits")
        if c.errored:
            raise Violation("%s: reported an error although result and scratch fit" % what, call=repr(c))
        raw = res.dumps[sc]
        if raw.value != want or raw.normal_form_error():
            raise Violation("%s: wrong / unnormalised value at the capacity boundary" % what, got=repr(raw), want=want)
    else:
        lab.append("limit:result-fits-scratch-does-not")
        if not c.errored:
            raw = res.dumps[sc]
            if raw.value != want or raw.normal_form_error():
                raise Violation("%s: neither an error nor the exact value" % what, got=repr(raw), want=want)
    if c.errored:
        raw = res.dumps[sc]
        if raw is not None and raw.used > raw.alloc:
            raise Violation("%s: after the reported error the output claims used=%d > alloc=%d" % (what, raw.used, raw.alloc))
    check_probe(res, sp, what)
    return (not fits_result or not fits_scratch), lab


# ------------------------------------------------------------------------------ caller buffers and *len

BUF_OPS = ["bn_write_bin", "bn_write_raw", "bn_write_str", "bn_size_str", "bn_rec_win", "bn_rec_slw", "bn_rec_naf",
           "bn_rec_reg", "bn_rec_jsf", "fp_write_bin", "fp_write_str", "fp_read_bin", "fp_read_str", "ep_write_bin",
           "ep_read_bin"]


def strat_buf(env, cfg):
    I = info(env, cfg)
    W, SIZE, DIGS = I["W"], I["SIZE"], I["DIGS"]

    @st.composite
    def s(draw):
        op = draw(st.sampled_from(BUF_OPS))
        kbits = draw(st.sampled_from([0, 1, 2, 3, 7, 8, 9, W - 1, W, W + 1, 255, 256, 257, DIGS * W]))
        k = draw(st.one_of(st.just((1 << kbits) - 1), st.just(1 << max(0, kbits - 1)),
                           ints.uniform(1 << max(0, kbits - 1), (1 << kbits) - 1 if kbits else 1))) if kbits else 0
        if draw(st.integers(0, 4)) == 0:
            k = -k
        return dict(op=op, k=k, l=draw(ints.uniform(0, 1 << min(kbits, 256))) if kbits else 0,
                    delta=draw(st.sampled_from([-9999, -2, -1, -1, 0, 0, 1, 7])), w=draw(st.integers(2, 8)),
                    radix=draw(st.sampled_from([0, 1, 2, 3, 10, 16, 36, 37, 63, 64, 65, 255])), pack=draw(st.integers(0, 1)),
                    tag=draw(st.integers(0, 255)), unprot=draw(st.booleans()), poison=draw(st.integers(0, 255)))
    return s()


def _need_bin(k):
    return (abs(k).bit_length() + 7) // 8       # bn_size_bin(0) is 0: zero encodes to the empty string


def _str_len(k, radix):
    if k == 0:
        return 2
    n, m = 0, abs(k)
    while m:
        m //= radix
        n += 1
    return n + (1 if k < 0 else 0) + 1


def run_buf(env, cfg, case):
    I = info(env, cfg)
    W = I["W"]
    op, k, delta = case["op"], case["k"], case["delta"]
    p = Prog(poison=case["poison"], unprotected=case["unprot"])
    what = "%s(%s)" % (op, "unprotected" if case["unprot"] else "protected")
    lab = ["op:" + op, "style:" + ("unprotected" if case["unprot"] else "protected")]
    ops = env.runner(cfg).ops()
    if op not in ops and not op.startswith("bn_"):
        raise Unsupported()
    must_error = None       # True: an error must be observable; False: must succeed; None: either
    sk = p.bn(k)
    if op in ("bn_write_bin", "bn_write_raw"):
        need = _need_bin(k) if op == "bn_write_bin" else max(1, ints.ndigits(k, W)) * (W // 8)
        ln = max(0, need + (delta if op == "bn_write_bin" else delta * (W // 8)))
        sb = p.buf(b"\xEE" * ln)
        p.call(op, sb, sk)
        must_error = ln < need
        lab.append("buf:%s" % ("short" if ln < need else "exact" if ln == need else "long"))
    elif op in ("bn_write_str", "bn_size_str"):
        rdx = case["radix"]
        valid = 2 <= rdx <= 64
        if op == "bn_size_str":
            p.call(op, sk, rdx)
            must_error = not valid
        else:
            need = _str_len(k, rdx) if valid else 4
            ln = max(0, need + delta)
            sb = p.buf(b"\xEE" * ln)
            p.call(op, sb, sk, rdx)
            must_error = (not valid) or ln < need
            lab.append("buf:%s" % ("short" if ln < need else "exact" if ln == need else "long"))
        lab.append("radix:%s" % ("valid" if valid else "invalid"))
    elif op.startswith("bn_rec_"):
        bits = abs(k).bit_length()
        w = case["w"]
        base = {"bn_rec_win": (bits + w - 1) // w, "bn_rec_slw": bits, "bn_rec_naf": bits + 1,
                "bn_rec_reg": (256 + w - 2) // (w - 1) + 1, "bn_rec_jsf": 2 * (max(bits, case["l"].bit_length()) + 1)}[op]
        ln = max(0, base + delta)
        sb = p.buf(b"\xEE" * ln)
        if op == "bn_rec_reg":
            kk = (abs(k) | 1) & ((1 << 256) - 1)
            sk = p.bn(kk)
            p.call(op, sb, NULL, sk, 256, w)
        elif op == "bn_rec_jsf":
            sl = p.bn(case["l"])
            p.call(op, sb, NULL, sk, sl)
        else:
            p.call(op, sb, NULL, sk, w)
        must_error = None
        lab.append("len:%s" % ("below" if delta < 0 else "at" if delta == 0 else "above"))
    elif op in ("fp_write_bin", "fp_write_str", "fp_read_bin", "fp_read_str", "ep_write_bin", "ep_read_bin"):
        from props import c02
        ctx = c02.fields(env, cfg)
        F = ctx["fields"][0][1]
        nb = (ctx["bits"] + 7) // 8
        if op.startswith("ep_"):
            c = ecctx.discover(env, cfg)["curves"][0]
            p.call("ep_param_set", c.cid)
            F = c.F
            nb = (F.p.bit_length() + 7) // 8
        else:
            p.call("fp_param_set", ctx["fields"][0][0])
        val = abs(k) % F.p
        if op == "fp_write_bin":
            sf = p.new("FP", F.enc(val))
            ln = max(0, nb + delta)
            sb = p.buf(b"\xEE" * ln)
            p.call(op, sb, sf)
            must_error = ln != nb
        elif op == "fp_read_bin":
            sf = p.new("FP", F.enc(1))
            ln = max(0, nb + delta)
            data = (val.to_bytes(nb, "big") + b"\x00" * 16)[:ln] if delta >= 0 else val.to_bytes(nb, "big")[:ln]
            sb = p.buf(data)
            p.call(op, sf, sb)
            must_error = True if ln != nb else False
        elif op == "fp_write_str":
            rdx = case["radix"]
            valid = 2 <= rdx <= 64
            need = _str_len(val, rdx) if valid else 4
            sf = p.new("FP", F.enc(val))
            ln = max(0, need + delta)
            sb = p.buf(b"\xEE" * ln)
            p.call(op, sb, sf, rdx)
            must_error = (not valid) or ln < need
        elif op == "fp_read_str":
            rdx = case["radix"]
            valid = 2 <= rdx <= 64
            sf = p.new("FP", F.enc(1))
            sb = p.buf(b"1" * max(1, min(700, abs(delta) * 40 + 1)))
            p.call(op, sf, sb, rdx, 0)
            must_error = True if not valid else None
        elif op == "ep_write_bin":
            c = ecctx.discover(env, cfg)["curves"][0]
            P = ecctx.small_multiple(c, abs(k) % c.n)
            sp_ = p.new("EP", ecctx.enc_point(c, P))
            need = 1 if P is None else (nb + 1 if case["pack"] else 2 * nb + 1)
            ln = max(0, need + delta)
            sb = p.buf(b"\xEE" * ln)
            p.call(op, sb, sp_, case["pack"])
            must_error = ln < need       # longer buffers are accepted (zero filled)
        else:
            c = ecctx.discover(env, cfg)["curves"][0]
            P = ecctx.small_multiple(c, (abs(k) % c.n) or 1)
            enc_ = bytes([4]) + P[0].to_bytes(nb, "big") + P[1].to_bytes(nb, "big")
            ln = max(0, len(enc_) + delta)
            data = (enc_ + b"\x00" * 16)[:ln]
            if data and case["tag"] < 8:
                data = bytes([case["tag"]]) + data[1:]
            sp_ = p.new("EP", ecctx.enc_point(c, c.G))
            sb = p.buf(data)
            p.call(op, sp_, sb)
            must_error = None if ln == len(enc_) else (True if ln not in (1, nb + 1, 2 * nb + 1) else None)
        lab.append("delta:%d" % max(-3, min(3, delta)))
    else:
        raise Unsupported()
    sp = probe(p)
    try:
        res = env.runner(cfg).run(p)
    finally:
        ecctx.invalidate(env, cfg)
        try:
            from props import c02
            if cfg in c02._CTX:
                c02._CTX[cfg]["cur"] = None
        except Exception:
            pass
    if res.failed_new:
        raise Unsupported()
    c = res.calls[-2]
    observe(c, what)
    if must_error is True and not c.errored:
        raise Violation("%s: insufficient buffer / invalid argument but no error was reported" % what, call=repr(c),
                        case_delta=delta)
    if must_error is False and c.errored:
        raise Violation("%s: reported an error for a sufficient buffer / valid argument" % what, call=repr(c))
    if op.startswith("bn_rec_") and not c.errored:
        ln = len(res.dumps[[s_ for s_ in res.dumps if isinstance(res.dumps[s_], (bytes, bytearray))][0]]) \
            if any(isinstance(v, (bytes, bytearray)) for v in res.dumps.values()) else None
        outlen = c.rets[0]
        cap = max(0, (case["delta"] + {"bn_rec_win": (abs(k).bit_length() + case["w"] - 1) // case["w"],
                                       "bn_rec_slw": abs(k).bit_length(), "bn_rec_naf": abs(k).bit_length() + 1,
                                       "bn_rec_reg": (256 + case["w"] - 2) // (case["w"] - 1) + 1,
                                       "bn_rec_jsf": 2 * (max(abs(k).bit_length(), case["l"].bit_length()) + 1)}[op]))
        if outlen > cap:
            raise Violation("%s: reports %d output entries for a buffer of %d" % (what, outlen, cap))
    check_probe(res, sp, what)
    return must_error is True or c.errored, lab


# ------------------------------------------------------------------------------ counts of array-taking functions

CNT_OPS = ["bn_mod_inv_sim", "bn_mxp_sim_few", "bn_mxp_sim_lot", "bn_lag", "bn_evl", "fp_inv_sim", "ep_mul_sim_lot",
           "ep_mul_sim_dig", "ep_norm_sim"]


def strat_cnt(env, cfg):
    @st.composite
    def s(draw):
        return dict(op=draw(st.sampled_from(CNT_OPS)), n=draw(st.sampled_from([0, 0, 1, 2, 3, 8, 9, 17])),
                    seed=draw(ints.uniform(1, 1 << 64)), unprot=draw(st.booleans()), poison=draw(st.integers(0, 255)))
    return s()


def run_cnt(env, cfg, case):
    op, n = case["op"], case["n"]
    if op not in env.runner(cfg).ops():
        raise Unsupported()
    p = Prog(poison=case["poison"], unprotected=case["unprot"])
    what = "%s(n=%d, %s)" % (op, n, "unprotected" if case["unprot"] else "protected")
    q = (1 << 127) - 1
    xs = [(case["seed"] * (i + 3) * 0x9E3779B97F4A7C15 + 1) % q or 1 for i in range(n)]
    check = None
    if op == "bn_mod_inv_sim":
        sc, sa, sm = p.bnv([7] * n), p.bnv(xs), p.bn(q)
        p.call(op, sc, sa, sm, n)
        p.dump(sc)
        check = lambda res: [v.value for v in res.dumps[sc]] == [pow(x, -1, q) for x in xs]
    elif op in ("bn_mxp_sim_few", "bn_mxp_sim_lot"):
        es = [(x >> 64) | 1 for x in xs]
        sc, sa, se, sm = p.bn(1), p.bnv(xs), p.bnv(es), p.bn(q)
        p.call(op, sc, sa, se, sm, n)
        p.dump(sc)
        want = 1
        for x, e in zip(xs, es):
            want = want * pow(x, e, q) % q
        check = lambda res: res.dumps[sc].value == want
    elif op == "bn_lag":
        sc, sa, sm = p.bnv([0] * (n + 1)), p.bnv(xs), p.bn(q)
        p.call(op, sc, sa, sm, n)
        p.dump(sc)
    elif op == "bn_evl":
        sc, sa, sx, sm = p.bn(0), p.bnv(xs + [1]), p.bn(5), p.bn(q)
        p.call(op, sc, sa, sx, sm, n)
        p.dump(sc)
        # whether n counts coefficients or is the degree is C09's question (header and code disagree); no value check here
    elif op == "fp_inv_sim":
        from props import c02
        ctx = c02.fields(env, cfg)
        fid, F = ctx["fields"][0]
        p.call("fp_param_set", fid)
        ctx["cur"] = None
        pay = b"".join(F.to_raw_int(x % F.p or 1).to_bytes(F.nbytes, "little") for x in xs)
        sa = p.new("FPV", struct.pack("<II", n, len(pay)) + pay)
        sc = p.new("FPV", struct.pack("<II", n, len(pay)) + pay)
        p.call(op, sc, sa, n)
    else:
        c = ecctx.discover(env, cfg)["curves"][0]
        p.call("ep_param_set", c.cid)
        ecctx.invalidate(env, cfg)
        pts = [ecctx.small_multiple(c, (x % 50) + 1) for x in xs]
        body = b"".join(ecctx.enc_point(c, P) for P in pts)
        sv = p.new("EPV", struct.pack("<II", n, n) + body)
        sr = p.new("EP", ecctx.enc_point(c, c.G))
        if op == "ep_mul_sim_lot":
            p.call(op, sr, sv, p.bnv([x % c.n for x in xs]), n)
        elif op == "ep_mul_sim_dig":
            p.call(op, sr, sv, p.buf(b"".join((x & ((1 << c.F.W) - 1)).to_bytes(c.F.W // 8, "little") for x in xs)), n)
        else:
            so = p.new("EPV", struct.pack("<II", n, n) + body)
            p.call(op, so, sv, n)
    sp = probe(p)
    res = env.runner(cfg).run(p)
    if res.failed_new:
        raise Unsupported()
    c = res.calls[-2]
    observe(c, what)
    if op == "bn_mxp_sim_few" and n > 8:
        # documented: "up to 8 integers"
        if not c.errored:
            raise Violation("%s: more than 8 bases but no error was reported" % what)
        check_probe(res, sp, what)
        return True, ["op:" + op, "n:%d" % n, "limit:n>8"]
    if n >= 1 and c.errored:
        raise Violation("%s reported an error for a non-empty valid list" % what, call=repr(c))
    if n >= 1 and check is not None and not check(res):
        raise Violation("%s wrong value" % what)
    check_probe(res, sp, what)
    return n == 0 or n >= 8, ["op:" + op, "n:%d" % n, "style:" + ("unprotected" if case["unprot"] else "protected"),
                              "n0:%s" % ("error" if c.errored else "value") if n == 0 else "n>0"]


# ------------------------------------------------------------------------------ invalid selectors

def strat_sel(env, cfg):
    @st.composite
    def s(draw):
        return dict(op=draw(st.sampled_from(["ep_param_set", "bn_div", "bn_mod", "bn_mod_inv", "bn_gcd_ext_lehme",
                                             "bn_smb_leg", "bn_smb_jac", "bn_srt", "bn_mxp_slide", "bn_mod_pre_monty",
                                             "bn_get_bit", "bn_rand_mod", "fp_inv", "fp_exp_slide", "bn_div_dig",
                                             "bn_div_rem_dig"])),
                    v=draw(st.sampled_from([0, -1, -7, 1, 2, 4, 1 << 64, (1 << 255) + 1, 200, 1000, -(1 << 70)])),
                    a=draw(st.sampled_from([0, 1, -1, 5, -5, (1 << 200) + 1, -(1 << 130)])),
                    unprot=draw(st.booleans()), poison=draw(st.integers(0, 255)), seed=draw(st.binary(min_size=4, max_size=4)))
    return s()


def run_sel(env, cfg, case):
    op, v, a = case["op"], case["v"], case["a"]
    if op not in env.runner(cfg).ops():
        raise Unsupported()
    p = Prog(poison=case["poison"], unprotected=case["unprot"], seed=case["seed"])
    what = "%s(%s)" % (op, "unprotected" if case["unprot"] else "protected")
    must_error = None
    if op == "ep_param_set":
        ids = {c.cid for c in ecctx.discover(env, cfg)["curves"]}
        cid = abs(v) % 300
        p.call(op, cid)
        ecctx.invalidate(env, cfg)
        must_error = cid not in ids
        # leave a valid curve selected afterwards
        p.call("ep_param_set", sorted(ids)[0])
    elif op in ("bn_div", "bn_mod"):
        sc, sa, sb = p.bn(1), p.bn(a), p.bn(v)
        p.call(op, sc, sa, sb)
        must_error = True if v == 0 else (None if (op == "bn_mod" and v < 0) else False)
    elif op in ("bn_div_dig", "bn_div_rem_dig"):
        # header: "@throw ERR_NO_VALID - if the divisor is zero"
        d = 0 if v in (0, 1 << 64) else (abs(v) & ((1 << info(env, cfg)["W"]) - 1)) or 1
        if op == "bn_div_dig":
            p.call(op, p.bn(1), p.bn(a), d)
        else:
            p.call(op, p.bn(1), p.bn(a), d, 1)
        must_error = d == 0
    elif op == "bn_mod_inv":
        import math
        sc, sa, sb = p.bn(1), p.bn(a), p.bn(v)
        p.call(op, sc, sa, sb)
        must_error = None          # only 'not invertible' is documented to throw; a zero modulus is undocumented
    elif op == "bn_gcd_ext_lehme":
        sc, sd, se = p.bn(1), p.bn(1), p.bn(1)
        p.call(op, sc, sd, se, p.bn(a), p.bn(v))
        must_error = None
    elif op in ("bn_smb_leg", "bn_smb_jac"):
        p.call(op, p.bn(a), p.bn(v))
        if op == "bn_smb_leg":
            # header: b prime is a precondition; only "negative input" is documented to throw
            if v >= 0 and v not in (1 << 64,) and not (v > 2 and all(v % q for q in (2, 3, 5, 7, 11, 13))):
                raise Unsupported()
            must_error = True if v < 0 else None
        else:
            must_error = True if (v % 2 == 0 or v < 0) else None
    elif op == "bn_srt":
        p.call(op, p.bn(1), p.bn(v))
        must_error = True if v < 0 else False
    elif op == "bn_mxp_slide":
        p.call(op, p.bn(1), p.bn(a), p.bn(5), p.bn(v))
        must_error = True if v == 0 else None
    elif op == "bn_mod_pre_monty":
        p.call(op, p.bn(1), p.bn(v))
        must_error = True if v % 2 == 0 else None
    elif op == "bn_get_bit":
        p.call(op, p.bn(a), abs(v))
        must_error = False
    elif op == "bn_rand_mod":
        p.call(op, p.bn(1), p.bn(v))
        must_error = None if v in (0, 1, -1) else False
        if abs(v).bit_length() > info(env, cfg)["BITS"]:
            raise Unsupported()      # beyond the configured precision (sampling draws bits + 40)
        if v in (0, 1, -1):
            raise Unsupported()      # sampling from an empty range has no documented behaviour (and may not terminate)
    elif op == "fp_inv":
        from props import c02
        ctx = c02.fields(env, cfg)
        fid, F = ctx["fields"][0]
        p.call("fp_param_set", fid)
        ctx["cur"] = None
        p.call(op, p.new("FP", F.enc(3)), p.new("FP", F.enc(v % F.p if v % F.p in (0, 1) else 0)))
        must_error = None
    else:
        from props import c02
        ctx = c02.fields(env, cfg)
        fid, F = ctx["fields"][0]
        p.call("fp_param_set", fid)
        ctx["cur"] = None
        p.call(op, p.new("FP", F.enc(3)), p.new("FP", F.enc(5)), p.bn(v))
        must_error = False if abs(v).bit_length() <= ctx["bits"] else None
    idx = len(p.names) - 1 - (1 if op == "ep_param_set" else 0)
    sp = probe(p)
    res = env.runner(cfg).run(p, timeout=30)
    if res.failed_new:
        raise Unsupported()
    c = res.calls[idx]
    observe(c, what)
    if must_error is True and not c.errored:
        raise Violation("%s: invalid argument but no error was reported" % what, v=v, a=a, call=repr(c))
    if must_error is False and c.errored:
        raise Violation("%s: reported an error for a valid argument" % what, v=v, a=a, call=repr(c))
    check_probe(res, sp, what)
    return must_error is True or c.errored, ["op:" + op, "style:" + ("unprotected" if case["unprot"] else "protected"),
                                             "outcome:%s" % ("error" if c.errored else "value")]


# ------------------------------------------------------------------------------ long operands
# Internal tables, windows and recoding buffers are sized from constants (RLC_TABLE_SIZE, RLC_BN_BITS, ...) while
# a bn object may hold up to RLC_BN_SIZE digits: exponents, dividends and gcd operands from just below the configured
# precision up to the capacity of the object. The results are small, so: exact value or a reported error.

LONG_OPS = ["bn_mxp", "bn_mxp_basic", "bn_mxp_slide", "bn_mxp_monty", "bn_mxp_sim", "bn_mod", "bn_mod_basic", "bn_div",
            "bn_div_rem", "bn_gcd", "bn_gcd_basic", "bn_gcd_lehme", "bn_gcd_binar", "bn_gcd_ext_basic", "bn_gcd_ext_lehme",
            "bn_gcd_ext_binar", "bn_srt", "bn_smb_jac", "bn_mod_inv", "bn_mod_dig", "bn_div_dig"]


def strat_long(env, cfg):
    I = info(env, cfg)
    W, SIZE, DIGS = I["W"], I["SIZE"], I["DIGS"]
    top = W * (SIZE - 1)

    @st.composite
    def s(draw):
        op = draw(st.sampled_from(LONG_OPS))
        cand = [b for b in (W * DIGS - 1, W * DIGS, W * DIGS + 1, W * DIGS + W, top - W, top - 1, top) if 2 <= b <= top]
        bits = draw(st.one_of(st.sampled_from(cand), st.integers(max(2, min(W * DIGS, top) - 8), top)))
        big = draw(ints.uniform(1 << (bits - 1), (1 << bits) - 1))
        if draw(st.integers(0, 5)) == 0:
            big = (1 << bits) - 1 - draw(st.integers(0, 3))
        sbits = draw(st.sampled_from([1, 2, W - 1, W, W + 1, 2 * W, 3 * W, 128]))
        small = draw(ints.uniform(1, (1 << sbits) - 1)) | 1
        base = draw(st.one_of(st.sampled_from([0, 1, 2, 3]), ints.uniform(0, 1 << sbits)))
        return dict(op=op, big=big, small=small, base=base, neg=draw(st.integers(0, 7)) == 0,
                    unprot=draw(st.booleans()), poison=draw(st.integers(0, 255)))
    return s()


def run_long(env, cfg, case):
    import math
    I = info(env, cfg)
    W = I["W"]
    op, big, m, base = case["op"], case["big"], case["small"], case["base"]
    if op not in env.runner(cfg).ops():
        raise Unsupported()
    p = Prog(poison=case["poison"], unprotected=case["unprot"])
    what = "%s(%s, operand of %d bits)" % (op, "unprotected" if case["unprot"] else "protected", big.bit_length())
    outs = []
    want = None
    if op.startswith("bn_mxp") and op != "bn_mxp_sim":
        e = -big if case["neg"] else big
        if m == 1:
            m = 3
        sc = p.bn(1)
        p.call(op, sc, p.bn(base), p.bn(e), p.bn(m))
        outs = [sc]
        if e >= 0 or math.gcd(base, m) == 1:
            want = [pow(base, e, m)]
    elif op == "bn_mxp_sim":
        if m == 1:
            m = 3
        sc = p.bn(1)
        p.call(op, sc, p.bn(base), p.bn(big), p.bn(base + 2), p.bn(big >> 1), p.bn(m))
        outs = [sc]
        want = [pow(base, big, m) * pow(base + 2, big >> 1, m) % m]
    elif op in ("bn_mod", "bn_mod_basic"):
        sc = p.bn(1)
        p.call(op, sc, p.bn(big), p.bn(m))
        outs, want = [sc], [big % m]
    elif op == "bn_div":
        sc = p.bn(1)
        p.call(op, sc, p.bn(big), p.bn(m))
        outs, want = [sc], [big // m]
    elif op == "bn_div_rem":
        sc, sd = p.bn(1), p.bn(1)
        p.call(op, sc, sd, p.bn(big), p.bn(m))
        outs, want = [sc, sd], [big // m, big % m]
    elif op in ("bn_mod_dig", "bn_div_dig"):
        d = (m % (1 << W)) or 1
        sc = p.bn(1)
        if op == "bn_mod_dig":
            p.call(op, p.bn(big), d)
            want = None
        else:
            p.call(op, sc, p.bn(big), d)
            outs, want = [sc], [big // d]
    elif op in ("bn_gcd", "bn_gcd_basic", "bn_gcd_lehme", "bn_gcd_binar"):
        other = (big >> 3) | 1 if case["neg"] else m
        sc = p.bn(1)
        p.call(op, sc, p.bn(big), p.bn(other))
        outs, want = [sc], [math.gcd(big, other)]
    elif op.startswith("bn_gcd_ext"):
        other = (big >> 3) | 1 if case["neg"] else m
        sc, sd, se = p.bn(1), p.bn(1), p.bn(1)
        p.call(op, sc, sd, se, p.bn(big), p.bn(other))
        outs = [sc, sd, se]
        want = ("bezout", big, other)
    elif op == "bn_srt":
        sc = p.bn(1)
        p.call(op, sc, p.bn(big))
        outs, want = [sc], [math.isqrt(big)]
    elif op == "bn_smb_jac":
        p.call(op, p.bn(big), p.bn(m))
    elif op == "bn_mod_inv":
        if m == 1:
            m = 3
        sc = p.bn(1)
        p.call(op, sc, p.bn(big), p.bn(m))
        outs = [sc]
        want = [pow(big, -1, m)] if math.gcd(big, m) == 1 else None
    for o in outs:
        p.dump(o)
    idx = len(p.names) - 1
    sp = probe(p)
    res = env.runner(cfg).run(p, timeout=60)
    if res.failed_new:
        raise Unsupported()
    c = res.calls[idx]
    observe(c, what)
    if not c.errored and want is not None:
        got = [res.dumps[o].value for o in outs]
        if isinstance(want, tuple):
            g, d, e = got
            if g != math.gcd(want[1], want[2]) or want[1] * d + want[2] * e != g:
                raise Violation("%s: wrong gcd / cofactors for an operand beyond the configured precision" % what, got=got)
        elif got != want:
            raise Violation("%s: wrong value for an operand beyond the configured precision and no error reported" % what,
                            got=got, want=want)
    check_probe(res, sp, what)
    beyond = big.bit_length() > W * I["DIGS"]
    at_limit = big.bit_length() >= W * min(I["DIGS"], I["SIZE"] - 1) - 8
    return beyond or at_limit, ["op:" + op, "long:%s" % ("beyond-precision" if beyond else "within"),
                    "outcome:%s" % ("error" if c.errored else "value")]


# ------------------------------------------------------------------------------ allocation-fault enumeration

WORKLOADS = [(0, w) for w in range(8)] + [(1, w) for w in range(6)] + [(2, w) for w in range(9)] + \
    [(3, w) for w in range(4)] + [(4, w) for w in range(3)]
FAULT_CAP = {"quick": 160, "thorough": 1500}
_FSTATE = {}


def _site_of(kind, frames):
    """call site of a crash: first library frame (function@file), without line numbers"""
    for f in frames or []:
        fn, _, loc = f.partition("@")
        if fn in ("bn_clean", "dv_free_dynam", "bn_free", "dv_free", "bn_trim", "bn_copy"):
            continue          # generic release helpers: the defect is in the caller's finalisation block
        if loc.startswith("src/") or loc.startswith("include/"):
            return "%s@%s" % (fn, loc.split(":")[0])
    return "%s@?" % (kind or "crash")


def _known_fault_sites():
    import json
    import os
    from engine import build
    if "sites" not in _FSTATE:
        sites = set()
        p = os.path.join(build.VERIF, "known_findings.json")
        if os.path.exists(p):
            for e in json.load(open(p)).get("findings", []):
                if e.get("property") == "C08" and e.get("predicate") == "alloc_fault_site":
                    sites.update(e.get("sites", []))
        _FSTATE["sites"] = sites
    return _FSTATE["sites"]


def strat_fault(env, cfg):
    @st.composite
    def s(draw):
        g, w = draw(st.sampled_from(WORKLOADS))
        return dict(group=g, which=w, seed=draw(ints.uniform(1, (1 << 63) - 1)), drbg=draw(st.binary(min_size=8, max_size=8)),
                    phase=draw(st.integers(0, 1 << 20)))
    return s()


def _fault_call(env, cfg, case, fail_at, setup):
    p = Prog(seed=case["drbg"], noscribble=True)
    n0 = 0
    if setup:
        p.call("c08_fault_setup", setup)
        n0 = 1
    p.call("c08_fault", case["group"], case["which"], case["seed"], fail_at)
    res = env.runner(cfg, timeout=120).run(p)
    return res.calls[n0]


def run_fault(env, cfg, case):
    import os
    tier = os.environ.get("VERIF_TIER_ACTIVE", "quick")
    cap = FAULT_CAP.get(tier, 160)
    g, w = case["group"], case["which"]
    r = env.runner(cfg, timeout=120)
    if "c08_fault" not in r.ops():
        raise Unsupported()
    setup = {1: 1, 2: 1, 4: 1, 3: 2}.get(g, 0)
    what = "workload %d/%d" % (g, w)
    base = _fault_call(env, cfg, case, 0, setup)
    if not base.rets[0]:
        raise Unsupported()
    if base.errored or base.rets[4]:
        raise Violation("%s failed without any injected fault" % what, call=repr(base))
    n, ok, frees, h0 = base.rets[1], base.rets[2], base.rets[3], base.rets[6]
    if ok != frees:
        # warm-up effects (lazily created library state) are tolerated once: take a second baseline
        base = _fault_call(env, cfg, case, 0, 0)
        n, ok, frees, h0 = base.rets[1], base.rets[2], base.rets[3], base.rets[6]
        if ok != frees:
            raise Violation("%s leaks without any injected fault: %d successful allocations, %d frees" % (what, ok, frees))
    if n <= cap:
        points = list(range(1, n + 1))
    else:
        step = n / float(cap)
        off = case["phase"] % max(1, int(step))
        points = sorted({min(n, 1 + off + int(i * step)) for i in range(cap)})
    if case.get("strict"):
        points = list(range(1, min(n, 300) + 1))      # witness replays: no exclusions, dense prefix
    reported = silent_ok = 0
    known_sites = _known_fault_sites()
    excluded = {}
    for i in points:
        try:
            c = _fault_call(env, cfg, case, i, 0)
        except RunnerCrash as rc:
            kind, frames = sanitizer_signature(rc.stderr_tail)
            if rc.why == "timeout":
                continue
            site = _site_of(kind, frames)
            if (site in known_sites and not case.get("strict")) or os.environ.get("VERIF_C08_COLLECT"):
                if site not in known_sites:
                    env.label("COLLECT:" + site)
                excluded[site] = excluded.get(site, 0) + 1
                _fault_call(env, cfg, case, 0, setup)        # fresh runner: select parameters again
                continue
            raise Violation("%s: allocation %d of %d failed -> runner %s (%s) at %s" % (what, i, n, rc.why, kind, site),
                            crash=True, kind=kind, frames=frames, site=site, fault_point=i, allocations=n,
                            stderr=rc.stderr_tail[-2000:])
        cnt, aok, fr, caught, hh = c.rets[1], c.rets[2], c.rets[3], c.rets[4], c.rets[6]
        if cnt < i:
            # the DRBG-dependent path was shorter this time: the fault was not reached (counts as not injected)
            continue
        if not (caught or c.errored):
            if hh != h0:
                raise Violation("%s: allocation %d of %d failed, no error was reported and the result differs" % (what, i, n),
                                fault_point=i, allocations=n)
            silent_ok += 1
        else:
            reported += 1
        if aok != fr:
            # a leak on the error path is outside the property statement (it speaks of accesses, reporting and
            # usability): recorded as an observation, not a violation
            env.label("fault:observation-leak-on-error-path:workload-%d/%d" % (g, w))
    for site, k in excluded.items():
        env.label("fault:excluded-known-site:" + site, k)
    after = _fault_call(env, cfg, case, 0, 0)
    if after.errored or after.rets[4] or after.rets[6] != h0:
        raise Violation("%s: after the injected faults the same computation no longer gives the same result" % what)
    env.label("fault_points_enumerated", len(points))
    env.label("fault_points_total", n)
    env.label("fault:error-reported", reported)
    env.label("fault:tolerated-same-result", silent_ok)
    return True, ["workload:%d/%d" % (g, w), "fault:%s" % ("exhaustive" if n <= cap else "sampled")]


def self_test():
    rec.self_test()


def _cfgs():
    return {"quick": ["base256", "w8"], "thorough": ["base256", "w8", "magni-carry", "magni-single", "p255", "p381"]}


TARGETS = [
    Target("bn-capacity", strat_cap, run_cap, _cfgs(), quick=30000, thorough=200000),
    Target("buffers", strat_buf, run_buf, _cfgs(), quick=30000, thorough=200000),
    Target("counts", strat_cnt, run_cnt, _cfgs(), quick=5000, thorough=30000),
    Target("selectors", strat_sel, run_sel, _cfgs(), quick=6000, thorough=30000),
    Target("long-operands", strat_long, run_long, _cfgs(), quick=8000, thorough=60000),
    Target("alloc-faults", strat_fault, run_fault, {"quick": ["dyn"], "thorough": ["dyn"]}, quick=64, thorough=400,
           job_size={"quick": 4, "thorough": 12}),
]



# ------------------------------------------------------------------ part 1 made explicit: scratch arrays of the curve layers
# The scalar multiplications, fixed-base tables and simultaneous multiplications of the prime, extension-field and binary
# curves and of the pairing groups hold their recodings and tables in stack arrays sized from the field bits and window
# widths ("scalars that reduce to zero or have zero digits inside recodings", "counts n >= 0"). Their generators and
# runners live with the value oracles (C03 / C11 / C16 / C12 / C17); here the SAME cases are run for the memory clause
# alone: a sanitizer report, a crash or a broken handler chain is a C08 violation, a wrong value is not (it belongs to the
# other property and is dropped here), so that this check decides C08 for those call sites by itself.

def _mem_only(run):
    def f(env, cfg, case):
        try:
            return run(env, cfg, case)
        except Violation as v:
            if v.details.get("crash") or v.details.get("ub"):
                raise
            return False
    return f


def _piggy():
    import importlib
    out = []
    plan = [("c03", {"ep-mul": 3000, "ep-fix": 1500, "ep-sim": 2000}, ["base256"]),
            ("c11", {"ep2-mul": 1500, "ep2-fix": 900, "ep2-sim": 1200}, ["base256"]),
            ("c16", {"eb-mul": 1600, "eb-fix": 800, "eb-sim": 1000}, ["base256"]),
            ("c12", {"mul-g1": 600, "mul-g2": 400, "exp-gt": 300}, ["base256"]),
            ("c17", {"ed-mul": 1500, "ed-fix": 800, "ed-sim": 800}, ["p255"]),
            # protocol-level writers into caller buffers (exact-size heap buffers, capacity mutations)
            ("c05", {"rsa": 1500, "ecdsa": 600}, ["base256"]),
            ("c06", {"rsa_rt": 800, "ecies": 600, "rsa_alllen": 40}, ["base256"])]
    for modname, names, cfgs in plan:
        m = importlib.import_module("props." + modname)
        seen = set()
        for t in m.TARGETS:
            if t.name in names and t.name not in seen and set(cfgs) <= set(t.cfgs["quick"]):
                seen.add(t.name)
                q = names[t.name]
                out.append(Target("mem:" + t.name, t.strategy, _mem_only(t.run), {"quick": cfgs, "thorough": cfgs},
                                  quick=q, thorough=q * 5, needs=t.needs, job_size={"quick": 500, "thorough": 1500}))
    return out


TARGETS += _piggy()

KNOWN_PREDICATES = {}

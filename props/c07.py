"""C07 — decoding validates untrusted bytes; encoding is canonical and round-trips (DESIGN §2 C07).

Two directions for every codec: (1) objects from generators are written into exact-size buffers of several lengths
and compared with the REFERENCE encoding (engine.ref.codec), then read back; (2) structured mutations of valid
encodings and raw random strings are decoded: the reference decoder decides accept / reject, the library must
reject whenever the reference does, and whatever the library accepts must be a valid object (read back raw, judged
by reference arithmetic) whose re-encoding reproduces the input. (3) text form in every radix 2..64."""
import struct

from hypothesis import strategies as st

from engine import ecctx, pcctx
from engine.core import Target, Violation, Unsupported
from engine.gen import ints
from engine.proto import Prog, ERR, ERR_NAME
from engine.ref import codec as rc
from engine.ref import ec as rec
from engine.ref import ext as rext
from engine.ref import fp as rfp

PROPERTY = "C07"
RULE = ("encode direction: generated objects (integers incl. 0 / 2^k / 2^k-1 / maximal, residues, curve points incl. the "
        "identity as REFERENCE multiples of the generator and reference-lifted points outside the subgroup, twist points "
        "incl. y with zero imaginary part, norm-1 Fp2 / cyclotomic Fp12 / GT elements) written into exact-size buffers of "
        "length size-1, size, size+1, size+7 and 0: bytes == reference encoding, size_bin == advertised length, "
        "read(write(x)) == x read back RAW. decode direction: structured mutations of valid encodings (every tag byte, "
        "length +-k, coordinate := p, p+1, 2^(8L)-1, v+p, y negated, y of another point, x without a point, trailing "
        "garbage, bit flips) and raw strings of every length 0..2L+3: library must reject whenever the reference decoder "
        "rejects; accepted => object valid by reference arithmetic and write(read(b)) == b. text: radix 2..64, values 0, "
        "+-1, +-radix^k, +-(radix^k-1), random; positional notation over the library's published alphabet; size_str; "
        "prefix semantics of read_str; invalid radix. non-trivial: a decode case whose bytes are not a valid encoding, an "
        "encode case with a non-exact buffer or packed form, a text case with radix not in {10,16}. "
        "distinct = distinct (target, cfg, case) hashes")
ASSUMPTIONS = ["decoders are called inside a protected block (the style of every caller in src/cp); the unprotected style is C08",
               "an error whose code was lost in a nested RLC_CATCH_ANY (e == 0) counts as a rejection; a specific code, when "
               "visible, must be the documented one",
               "bn_write_bin / bn_write_raw are documented for positive integers: only non-negative values are written",
               "strings handed to *_read_str are NUL-terminated C strings; len may be smaller or larger than strlen",
               "longer-than-needed buffers: writers documented as 'capacity' (bn, points, packed fp2) must succeed and put "
               "the canonical encoding first (bn: left padded); writers documented as 'exactly n bytes' (fp, fb, fpN) must "
               "refuse",
               "fp_read_str / fp_write_str are used with every radix 2..64 although the header says 'power of 2': they "
               "delegate to bn and a failure for another radix is reported as a label only"]
BUDGET_S = {"quick": 240, "thorough": 1700}
JOB_SIZE = {"quick": 700, "thorough": 2500}

NOBUF, NOVALID = ERR["ERR_NO_BUFFER"], ERR["ERR_NO_VALID"]
DELTAS = [-1, 0, 0, 1, 7, None]          # None: zero-length buffer


# ------------------------------------------------------------------------------------------ common helpers

def chk_ub(c, what):
    if c.unsupported:
        raise Unsupported()
    if c.ub:
        raise Violation("undefined behaviour reported in %s: %s" % (what, c.ub), ub=c.ub)


def chk_ok(c, what):
    chk_ub(c, what)
    if c.errored:
        raise Violation("%s reported an error (caught=%d e=%s code=%d) for a valid input" % (
            what, c.caught, ERR_NAME.get(c.e, c.e), c.code), kind="error-on-valid")


def chk_rejected(c, what, codes, why):
    """the call must have failed observably; a visible code must be one of the documented ones"""
    chk_ub(c, what)
    if not c.errored:
        raise Violation("%s accepted an input it must reject (%s)" % (what, why), kind="accepted-invalid", why=why)
    if c.e not in (0, ERR["ERR_CAUGHT"]) and c.e not in codes:
        raise Violation("%s rejected (%s) with %s instead of %s" % (
            what, why, ERR_NAME.get(c.e, c.e), "/".join(ERR_NAME[x] for x in codes)), kind="wrong-error-code", why=why)


def blen(size, delta):
    return 0 if delta is None else max(0, size + delta)


def probe(r, p, tries=3):
    """run a discovery program; a time-out (load noise) is retried in a fresh runner before it is allowed to surface"""
    from engine.proto import RunnerCrash
    for i in range(tries):
        try:
            return r.run(p, timeout=120.0)
        except RunnerCrash as rc:
            if rc.why != "timeout" or i == tries - 1:
                raise


def run_prog(env, cfg, p):
    res = env.runner(cfg).run(p)
    if res.failed_new:
        raise Unsupported()
    return res


def bytes_near(L, maxlen):
    """lengths 0..maxlen with weight on the interesting ones"""
    c = sorted({x for x in (0, 1, 2, L - 1, L, L + 1, 2 * L - 1, 2 * L, 2 * L + 1, 2 * L + 2, 2 * L + 3) if 0 <= x <= maxlen})
    return st.one_of(st.sampled_from(c), st.integers(0, maxlen))


@st.composite
def raw_string(draw, L, maxlen, tags=(0, 2, 3, 4)):
    """raw random strings of every length 0..maxlen; half of them start with a plausible tag"""
    n = draw(bytes_near(L, maxlen))
    b = bytearray(draw(st.binary(min_size=n, max_size=n)))
    k = draw(st.integers(0, 3))
    if n and k == 0:
        b[0] = draw(st.sampled_from(list(tags)))
    elif n and k == 1:
        b = bytearray(n)
        b[0] = draw(st.sampled_from(list(tags)))
        if n > 1 and draw(st.booleans()):
            b[-1] = draw(st.integers(0, 255))
    return bytes(b)


def coord_mutants(v, p, L):
    """values a decoder must range-check: p, p+1, 2^(8L)-1, v+p (when it fits) ..."""
    top = (1 << (8 * L)) - 1
    out = [p, p + 1, top, top - 1]
    if v + p <= top:
        out.append(v + p)
    if 2 * p <= top:
        out.append(2 * p)
    return [x for x in out if p <= x <= top]


# ------------------------------------------------------------------------------------------ bn: binary / raw

_BN = {}


def bn_info(env, cfg):
    if cfg not in _BN:
        r = env.runner(cfg).info("info_bn")
        p = Prog()
        p.call("c07_conv_chars")
        res = env.runner(cfg).run(p)
        if res.calls[0].unsupported:
            raise Unsupported()
        alpha = res.calls[0].blobs[0].decode("latin-1")
        if len(alpha) != 64 or len(set(alpha)) != 64 or "-" in alpha or "\0" in alpha:
            raise Violation("util_conv_char does not publish 64 distinct symbols", alphabet=alpha)
        _BN[cfg] = dict(W=r[0], BITS=r[1], DIGS=r[2], SIZE=r[3], alpha=alpha)
    return _BN[cfg]


def bn_value(W, maxd):
    top = 1 << (W * maxd)

    @st.composite
    def s(draw):
        k = draw(st.integers(0, 5))
        if k == 0:
            return draw(st.sampled_from([0, 1, 2, 0x7F, 0x80, 0xFF, 0x100, 0xFFFF, 0x10000, top - 1, top >> 1, (top >> 1) - 1,
                                         (top >> 8) - 1, top >> 8, (top >> W) - 1, top >> W]))
        if k == 1:
            e = draw(st.integers(0, W * maxd - 1))
            return max(0, (1 << e) - draw(st.sampled_from([0, 1])))
        if k == 2:
            nb = draw(st.integers(0, W * maxd // 8))
            return draw(ints.uniform(0, (1 << (8 * nb)) - 1)) if nb else 0
        return draw(ints.magnitude(W, maxd))
    return s()


def strat_bn_bin(env, cfg):
    I = bn_info(env, cfg)
    W, SIZE = I["W"], I["SIZE"]
    cap = SIZE * W // 8

    @st.composite
    def s(draw):
        mode = draw(st.sampled_from(["enc", "enc", "dec", "dec", "raw-enc", "raw-dec"]))
        c = dict(mode=mode, poison=draw(st.integers(0, 255)), stale=draw(ints.g_int(W, SIZE)))
        if mode in ("enc", "raw-enc"):
            c["v"] = draw(bn_value(W, SIZE))
            c["delta"] = draw(st.sampled_from(DELTAS + [W // 8, 2 * W // 8 + 1]))
        elif mode == "dec":
            k = draw(st.integers(0, 3))
            if k == 0:
                body = draw(bn_value(W, SIZE))
                nz = draw(st.integers(0, 9))
                b = bytes(nz) + body.to_bytes((body.bit_length() + 7) // 8, "big")
                c["data"] = b[-cap:] if len(b) > cap else b
            else:
                n = draw(st.one_of(st.sampled_from(sorted({0, 1, W // 8 - 1 if W > 8 else 1, W // 8, W // 8 + 1, cap - 1, cap})),
                                   st.integers(0, cap)))
                c["data"] = draw(st.binary(min_size=n, max_size=n))
        else:
            k = draw(st.one_of(st.sampled_from([0, 1, 2, SIZE - 1, SIZE]), st.integers(0, SIZE)))
            ds = [draw(st.one_of(st.sampled_from([0, 0, (1 << W) - 1, 1]), ints.digit(W))) for _ in range(k)]
            c["digits"] = ds
        return c
    return s()


def _chk_bn(raw, want, what):
    nf = raw.normal_form_error()
    if nf:
        raise Violation("%s: result not normalised: %s" % (what, nf), raw=repr(raw))
    if raw.value != want:
        raise Violation("%s: wrong value" % what, got=raw.value, want=want)


def run_bn_bin(env, cfg, case):
    I = bn_info(env, cfg)
    W, SIZE = I["W"], I["SIZE"]
    mode = case["mode"]
    pz = case["poison"]
    fill = bytes([pz ^ 0x3C])
    if mode == "enc":
        v = case["v"]
        size = rc.int_size_bin(v)
        n = blen(size, case["delta"])
        p = Prog(poison=pz)
        sa = p.bn(v)
        p.call("bn_size_bin", sa)
        buf = p.buf(fill * n)
        p.call("bn_write_bin", buf, sa)
        p.dump(buf)
        sb = p.bn(case["stale"])
        p.call("bn_read_bin", sb, buf)
        p.dump(sb)
        res = run_prog(env, cfg, p)
        c0, c1, c2 = res.calls
        chk_ok(c0, "bn_size_bin")
        if c0.rets[0] != size:
            raise Violation("bn_size_bin wrong", got=c0.rets[0], want=size, v=v)
        if n < size:
            chk_rejected(c1, "bn_write_bin(len=%d < size=%d)" % (n, size), [NOBUF], "buffer too short")
            return True, ["bn-bin:enc:short"]
        chk_ok(c1, "bn_write_bin")
        want = rc.int_enc(v, n)
        if res.dumps[buf] != want:
            raise Violation("bn_write_bin: bytes differ from the big-endian left-padded encoding", got=res.dumps[buf], want=want)
        if sa in c1.changed:
            raise Violation("bn_write_bin modified its input")
        if (n * 8 + W - 1) // W <= SIZE:        # a buffer longer than the capacity is C08's business
            chk_ok(c2, "bn_read_bin")
            _chk_bn(res.dumps[sb], v, "bn_read_bin(bn_write_bin(v))")
        return n != size, ["bn-bin:enc:%s" % ("exact" if n == size else "longer"), "bn-bin:v=%s" % ("0" if v == 0 else "max" if v == (1 << (W * SIZE)) - 1 else "other")]
    if mode == "dec":
        data = case["data"]
        p = Prog(poison=pz)
        buf = p.buf(data)
        sb = p.bn(case["stale"])
        p.call("bn_read_bin", sb, buf)
        p.dump(sb)
        p.call("bn_size_bin", sb)
        out = p.buf(fill * len(data))
        p.call("bn_write_bin", out, sb)
        p.dump(out)
        res = run_prog(env, cfg, p)
        c0, c1, c2 = res.calls
        chk_ok(c0, "bn_read_bin(len=%d)" % len(data))
        want = rc.int_dec(data)
        _chk_bn(res.dumps[sb], want, "bn_read_bin")
        if buf in c0.changed:
            raise Violation("bn_read_bin modified its input")
        chk_ok(c1, "bn_size_bin")
        if c1.rets[0] != len(data.lstrip(b"\0")):
            raise Violation("bn_size_bin after bn_read_bin wrong", got=c1.rets[0], want=len(data.lstrip(b"\0")))
        chk_ok(c2, "bn_write_bin")
        if res.dumps[out] != data:
            raise Violation("bn_write_bin(bn_read_bin(b)) != b at the same length", got=res.dumps[out], want=data)
        return True, ["bn-bin:dec", "bn-bin:dec:len=%s" % ("0" if not data else "cap" if len(data) == SIZE * W // 8 else "mid"),
                      "bn-bin:dec:%s" % ("leading-zeros" if data[:1] == b"\0" else "plain")]
    db = W // 8
    if mode == "raw-enc":
        v = case["v"]
        size = max(1, ints.ndigits(v, W))
        n = blen(size, case["delta"])
        p = Prog(poison=pz)
        sa = p.bn(v)
        p.call("bn_size_raw", sa)
        buf = p.buf(fill * (n * db))
        p.call("bn_write_raw", buf, sa)
        p.dump(buf)
        sb = p.bn(case["stale"])
        p.call("bn_read_raw", sb, buf)
        p.dump(sb)
        res = run_prog(env, cfg, p)
        c0, c1, c2 = res.calls
        chk_ok(c0, "bn_size_raw")
        if c0.rets[0] != size:
            raise Violation("bn_size_raw wrong", got=c0.rets[0], want=size, v=v)
        if n < size:
            chk_rejected(c1, "bn_write_raw(len=%d < size=%d)" % (n, size), [NOBUF], "buffer too short")
            return True, ["bn-raw:enc:short"]
        chk_ok(c1, "bn_write_raw")
        want = v.to_bytes(n * db, "little")
        if res.dumps[buf] != want:
            raise Violation("bn_write_raw: digit vector differs (little-endian digits, zero padded)", got=res.dumps[buf], want=want)
        if n <= SIZE:
            chk_ok(c2, "bn_read_raw")
            _chk_bn(res.dumps[sb], v, "bn_read_raw(bn_write_raw(v))")
        return n != size, ["bn-raw:enc:%s" % ("exact" if n == size else "longer")]
    ds = case["digits"]
    data = b"".join(d.to_bytes(db, "little") for d in ds)
    want = int.from_bytes(data, "little")
    p = Prog(poison=pz)
    buf = p.buf(data)
    sb = p.bn(case["stale"])
    p.call("bn_read_raw", sb, buf)
    p.dump(sb)
    out = p.buf(fill * len(data))
    p.call("bn_write_raw", out, sb)
    p.dump(out)
    res = run_prog(env, cfg, p)
    c0, c1 = res.calls
    chk_ok(c0, "bn_read_raw(len=%d)" % len(ds))
    _chk_bn(res.dumps[sb], want, "bn_read_raw")
    if len(ds) >= 1:
        chk_ok(c1, "bn_write_raw")
        if res.dumps[out] != data:
            raise Violation("bn_write_raw(bn_read_raw(d)) != d at the same length", got=res.dumps[out], want=data)
    return True, ["bn-raw:dec", "bn-raw:dec:%s" % ("empty" if not ds else "top-zero" if ds[-1] == 0 else "plain")]


# ------------------------------------------------------------------------------------------ text (bn, fp)

def text_value(radix, maxbits):
    @st.composite
    def s(draw):
        k = draw(st.integers(0, 5))
        if k == 0:
            v = draw(st.sampled_from([0, 1, radix - 1, radix, radix + 1, radix * radix, radix * radix - 1]))
        elif k <= 2:
            kmax = max(1, int(maxbits / (radix.bit_length())) - 1)
            e = draw(st.integers(1, kmax))
            v = radix ** e - draw(st.sampled_from([0, 1]))
        elif k == 3:
            v = (1 << draw(st.integers(0, maxbits - 1))) - draw(st.sampled_from([0, 1]))
        else:
            nb = draw(st.integers(1, maxbits))
            v = draw(ints.uniform(0, (1 << nb) - 1))
        if v >> maxbits:
            v &= (1 << maxbits) - 1
        return v
    return s()


def radix_strategy():
    return st.one_of(st.integers(2, 64), st.sampled_from([2, 3, 10, 16, 35, 36, 37, 62, 63, 64]))


def mixed_case(draw, text, radix):
    """lower-case some letters where the radix permits (radix < 36: letters are case-insensitive)"""
    if radix >= 36:
        return text, False
    out, changed = [], False
    for ch in text:
        if "A" <= ch <= "Z" and draw(st.booleans()):
            out.append(ch.lower())
            changed = True
        else:
            out.append(ch)
    return "".join(out), changed


def strat_bn_str(env, cfg):
    I = bn_info(env, cfg)
    W, DIGS = I["W"], I["DIGS"]
    maxbits = W * DIGS

    @st.composite
    def s(draw):
        mode = draw(st.sampled_from(["write", "write", "read", "read", "prefix", "prefix", "bad-radix"]))
        c = dict(mode=mode, poison=draw(st.integers(0, 255)), stale=draw(ints.g_int(W, DIGS)))
        if mode == "bad-radix":
            c["radix"] = draw(st.sampled_from([0, 1, 65, 66, 100, 128, 255, 256, 1 << 16, (1 << 32) - 1]))
            c["v"] = draw(text_value(10, maxbits)) * draw(st.sampled_from([1, -1]))
            c["fn"] = draw(st.sampled_from(["bn_size_str", "bn_write_str", "bn_read_str"]))
            return c
        radix = draw(radix_strategy())
        c["radix"] = radix
        v = draw(text_value(radix, maxbits))
        if v and draw(st.booleans()):
            v = -v
        c["v"] = v
        if mode == "write":
            c["delta"] = draw(st.sampled_from(DELTAS))
        elif mode == "read":
            text = rc.to_radix(v, radix, I["alpha"])
            text, _ = mixed_case(draw, text, radix)
            c["text"] = text
            # len argument relative to strlen: exact, longer (NUL stops), shorter (truncates)
            c["lenarg"] = draw(st.sampled_from(["strlen", "strlen", "strlen+1", "strlen+9", "strlen-1", "half"]))
            c["tail"] = draw(st.binary(max_size=6))
        else:
            # a string with characters outside the radix at generated positions
            alpha = I["alpha"]
            n = draw(st.integers(0, 24))
            pool = list(alpha) + list(alpha.lower()) + [" ", "-", "+", "_", "\t", "g", "G", "z", "Z", ".", ":", "@", "\x7f", "\xff"]
            valid = alpha[:radix]
            chars = [draw(st.sampled_from(valid)) if draw(st.integers(0, 5)) else draw(st.sampled_from(pool)) for _ in range(n)]
            if draw(st.integers(0, 3)) == 0:
                chars.insert(0, "-")
            c["text"] = "".join(chars)
            c["lenarg"] = draw(st.sampled_from(["strlen", "strlen", "strlen+1", "strlen+9"]))
            c["tail"] = draw(st.binary(max_size=4))
        return c
    return s()


def _lenarg(kind, n):
    return {"strlen": n, "strlen+1": n + 1, "strlen+9": n + 9, "strlen-1": max(0, n - 1), "half": n // 2}[kind]


def run_bn_str(env, cfg, case):
    I = bn_info(env, cfg)
    alpha = I["alpha"]
    mode, radix, pz = case["mode"], case["radix"], case["poison"]
    fill = bytes([(pz ^ 0x3C) | 1])
    maxbits = I["W"] * I["DIGS"]
    if mode == "bad-radix":
        fn = case["fn"]
        p = Prog(poison=pz)
        sa = p.bn(case["v"])
        if fn == "bn_size_str":
            p.call(fn, sa, radix)
        elif fn == "bn_write_str":
            buf = p.buf(fill * 1100)
            p.call(fn, buf, sa, radix)
        else:
            buf = p.buf(b"101\0")
            p.call(fn, sa, buf, radix, 4)
        res = run_prog(env, cfg, p)
        chk_rejected(res.calls[0], "%s(radix=%d)" % (fn, radix), [NOVALID], "radix outside 2..64")
        return True, ["bn-str:bad-radix:" + fn]
    v = case["v"]
    if mode == "write":
        text = rc.to_radix(v, radix, alpha)
        need = len(text) + 1
        p = Prog(poison=pz)
        sa = p.bn(v)
        p.call("bn_size_str", sa, radix)
        res = run_prog(env, cfg, p)
        c0 = res.calls[0]
        chk_ok(c0, "bn_size_str(radix=%d)" % radix)
        size = c0.rets[0]
        if size < need:
            raise Violation("bn_size_str smaller than digits + sign + NUL", got=size, want=need, v=v, radix=radix)
        if size > need + 64:
            raise Violation("bn_size_str absurdly large", got=size, want=need, v=v, radix=radix)
        n = blen(size, case["delta"])
        p = Prog(poison=pz)
        sa = p.bn(v)
        buf = p.buf(fill * n)
        p.call("bn_write_str", buf, sa, radix)
        p.dump(buf)
        sb = p.bn(case["stale"])
        p.call("bn_read_str", sb, buf, radix, need)
        p.dump(sb)
        res = run_prog(env, cfg, p)
        c1, c2 = res.calls
        lab = ["bn-str:radix=%s" % ("pow2" if radix & (radix - 1) == 0 else "10" if radix == 10 else "<36" if radix < 36 else ">=36"),
               "bn-str:size=%s" % ("exact" if size == need else "over")]
        if n < size:
            if n >= need and not c1.errored:
                # size_str over-estimates and the text fits: not required to fail
                pass
            else:
                chk_rejected(c1, "bn_write_str(len=%d < size_str=%d)" % (n, size), [NOBUF], "buffer too short")
                return True, lab + ["bn-str:write:short"]
        chk_ok(c1, "bn_write_str(radix=%d)" % radix)
        got = res.dumps[buf]
        if got[:need] != text.encode("latin-1") + b"\0":
            raise Violation("bn_write_str: not the positional notation of the value", got=got[:need + 2], want=text, v=v, radix=radix)
        if sa in c1.changed:
            raise Violation("bn_write_str modified its input")
        chk_ok(c2, "bn_read_str")
        _chk_bn(res.dumps[sb], v, "bn_read_str(bn_write_str(v), radix=%d)" % radix)
        lab.append("bn-str:write:%s" % ("exact" if n == size else "longer"))
        if v < 0:
            lab.append("bn-str:negative")
        return radix not in (10, 16), lab
    text = case["text"]
    la = _lenarg(case["lenarg"], len(text))
    data = text.encode("latin-1") + b"\0" + case["tail"]
    if la > len(data):
        data = data + bytes(la - len(data))
    seen = text[:la]
    want, used = rc.from_radix_prefix(seen, radix, alpha)
    if abs(want).bit_length() > maxbits or (la * radix.bit_length() + I["W"] - 1) // I["W"] > I["SIZE"]:
        raise Unsupported()                  # bn_read_str sizes its result from len: capacity is C08's business
    p = Prog(poison=pz)
    buf = p.buf(data)
    sb = p.bn(case["stale"])
    p.call("bn_read_str", sb, buf, radix, la + 1)
    p.dump(sb)
    res = run_prog(env, cfg, p)
    c0 = res.calls[0]
    what = "bn_read_str(%r, len=%d, radix=%d)" % (text, la, radix)
    if la == 0 and c0.errored and not c0.ub:
        # the empty string: refusing it is "rejecting more", not a violation (the library reports ERR_NO_PRECI here)
        return True, ["bn-str:%s" % mode, "bn-str:empty-string-rejected"]
    chk_ok(c0, what)
    _chk_bn(res.dumps[sb], want, what)
    if buf in c0.changed:
        raise Violation("bn_read_str modified its input")
    lab = ["bn-str:%s" % mode, "bn-str:len=%s" % case["lenarg"]]
    if mode == "prefix":
        lab.append("bn-str:prefix:%s" % ("all-valid" if used == len(seen) else "empty" if used <= (1 if seen[:1] == "-" else 0) else "stops-inside"))
        if seen[:1] == "-" and want == 0:
            lab.append("bn-str:minus-zero")
    elif text != text.upper():
        lab.append("bn-str:lower-case")
    return radix not in (10, 16), lab


# ------------------------------------------------------------------------------------------ fp: binary and text

from props import c02 as _c02      # field discovery / selection / residue generator (existing machinery)

_FPL = {}


def fp_len(env, cfg):
    if cfg not in _FPL:
        r = env.runner(cfg).info("c07_fp_info")
        _FPL[cfg] = r[0]
    return _FPL[cfg]


def fp_run(env, cfg, fid, p, skip):
    try:
        res = env.runner(cfg).run(p)
    except Exception:
        _c02.fields(env, cfg)["cur"] = None
        raise
    if res.failed_new:
        raise Unsupported()
    res.calls = res.calls[skip:]
    return res


def fp_bytes_mutation(F, L):
    """(data, label): structured mutations of a valid field-element encoding and raw strings"""
    p = F.p

    @st.composite
    def s(draw):
        k = draw(st.integers(0, 7))
        v = draw(_c02.residue(F)) % p
        if k == 0:
            return rc.fp_enc(v, p, L), "valid"
        if k <= 2:
            m = draw(st.sampled_from(coord_mutants(v, p, L)))
            return m.to_bytes(L, "big"), "range"
        if k == 3:
            top = (1 << (8 * L)) - 1
            m = draw(ints.uniform(p, top)) if top >= p else p
            return m.to_bytes(L, "big"), "range-random"
        if k == 4:
            d = draw(st.sampled_from([-L, -2, -1, 1, 2, 7, L]))
            b = rc.fp_enc(v, p, L)
            if d < 0:
                b = b[-d:] if draw(st.booleans()) else b[:d]
            else:
                g = draw(st.binary(min_size=d, max_size=d))
                b = b + g if draw(st.booleans()) else g + b
            return b, "length"
        if k == 5:
            b = bytearray(rc.fp_enc(v, p, L))
            i = draw(st.integers(0, 8 * L - 1))
            b[i // 8] ^= 1 << (i % 8)
            return bytes(b), "bitflip"
        n = draw(bytes_near(L, 2 * L + 3))
        return draw(st.binary(min_size=n, max_size=n)), "raw"
    return s()


def strat_fp(env, cfg):
    ctx = _c02.fields(env, cfg)
    L = fp_len(env, cfg)

    fids = [f for f, _ in ctx["fields"]]
    if not fids:
        raise Unsupported()
    job_fid = fids[env.job_seed % len(fids)]        # one field per job: fp_param_set costs ~6 ms

    @st.composite
    def s(draw):
        fid = job_fid
        F = _c02.field_of(env, cfg, fid)
        mode = draw(st.sampled_from(["enc", "enc", "dec", "dec", "dec", "str-write", "str-read", "str-bad-radix"]))
        c = dict(fid=fid, mode=mode, poison=draw(st.integers(0, 255)), stale=draw(_c02.residue(F)) % F.p)
        if mode == "enc":
            c["a"] = draw(_c02.residue(F)) % F.p
            c["delta"] = draw(st.sampled_from(DELTAS + [0, L, -L + 1]))
        elif mode == "dec":
            c["data"], c["mut"] = draw(fp_bytes_mutation(F, L))
        elif mode == "str-bad-radix":
            c["a"] = draw(_c02.residue(F)) % F.p
            c["radix"] = draw(st.sampled_from([0, 1, 65, 100, 256, (1 << 32) - 1]))
            c["fn"] = draw(st.sampled_from(["fp_size_str", "fp_write_str", "fp_read_str"]))
        else:
            radix = draw(st.one_of(st.sampled_from([2, 4, 8, 16, 32, 64]), radix_strategy()))
            c["radix"] = radix
            k = draw(st.integers(0, 3))
            a = draw(_c02.residue(F)) % F.p if k else draw(text_value(radix, F.p.bit_length())) % F.p
            c["a"] = a
            if mode == "str-write":
                c["delta"] = draw(st.sampled_from(DELTAS))
            else:
                # also values outside [0, p): negative and >= p (reduced on input)
                kind = draw(st.sampled_from(["in", "in", "neg", "ge-p"]))
                n = a if kind == "in" else (-a if kind == "neg" else a + F.p * draw(st.integers(1, 3)))
                text = rc.to_radix(n, radix, bn_info(env, cfg)["alpha"])
                c["text"], _ = mixed_case(draw, text, radix)
                c["n"] = n
        return c
    return s()


def run_fp(env, cfg, case):
    F = _c02.field_of(env, cfg, case["fid"])
    L = fp_len(env, cfg)
    P = F.p
    mode, pz = case["mode"], case["poison"]
    fill = bytes([(pz ^ 0x3C) | 1])
    lab = ["fp:%s" % mode, "fp:fid=%d" % case["fid"]]
    p = Prog(poison=pz)
    skip = _c02.select(env, cfg, p, case["fid"])
    if mode == "enc":
        a = case["a"]
        n = blen(L, case["delta"])
        sa = p.new("FP", F.enc(a))
        buf = p.buf(fill * n)
        p.call("fp_write_bin", buf, sa)
        p.dump(buf)
        sb = p.new("FP", F.enc(case["stale"]))
        p.call("fp_read_bin", sb, buf)
        p.dump(sb)
        res = fp_run(env, cfg, case["fid"], p, skip)
        c0, c1 = res.calls
        if n != L:
            chk_rejected(c0, "fp_write_bin(len=%d != %d)" % (n, L), [NOBUF], "length is not RLC_FP_BYTES")
            return True, lab + ["fp:enc:%s" % ("short" if n < L else "longer")]
        chk_ok(c0, "fp_write_bin")
        want = rc.fp_enc(a, P, L)
        if res.dumps[buf] != want:
            raise Violation("fp_write_bin: bytes differ from the big-endian encoding of the value", got=res.dumps[buf], want=want)
        if sa in c0.changed:
            raise Violation("fp_write_bin modified its input")
        chk_ok(c1, "fp_read_bin")
        _c02.chk_elem(F, res.dumps[sb], a, "fp_read_bin(fp_write_bin(a))")
        return a > 1, lab + ["fp:enc:exact"]
    if mode == "dec":
        data = case["data"]
        ok, v = rc.fp_dec(data, P, L)
        buf = p.buf(data)
        sb = p.new("FP", F.enc(case["stale"]))
        p.call("fp_read_bin", sb, buf)
        p.dump(sb)
        out = p.buf(fill * len(data))
        p.call("fp_write_bin", out, sb)
        p.dump(out)
        res = fp_run(env, cfg, case["fid"], p, skip)
        c0, c1 = res.calls
        what = "fp_read_bin(%s, len=%d)" % (case["mut"], len(data))
        lab += ["fp:dec:%s" % case["mut"], "fp:dec:ref-%s" % ("accepts" if ok else "rejects:" + v)]
        if not ok:
            chk_rejected(c0, what, [NOBUF, NOVALID], "reference: " + v)
            return True, lab
        chk_ub(c0, what)
        if c0.errored:
            return False, lab + ["fp:dec:library-stricter"]
        _c02.chk_elem(F, res.dumps[sb], v, what)
        chk_ok(c1, "fp_write_bin")
        if res.dumps[out] != data:
            raise Violation("fp_write_bin(fp_read_bin(b)) != b", got=res.dumps[out], want=data)
        return False, lab
    alpha = bn_info(env, cfg)["alpha"]
    radix = case["radix"]
    if mode == "str-bad-radix":
        fn = case["fn"]
        sa = p.new("FP", F.enc(case["a"]))
        if fn == "fp_size_str":
            p.call(fn, sa, radix)
        elif fn == "fp_write_str":
            buf = p.buf(fill * 600)
            p.call(fn, buf, sa, radix)
        else:
            buf = p.buf(b"101\0")
            p.call(fn, sa, buf, radix, 4)
        res = fp_run(env, cfg, case["fid"], p, skip)
        chk_rejected(res.calls[0], "%s(radix=%d)" % (fn, radix), [NOVALID], "radix outside 2..64")
        return True, lab + ["fp:bad-radix:" + fn]
    pow2 = radix & (radix - 1) == 0
    lab.append("fp:radix=%s" % ("pow2" if pow2 else "other"))
    if mode == "str-write":
        a = case["a"]
        text = rc.to_radix(a, radix, alpha)
        need = len(text) + 1
        sa = p.new("FP", F.enc(a))
        p.call("fp_size_str", sa, radix)
        res = fp_run(env, cfg, case["fid"], p, skip)
        c0 = res.calls[0]
        chk_ok(c0, "fp_size_str(radix=%d)" % radix)
        size = c0.rets[0]
        if size < need or size > need + 64:
            raise Violation("fp_size_str is not digits + NUL", got=size, want=need, a=a, radix=radix)
        n = blen(size, case["delta"])
        p = Prog(poison=pz)
        skip = _c02.select(env, cfg, p, case["fid"])
        sa = p.new("FP", F.enc(a))
        buf = p.buf(fill * n)
        p.call("fp_write_str", buf, sa, radix)
        p.dump(buf)
        sb = p.new("FP", F.enc(case["stale"]))
        p.call("fp_read_str", sb, buf, radix, need)
        p.dump(sb)
        res = fp_run(env, cfg, case["fid"], p, skip)
        c1, c2 = res.calls
        if n < size and not (n >= need and not c1.errored):
            chk_rejected(c1, "fp_write_str(len=%d < size_str=%d)" % (n, size), [NOBUF], "buffer too short")
            return True, lab + ["fp:str-write:short"]
        chk_ok(c1, "fp_write_str(radix=%d)" % radix)
        got = res.dumps[buf]
        if got[:need] != text.encode("latin-1") + b"\0":
            raise Violation("fp_write_str: not the positional notation of the value", got=got[:need + 2], want=text, a=a, radix=radix)
        chk_ok(c2, "fp_read_str")
        _c02.chk_elem(F, res.dumps[sb], a, "fp_read_str(fp_write_str(a), radix=%d)" % radix)
        return radix not in (10, 16), lab + ["fp:size=%s" % ("exact" if size == need else "over")]
    text, n = case["text"], case["n"]
    data = text.encode("latin-1") + b"\0"
    buf = p.buf(data)
    sb = p.new("FP", F.enc(case["stale"]))
    p.call("fp_read_str", sb, buf, radix, len(text) + 1)
    p.dump(sb)
    res = fp_run(env, cfg, case["fid"], p, skip)
    c0 = res.calls[0]
    what = "fp_read_str(radix=%d)" % radix
    kind = "in-range" if 0 <= n < P else ("negative" if n < 0 else "ge-p")
    lab.append("fp:str-read:" + kind)
    chk_ub(c0, what)
    if c0.errored:
        if kind == "in-range":
            chk_ok(c0, what)
        return True, lab + ["fp:str-read:rejected-out-of-range"]
    # whatever is accepted must be a canonical element with the value of the text modulo p
    _c02.chk_elem(F, res.dumps[sb], n % P, what + " of " + kind)
    return radix not in (10, 16), lab + (["fp:str-read:lower-case"] if text != text.upper() else [])



# ------------------------------------------------------------------------------------------ points: common

def point_mutation(L, xl, p, deg):
    """Description of one structured mutation of a valid point encoding (realised in run, where the point is known)."""
    @st.composite
    def s(draw):
        kind = draw(st.sampled_from(["valid", "tag", "tag", "len", "len", "xrange", "yrange", "yneg", "yother", "xnopoint",
                                     "bitflip", "zeros", "raw", "raw", "raw"]))
        m = dict(kind=kind)
        if kind == "tag":
            m["tag"] = draw(st.one_of(st.integers(0, 255), st.sampled_from([0, 1, 2, 3, 4, 5, 6, 7, 0x82, 0x83, 0x84, 0xFF])))
        elif kind == "len":
            m["how"] = draw(st.sampled_from(["cut-tail", "cut-head", "append", "append", "prepend"]))
            m["k"] = draw(st.sampled_from([1, 1, 2, 7, L, xl]))
            m["junk"] = draw(st.binary(min_size=m["k"], max_size=m["k"]))
        elif kind in ("xrange", "yrange"):
            m["which"] = draw(st.integers(0, 5))
            m["comp"] = draw(st.integers(0, deg - 1))
        elif kind == "xnopoint":
            m["x"] = [draw(ints.uniform(0, p - 1)) for _ in range(deg)]
            m["y"] = [draw(ints.uniform(0, p - 1)) for _ in range(deg)]
        elif kind == "bitflip":
            m["bit"] = draw(st.integers(0, 8 * (1 + 2 * xl) - 1))
        elif kind == "zeros":
            m["n"] = draw(st.sampled_from([0, 1, 2, xl, xl + 1, 2 * xl, 2 * xl + 1, 2 * xl + 2]))
            m["tag"] = draw(st.sampled_from([0, 0, 2, 3, 4]))
        elif kind == "raw":
            m["data"] = draw(raw_string(xl, 2 * xl + 3))
        return m
    return s()


def apply_mutation(m, enc, other_enc, L, xl, p, deg, fe, negfn=None):
    """enc: valid encoding (tag || X [|| Y]) of the case's point (b'\0' for the identity); other_enc: uncompressed
    encoding of a different point. fe(list of deg ints) -> bytes. Returns the byte string to decode."""
    kind = m["kind"]
    b = bytearray(enc)
    if kind == "valid":
        return bytes(b)
    if kind == "tag":
        b[0] = m["tag"]
        return bytes(b)
    if kind == "len":
        how, k = m["how"], m["k"]
        if how == "cut-tail":
            return bytes(b[:max(0, len(b) - k)])
        if how == "cut-head":
            return bytes(b[min(k, len(b)):])
        if how == "append":
            return bytes(b) + m["junk"]
        return m["junk"] + bytes(b)
    if kind == "raw":
        return m["data"]
    if kind == "zeros":
        z = bytearray(m["n"])
        if z:
            z[0] = m["tag"]
        return bytes(z)
    if kind == "bitflip":
        if not b:
            return bytes(b)
        i = m["bit"] % (8 * len(b))
        b[i // 8] ^= 1 << (i % 8)
        return bytes(b)
    if len(enc) == 1:
        return bytes(b)                     # coordinate mutations do not apply to the identity
    if kind in ("xrange", "yrange"):
        off = 1 if kind == "xrange" or len(enc) == 1 + xl else 1 + xl
        off += m["comp"] * L
        v = int.from_bytes(b[off:off + L], "big")
        muts = coord_mutants(v, p, L)
        if not muts:
            return bytes(b)
        b[off:off + L] = muts[m["which"] % len(muts)].to_bytes(L, "big")
        return bytes(b)
    if kind == "yneg":
        if len(enc) == 1 + xl:
            b[0] ^= 1
        elif negfn is not None:
            b[1 + xl:] = negfn(bytes(b[1:1 + xl]), bytes(b[1 + xl:]))
        else:
            for j in range(deg):
                off = 1 + xl + j * L
                v = int.from_bytes(b[off:off + L], "big")
                b[off:off + L] = ((-v) % p).to_bytes(L, "big")
        return bytes(b)
    if kind == "yother":
        if len(enc) == 1 + xl:
            b[1:] = other_enc[1:1 + xl]      # x of another point under this tag: valid
        else:
            b[1 + xl:] = other_enc[1 + xl:]
        return bytes(b)
    if kind == "xnopoint":
        b[1:1 + xl] = fe(m["x"])
        if len(enc) != 1 + xl:
            b[1 + xl:] = fe(m["y"])
        return bytes(b)
    raise ValueError(kind)


def point_spec(n, maxk=16):
    """G-point description: identity, small / special / random multiples of the generator, lifted points"""
    @st.composite
    def s(draw):
        k = draw(st.integers(0, 9))
        if k == 0:
            return dict(kind="inf")
        if k <= 3:
            return dict(kind="mul", k=draw(st.integers(-maxk, maxk)))
        if k == 4:
            return dict(kind="mul", k=draw(st.sampled_from([n - 1, n + 1, n - 2, 2 * n - 1, n // 2, n // 2 + 1, n])))
        if k == 5:
            return dict(kind="mul", k=draw(ints.uniform(1, n - 1)))
        if k == 6:
            return dict(kind="special", i=draw(st.integers(0, 63)))
        return dict(kind="lift", seed=draw(st.binary(min_size=72, max_size=72)), neg=draw(st.booleans()))
    return s()


def rep_spec(p, deg, want_kind):
    @st.composite
    def s(draw):
        kind = draw(st.sampled_from(["basic", "basic", want_kind]))
        z = [1] + [0] * (deg - 1)
        if kind != "basic":
            # Z >= 2: "Z = 1 but tagged projective" is C03's class (and trips over fp_inv_monty(1) in FP_RDC=BASIC builds)
            z = [draw(ints.uniform(2, p - 1))] + [draw(st.one_of(st.just(0), ints.uniform(0, p - 1))) for _ in range(deg - 1)]
        return dict(kind=kind, z=z, inf=draw(st.integers(0, 1)))
    return s()


def tail_ok(got, size, fillbyte):
    t = got[size:]
    return t == bytes(len(t)) or t == bytes([fillbyte]) * len(t)


# ------------------------------------------------------------------------------------------ prime curves (ep / g1)

_EPX = {}


def ep_ctx(env, cfg, c):
    key = (cfg, c.cid)
    if key not in _EPX:
        L = fp_len(env, cfg)
        F = c.F
        sec1 = rc.sign_half if c.is_pairf else rc.sign_parity
        lib = rc.sign_half if c.is_pairf else (lambda y, p: F.to_raw_int(y) & 1)
        d = dict(L=L, C=rc.WeierCodec(c.E, F.p, L, 1, sec1), Clib=rc.WeierCodec(c.E, F.p, L, 1, lib),
                 kind={c.BASIC: "basic", c.PROJC: "projc", c.JACOB: "jacob"}[c.EP_ADD], special=[])
        # special points: smallest / largest x with a point above them, both roots
        E = c.E
        for x0 in list(range(0, 40)) + [F.p - 1 - i for i in range(40)]:
            P = E.lift_x(x0)
            if P is not None:
                d["special"].append(P)
                d["special"].append(E.neg(P))
        _EPX[key] = d
    return _EPX[key]


def ep_point(c, d, spec):
    k = spec["kind"]
    if k == "inf":
        return None
    if k == "mul":
        m = spec["k"] % c.n
        if m <= 64 or c.n - m <= 64:
            P = ecctx.small_multiple(c, min(m, c.n - m))
            return P if m <= 64 else c.E.neg(P)
        return c.E.mul(m, c.G)
    if k == "special":
        return d["special"][spec["i"] % len(d["special"])]
    p = c.F.p
    x = int.from_bytes(spec["seed"][:40], "little") % p
    while True:
        P = c.E.lift_x(x)
        if P is not None:
            return c.E.neg(P) if spec["neg"] else P
        x = (x + 1) % p


def strat_ep(env, cfg):
    cs_ = ecctx.discover(env, cfg)["curves"]
    if not cs_:
        raise Unsupported()
    c = cs_[env.job_seed % len(cs_)]
    d = ep_ctx(env, cfg, c)
    L, p = d["L"], c.F.p

    @st.composite
    def s(draw):
        mode = draw(st.sampled_from(["enc", "dec", "dec", "pck"]))
        case = dict(cid=c.cid, mode=mode, pt=draw(point_spec(c.n)), pack=draw(st.integers(0, 1)),
                    api=draw(st.sampled_from(["ep", "ep", "g1"])), poison=draw(st.integers(0, 255)))
        if mode == "enc":
            case["rep"] = draw(rep_spec(p, 1, d["kind"]))
            case["delta"] = draw(st.sampled_from(DELTAS))
        elif mode == "dec":
            case["mut"] = draw(point_mutation(L, L, p, 1))
            case["other"] = draw(st.integers(1, 16))
        else:
            case["rep"] = dict(kind="basic", z=[1], inf=0)
            case["xnp"] = draw(st.one_of(st.none(), ints.uniform(0, p - 1)))
            case["bit"] = draw(st.integers(0, 1))
        return case
    return s()


def _parity_violation(what, got_tag, sec1_tag, lib_tag, **kw):
    return Violation("%s: the compression bit follows the parity of the INTERNAL (Montgomery) representation of the "
                     "coordinate, not of its value (SEC 1: y~ = y mod 2)" % what, kind="tag-from-internal-representation",
                     got_tag=got_tag, sec1_tag=sec1_tag, internal_tag=lib_tag, **kw)


def run_ep(env, cfg, case):
    c = ecctx.curve(env, cfg, case["cid"])
    d = ep_ctx(env, cfg, c)
    L, C, Clib, F = d["L"], d["C"], d["Clib"], c.F
    pfx = case["api"] if (case["api"] == "ep" or "g1_read_bin" in env.runner(cfg).ops()) else "ep"
    P = ep_point(c, d, case["pt"])
    pack, pz, mode = case["pack"], case["poison"], case["mode"]
    fillb = (pz ^ 0x3C) | 1
    # what the destination object holds before a decoder writes it: a finite affine point, the identity in either
    # encoding, or a projective point (a decoder that leaves part of a stale object in place must not pass)
    stale = [ecctx.enc_point(c, ecctx.small_multiple(c, 5)), ecctx.enc_point(c, None),
             ecctx.enc_point(c, None, "projc" if c.EP_ADD == c.PROJC else "jacob", 7, 1),
             ecctx.enc_point(c, ecctx.small_multiple(c, 3), "projc" if c.EP_ADD == c.PROJC else "jacob", 11)][
                 (case["poison"] >> 2) % 4 if c.EP_ADD != c.BASIC else (case["poison"] >> 2) % 2]
    lab = ["ep:%s" % mode, "ep:stale-dest=%d" % ((case["poison"] >> 2) % 4), "ep:cid=%d" % c.cid, "ep:api=%s" % pfx, "ep:pt=%s" % (case["pt"]["kind"] if P is not None else "inf")]
    parity = None
    if mode == "enc":
        rep = case["rep"]
        size = C.size(P, pack)
        n = blen(size, case["delta"])

        def build(p):
            sp = p.new("EP", ecctx.enc_point(c, P, rep["kind"], rep["z"][0], rep["inf"]))
            p.call(pfx + "_size_bin", sp, pack)
            buf = p.buf(bytes([fillb]) * n)
            p.call(pfx + "_write_bin", buf, sp, pack)
            p.dump(buf)
            sq = p.new("EP", stale)
            p.call(pfx + "_read_bin", sq, buf)
            p.dump(sq)
            return sp, buf, sq
        res, (sp, buf, sq) = ecctx.run(env, cfg, c.cid, build, pz)
        c0, c1, c2 = res.calls
        chk_ok(c0, pfx + "_size_bin")
        if c0.rets[0] != size:
            raise Violation("%s_size_bin wrong" % pfx, got=c0.rets[0], want=size, pack=pack)
        lab += ["ep:pack=%d" % pack, "ep:rep=%s" % rep["kind"]]
        if n < size:
            chk_rejected(c1, "%s_write_bin(len=%d < size=%d)" % (pfx, n, size), [NOBUF], "buffer too short")
            return True, lab + ["ep:enc:short"]
        what = "%s_write_bin(pack=%d, len=size%+d)" % (pfx, pack, n - size)
        chk_ok(c1, what)
        got = res.dumps[buf]
        want = C.enc(P, pack)
        if got[:size] != want:
            alt = Clib.enc(P, pack)
            if got[:size] == alt:
                parity = _parity_violation(what, got[0], want[0], alt[0])
            else:
                raise Violation("%s: bytes differ from the reference encoding" % what, got=got[:size], want=want)
        if not tail_ok(got, size, fillb):
            raise Violation("%s: bytes after the encoding are neither zero nor untouched" % what, got=got)
        if sp in c1.changed:
            raise Violation("%s modified its input" % what)
        if n == size:
            chk_ok(c2, pfx + "_read_bin(write_bin(P))")
            Q, meta = ecctx.dec_point(c, res.dumps[sq], "read_bin(write_bin(P))")
            if Q != P:
                raise Violation("%s_read_bin(%s_write_bin(P)) != P" % (pfx, pfx), got=Q, want=P, pack=pack)
            if Q is not None and meta["coord"] != c.BASIC:
                raise Violation("decoded point is not tagged affine", coord=meta["coord"])
        if parity:
            raise parity
        return (n != size or pack == 1), lab + ["ep:enc:%s" % ("exact" if n == size else "longer")]
    if mode == "dec":
        mut = case["mut"]
        other = ecctx.small_multiple(c, case["other"] + 20)
        data = apply_mutation(mut, C.enc(P, pack), C.enc(other, 0), L, L, F.p, 1,
                              lambda v: rc.fp_enc(v[0] % F.p, F.p, L))
        ok, Pref = C.dec(data)
        repack = 1 if len(data) == 1 + L else 0

        def build(p):
            buf = p.buf(data)
            sq = p.new("EP", stale)
            p.call(pfx + "_read_bin", sq, buf)
            p.dump(sq)
            out = p.buf(bytes([fillb]) * len(data))
            p.call(pfx + "_write_bin", out, sq, repack)
            p.dump(out)
            return buf, sq, out
        res, (buf, sq, out) = ecctx.run(env, cfg, c.cid, build, pz)
        c0, c1 = res.calls
        what = "%s_read_bin(%s, len=%d)" % (pfx, mut["kind"], len(data))
        lab += ["ep:dec:%s" % mut["kind"], "ep:dec:ref-%s" % ("accepts" if ok else "rejects:" + Pref)]
        if not ok:
            chk_rejected(c0, what, [NOBUF, NOVALID], "reference: " + Pref)
            return True, lab
        chk_ub(c0, what)
        if c0.errored:
            return False, lab + ["ep:dec:library-stricter"]
        Q, meta = ecctx.dec_point(c, res.dumps[sq], what)
        if not c.E.on_curve(Q):
            raise Violation("%s accepted a point that is not on the curve" % what, point=Q, data=data, kind="accepted-invalid")
        if Q != Pref:
            if Q is not None and Pref is not None and Q == c.E.neg(Pref) and repack and not c.is_pairf:
                parity = _parity_violation(what, data[0], 2 | (Q[1] & 1), data[0])
            else:
                raise Violation("%s decoded a different point than the reference" % what, got=Q, want=Pref, data=data)
        chk_ok(c1, "%s_write_bin(read_bin(b))" % pfx)
        if res.dumps[out] != data:
            raise Violation("%s_write_bin(%s_read_bin(b)) != b" % (pfx, pfx), got=res.dumps[out], want=data)
        if parity:
            raise parity
        return mut["kind"] != "valid", lab
    # ep_pck / ep_upk directly
    if P is None:
        raise Unsupported()
    xnp = case["xnp"]

    def build(p):
        sp = p.new("EP", ecctx.enc_point(c, P))
        sr = p.new("EP", stale)
        p.call("ep_pck", sr, sp)
        p.dump(sr)
        su = p.new("EP", stale)
        p.call("ep_upk", su, sr)
        p.dump(su)
        sx = None
        if xnp is not None:
            body = b"".join(F.to_raw_int(v).to_bytes(F.nbytes, "little") for v in (xnp, 0, 1))
            bitraw = (case["bit"]).to_bytes(F.nbytes, "little")
            body = body[:F.nbytes] + bitraw + body[2 * F.nbytes:] + bytes([c.BASIC])
            sx = p.new("EP", struct.pack("<I", len(body)) + body)
            sy = p.new("EP", stale)
            p.call("ep_upk", sy, sx)
            p.dump(sy)
            return sp, sr, su, sy
        return sp, sr, su, None
    res, (sp, sr, su, sy) = ecctx.run(env, cfg, c.cid, build, pz)
    c0, c1 = res.calls[0], res.calls[1]
    chk_ok(c0, "ep_pck")
    chk_ok(c1, "ep_upk")
    # the packed form is (x, bit, 1): the bit sits in the raw least significant bit of y
    pb = res.dumps[sr]
    nb = F.nbytes
    xr, yr = F.dec(pb[:nb])[0], int.from_bytes(pb[nb:2 * nb], "little")
    if xr != P[0] or yr not in (0, 1):
        raise Violation("ep_pck: packed form is not (x, bit)", x=xr, ybits=yr)
    if c1.rets[0] != 1:
        raise Violation("ep_upk(ep_pck(P)) reported failure", ret=c1.rets[0])
    Q, _ = ecctx.dec_point(c, res.dumps[su], "ep_upk(ep_pck(P))")
    if Q != P:
        raise Violation("ep_upk(ep_pck(P)) != P", got=Q, want=P)
    want_bit = C.sign(P[1], F.p)
    if yr != want_bit:
        if yr == Clib.sign(P[1], F.p):
            parity = _parity_violation("ep_pck", 2 | yr, 2 | want_bit, 2 | yr)
        else:
            raise Violation("ep_pck: wrong compression bit", got=yr, want=want_bit)
    if sy is not None:
        c2 = res.calls[2]
        chk_ub(c2, "ep_upk")
        exists = rfp.is_square(c.E.rhs(xnp), F.p)
        lab.append("ep:upk:%s" % ("x-on-curve" if exists else "x-without-point"))
        if not c2.errored:
            if bool(c2.rets[0]) != exists:
                raise Violation("ep_upk returned %d for an x that has %s point above it" % (c2.rets[0], "a" if exists else "no"), x=xnp)
            if exists:
                R, _ = ecctx.dec_point(c, res.dumps[sy], "ep_upk")
                if R is None or R[0] != xnp or not c.E.on_curve(R):
                    raise Violation("ep_upk: result is not a point above x", got=R, x=xnp)
                if C.sign(R[1], F.p) != case["bit"] and R[1] != 0:
                    if Clib.sign(R[1], F.p) == case["bit"]:
                        parity = parity or _parity_violation("ep_upk", 2 | case["bit"], 2 | C.sign(R[1], F.p), 2 | case["bit"])
                    else:
                        raise Violation("ep_upk: root does not match the requested bit", got=R, bit=case["bit"])
    if parity:
        raise parity
    return True, lab



# ------------------------------------------------------------------------------------------ twist curves (ep2 / g2)

_EP2X = {}


def pick_pc(env, cfg):
    cs = pcctx.discover(env, cfg)["ctxs"]
    if not cs:
        raise Unsupported()
    return cs[env.job_seed % len(cs)]


def ep2_ctx(env, cfg, x):
    key = (cfg, x.cid)
    if key not in _EP2X:
        L = fp_len(env, cfg)
        F2, E, p = x.F2, x.E2c, x.F.p
        b = x.base
        d = dict(L=L, C=rc.WeierCodec(E, p, L, 2, rc.sign_half_fp2),
                 kind={b.BASIC: "basic", b.PROJC: "projc", b.JACOB: "jacob"}[b.EP_ADD], special=[], y1zero=0)
        # points whose y has a zero imaginary (or real) part: x^3 = y^2 - b' solved by a cube root in Fp2
        ys = [((p - 1) // 2, 0), ((p + 1) // 2, 0), (0, 1), (0, p - 1), (0, 2), (0, (p + 1) // 2)]
        for i in range(1, 25):
            ys += [(i, 0), (p - i, 0)]
        for y in ys:
            if d["y1zero"] >= 8 and y[1] == 0:
                continue
            r = rc.cube_root_ext(F2, F2.sub(F2.mul(y, y), E.b))
            if r is not None and E.on_curve((r, y)):
                d["special"].append((r, y))
                if y[1] == 0:
                    d["y1zero"] += 1
        # points with small x
        for x0 in [(0, 0), (1, 0), (0, 1), (1, 1), (2, 0), (p - 1, 0), (p - 1, p - 1), (2, 1), (3, 0), (0, 2)]:
            P = E.lift_x(x0)
            if P is not None:
                d["special"].append(P)
                d["special"].append(E.neg(P))
        _EP2X[key] = d
    return _EP2X[key]


def ep2_point(x, d, spec):
    k = spec["kind"]
    E = x.E2c
    if k == "inf":
        return None
    if k == "mul":
        m = spec["k"] % x.r
        if m == 0:
            return None
        if m <= 64 or x.r - m <= 64:
            P = pcctx.small_multiple2(x, min(m, x.r - m))
            return P if m <= 64 else E.neg(P)
        return E.mul(m, x.G2)
    if k == "special":
        return d["special"][spec["i"] % len(d["special"])]
    p = x.F.p
    x0 = [int.from_bytes(spec["seed"][:36], "little") % p, int.from_bytes(spec["seed"][36:], "little") % p]
    while True:
        P = E.lift_x(tuple(x0))
        if P is not None:
            return E.neg(P) if spec["neg"] else P
        x0[0] = (x0[0] + 1) % p


def strat_ep2(env, cfg):
    x = pick_pc(env, cfg)
    d = ep2_ctx(env, cfg, x)
    L, p = d["L"], x.F.p

    @st.composite
    def s(draw):
        mode = draw(st.sampled_from(["enc", "dec", "dec", "pck"]))
        pt = draw(point_spec(x.r))
        if pt["kind"] == "mul" and abs(pt["k"]) > 64 and draw(st.integers(0, 2)):
            pt = dict(kind="special", i=draw(st.integers(0, 63)))      # full-size multiples are expensive in the reference
        case = dict(cid=x.cid, mode=mode, pt=pt, pack=draw(st.integers(0, 1)),
                    api=draw(st.sampled_from(["ep2", "ep2", "g2"])), poison=draw(st.integers(0, 255)))
        if mode == "enc":
            case["rep"] = draw(rep_spec(p, 2, d["kind"]))
            case["delta"] = draw(st.sampled_from(DELTAS))
        elif mode == "dec":
            case["mut"] = draw(point_mutation(L, 2 * L, p, 2))
            case["other"] = draw(st.integers(1, 16))
        return case
    return s()


def run_ep2(env, cfg, case):
    x = pcctx.ctx_for(env, cfg, case["cid"])
    d = ep2_ctx(env, cfg, x)
    L, C, F, E = d["L"], d["C"], x.F, x.E2c
    p_ = F.p
    pfx = case["api"]
    P = ep2_point(x, d, case["pt"])
    pack, pz, mode = case["pack"], case["poison"], case["mode"]
    fillb = (pz ^ 0x3C) | 1
    stale = [pcctx.enc_point2(x, pcctx.small_multiple2(x, 5)), pcctx.enc_point2(x, None)][(case["poison"] >> 2) % 2]
    lab = ["ep2:%s" % mode, "ep2:cid=%d" % x.cid, "ep2:api=%s" % pfx, "ep2:pt=%s" % (case["pt"]["kind"] if P is not None else "inf")]
    if P is not None and P[1][1] == 0:
        lab.append("ep2:y-imaginary-part-zero")
    if mode == "enc":
        rep = case["rep"]
        size = C.size(P, pack)
        n = blen(size, case["delta"])

        def build(p):
            sp = p.new("EP2", pcctx.enc_point2(x, P, rep["kind"], tuple(rep["z"]), rep["inf"]))
            p.call(pfx + "_size_bin", sp, pack)
            buf = p.buf(bytes([fillb]) * n)
            p.call(pfx + "_write_bin", buf, sp, pack)
            p.dump(buf)
            sq = p.new("EP2", stale)
            p.call(pfx + "_read_bin", sq, buf)
            p.dump(sq)
            return sp, buf, sq
        res, (sp, buf, sq) = pcctx.run(env, cfg, x, build, pz)
        c0, c1, c2 = res.calls
        chk_ok(c0, pfx + "_size_bin")
        if c0.rets[0] != size:
            raise Violation("%s_size_bin wrong" % pfx, got=c0.rets[0], want=size, pack=pack)
        lab += ["ep2:pack=%d" % pack, "ep2:rep=%s" % rep["kind"]]
        if n < size:
            chk_rejected(c1, "%s_write_bin(len=%d < size=%d)" % (pfx, n, size), [NOBUF], "buffer too short")
            return True, lab + ["ep2:enc:short"]
        what = "%s_write_bin(pack=%d, len=size%+d)" % (pfx, pack, n - size)
        chk_ok(c1, what)
        got = res.dumps[buf]
        want = C.enc(P, pack)
        if got[:size] != want:
            raise Violation("%s: bytes differ from the reference encoding" % what, got=got[:size], want=want,
                            kind="ep2-sign", y=P[1] if P else None, p=p_,
                            only_sign_wrong=bool(pack and got[0] == 2 and want[0] == 3 and got[1:size] == want[1:]))
        if not tail_ok(got, size, fillb):
            raise Violation("%s: bytes after the encoding are neither zero nor untouched" % what, got=got)
        if sp in c1.changed:
            raise Violation("%s modified its input" % what)
        if n == size:
            chk_ok(c2, pfx + "_read_bin(write_bin(P))")
            Q, meta = pcctx.dec_point2(x, res.dumps[sq], "read_bin(write_bin(P))")
            if Q != P:
                raise Violation("%s_read_bin(%s_write_bin(P)) != P" % (pfx, pfx), got=Q, want=P, pack=pack)
        return (n != size or pack == 1), lab + ["ep2:enc:%s" % ("exact" if n == size else "longer")]
    if mode == "dec":
        mut = case["mut"]
        other = pcctx.small_multiple2(x, case["other"] + 20)
        data = apply_mutation(mut, C.enc(P, pack), C.enc(other, 0), L, 2 * L, p_, 2,
                              lambda v: rc.flat_enc([c % p_ for c in v], p_, L))
        ok, Pref = C.dec(data)
        repack = 1 if len(data) == 1 + 2 * L else 0

        def build(p):
            buf = p.buf(data)
            sq = p.new("EP2", stale)
            p.call(pfx + "_read_bin", sq, buf)
            p.dump(sq)
            out = p.buf(bytes([fillb]) * len(data))
            p.call(pfx + "_write_bin", out, sq, repack)
            p.dump(out)
            return buf, sq, out
        res, (buf, sq, out) = pcctx.run(env, cfg, x, build, pz)
        c0, c1 = res.calls
        what = "%s_read_bin(%s, len=%d)" % (pfx, mut["kind"], len(data))
        lab += ["ep2:dec:%s" % mut["kind"], "ep2:dec:ref-%s" % ("accepts" if ok else "rejects:" + Pref)]
        if not ok:
            chk_rejected(c0, what, [NOBUF, NOVALID], "reference: " + Pref)
            return True, lab
        chk_ub(c0, what)
        if c0.errored:
            return False, lab + ["ep2:dec:library-stricter"]
        Q, meta = pcctx.dec_point2(x, res.dumps[sq], what)
        if not E.on_curve(Q):
            raise Violation("%s accepted a point that is not on the curve" % what, point=Q, data=data, kind="accepted-invalid")
        if Q != Pref:
            raise Violation("%s decoded a different point than the reference" % what, got=Q, want=Pref, data=data)
        chk_ok(c1, "%s_write_bin(read_bin(b))" % pfx)
        if res.dumps[out] != data:
            g = res.dumps[out]
            raise Violation("%s_write_bin(%s_read_bin(b)) != b" % (pfx, pfx), got=g, want=data,
                            kind="ep2-sign", y=Q[1] if Q else None, p=p_,
                            only_sign_wrong=bool(repack and len(g) == len(data) and g[0] == 2 and data[0] == 3 and g[1:] == data[1:]))
        return mut["kind"] != "valid", lab
    if P is None:
        raise Unsupported()

    def build(p):
        sp = p.new("EP2", pcctx.enc_point2(x, P))
        sr = p.new("EP2", stale)
        p.call("ep2_pck", sr, sp)
        p.dump(sr)
        su = p.new("EP2", stale)
        p.call("ep2_upk", su, sr)
        p.dump(su)
        return sp, sr, su
    res, (sp, sr, su) = pcctx.run(env, cfg, x, build, pz)
    c0, c1 = res.calls
    chk_ok(c0, "ep2_pck")
    chk_ok(c1, "ep2_upk")
    nb = F.nbytes
    pb = res.dumps[sr]
    xr = (F.dec(pb[:nb])[0], F.dec(pb[nb:2 * nb])[0])
    bit = int.from_bytes(pb[2 * nb:3 * nb], "little")
    if xr != P[0] or bit not in (0, 1) or int.from_bytes(pb[3 * nb:4 * nb], "little") != 0:
        raise Violation("ep2_pck: packed form is not (x, bit)", x=xr, bit=bit)
    want_bit = rc.sign_half_fp2(P[1], p_)
    if c1.rets[0] != 1:
        raise Violation("ep2_upk(ep2_pck(P)) reported failure", ret=c1.rets[0])
    Q, _ = pcctx.dec_point2(x, res.dumps[su], "ep2_upk(ep2_pck(P))")
    if bit != want_bit or Q != P:
        raise Violation("ep2_upk(ep2_pck(P)) != P or wrong sign bit", got=Q, want=P, bit=bit, want_bit=want_bit,
                        kind="ep2-sign", y=P[1], p=p_,
                        only_sign_wrong=bool(bit == 0 and want_bit == 1 and Q == E.neg(P)))
    return True, lab



# ------------------------------------------------------------------------------------------ extension fields / GT

PLAIN_DEGS = [2, 3, 4, 6, 8, 9, 12, 16, 18, 24, 48, 54]
PACK_ARG = {2, 8, 12, 16, 18, 24, 48, 54}          # degrees whose size_bin / write_bin take a pack flag
_FPXX = {}


def fpx_ctx(env, cfg, x):
    key = (cfg, x.cid)
    if key not in _FPXX:
        L = fp_len(env, cfg)
        cyc = rc.Cyc12(x.T)
        F12 = x.F12
        g = x.gt_gen
        if not cyc.is_cyclotomic(g) or not F12.eq(F12.pow(g, x.r), F12.one):
            raise Violation("gt_get_gen is not an element of order r in the cyclotomic subgroup (reference check)", cid=x.cid)
        gts = [F12.one, g]
        for _ in range(14):
            gts.append(F12.mul(gts[-1], g))
        gts += [cyc.conj6(t) for t in gts[1:6]]        # inverses: g^(r-k)
        _FPXX[key] = dict(L=L, cyc=cyc, gts=gts, ops=env.runner(cfg).ops())
    return _FPXX[key]


def fpx_slot(p, F, coeffs):
    body = b"".join(F.to_raw_int(v).to_bytes(F.nbytes, "little") for v in coeffs)
    return p.new("FPX", bytes([len(coeffs)]) + struct.pack("<I", len(body)) + body)


def fpx_dump(F, blob, n, what):
    nb = F.nbytes
    out = []
    for j in range(n):
        v, raw = F.dec(blob[j * nb:(j + 1) * nb])
        if v is None:
            raise Violation("%s: coefficient %d not canonical (raw >= p)" % (what, j), raw=raw, kind="accepted-invalid")
        out.append(v)
    return out


def coeff(p):
    return st.one_of(st.sampled_from([0, 1, 2, p - 1, p - 2, (p - 1) // 2, (p + 1) // 2]), ints.uniform(0, p - 1), ints.uniform(0, p - 1))


def fpx_elem_spec(p):
    """element descriptions for the packed forms"""
    @st.composite
    def s(draw):
        kind = draw(st.sampled_from(["fp2-unitary", "fp2-unitary", "fp2-generic", "fp2-one", "fp12-cyc", "fp12-cyc", "fp12-gt",
                                     "fp12-gt", "fp12-generic", "fp12-one", "fp12-zero", "fp12-minus-one", "fp8-cyc",
                                     "fp8-generic"]))
        e = dict(kind=kind)
        if kind == "fp12-gt":
            e["i"] = draw(st.integers(0, 20))
        else:
            n = 2 if kind.startswith("fp2") else 8 if kind.startswith("fp8") else 12
            e["z"] = [draw(coeff(p)) for _ in range(n)]
            if kind == "fp2-unitary" and draw(st.integers(0, 5)) == 0:
                e["z"] = draw(st.sampled_from([[1, 0], [p - 1, 0], [0, 1], [1, 1], [1, p - 1]]))
        return e
    return s()


def fpx_element(x, d, e):
    """-> (degree, flat coefficient list, in-subgroup?)"""
    T, p = x.T, x.F.p
    kind = e["kind"]
    if kind.startswith("fp2"):
        F2 = T[2]
        if kind == "fp2-one":
            return 2, [1, 0], True
        z = tuple(e["z"])
        if kind == "fp2-generic" or F2.is_zero(z):
            return 2, list(z), rc.fp2_is_unitary(z, p, x.qnr)
        u = F2.mul(z, F2.inv((z[0], (-z[1]) % p)))       # z / conj(z) = z^(1-p): norm 1
        return 2, list(u), True
    if kind.startswith("fp8"):
        F8 = T[8]
        z = F8.unflatten(e["z"])
        if kind == "fp8-generic" or F8.is_zero(z):
            c = z
        else:
            c = F8.mul((z[0], T[4].neg(z[1])), F8.inv(z))   # z^(p^4 - 1): the order-(p^4+1) subgroup
        insub = (not F8.is_zero(c)) and F8.eq(F8.mul(c, (c[0], T[4].neg(c[1]))), F8.one)
        return 8, F8.flatten(c), insub
    F12, cyc = x.F12, d["cyc"]
    if kind == "fp12-gt":
        a = d["gts"][e["i"] % len(d["gts"])]
    elif kind == "fp12-one":
        a = F12.one
    elif kind == "fp12-minus-one":
        a = F12.neg(F12.one)
    elif kind == "fp12-zero":
        a = F12.zero
    else:
        z = F12.unflatten(e["z"])
        a = z if (kind == "fp12-generic" or F12.is_zero(z)) else cyc.to_cyclotomic(z)
    return 12, F12.flatten(a), cyc.is_cyclotomic(a)


def strat_fpx(env, cfg):
    x = pick_pc(env, cfg)
    d = fpx_ctx(env, cfg, x)
    L, p = d["L"], x.F.p

    @st.composite
    def s(draw):
        mode = draw(st.sampled_from(["plain-enc", "plain-dec", "plain-dec", "pack-enc", "pack-enc", "pack-dec", "pack-dec", "pck"]))
        c = dict(cid=x.cid, mode=mode, poison=draw(st.integers(0, 255)), api=draw(st.sampled_from(["fp", "fp", "gt"])))
        if mode.startswith("plain"):
            N = draw(st.sampled_from(PLAIN_DEGS + [2, 12, 12, 6, 4]))
            c["N"] = N
            c["a"] = [draw(coeff(p)) for _ in range(N)]
            if mode == "plain-enc":
                c["delta"] = draw(st.sampled_from(DELTAS + [L, -L]))
            else:
                kind = draw(st.sampled_from(["valid", "range", "range", "len", "bitflip", "raw", "raw"]))
                m = dict(kind=kind)
                if kind == "range":
                    m["i"] = draw(st.integers(0, N - 1))
                    m["which"] = draw(st.integers(0, 5))
                elif kind == "len":
                    m["how"] = draw(st.sampled_from(["cut-tail", "cut-head", "append", "prepend"]))
                    m["k"] = draw(st.sampled_from([1, 2, L - 1, L, L + 1, 2 * L, 4 * L]))
                    m["junk"] = draw(st.binary(min_size=m["k"], max_size=m["k"]))
                elif kind == "bitflip":
                    m["bit"] = draw(st.integers(0, 8 * N * L - 1))
                elif kind == "raw":
                    n = draw(st.one_of(st.sampled_from([0, 1, L, L + 1, N * L - 1, N * L, N * L + 1, 8 * L, 2 * L]), st.integers(0, N * L + 3)))
                    m["data"] = draw(st.binary(min_size=n, max_size=n))
                    m["reduce"] = draw(st.booleans())
                c["mut"] = m
        elif mode == "pack-enc":
            c["e"] = draw(fpx_elem_spec(p))
            c["delta"] = draw(st.sampled_from(DELTAS))
        elif mode == "pack-dec":
            c["e"] = draw(fpx_elem_spec(p).filter(lambda e: not e["kind"].startswith("fp8")))
            kind = draw(st.sampled_from(["valid", "valid", "perturb", "perturb", "range", "sign-byte", "zeros", "raw"]))
            m = dict(kind=kind, i=draw(st.integers(0, 7)), which=draw(st.integers(0, 5)), byte=draw(st.integers(0, 255)),
                     add=draw(st.one_of(st.sampled_from([1, p - 1]), ints.uniform(1, p - 1))))
            if kind == "raw":
                m["vals"] = [draw(ints.uniform(0, p - 1)) for _ in range(8)]
            c["mut"] = m
        else:
            c["e"] = draw(fpx_elem_spec(p).filter(lambda e: not e["kind"].startswith("fp8")))
            c["fn"] = draw(st.sampled_from(["pck", "pck", "pck_max"]))
            c["bad"] = draw(st.integers(0, 2)) == 0
            c["i"] = draw(st.integers(0, 7))
        return c
    return s()


def _fpx_names(N, api, ops):
    pre = "gt" if (api == "gt" and N == 12 and "gt_read_bin" in ops) else "fp%d" % N
    return pre + "_size_bin", pre + "_write_bin", pre + "_read_bin"


def fpx_ref_decode(x, d, N, data):
    """-> (ok, coefficient list | reason, packed?)"""
    L, p = d["L"], x.F.p
    if N == 2 and len(data) == L + 1:
        ok, a = rc.fp2_pack_dec(data, p, L, x.qnr)
        return ok, (list(a) if ok else a), True
    if N == 12 and len(data) == 8 * L:
        ok, a = rc.fp12_pack_dec(d["cyc"], data, p, L)
        return ok, (x.F12.flatten(a) if ok else a), True
    ok, a = rc.flat_dec(data, N, p, L)
    return ok, a, False


def _fp2_internal_sign(F):
    return lambda v, p: F.to_raw_int(v) & 1


def _shape(a, p):
    if a is None:
        return None
    if all(v == 0 for v in a):
        return "zero"
    if all(v == 0 for v in a[1:]):
        return "one" if a[0] == 1 else "minus-one" if a[0] == p - 1 else "base-field"
    return "other"


def run_fpx(env, cfg, case):
    try:
        return _run_fpx(env, cfg, case)
    except Violation as v:
        x = pcctx.ctx_for(env, cfg, case["cid"])
        v.details.setdefault("qnr", x.qnr)
        raise


def _run_fpx(env, cfg, case):
    x = pcctx.ctx_for(env, cfg, case["cid"])
    d = fpx_ctx(env, cfg, x)
    F, L = x.F, d["L"]
    p_ = F.p
    mode, pz = case["mode"], case["poison"]
    fillb = (pz ^ 0x3C) | 1
    lab = ["fpx:%s" % mode, "fpx:cid=%d" % x.cid]
    parity = None

    def write_read(N, a, pack, size, n, want, insub, what):
        """write a into an n-byte buffer, read it back; returns labels"""
        nonlocal parity
        fs, fw, fr = _fpx_names(N, case["api"], d["ops"])

        def build(p):
            sa = fpx_slot(p, F, a)
            buf = p.buf(bytes([fillb]) * n)
            p.call(fw, buf, sa, pack)
            p.dump(buf)
            sb = fpx_slot(p, F, [7] * N)
            p.call(fr, sb, buf)
            p.dump(sb)
            return sa, buf, sb
        res, (sa, buf, sb) = pcctx.run(env, cfg, x, build, pz)
        c1, c2 = res.calls
        w = "%s(pack=%d, len=size%+d) of %s" % (fw, pack, n - size, what)
        if n < size:
            chk_rejected(c1, w, [NOBUF], "buffer too short")
            return ["fpx:enc:short"]
        chk_ub(c1, w)
        if n > size and c1.errored:
            return ["fpx:enc:longer-refused"]
        if c1.errored:
            raise Violation("%s failed although the buffer has exactly the advertised size" % w, kind="size-write-mismatch",
                            N=N, pack=pack, in_subgroup=insub, size=size, full=N * L, shape=_shape(a, p_))
        got = res.dumps[buf]
        if got[:size] != want:
            alt = None
            if N == 2 and pack and insub:
                alt = rc.fp2_pack_enc(tuple(a), p_, L, x.qnr, _fp2_internal_sign(F))
            if alt is not None and got[:size] == alt:
                parity = _parity_violation(w, got[size - 1], want[-1], alt[-1])
            else:
                raise Violation("%s: bytes differ from the reference encoding" % w, got=got[:size], want=want, kind="wrong-encoding",
                                N=N, pack=pack, in_subgroup=insub)
        if not tail_ok(got, size, fillb):
            raise Violation("%s: bytes after the encoding are neither zero nor untouched" % w, got=got)
        if sa in c1.changed:
            raise Violation("%s modified its input" % w)
        if n == size:
            chk_ub(c2, fr)
            if c2.errored:
                raise Violation("%s(%s(a)) reported an error" % (fr, fw), kind="roundtrip-error", N=N, pack=pack, in_subgroup=insub,
                                a=a, e=c2.e, shape=_shape(a, p_))
            back = fpx_dump(F, res.dumps[sb], N, fr)
            if back != list(a):
                raise Violation("%s(%s(a)) != a" % (fr, fw), got=back, want=list(a), kind="roundtrip-differs", N=N, pack=pack,
                                in_subgroup=insub, shape=_shape(a, p_))
        return ["fpx:enc:%s" % ("exact" if n == size else "longer")]

    if mode == "plain-enc":
        N, a = case["N"], [v % p_ for v in case["a"]]
        fs, fw, fr = _fpx_names(N, case["api"], d["ops"])
        size = N * L
        res, sa = pcctx.run(env, cfg, x, lambda p: (lambda s_: (p.call(fs, s_, 0), s_)[1])(fpx_slot(p, F, a)), pz)
        c0 = res.calls[0]
        chk_ok(c0, fs)
        if c0.ret_i(0) != size:
            raise Violation("%s(pack=0) wrong" % fs, got=c0.ret_i(0), want=size)
        n = blen(size, case["delta"])
        l2 = write_read(N, a, 0, size, n, rc.flat_enc(a, p_, L), False, "a degree-%d element" % N)
        if parity:
            raise parity
        return n != size, lab + l2 + ["fpx:N=%d" % N]
    if mode == "plain-dec":
        N, a, m = case["N"], [v % p_ for v in case["a"]], case["mut"]
        enc = bytearray(rc.flat_enc(a, p_, L))
        k = m["kind"]
        if k == "range":
            i = m["i"]
            muts = coord_mutants(a[i], p_, L)
            if muts:
                enc[i * L:(i + 1) * L] = muts[m["which"] % len(muts)].to_bytes(L, "big")
        elif k == "len":
            how, kk = m["how"], m["k"]
            enc = enc[:max(0, len(enc) - kk)] if how == "cut-tail" else enc[min(kk, len(enc)):] if how == "cut-head" else \
                enc + m["junk"] if how == "append" else bytearray(m["junk"]) + enc
        elif k == "bitflip":
            i = m["bit"] % (8 * len(enc))
            enc[i // 8] ^= 1 << (i % 8)
        elif k == "raw":
            enc = bytearray(m["data"])
            if m["reduce"] and len(enc) % L == 0:
                enc = bytearray(b"".join((int.from_bytes(enc[j:j + L], "big") % p_).to_bytes(L, "big") for j in range(0, len(enc), L)))
        return fpx_decode_case(env, cfg, x, d, case, N, bytes(enc), k, lab)
    e = case.get("e")
    N, a, insub = fpx_element(x, d, e)
    lab.append("fpx:elem=%s" % e["kind"])
    if mode == "pack-enc":
        fs, fw, fr = _fpx_names(N, case["api"], d["ops"])
        if N == 2:
            psize = L + 1
            want = rc.fp2_pack_enc(tuple(a), p_, L, x.qnr) if insub else rc.flat_enc(a, p_, L)
        elif N == 12:
            psize = 8 * L
            want = rc.fp12_pack_enc(d["cyc"], x.F12.unflatten(a), p_, L) if insub else rc.flat_enc(a, p_, L)
        else:
            psize, want = None, None
        res, sa = pcctx.run(env, cfg, x, lambda p: (lambda s_: (p.call(fs, s_, 1), s_)[1])(fpx_slot(p, F, a)), pz)
        c0 = res.calls[0]
        chk_ok(c0, fs)
        size = c0.ret_i(0)
        lab.append("fpx:in-subgroup=%d" % insub)
        if N == 8:
            # no packed fp8 format is defined by a reader: the only contract is that the advertised size works
            if size not in (4 * L, 8 * L):
                raise Violation("fp8_size_bin(pack=1) is neither 4L nor 8L", got=size)
            want = rc.flat_enc(a, p_, L) if size == 8 * L else None
            n = blen(size, case["delta"])
            if want is None:
                # 4L advertised: whatever the bytes are, writing into 4L bytes must work and read back
                fs, fw, fr = _fpx_names(8, "fp", d["ops"])

                def build(p):
                    sa_ = fpx_slot(p, F, a)
                    buf = p.buf(bytes([fillb]) * size)
                    p.call(fw, buf, sa_, 1)
                    p.dump(buf)
                    sb = fpx_slot(p, F, [7] * 8)
                    p.call(fr, sb, buf)
                    p.dump(sb)
                    return sb
                res, sb = pcctx.run(env, cfg, x, build, pz)
                c1, c2 = res.calls
                chk_ub(c1, fw)
                if c1.errored or c2.errored:
                    raise Violation("fp8_size_bin(a, pack=1) advertises %d bytes for a cyclotomic element but fp8_write_bin / "
                                    "fp8_read_bin refuse that length" % size, kind="size-write-mismatch", N=8, pack=1,
                                    in_subgroup=insub, size=size, write_failed=bool(c1.errored), read_failed=bool(c2.errored))
                if fpx_dump(F, res.dumps[sb], 8, fr) != list(a):
                    raise Violation("fp8_read_bin(fp8_write_bin(a, pack=1)) != a", kind="roundtrip-differs", N=8, pack=1, in_subgroup=insub)
                return True, lab + ["fpx:fp8-packed"]
            l2 = write_read(8, a, 1, size, n, want, insub, e["kind"])
            return True, lab + l2
        rsize = psize if insub else N * L
        if size != rsize:
            raise Violation("%s(pack=1) wrong: %d for an element %s the compressible subgroup" % (fs, size, "in" if insub else "outside"),
                            got=size, want=rsize, kind="wrong-size", N=N, in_subgroup=insub, elem=e["kind"], shape=_shape(a, p_))
        n = blen(size, case["delta"])
        l2 = write_read(N, a, 1, size, n, want, insub, e["kind"])
        if parity:
            raise parity
        return True, lab + l2
    if mode == "pack-dec":
        m = case["mut"]
        k = m["kind"]
        if N == 2:
            base = rc.fp2_pack_enc(tuple(a), p_, L, x.qnr) if insub else (a[0] % p_).to_bytes(L, "big") + b"\0"
            enc = bytearray(base)
            if k == "perturb":
                enc[:L] = ((a[0] + m["add"]) % p_).to_bytes(L, "big")
            elif k == "range":
                muts = coord_mutants(a[0], p_, L)
                enc[:L] = muts[m["which"] % len(muts)].to_bytes(L, "big")
            elif k == "sign-byte":
                enc[L] = m["byte"]
            elif k == "zeros":
                enc = bytearray(L + 1)
            elif k == "raw":
                enc[:L] = m["vals"][0].to_bytes(L, "big")
                enc[L] = m["byte"] & 1
        else:
            comp = [c for e2 in d["cyc"].compress(x.F12.unflatten(a)) for c in e2]
            if k == "perturb":
                comp[m["i"]] = (comp[m["i"]] + m["add"]) % p_
            elif k == "zeros":
                comp = [0] * 8
            elif k == "raw":
                comp = list(m["vals"])
            enc = bytearray(rc.flat_enc(comp, p_, L))
            if k == "range":
                muts = coord_mutants(comp[m["i"]], p_, L)
                enc[m["i"] * L:(m["i"] + 1) * L] = muts[m["which"] % len(muts)].to_bytes(L, "big")
            elif k == "sign-byte":
                enc[-1] ^= m["byte"]
        return fpx_decode_case(env, cfg, x, d, case, N, bytes(enc), "packed-" + k, lab)
    # in-memory compression: fpN_pck / fpN_upk (and the torus form fp12_pck_max / fp12_upk_max)
    fn = case["fn"] if N == 12 else "pck"
    fpck, fupk = "fp%d_%s" % (N, fn), "fp%d_%s" % (N, fn.replace("pck", "upk"))
    if not insub:
        raise Unsupported()

    def build(p):
        sa = fpx_slot(p, F, a)
        sc = fpx_slot(p, F, [7] * N)
        p.call(fpck, sc, sa)
        p.dump(sc)
        su = fpx_slot(p, F, [9] * N)
        p.call(fupk, su, sc)
        p.dump(su)
        return sa, sc, su
    res, (sa, sc, su) = pcctx.run(env, cfg, x, build, pz)
    c0, c1 = res.calls
    what = "%s(%s(a)) for %s" % (fupk, fpck, e["kind"])
    chk_ub(c0, fpck)
    chk_ub(c1, fupk)
    if c0.errored or c1.errored:
        raise Violation("%s reported an error for an element of the compressible subgroup" % what, kind="pck-error", elem=e["kind"],
                        fn=fn, N=N, pck_failed=bool(c0.errored), shape=_shape(a, p_))
    back = fpx_dump(F, res.dumps[su], N, what)
    if c1.ret_i(0) != 1 or back != list(a):
        raise Violation("%s != a (ret=%d)" % (what, c1.ret_i(0)), kind="pck-roundtrip", elem=e["kind"], fn=fn, N=N, got=back, want=list(a),
                        ret=c1.ret_i(0), shape=_shape(a, p_))
    comp = fpx_dump(F, res.dumps[sc], N, fpck)
    if N == 12 and fn == "pck":
        if comp[0:2] != [0, 0] or comp[8:10] != [0, 0] or comp[2:8] != list(a[2:8]) or comp[10:12] != list(a[10:12]):
            raise Violation("fp12_pck: compressed form is not a with a[0][0] = a[1][1] = 0", got=comp)
        if case["bad"]:
            # a compressed-form input without cyclotomic completion must be refused
            bad = list(comp)
            i = [2, 3, 4, 5, 6, 7, 10, 11][case["i"]]
            bad[i] = (bad[i] + 1) % p_
            cmp_ = [(bad[2], bad[3]), (bad[4], bad[5]), (bad[6], bad[7]), (bad[10], bad[11])]
            if d["cyc"].decompress(cmp_) is None:
                res, su = pcctx.run(env, cfg, x, lambda p: (lambda s1, s2: (p.call("fp12_upk", s2, s1), s2)[1])(
                    fpx_slot(p, F, bad), fpx_slot(p, F, [9] * 12)), pz)
                c2 = res.calls[0]
                chk_ub(c2, "fp12_upk")
                if not c2.errored and c2.ret_i(0) != 0:
                    raise Violation("fp12_upk reported success for a compressed form that has no cyclotomic completion",
                                    kind="accepted-invalid", ret=c2.ret_i(0))
                lab.append("fpx:upk:invalid-refused")
    return True, lab + ["fpx:fn=%s" % fn]


def fpx_decode_case(env, cfg, x, d, case, N, data, mutkind, lab):
    F, L = x.F, d["L"]
    p_ = F.p
    pz = case["poison"]
    fillb = (pz ^ 0x3C) | 1
    fs, fw, fr = _fpx_names(N, case["api"], d["ops"])
    ok, ref, packed = fpx_ref_decode(x, d, N, data)

    def build(p):
        buf = p.buf(data)
        sb = fpx_slot(p, F, [7] * N)
        p.call(fr, sb, buf)
        p.dump(sb)
        out = p.buf(bytes([fillb]) * len(data))
        p.call(fw, out, sb, 1 if packed else 0)
        p.dump(out)
        return buf, sb, out
    res, (buf, sb, out) = pcctx.run(env, cfg, x, build, pz)
    c0, c1 = res.calls
    what = "%s(%s, len=%d)" % (fr, mutkind, len(data))
    lab = lab + ["fpx:N=%d" % N, "fpx:dec:%s" % mutkind, "fpx:dec:ref-%s" % ("accepts" if ok else "rejects:" + ref)]
    if packed:
        lab.append("fpx:dec:packed-length")
    if not ok:
        chk_ub(c0, what)
        if not c0.errored:
            got = None
            try:
                got = fpx_dump(F, res.dumps[sb], N, what)
            except Violation:
                pass
            raise Violation("%s accepted an input it must reject (reference: %s)" % (what, ref), kind="accepted-invalid", why=ref,
                            N=N, packed=packed, decoded=got, data=data)
        return True, lab
    chk_ub(c0, what)
    if c0.errored:
        return False, lab + ["fpx:dec:library-stricter"]
    got = fpx_dump(F, res.dumps[sb], N, what)
    parity = None
    if got != list(ref):
        if N == 2 and packed and got[0] == ref[0] and got[1] == (-ref[1]) % p_:
            parity = _parity_violation(what, data[-1], got[1] & 1, data[-1])
        else:
            raise Violation("%s decoded a different element than the reference" % what, got=got, want=list(ref), kind="wrong-decode",
                            N=N, packed=packed, data=data)
    chk_ub(c1, fw)
    if c1.errored or res.dumps[out] != data:
        raise Violation("%s(%s(b)) != b (or failed) at the same length / format" % (fw, fr), got=res.dumps[out], want=data,
                        kind="reencode-differs", N=N, packed=packed, failed=bool(c1.errored))
    if parity:
        raise parity
    return mutkind != "valid", lab



# ------------------------------------------------------------------------------------------ binary fields / curves

_EB = {}


class EbCtx:
    pass


def eb_discover(env, cfg):
    if cfg in _EB:
        return _EB[cfg]
    r = env.runner(cfg)
    if "c07_eb_read" not in r.ops():
        raise Unsupported()
    inf = r.info("c07_eb_info")
    bits, L, digs, db = inf[0], inf[1], inf[2], inf[3]
    fbb = digs * db
    out = []
    fields = {}
    for cid in range(1, 40):
        p = Prog()
        p.call("c07_eb_param_set", cid)
        p.call("c07_eb_params")
        res = probe(r, p)
        if res.calls[0].errored or res.calls[1].errored:
            continue
        c1 = res.calls[1]
        v = [int.from_bytes(b, "little") for b in c1.blobs]
        poly, a, b, gx, gy, n, h = v
        if poly.bit_length() - 1 != bits:
            continue
        e = EbCtx()
        e.cid, e.L, e.fbb, e.bits = cid, L, fbb, bits
        e.K = fields.setdefault(poly, rc.GF2m(poly))
        e.E = rc.BinCurve(e.K, a, b)
        e.G, e.n, e.h, e.kbltz = (gx, gy), n, h, c1.rets[0]
        e.BASIC, e.PROJC, e.EB_ADD = inf[4], inf[5], inf[6]
        e.C = rc.BinCodec(e.E, L)
        if not e.E.on_curve(e.G):
            raise Violation("binary curve %d: generator not on the curve (reference check)" % cid, cid=cid)
        e.small = {0: None, 1: e.G}
        e.special = []
        out.append(e)
    _EB[cfg] = dict(curves=out, cur=None)
    return _EB[cfg]


def eb_pick(env, cfg):
    cs = eb_discover(env, cfg)["curves"]
    if not cs:
        raise Unsupported()
    return cs[env.job_seed % len(cs)]


def eb_curve(env, cfg, cid):
    for e in eb_discover(env, cfg)["curves"]:
        if e.cid == cid:
            return e
    raise Unsupported()


def eb_small(e, k):
    while len(e.small) <= k:
        i = len(e.small)
        e.small[i] = e.E.add(e.small[i - 1], e.G)
    return e.small[k]


def eb_special(e):
    if not e.special:
        K, E = e.K, e.E
        P0 = E.lift_x(0, 0)                           # the point of order two (0, sqrt(b))
        e.special.append(P0)
        for x0 in [1, 2, 3, 4, 5, 6, 7, (1 << (e.bits - 1)), (1 << e.bits) - 1, (1 << e.bits) - 2, (1 << e.bits) - 3, 0x10001]:
            for bit in (0, 1):
                P = E.lift_x(x0, bit)
                if P is not None:
                    e.special.append(P)
    return e.special


def eb_point(e, spec):
    k = spec["kind"]
    E = e.E
    if k == "inf":
        return None
    if k == "mul":
        m = spec["k"]
        P = eb_small(e, min(abs(m), 40) if abs(m) <= 40 else abs(m) % 41)
        return E.neg(P) if m < 0 else P
    if k == "special":
        sp = eb_special(e)
        return sp[spec["i"] % len(sp)]
    x = int.from_bytes(spec["seed"], "little") & ((1 << e.bits) - 1)
    while True:
        P = E.lift_x(x, 1 if spec["neg"] else 0)
        if P is not None:
            return P
        x = (x + 1) & ((1 << e.bits) - 1)


def eb_run(env, cfg, e, build, pz):
    ctx = eb_discover(env, cfg)
    r = env.runner(cfg)
    p = Prog(poison=pz)
    key = r.epoch()
    skip = 0
    if ctx["cur"] != (key, e.cid):
        p.call("c07_eb_param_set", e.cid)
        ctx["cur"] = (key, e.cid)
        skip = 1
    meta = build(p)
    try:
        res = r.run(p)
    except Exception:
        ctx["cur"] = None
        raise
    if res.failed_new:
        raise Unsupported()
    res.calls = res.calls[skip:]
    return res, meta


def eb_raw(e, v):
    return v.to_bytes(e.fbb, "little")


def eb_set(p, e, P, rep):
    """c07_eb_set from an affine point (or the identity) in the requested representation"""
    K = e.K
    if P is None:
        x, y, z, coord = (0, 0, 0, e.BASIC) if rep["inf"] == 0 else (1, 1, 0, e.PROJC)
    elif rep["kind"] == "basic":
        x, y, z, coord = P[0], P[1], 1, e.BASIC
    else:
        z = (rep["z"][0] & ((1 << e.bits) - 1)) or 1
        # Lopez-Dahab projective coordinates: x = X/Z, y = Y/Z^2
        x, y, coord = K.mul(P[0], z), K.mul(P[1], K.sqr(z)), e.PROJC
    sx, sy, sz = p.buf(eb_raw(e, x)), p.buf(eb_raw(e, y)), p.buf(eb_raw(e, z))
    p.call("c07_eb_set", sx, sy, sz, coord)


def eb_dumped(e, call, what):
    """affine point from a c07_eb_dump call; coordinates must be reduced"""
    x, y, z = (int.from_bytes(b, "little") for b in call.blobs[:3])
    for nm, v in (("x", x), ("y", y), ("z", z)):
        if v >> e.bits:
            raise Violation("%s: coordinate %s is not a reduced field element (degree >= m)" % (what, nm), kind="accepted-invalid",
                            why="range", value=v)
    if z == 0:
        return None
    if call.rets[0] == e.BASIC:
        if z != 1:
            raise Violation("%s: point tagged affine with z != 1" % what, z=z)
        return (x, y)
    zi = e.K.inv(z)
    return (e.K.mul(x, zi), e.K.mul(y, e.K.sqr(zi)))


def strat_eb(env, cfg):
    e = eb_pick(env, cfg)
    L, bits = e.L, e.bits

    @st.composite
    def s(draw):
        mode = draw(st.sampled_from(["enc", "dec", "dec", "dec", "upk", "fb-enc", "fb-dec", "fb-str", "fb-str"]))
        c = dict(cid=e.cid, mode=mode, poison=draw(st.integers(0, 255)))
        if mode in ("enc", "dec", "upk"):
            c["pt"] = draw(point_spec(e.n, 40))
            c["pack"] = draw(st.integers(0, 1))
        if mode == "enc":
            c["rep"] = dict(kind=draw(st.sampled_from(["basic", "basic", "projc" if e.EB_ADD == e.PROJC else "basic"])),
                            z=[draw(ints.uniform(2, (1 << bits) - 1))], inf=draw(st.integers(0, 1)))
            c["delta"] = draw(st.sampled_from(DELTAS))
        elif mode == "dec":
            c["mut"] = draw(point_mutation(L, L, 1 << bits, 1))
            c["other"] = draw(st.integers(1, 16))
        elif mode == "upk":
            c["x"] = draw(st.one_of(st.none(), ints.uniform(0, (1 << bits) - 1), st.sampled_from([0, 1, 2, (1 << bits) - 1])))
            c["bit"] = draw(st.integers(0, 1))
        elif mode == "fb-enc":
            c["a"] = draw(st.one_of(ints.uniform(0, (1 << bits) - 1), st.sampled_from([0, 1, (1 << bits) - 1, 1 << (bits - 1)])))
            c["delta"] = draw(st.sampled_from(DELTAS + [L]))
        elif mode == "fb-dec":
            k = draw(st.integers(0, 4))
            if k == 0:
                n = draw(bytes_near(L, 2 * L + 3))
                c["data"] = draw(st.binary(min_size=n, max_size=n))
            else:
                v = draw(ints.uniform(0, (1 << bits) - 1))
                if k == 1:
                    v |= draw(st.integers(1, (1 << (8 * L - bits)) - 1)) << bits      # bits above the field degree
                elif k == 2:
                    v = draw(st.sampled_from([1 << bits, (1 << (8 * L)) - 1, (1 << bits) | 1, 1 << (8 * L - 1)]))
                c["data"] = v.to_bytes(L, "big")
        else:
            c["radix"] = draw(st.one_of(st.sampled_from([2, 4, 8, 16, 32, 64]), st.sampled_from([2, 16, 64, 3, 10, 36, 0, 1, 65, 128])))
            c["a"] = draw(st.one_of(ints.uniform(0, (1 << bits) - 1), st.sampled_from([0, 1, (1 << bits) - 1, 1 << (bits - 1)]),
                                    text_value(16, bits)))
            c["sub"] = draw(st.sampled_from(["write", "write", "read", "read-long"]))
            c["delta"] = draw(st.sampled_from(DELTAS))
            c["extra"] = draw(st.integers(1, 40))
        return c
    return s()


def run_eb(env, cfg, case):
    e = eb_curve(env, cfg, case["cid"])
    L, C, E, K = e.L, e.C, e.E, e.K
    mode, pz = case["mode"], case["poison"]
    fillb = (pz ^ 0x3C) | 1
    lab = ["eb:%s" % mode, "eb:cid=%d" % e.cid]
    top = 1 << e.bits
    if mode == "enc":
        P = eb_point(e, case["pt"])
        pack, rep = case["pack"], case["rep"]
        size = C.size(P, pack)
        n = blen(size, case["delta"])

        def build(p):
            eb_set(p, e, P, rep)
            p.call("c07_eb_size", pack)
            buf = p.buf(bytes([fillb]) * n)
            p.call("c07_eb_write", buf, pack)
            p.dump(buf)
            p.call("c07_eb_read", buf)
            p.call("c07_eb_dump")
            return buf
        res, buf = eb_run(env, cfg, e, build, pz)
        cs, c0, c1, c2, c3 = res.calls
        chk_ok(cs, "c07_eb_set")
        chk_ok(c0, "eb_size_bin")
        lab += ["eb:pack=%d" % pack, "eb:rep=%s" % rep["kind"], "eb:pt=%s" % (case["pt"]["kind"] if P is not None else "inf")]
        if P is not None and P[0] == 0:
            lab.append("eb:x=0")
        if c0.rets[0] != size:
            raise Violation("eb_size_bin wrong", got=c0.rets[0], want=size, pack=pack)
        if n < size:
            chk_rejected(c1, "eb_write_bin(len=%d < size=%d)" % (n, size), [NOBUF], "buffer too short")
            return True, lab + ["eb:enc:short"]
        what = "eb_write_bin(pack=%d, len=size%+d)" % (pack, n - size)
        chk_ub(c1, what)
        if c1.errored:
            raise Violation("%s reported an error for a valid point" % what, kind="error-on-valid", x_is_zero=bool(P and P[0] == 0), pack=pack)
        got = res.dumps[buf]
        want = C.enc(P, pack)
        if got[:size] != want:
            raise Violation("%s: bytes differ from the reference encoding" % what, got=got[:size], want=want, kind="wrong-encoding",
                            x_is_zero=bool(P and P[0] == 0), pack=pack)
        if not tail_ok(got, size, fillb):
            raise Violation("%s: bytes after the encoding are neither zero nor untouched" % what, got=got)
        if n == size:
            chk_ub(c2, "eb_read_bin")
            if c2.errored:
                raise Violation("eb_read_bin(eb_write_bin(P)) reported an error", kind="roundtrip-error",
                                x_is_zero=bool(P and P[0] == 0), pack=pack)
            Q = eb_dumped(e, c3, "eb_read_bin(eb_write_bin(P))")
            if Q != P:
                raise Violation("eb_read_bin(eb_write_bin(P)) != P", got=Q, want=P, pack=pack)
        return (n != size or pack == 1), lab + ["eb:enc:%s" % ("exact" if n == size else "longer")]
    if mode == "dec":
        P = eb_point(e, case["pt"])
        pack, mut = case["pack"], case["mut"]
        other = eb_small(e, case["other"] + 20)

        def negfn(xb, yb):
            return (int.from_bytes(xb, "big") ^ int.from_bytes(yb, "big")).to_bytes(L, "big")
        data = apply_mutation(mut, C.enc(P, pack), C.enc(other, 0), L, L, top, 1,
                              lambda v: (v[0] & (top - 1)).to_bytes(L, "big"), negfn)
        ok, Pref = C.dec(data)
        repack = 1 if len(data) == 1 + L else 0

        def build(p):
            buf = p.buf(data)
            p.call("c07_eb_read", buf)
            p.call("c07_eb_dump")
            out = p.buf(bytes([fillb]) * len(data))
            p.call("c07_eb_write", out, repack)
            p.dump(out)
            return out
        res, out = eb_run(env, cfg, e, build, pz)
        c0, c1, c2 = res.calls
        what = "eb_read_bin(%s, len=%d)" % (mut["kind"], len(data))
        lab += ["eb:dec:%s" % mut["kind"], "eb:dec:ref-%s" % ("accepts" if ok else "rejects:" + Pref)]
        chk_ub(c0, what)
        if not ok:
            if not c0.errored:
                raise Violation("%s accepted an input it must reject (reference: %s)" % (what, Pref), kind="accepted-invalid",
                                why=Pref, data=data)
            return True, lab
        if c0.errored:
            return False, lab + ["eb:dec:library-stricter" + (":x=0" if Pref is not None and Pref[0] == 0 else "")]
        Q = eb_dumped(e, c1, what)
        if not E.on_curve(Q):
            raise Violation("%s accepted a point that is not on the curve" % what, point=Q, data=data, kind="accepted-invalid", why="offcurve")
        if Q != Pref:
            raise Violation("%s decoded a different point than the reference" % what, got=Q, want=Pref, data=data)
        chk_ok(c2, "eb_write_bin(eb_read_bin(b))")
        if res.dumps[out] != data:
            raise Violation("eb_write_bin(eb_read_bin(b)) != b", got=res.dumps[out], want=data)
        return mut["kind"] != "valid", lab
    if mode == "upk":
        x = case["x"]
        if x is None:
            P = eb_point(e, case["pt"])
            if P is None:
                raise Unsupported()
            x, bit = P[0], E.ybit(P)
        else:
            bit = case["bit"]
        Pref = E.lift_x(x, bit)
        if x == 0:
            raise Unsupported()       # x = 0 is covered through the codecs (library-stricter / x=0 labels)

        def build(p):
            sx = p.buf(eb_raw(e, x))
            p.call("c07_eb_upk", sx, bit)
            p.call("c07_eb_dump")
        res, _ = eb_run(env, cfg, e, build, pz)
        c0, c1 = res.calls
        chk_ok(c0, "eb_upk")
        lab.append("eb:upk:%s" % ("point" if Pref is not None else "no-point"))
        if bool(c0.rets[0]) != (Pref is not None):
            raise Violation("eb_upk returned %d for an x with %s point above it" % (c0.rets[0], "a" if Pref else "no"), x=x)
        if Pref is not None:
            Q = eb_dumped(e, c1, "eb_upk")
            if Q != Pref:
                raise Violation("eb_upk: wrong point (y~ is the low bit of y/x)", got=Q, want=Pref)
        return True, lab
    if mode == "fb-enc":
        a = case["a"]
        n = blen(L, case["delta"])

        def build(p):
            sa = p.buf(eb_raw(e, a))
            buf = p.buf(bytes([fillb]) * n)
            p.call("c07_fb_write_bin", buf, sa)
            p.dump(buf)
            p.call("c07_fb_read_bin", buf)
            return buf
        res, buf = eb_run(env, cfg, e, build, pz)
        c0, c1 = res.calls
        if n != L:
            chk_rejected(c0, "fb_write_bin(len=%d != %d)" % (n, L), [NOBUF], "length is not RLC_FB_BYTES")
            return True, lab + ["eb:fb-enc:%s" % ("short" if n < L else "longer")]
        chk_ok(c0, "fb_write_bin")
        if res.dumps[buf] != a.to_bytes(L, "big"):
            raise Violation("fb_write_bin: bytes differ from the big-endian bit string", got=res.dumps[buf], want=a.to_bytes(L, "big"))
        chk_ok(c1, "fb_read_bin")
        if int.from_bytes(c1.blobs[0], "little") != a:
            raise Violation("fb_read_bin(fb_write_bin(a)) != a", got=int.from_bytes(c1.blobs[0], "little"), want=a)
        return True, lab + ["eb:fb-enc:exact"]
    if mode == "fb-dec":
        data = case["data"]
        ok, v = C.fd(data)

        def build(p):
            buf = p.buf(data)
            p.call("c07_fb_read_bin", buf)
        res, _ = eb_run(env, cfg, e, build, pz)
        c0 = res.calls[0]
        what = "fb_read_bin(len=%d)" % len(data)
        lab.append("eb:fb-dec:ref-%s" % ("accepts" if ok else "rejects:" + v))
        chk_ub(c0, what)
        if not ok:
            if not c0.errored:
                raise Violation("%s accepted an input it must reject (reference: %s)" % (what, v), kind="accepted-invalid", why=v,
                                fb=True, data=data)
            return True, lab
        if c0.errored:
            return False, lab + ["eb:fb-dec:library-stricter"]
        if int.from_bytes(c0.blobs[0], "little") != v:
            raise Violation("fb_read_bin: wrong element", got=int.from_bytes(c0.blobs[0], "little"), want=v)
        return False, lab
    # text
    radix, a, sub = case["radix"], case["a"], case["sub"]
    alpha = bn_info(env, cfg)["alpha"]
    valid = radix in (2, 4, 8, 16, 32, 64)
    lab.append("eb:fb-str:%s:%s" % (sub, "radix-ok" if valid else "radix-invalid"))
    if not valid:
        def build(p):
            sa = p.buf(eb_raw(e, a))
            p.call("c07_fb_size_str", sa, radix)
            buf = p.buf(bytes([fillb]) * 400)
            p.call("c07_fb_write_str", buf, sa, radix)
            tb = p.buf(b"101\0")
            p.call("c07_fb_read_str", tb, radix, 4)
        res, _ = eb_run(env, cfg, e, build, pz)
        for c_, nm in zip(res.calls, ("fb_size_str", "fb_write_str", "fb_read_str")):
            chk_rejected(c_, "%s(radix=%d)" % (nm, radix), [NOVALID], "radix is not a power of two in 2..64")
        return True, lab
    text = rc.to_radix(a, radix, alpha)
    need = len(text) + 1
    if sub == "write":
        res, _ = eb_run(env, cfg, e, lambda p: p.call("c07_fb_size_str", p.buf(eb_raw(e, a)), radix), pz)
        c0 = res.calls[0]
        chk_ok(c0, "fb_size_str")
        size = c0.rets[0]
        if size < need or size > need + 8:
            raise Violation("fb_size_str is not digits + NUL", got=size, want=need, a=a, radix=radix)
        n = blen(size, case["delta"])

        def build(p):
            sa = p.buf(eb_raw(e, a))
            buf = p.buf(bytes([fillb]) * n)
            p.call("c07_fb_write_str", buf, sa, radix)
            p.dump(buf)
            p.call("c07_fb_read_str", buf, radix, need)
            return buf
        res, buf = eb_run(env, cfg, e, build, pz)
        c1, c2 = res.calls
        if n < size and not (n >= need and not c1.errored):
            chk_rejected(c1, "fb_write_str(len=%d < size_str=%d)" % (n, size), [NOBUF], "buffer too short")
            return True, lab + ["eb:fb-str:short"]
        chk_ok(c1, "fb_write_str(radix=%d)" % radix)
        got = res.dumps[buf]
        if got[:need] != text.encode() + b"\0":
            raise Violation("fb_write_str: not the positional notation of the bit string", got=got[:need + 2], want=text, a=a, radix=radix)
        chk_ok(c2, "fb_read_str")
        if int.from_bytes(c2.blobs[0], "little") != a:
            raise Violation("fb_read_str(fb_write_str(a)) != a", got=int.from_bytes(c2.blobs[0], "little"), want=a, radix=radix)
        return True, lab
    n = a if sub == "read" else (a | (1 << (e.bits + case["extra"] - 1)))
    text = rc.to_radix(n, radix, alpha)
    res, _ = eb_run(env, cfg, e, lambda p: p.call("c07_fb_read_str", p.buf(text.encode() + b"\0"), radix, len(text) + 1), pz)
    c0 = res.calls[0]
    what = "fb_read_str(radix=%d, %d bits)" % (radix, n.bit_length())
    if n >> e.bits:
        chk_ub(c0, what)
        if not c0.errored:
            raise Violation("%s accepted a value with degree >= m" % what, kind="accepted-invalid", why="range", fb=True, text=text)
        return True, lab + ["eb:fb-str:too-long-rejected"]
    chk_ok(c0, what)
    if int.from_bytes(c0.blobs[0], "little") != n:
        raise Violation("%s: wrong element" % what, got=int.from_bytes(c0.blobs[0], "little"), want=n)
    return True, lab



# ------------------------------------------------------------------------------------------ Edwards curves

_ED = {}


class EdCtx:
    pass


def ed_discover(env, cfg):
    if cfg in _ED:
        return _ED[cfg]
    r = env.runner(cfg)
    if "c07_ed_read" not in r.ops():
        raise Unsupported()
    inf = r.info("c07_ed_info")
    L, fpb, monty = inf[0], inf[1], inf[6]
    out = []
    for cid in range(1, 8):
        p = Prog()
        p.call("c07_ed_param_set", cid)
        p.call("c07_ed_params")
        res = probe(r, p)
        if res.calls[0].errored or res.calls[1].errored:
            continue
        v = [int.from_bytes(b, "little") for b in res.calls[1].blobs]
        prime = v[0]
        e = EdCtx()
        e.cid, e.L, e.fpb, e.p = cid, L, fpb, prime
        e.R = 1 << (8 * fpb)
        e.monty = bool(monty)
        e.Rinv = pow(e.R, -1, prime)
        conv = (lambda z: z * e.Rinv % prime) if monty else (lambda z: z % prime)
        e.E = rc.EdCurve(prime, conv(v[1]), conv(v[2]))
        e.G = (conv(v[3]), conv(v[4]))
        e.n, e.h = v[5], v[6]
        e.BASIC, e.PROJC, e.EXTND, e.ED_ADD = inf[2], inf[3], inf[4], inf[5]
        e.C = rc.EdCodec(e.E, L)
        e.Clib = rc.EdCodec(e.E, L, lambda z, p_, e=e: e.raw(z) & 1)
        if not e.E.on_curve(e.G) or e.E.mul(e.n, e.G) != (0, 1):
            raise Violation("Edwards curve %d: generator / order inconsistent (reference check)" % cid, cid=cid)
        e.small = {0: (0, 1), 1: e.G}
        e.special = None
        out.append(e)
    _ED[cfg] = dict(curves=out, cur=None)
    return _ED[cfg]


def _ed_raw(self, z):
    return z * self.R % self.p if self.monty else z % self.p


EdCtx.raw = _ed_raw


def ed_curve(env, cfg, cid):
    for e in ed_discover(env, cfg)["curves"]:
        if e.cid == cid:
            return e
    raise Unsupported()


def ed_small(e, k):
    while len(e.small) <= k:
        i = len(e.small)
        e.small[i] = e.E.add(e.small[i - 1], e.G)
    return e.small[k]


def ed_special(e):
    if e.special is None:
        p, E = e.p, e.E
        sp = [(0, p - 1)]                                  # order two
        x4 = rfp.sqrt_mod(pow(E.a, -1, p), p)              # order four: (1/sqrt(a), 0)
        if x4 is not None:
            sp += [(x4, 0), ((-x4) % p, 0)]
        for y in list(range(2, 30)) + [p - 2 - i for i in range(20)]:
            for bit in (0, 1):
                P = E.lift_y(y, bit)
                if P is not None:
                    sp.append(P)
        e.special = sp
    return e.special


def ed_point(e, spec):
    k = spec["kind"]
    E = e.E
    if k == "inf":
        return (0, 1)
    if k == "mul":
        m = spec["k"]
        if abs(m) <= 40:
            P = ed_small(e, abs(m))
            return E.neg(P) if m < 0 else P
        return E.mul(m % e.n, e.G)
    if k == "special":
        sp = ed_special(e)
        return sp[spec["i"] % len(sp)]
    y = int.from_bytes(spec["seed"][:40], "little") % e.p
    while True:
        P = E.lift_y(y, 1 if spec["neg"] else 0)
        if P is not None:
            return P
        y = (y + 1) % e.p


def ed_run(env, cfg, e, build, pz):
    ctx = ed_discover(env, cfg)
    r = env.runner(cfg)
    p = Prog(poison=pz)
    key = r.epoch()
    skip = 0
    if ctx["cur"] != (key, e.cid):
        p.call("c07_ed_param_set", e.cid)
        ctx["cur"] = (key, e.cid)
        skip = 1
    meta = build(p)
    try:
        res = r.run(p)
    except Exception:
        ctx["cur"] = None
        raise
    if res.failed_new:
        raise Unsupported()
    res.calls = res.calls[skip:]
    return res, meta


def ed_set(p, e, P, rep):
    pr = e.p
    x, y = P
    if rep["kind"] == "basic":
        X, Y, Z, T, coord = x, y, 1, x * y % pr, e.BASIC
    else:
        Z = rep["z"][0] % pr or 1
        X, Y, T = x * Z % pr, y * Z % pr, x * y * Z % pr
        coord = e.ED_ADD if e.ED_ADD != e.BASIC else e.PROJC
    slots = [p.buf(e.raw(v).to_bytes(e.fpb, "little")) for v in (X, Y, Z, T)]
    p.call("c07_ed_set", slots[0], slots[1], slots[2], slots[3], coord)


def ed_dumped(e, call, what):
    pr = e.p
    vals = []
    for nm, b in zip("xyzt", call.blobs[:4]):
        raw = int.from_bytes(b, "little")
        if raw >= pr and nm != "t":
            raise Violation("%s: coordinate %s not canonical (raw >= p)" % (what, nm), kind="accepted-invalid", why="range", raw=raw)
        vals.append(raw * e.Rinv % pr if e.monty else raw % pr)
    x, y, z, t = vals
    if z == 0:
        raise Violation("%s: z = 0" % what)
    zi = pow(z, -1, pr)
    return (x * zi % pr, y * zi % pr)


def strat_ed(env, cfg):
    cs = ed_discover(env, cfg)["curves"]
    if not cs:
        raise Unsupported()
    e = cs[env.job_seed % len(cs)]
    L, pr = e.L, e.p

    @st.composite
    def s(draw):
        mode = draw(st.sampled_from(["enc", "dec", "dec", "dec", "upk"]))
        c = dict(cid=e.cid, mode=mode, poison=draw(st.integers(0, 255)), pt=draw(point_spec(e.n, 40)), pack=draw(st.integers(0, 1)))
        if mode == "enc":
            c["rep"] = dict(kind=draw(st.sampled_from(["basic", "basic", "proj"])), z=[draw(ints.uniform(2, pr - 1))], inf=0)
            c["delta"] = draw(st.sampled_from(DELTAS))
        elif mode == "dec":
            c["mut"] = draw(point_mutation(L, L, pr, 1))
            c["other"] = draw(st.integers(1, 16))
        else:
            c["y"] = draw(st.one_of(st.none(), ints.uniform(0, pr - 1), st.sampled_from([0, 1, 2, pr - 1])))
            c["bit"] = draw(st.integers(0, 1))
        return c
    return s()


def run_ed(env, cfg, case):
    e = ed_curve(env, cfg, case["cid"])
    L, C, Clib, E, pr = e.L, e.C, e.Clib, e.E, e.p
    mode, pz = case["mode"], case["poison"]
    fillb = (pz ^ 0x3C) | 1
    lab = ["ed:%s" % mode, "ed:cid=%d" % e.cid]
    NEUTRAL = (0, 1)
    parity = None
    P = ed_point(e, case["pt"])
    pack = case["pack"]
    if mode == "enc":
        rep = case["rep"]
        size = C.size(P, pack)
        n = blen(size, case["delta"])

        def build(p):
            ed_set(p, e, P, rep)
            p.call("c07_ed_size", pack)
            buf = p.buf(bytes([fillb]) * n)
            p.call("c07_ed_write", buf, pack)
            p.dump(buf)
            p.call("c07_ed_read", buf)
            p.call("c07_ed_dump")
            return buf
        res, buf = ed_run(env, cfg, e, build, pz)
        cs, c0, c1, c2, c3 = res.calls
        chk_ok(cs, "c07_ed_set")
        chk_ok(c0, "ed_size_bin")
        lab += ["ed:pack=%d" % pack, "ed:rep=%s" % rep["kind"], "ed:pt=%s" % ("neutral" if P == NEUTRAL else case["pt"]["kind"])]
        if c0.rets[0] != size:
            raise Violation("ed_size_bin wrong", got=c0.rets[0], want=size, pack=pack)
        if n < size:
            chk_rejected(c1, "ed_write_bin(len=%d < size=%d)" % (n, size), [NOBUF], "buffer too short")
            return True, lab + ["ed:enc:short"]
        what = "ed_write_bin(pack=%d, len=size%+d)" % (pack, n - size)
        chk_ok(c1, what)
        got = res.dumps[buf]
        want = C.enc(P, pack)
        if got[:size] != want:
            alt = Clib.enc(P, pack)
            if got[:size] == alt:
                parity = _parity_violation(what, got[0], want[0], alt[0])
            else:
                raise Violation("%s: bytes differ from the reference encoding" % what, got=got[:size], want=want)
        if not tail_ok(got, size, fillb):
            raise Violation("%s: bytes after the encoding are neither zero nor untouched" % what, got=got)
        if n == size:
            chk_ok(c2, "ed_read_bin(ed_write_bin(P))")
            Q = ed_dumped(e, c3, "ed_read_bin(ed_write_bin(P))")
            if Q != P:
                raise Violation("ed_read_bin(ed_write_bin(P)) != P", got=Q, want=P, pack=pack)
        if parity:
            raise parity
        return (n != size or pack == 1), lab + ["ed:enc:%s" % ("exact" if n == size else "longer")]
    if mode == "dec":
        mut = case["mut"]
        other = ed_small(e, case["other"] + 20)
        data = apply_mutation(mut, C.enc(P, pack), C.enc(other, 0), L, L, pr, 1, lambda v: rc.fp_enc(v[0] % pr, pr, L))
        ok, Pref = C.dec(data)
        repack = 1 if len(data) == 1 + L else 0

        def build(p):
            buf = p.buf(data)
            p.call("c07_ed_read", buf)
            p.call("c07_ed_dump")
            out = p.buf(bytes([fillb]) * len(data))
            p.call("c07_ed_write", out, repack)
            p.dump(out)
            return out
        res, out = ed_run(env, cfg, e, build, pz)
        c0, c1, c2 = res.calls
        what = "ed_read_bin(%s, len=%d)" % (mut["kind"], len(data))
        lab += ["ed:dec:%s" % mut["kind"], "ed:dec:ref-%s" % ("accepts" if ok else "rejects:" + Pref)]
        chk_ub(c0, what)
        if not ok:
            if not c0.errored:
                Q = None
                try:
                    Q = ed_dumped(e, c1, what)
                except Violation:
                    pass
                raise Violation("%s accepted an input it must reject (reference: %s)" % (what, Pref), kind="accepted-invalid",
                                why=Pref, data=data, decoded=Q, decoded_on_curve=bool(Q and E.on_curve(Q)),
                                x_is_zero=bool(Q and Q[0] == 0))
            return True, lab
        if c0.errored:
            return False, lab + ["ed:dec:library-stricter"]
        Q = ed_dumped(e, c1, what)
        if not E.on_curve(Q):
            raise Violation("%s accepted a point that is not on the curve" % what, point=Q, data=data, kind="accepted-invalid", why="offcurve")
        if Q != Pref:
            if repack and Q == E.neg(Pref):
                parity = _parity_violation(what, data[0], 2 | (Q[0] & 1), data[0])
            else:
                raise Violation("%s decoded a different point than the reference" % what, got=Q, want=Pref, data=data)
        chk_ok(c2, "ed_write_bin(ed_read_bin(b))")
        if res.dumps[out] != data:
            raise Violation("ed_write_bin(ed_read_bin(b)) != b", got=res.dumps[out], want=data)
        if parity:
            raise parity
        return mut["kind"] != "valid", lab
    # ed_upk directly: must report whether an x exists
    y = case["y"]
    if y is None:
        y, bit = P[1], P[0] & 1
    else:
        bit = case["bit"]
    den = (E.d * y * y - E.a) % pr
    xx = None if den == 0 else rfp.sqrt_mod((y * y - 1) * pow(den, -1, pr) % pr, pr)

    def build(p):
        sy = p.buf(e.raw(y).to_bytes(e.fpb, "little"))
        p.call("c07_ed_upk", sy, bit)
        p.call("c07_ed_dump")
    res, _ = ed_run(env, cfg, e, build, pz)
    c0, c1 = res.calls
    chk_ub(c0, "ed_upk")
    lab.append("ed:upk:%s" % ("point" if xx is not None else "no-point"))
    if c0.errored:
        if xx is not None:
            chk_ok(c0, "ed_upk")
        return True, lab + ["ed:upk:error-on-no-point"]
    if bool(c0.rets[0]) != (xx is not None):
        raise Violation("ed_upk returned %d for a y with %s point above it" % (c0.rets[0], "a" if xx is not None else "no"),
                        kind="upk-result-ignored", y=y, has_point=xx is not None, ret=c0.rets[0])
    if xx is not None:
        Q = ed_dumped(e, c1, "ed_upk")
        if Q[1] != y or Q[0] not in (xx, (-xx) % pr):
            raise Violation("ed_upk: wrong point", got=Q, y=y, bit=bit)
        if xx != 0 and (Q[0] & 1) != bit:
            if (e.raw(Q[0]) & 1) == bit:
                raise _parity_violation("ed_upk", 2 | bit, 2 | (Q[0] & 1), 2 | bit)
            raise Violation("ed_upk: root does not match the requested bit", got=Q, y=y, bit=bit)
    return True, lab



# ------------------------------------------------------------------------------------------ libFuzzer campaign

import hashlib
import os
import subprocess

from engine import build as _build

FUZZ_CFG = "fuzz256"
FUZZ_RUNS = {"quick": 200000, "thorough": 3000000}
FUZZ_CAP_S = {"quick": 30, "thorough": 240}
_FZ_SEEN = set()


_FZ_EXE = {}


def fuzz_exe(cfg):
    """path of the fuzz binary; built once per process under an exclusive lock (ensure_fuzz itself takes none, and a
    binary that is re-linked while another worker executes it fails with ETXTBSY)"""
    if cfg not in _FZ_EXE:
        import fcntl
        os.makedirs(_build.bdir(cfg), exist_ok=True)
        with open(os.path.join(_build.bdir(cfg), ".fz_c07.lock"), "w") as lk:
            fcntl.flock(lk, fcntl.LOCK_EX)
            try:
                _FZ_EXE[cfg] = _build.ensure_fuzz(cfg, "fuzz_decode")
            finally:
                fcntl.flock(lk, fcntl.LOCK_UN)
    return _FZ_EXE[cfg]


def _fz_run(cmd, **kw):
    import time as _t
    for i in range(8):
        try:
            return subprocess.run(cmd, **kw)
        except OSError as ex:
            if ex.errno != 26 or i == 7:          # ETXTBSY: another worker is re-linking the binary
                raise
            _t.sleep(3)


def _fuzz_env(ep, eb, twist):
    env = dict(os.environ)
    env["ASAN_OPTIONS"] = "detect_leaks=0:abort_on_error=0:exitcode=77:allocator_may_return_null=1:handle_abort=1:symbolize=1"
    env["UBSAN_OPTIONS"] = "print_stacktrace=1:halt_on_error=1:exitcode=76"
    env["VS_FUZZ_EP"], env["VS_FUZZ_EB"], env["VS_FUZZ_TWIST"] = str(ep), str(eb), str(twist)
    return env


def fuzz_seed_corpus(env, cfg, c, x, e):
    """valid encodings produced by the REFERENCE: O, G, 2G in every format, field elements, numbers, text"""
    out = []
    L = fp_len(env, cfg)
    d = ep_ctx(env, cfg, c)
    for P in (None, c.G, ecctx.small_multiple(c, 2), ecctx.small_multiple(c, 3)):
        for pack in (0, 1):
            out.append(bytes([5]) + d["Clib"].enc(P, pack))
    out.append(bytes([2]) + rc.fp_enc(c.G[0], c.F.p, L))
    out.append(bytes([3]) + rc.flat_enc([c.G[0], c.G[1]], c.F.p, L))
    if x is not None:
        d2 = ep2_ctx(env, cfg, x)
        fx = fpx_ctx(env, cfg, x)
        for P in (None, x.G2, pcctx.small_multiple2(x, 2)):
            for pack in (0, 1):
                out.append(bytes([7]) + d2["C"].enc(P, pack))
        g = x.gt_gen
        out.append(bytes([4]) + rc.flat_enc(x.F12.flatten(g), c.F.p, L))
        out.append(bytes([4]) + rc.fp12_pack_enc(fx["cyc"], g, c.F.p, L))
    if e is not None:
        for P in (None, e.G, eb_small(e, 2)):
            for pack in (0, 1):
                out.append(bytes([8]) + e.C.enc(P, pack))
        out.append(bytes([9]) + e.C.fe(e.G[0]))
    out += [bytes([0]) + bytes.fromhex("00ff0102"), bytes([0]), bytes([1, 14]) + b"-1f3A\0", bytes([1, 62]) + b"zZ+/09\0", bytes([1, 0]) + b"1011\0"]
    return out


def strat_fuzz(env, cfg):
    tier = "thorough"            # the campaign target is only listed for the thorough tier
    exe = fuzz_exe(cfg)
    curves = ecctx.discover(env, cfg)["curves"]
    c = curves[env.job_seed % len(curves)]
    x = None
    if c.is_pairf:
        try:
            x = pcctx.ctx_for(env, cfg, c.cid)
        except Unsupported:
            x = None
    e = None
    try:
        ebs = eb_discover(env, cfg)["curves"]
        e = ebs[env.job_seed % len(ebs)] if ebs else None
    except Unsupported:
        pass
    work = os.path.join(_build.bdir(cfg), "fz_c07", "job-%012x" % env.job_seed)
    corpus, art = os.path.join(work, "corpus"), os.path.join(work, "art")
    os.makedirs(corpus, exist_ok=True)
    os.makedirs(art, exist_ok=True)
    for f in os.listdir(art):
        os.remove(os.path.join(art, f))
    for b in fuzz_seed_corpus(env, cfg, c, x, e):
        open(os.path.join(corpus, "seed-" + hashlib.sha1(b).hexdigest()[:16]), "wb").write(b)
    runs = int(FUZZ_RUNS[tier] * float(os.environ.get("VERIF_FUZZ_SCALE", "1")))
    cap = int(FUZZ_CAP_S[tier] * float(os.environ.get("VERIF_FUZZ_SCALE", "1"))) + 5
    fenv = _fuzz_env(c.cid, e.cid if e else 0, x.ttype if x else 1)
    cmd = [exe, corpus, "-runs=%d" % runs, "-max_total_time=%d" % cap, "-seed=%d" % (env.job_seed & 0x7FFFFFFF or 1),
           "-artifact_prefix=" + art + "/", "-max_len=1024", "-timeout=20", "-rss_limit_mb=3000", "-print_final_stats=1",
           "-use_value_profile=1"]
    # keep going after a finding: every distinct crash becomes a case; known classes are switched off in the target
    stats = dict(execs=0, crashes=0, rounds=0)
    logp = os.path.join(work, "campaign.log")
    for _ in range(6):
        # the library prints every caught error to stderr: keep the log on disk and read only its tail
        with open(logp, "wb") as lf:
            p = _fz_run(cmd, env=fenv, stdout=lf, stderr=subprocess.STDOUT)
        stats["rounds"] += 1
        with open(logp, "rb") as lf:
            lf.seek(max(0, os.path.getsize(logp) - 65536))
            txt = lf.read().decode(errors="replace")
        os.remove(logp)
        for line in txt.splitlines():
            if line.startswith("stat::number_of_executed_units:"):
                stats["execs"] += int(line.split()[-1])
        if p.returncode == 0:
            break
    env.label("fuzz:executions", stats["execs"])
    env.label("fuzz:campaign-rounds", stats["rounds"])
    cases = []
    for f in sorted(os.listdir(art)):
        if f.startswith("crash-") or f.startswith("leak-"):
            cases.append(dict(data=open(os.path.join(art, f), "rb").read(), origin="crash", ep=c.cid, eb=e.cid if e else 0,
                              twist=x.ttype if x else 1))
    env.label("fuzz:crash-artefacts", len(cases))
    files = sorted(os.listdir(corpus))
    env.label("fuzz:corpus-size", len(files))
    # every corpus element already went through the in-target oracle during the campaign; a dozen of them are replayed
    # as ordinary cases to exercise the replay path (start-up of the instrumented binary costs ~1.4 s CPU)
    step = max(1, len(files) // 12)
    for f in files[::step][:12]:
        cases.append(dict(data=open(os.path.join(corpus, f), "rb").read(), origin="corpus", ep=c.cid, eb=e.cid if e else 0,
                          twist=x.ttype if x else 1))
    return st.sampled_from(cases)


def run_fuzz(env, cfg, case):
    """replay one input (crash artefact or corpus element) through the fuzz target's oracle"""
    key = hashlib.sha1(repr((case["ep"], case["eb"], case["twist"])).encode() + case["data"]).digest()
    if key in _FZ_SEEN:
        return False, ["fuzz:duplicate"]
    exe = fuzz_exe(cfg)
    work = os.path.join(_build.bdir(cfg), "fz_c07")
    os.makedirs(work, exist_ok=True)
    path = os.path.join(work, "replay-%d-%s" % (os.getpid(), hashlib.sha1(case["data"]).hexdigest()[:12]))
    open(path, "wb").write(case["data"])
    try:
        try:
            p = _fz_run([exe, path, "-timeout=20"], env=_fuzz_env(case["ep"], case["eb"], case["twist"]), stdout=subprocess.PIPE,
                        stderr=subprocess.STDOUT, timeout=90)
        except subprocess.TimeoutExpired:
            return False, ["inconclusive:timeout"]
    finally:
        try:
            os.remove(path)
        except OSError:
            pass
    txt = p.stdout.decode(errors="replace")
    sel = case["data"][0] % 12 if case["data"] else -1
    if p.returncode != 0:
        why = [l for l in txt.splitlines() if "FUZZ-ORACLE" in l or "ERROR: " in l or "runtime error" in l]
        if "ERROR: libFuzzer: timeout" in txt or "out-of-memory" in txt:
            return False, ["inconclusive:timeout"]
        raise Violation("fuzz_decode (decoder %d): %s" % (sel, why[0] if why else "exit code %d" % p.returncode), kind="fuzz",
                        stderr=txt[-2500:], selector=sel)
    _FZ_SEEN.add(key)
    return case["origin"] == "crash" or sel in (2, 3, 4, 5, 6, 7, 8, 9, 10), ["fuzz:replayed:%s" % case["origin"], "fuzz:decoder=%d" % sel]


# ------------------------------------------------------------------------------------------ registration

def self_test():
    rfp.self_test()
    rec.self_test()
    rext.self_test()
    rc.self_test()


OPTIONAL_CFGS = ["fuzz256", "fb-163", "fb-233", "fb-409", "fb-571", "w32", "fp-basic"]


def _cfgs(quick, thorough):
    return {"quick": quick, "thorough": thorough}


TARGETS = [
    # decoders of structured objects first: under a budget cut the driver runs jobs in list order
    Target("ep", strat_ep, run_ep, _cfgs(["base256"], ["base256", "p255", "p381", "fp-basic"]), quick=26000, thorough=80000),
    Target("fpx", strat_fpx, run_fpx, _cfgs(["base256"], ["base256", "p381"]), quick=16000, thorough=60000),
    Target("ep2", strat_ep2, run_ep2, _cfgs(["base256"], ["base256", "p381"]), quick=10000, thorough=50000),
    Target("eb", strat_eb, run_eb, _cfgs(["base256"], ["base256", "fb-163", "fb-233", "fb-409", "fb-571"]), quick=14000, thorough=40000),
    Target("fp", strat_fp, run_fp, _cfgs(["base256"], ["base256", "p255", "p381", "fp-basic"]), quick=20000, thorough=80000),
    Target("ed", strat_ed, run_ed, _cfgs(["p255"], ["p255"]), quick=8000, thorough=60000),
    # prime-curve and field codecs over 2^255 - 19 in the quick tier as well: floor(R / p) is even there, so the parity of
    # the Montgomery form of 1 differs from all 256-bit primes (the thorough tier has p255 in the main `ep` / `fp` lists)
    Target("ep-255", strat_ep, run_ep, _cfgs(["p255"], []), quick=5000, thorough=1),
    Target("fp-255", strat_fp, run_fp, _cfgs(["p255"], []), quick=3000, thorough=1),
    # 16 libFuzzer campaigns (one per job; the campaign runs while the strategy is built, its crash artefacts and a
    # sample of its corpus are the cases); thorough tier only
    Target("fuzz", strat_fuzz, run_fuzz, _cfgs([], [FUZZ_CFG]), quick=1, thorough=16 * 2500 - 2000),
    # w16 is left out of the text target: arch_lzcnt is wrong for WSIZE=16 (bn_bits(2) = 14), a C01 matter that makes
    # bn_size_str(radix 2) and bn_read_str's capacity estimate meaningless there
    Target("bn-str", strat_bn_str, run_bn_str, _cfgs(["base256", "w8"], ["base256", "w8", "w32"]), quick=17000, thorough=100000),
    Target("bn-bin", strat_bn_bin, run_bn_bin, _cfgs(["base256", "w8"], ["base256", "w8", "w16", "w32"]), quick=14000, thorough=80000),
]


def _kf_internal_parity(case, v, entry):
    """compressed tag / decompressed root follow bit 0 of the internal (Montgomery) representation instead of the
    value's parity: only that exact wrong answer is matched (observed tag == internal-representation tag != SEC1 tag),
    and only after every other check of the case (bytes, round trip, on-curve) has passed."""
    d = v.details
    if d.get("kind") != "tag-from-internal-representation":
        return False
    return d.get("got_tag") == d.get("internal_tag") and d.get("got_tag") != d.get("sec1_tag") and \
        (d.get("got_tag") ^ d.get("sec1_tag")) == 1



def _kf_ep2_y1_zero(case, v, entry):
    """ep2_pck takes the sign from y1 only: for y = (y0, 0) with y0 > (p-1)/2 it reports sign 0 where the decoder (and
    the convention in its own comment) use the sign of y0. Matched: exactly that input class and exactly the answer
    'sign bit 0 instead of 1, everything else right'."""
    d = v.details
    y, p = d.get("y"), d.get("p")
    if d.get("kind") != "ep2-sign" or not y or not p or not d.get("only_sign_wrong"):
        return False
    return y[1] == 0 and y[0] > (p - 1) // 2



def _kf_fp12_identity(case, v, entry):
    """the compressed form of 1 in Fp12 (all zero) cannot be decompressed: fp12_back_cyc inverts zero"""
    d = v.details
    return d.get("N") == 12 and d.get("shape") == "one" and (
        (d.get("kind") == "pck-error" and d.get("fn") == "pck" and not d.get("pck_failed")) or
        (d.get("kind") == "roundtrip-error" and d.get("pack") == 1))


def _kf_fp2_qnr(case, v, entry):
    """fp2_upk solves a1^2 = 1 - a0^2, i.e. assumes i^2 = -1; on a field with another quadratic non-residue every
    packed norm-1 element with a1 != 0 comes back wrong (or as (a0, bit))"""
    d = v.details
    return d.get("N") == 2 and d.get("qnr") not in (None, -1) and d.get("kind") in (
        "roundtrip-differs", "pck-roundtrip", "wrong-decode") and (d.get("pack") == 1 or d.get("packed") or d.get("fn") == "pck")


def _kf_fp2_packed_unchecked(case, v, entry):
    """fp2_read_bin(L+1 bytes) ignores the result of fp2_upk and the value of the sign octet"""
    d = v.details
    return d.get("kind") == "accepted-invalid" and d.get("N") == 2 and d.get("packed") and d.get("why") in ("nosqrt", "tag", "noncanonical")


def _kf_fp12_packed_unchecked(case, v, entry):
    """fp12_read_bin(8L bytes) decompresses without testing that the result is cyclotomic"""
    d = v.details
    return d.get("kind") == "accepted-invalid" and d.get("N") == 12 and d.get("packed") and d.get("why") == "notcyclotomic"


def _kf_fp12_pack_noncyc(case, v, entry):
    """fp12_size_bin(a, 1) = 12L for a non-cyclotomic a, but fp12_write_bin(pack=1) insists on 8L"""
    d = v.details
    return d.get("kind") == "size-write-mismatch" and d.get("N") == 12 and d.get("pack") == 1 and d.get("in_subgroup") is False \
        and d.get("size") == d.get("full")


def _kf_fp8_pack(case, v, entry):
    """fp8_size_bin(a, 1) = 4L for a cyclotomic a, but fp8_write_bin / fp8_read_bin only know 8L"""
    d = v.details
    return d.get("kind") == "size-write-mismatch" and d.get("N") == 8 and d.get("pack") == 1 and d.get("in_subgroup") is True


def _kf_fp12_zero(case, v, entry):
    """fp12_test_cyc(0) = 1 (0 * 0 == 0): zero is treated as compressible"""
    d = v.details
    return d.get("N") == 12 and d.get("shape") == "zero" and d.get("kind") in ("wrong-size", "pck-error", "pck-roundtrip")


def _kf_pck_max_fp6(case, v, entry):
    """fp12_pck_max divides by a1: elements of the cyclotomic subgroup lying in Fp6 (1 and -1) cannot be compressed"""
    d = v.details
    return d.get("N") == 12 and d.get("fn") == "pck_max" and d.get("shape") in ("one", "minus-one") and d.get("kind") in (
        "pck-error", "pck-roundtrip")



def _kf_fb_range(case, v, entry):
    """fb_read_bin copies all 8*RLC_FB_BYTES bits: bits at positions >= m are accepted (also through eb_read_bin)"""
    d = v.details
    return d.get("kind") == "accepted-invalid" and d.get("why") == "range"



def _kf_eb_x_zero(case, v, entry):
    """eb_pck computes y/x: the point of order two (0, sqrt(b)) makes fb_inv(0) fail"""
    d = v.details
    return d.get("kind") in ("error-on-valid", "wrong-encoding", "roundtrip-error") and d.get("x_is_zero") is True and d.get("pack") == 1



def _kf_ed_noncanonical(case, v, entry):
    """ed_read_bin accepts a second encoding of a point with x = 0: the neutral element written as 04||1||0 or 02||1 /
    03||1, and (0, -1) with the sign bit set (03||p-1); re-encoding gives a different string"""
    d = v.details
    return d.get("kind") == "accepted-invalid" and d.get("why") in ("noncanonical", "nosqrt") and d.get("decoded_on_curve") is True \
        and d.get("x_is_zero") is True


KNOWN_PREDICATES = {"ed_x_zero_noncanonical": _kf_ed_noncanonical, "eb_pck_x_zero": _kf_eb_x_zero, "fb_read_bin_unreduced": _kf_fb_range, "tag_from_internal_representation": _kf_internal_parity, "ep2_pck_y1_zero": _kf_ep2_y1_zero,
                    "fp12_identity_compressed": _kf_fp12_identity, "fp2_upk_assumes_qnr_minus_one": _kf_fp2_qnr,
                    "fp2_packed_unchecked": _kf_fp2_packed_unchecked, "fp12_packed_unchecked": _kf_fp12_packed_unchecked,
                    "fp12_pack_noncyclotomic_size": _kf_fp12_pack_noncyc, "fp8_pack_size": _kf_fp8_pack,
                    "fp12_zero_is_cyclotomic": _kf_fp12_zero, "fp12_pck_max_in_fp6": _kf_pck_max_fp6}

"""C12 — subgroup membership tests are exact; group exponentiation is repeated operation (DESIGN §2 C12).

Part 1 (targets valid-g1 / valid-g2 / valid-gt): g1_is_valid, g2_is_valid, gt_is_valid (and fp12_test_cyc) against
the definition evaluated by the Python reference: on the curve, not the identity, [r]P = O  resp.  a != 1, a^r = 1.
Part 2 (targets mul-g1 / mul-g2 / exp-gt / ops-gt): every multiplication / exponentiation form of the three groups
against the reference multiple / power for members of the groups."""
import collections
import hashlib
import json
import math
import struct

from hypothesis import strategies as st

from engine import ecctx, pcctx
from engine import pcctx_g as G
from engine.core import Target, Violation, Unsupported
from engine.gen import ints
from engine.ref import ec as rec
from engine.ref import ext as rext

PROPERTY = "C12"
RULE = ("elements are built by the REFERENCE arithmetic from Hypothesis draws. G1/G2: members = [m]G (m special or uniform) "
        "and cofactor-cleared random points [h]P; identity (two encodings); non-members = random curve/twist points "
        "(x drawn, y by reference square root), [r]P (order dividing the cofactor), points of small prime(-power) order "
        "[hr/q^e]P for the primes q < 2^20 of the curve/twist order (trial division), sums of two such, member + "
        "small-order, member + [r]P, off-curve pairs (random, member with one coordinate disturbed, points of the "
        "curves y^2 = x^3 + b + d, order-r points (t^2 x, t^3 y) of the isomorphic curves y^2 = x^3 + b t^6), affine and projective representations with generated Z. GT: members = products of "
        "reference powers of the library generator, pc_map outputs of reference points; unity, 0; non-members = random "
        "and sparse Fp12 elements, -member, member with one coefficient disturbed, roots of unity of small prime order "
        "in Fp and Fp2 (and times a member), cyclotomic elements f^((p^6-1)(p^2+1)) and their products, elements of "
        "order dividing Phi12(p)/r (cyclotomic^r), elements of small prime order q | Phi12(p)/r, member times each of "
        "these. oracle: verdict == (on curve and != O and [r]P == O) resp. (a != 1 and a^r == 1), fp12_test_cyc == "
        "(a^Phi12(p) == 1), evaluated by the reference for every case; no error, no input modification, poison "
        "independence. Multiplications: members only (plus arbitrary curve points for g?_mul_any), scalars from "
        "G-scalar(r, 1024 bits) (0, +-1, r-1, r, r+1, multiples of r, negative, long, sparse), digits for *_dig, lists "
        "of 0..12 points with repeated points / identities / P = Q / aliasing for the simultaneous forms; oracle = "
        "reference [k]P, sum k_i P_i, a^k, a^b c^d, a^(p^i). non-trivial: a non-member presented to a predicate, or "
        "a multiplication / exponentiation with a scalar outside [0, r) or with an empty / identity-containing list. "
        "thorough tier: the same generators and oracles (targets *-k) on the parameter sets of the other embedding "
        "degrees and field sizes (k = 8 GMT8_P544; k = 16 K16_P330 AFG16_P510 FM16_P765 AFG16_P766; k = 18 K18_P354 "
        "K18_P508 K18_P638 FM18_P768; k = 24 B24_P315 B24_P317 B24_P509; k = 48 B48_P575; k = 12 at 377 / 382 / 455 / 638 "
        "bits), with Phi_k(p), the easy part (p^(k/2) - 1)[(p^(k/6) + 1)], the subfield chain of the tower and the "
        "fpN_test_cyc / fpN_exp_cyc* twins of the degree in place of their k = 12 forms. "
        "distinct = distinct (target, cfg, case) hashes")
ASSUMPTIONS = ["group parameters (generators, r, cofactors, tower non-residues, twist) are read from the library and "
               "sanity-checked by the reference ([r]G = O, generator on curve, g^r = 1); C18 validates them in depth",
               "g?_mul* / gt_exp* are compared only on members (they use order-dependent decompositions by design); "
               "g1_mul_any / g2_mul_any are documented for 'a larger group containing G_i' and are also given arbitrary "
               "curve points, with the scalar not reduced",
               "multiplication inputs are affine (as in C03); predicates are also given projective representations in "
               "the build's coordinate system, because the library's own additions produce them",
               "per-job pools of expensive GT elements (cyclotomic, small order) are derived deterministically from the "
               "job seed recorded in the case, so a replay rebuilds exactly the same element",
               "sweep (k != 12): one parameter set per build configuration (the one pc_param_set_any() installs); "
               "SG54_P569 is not covered (no pairing layer at 569 bits: g2_t / gt_t are the k = 12 types there)"]
BUDGET_S = {"quick": 230, "thorough": 1800}
JOB_SIZE = {"quick": 110, "thorough": 250}
OPTIONAL_CFGS = ["p381-qnres", "pf-383", "pf-446"]


# ------------------------------------------------------------------------------ small helpers

_PRIMES = []


def small_primes(limit=1 << 20):
    global _PRIMES
    if not _PRIMES:
        sieve = bytearray([1]) * (limit + 1)
        sieve[0:2] = b"\0\0"
        for i in range(2, int(limit ** 0.5) + 1):
            if sieve[i]:
                sieve[i * i::i] = bytearray(len(range(i * i, limit + 1, i)))
        _PRIMES = [i for i in range(limit + 1) if sieve[i]]
    return _PRIMES


def small_factors(n):
    """{q: multiplicity} for the primes q < 2^20 of n by trial division; when what is left over is the square of a
    prime below 2^40 (the shape (z-1)^2/3 of BLS cofactors) that prime is reported as well."""
    out = {}
    if n <= 1:
        return out
    for q in small_primes():
        if q * q > n:
            break
        while n % q == 0:
            out[q] = out.get(q, 0) + 1
            n //= q
    if 1 < n < (1 << 40):
        out[n] = out.get(n, 0) + 1           # no prime factor below 2^20 and n < 2^40 => n is prime
    elif n > 1:
        s = math.isqrt(n)
        if s * s == n and s < (1 << 40) and all(s % q for q in small_primes() if q * q <= s):
            out[s] = out.get(s, 0) + 2
    return out


def H(seed, tag, mod):
    """Deterministic wide integer from the job seed (pools); not a source of case randomness."""
    d = b"".join(hashlib.blake2b(("%d|%s|%d" % (seed, tag, i)).encode(), digest_size=64).digest() for i in range(2))
    return int.from_bytes(d, "big") % mod


def scalars(r, maxbits=1024):
    """G-scalar(r, maxbits). Hypothesis completes many examples with the 'simplest' choices (measured: ~20 % of the
    draws late in a case), which for ints.scalar is k = 0; here the simplest choice is the full-size scalar r - 1."""
    base = ints.scalar(r, maxbits)
    u = ints.uniform(0, r - 1)

    # the g1_mul / g2_mul / gt_exp wrappers switch to the single-digit routines at bn_bits(k) <= RLC_DIG
    edge = st.one_of(st.sampled_from([(1 << 64) - 1, 1 << 64, (1 << 64) + 1, (1 << 63), (1 << 65) - 1]),
                     ints.uniform(1 << 64, (1 << 65) - 1), ints.uniform(1 << 63, (1 << 64) - 1))

    @st.composite
    def s(draw):
        sel = draw(st.integers(0, 7))
        if sel <= 1:
            return r - 1 - draw(u)
        if sel == 2:
            k = draw(edge)
            return -k if draw(st.integers(0, 2)) == 0 else k
        return draw(base)
    return s()


def my_ctx(env, cfg):
    """per job one parameter set: engine.pcctx (k = 12) or engine.pcctx_k (k = 8, 16, 18, 24, 48) behind engine.pcctx_g"""
    return G.job_ctx(env, cfg)


def phi_k(p, k):
    """Phi_k(p) for the embedding degrees the library implements: k = 8, 16 (power of two: p^(k/2) + 1),
    k = 12, 18, 24, 48 (k = 2^a 3^b, a, b >= 1: p^(k/3) - p^(k/6) + 1)"""
    if k in (8, 16):
        return p ** (k // 2) + 1
    if k in (12, 18, 24, 48):
        return p ** (k // 3) - p ** (k // 6) + 1
    raise Unsupported()


def tower_chain(x):
    """construction chain of the target field from the first extension of Fp to the top (generic Ext objects)"""
    F = x.T[x.kemb]
    out = []
    while isinstance(F, rext.Ext):
        out.append(F)
        F = F.K
    return out[::-1]


def chk(c, what):
    if c.unsupported:
        raise Unsupported()
    if c.ub:
        raise Violation("undefined behaviour in %s: %s" % (what, c.ub), ub=c.ub)
    if c.errored:
        raise Violation("%s reported an error (caught=%d e=%d code=%d) for admitted input" % (
            what, c.caught, c.e, c.code), errored=True, e=c.e)


class Extras:
    pass


def extras(x):
    e = getattr(x, "_c12", None)
    if e is None:
        e = Extras()
        p = x.F.p
        e.phi = phi_k(p, x.kemb)
        if e.phi % x.r:
            raise Violation("r does not divide Phi_%d(p): not an embedding-degree-%d parameter set" % (x.kemb, x.kemb),
                            cid=x.cid)
        e.hT = e.phi // x.r
        e.chain = tower_chain(x)
        e.d1 = e.chain[0].deg                                # degree of the first extension: 2, or 3 for k = 18
        e.q = {"g1": sorted(small_factors(x.base.h).items()), "g2": sorted(small_factors(x.h2).items())}
        e.qT = sorted(q for q in small_factors(e.hT) if q != x.r)
        e.qF1 = sorted(q for q in small_factors(p - 1) if q != x.r)[:8]
        e.qF2 = sorted(q for q in small_factors(p + 1 if e.d1 == 2 else p * p + p + 1) if q != x.r)[:8]
        e.inf = None
        e.memo = collections.OrderedDict()
        e.pools = {}
        x._c12 = e
    return e


# ------------------------------------------------------------------------------ the two curve groups

class Grp:
    def __init__(self, x, name):
        self.x, self.name, self.r = x, name, x.r
        b = x.base
        self.p = x.F.p
        if name == "g1":
            self.E, self.K, self.G, self.h = b.E, b.K, b.G, b.h
            self.slot, self.vslot = "EP", "EPV"
        else:
            self.E, self.K, self.G, self.h = x.E2c, x.FK, x.G2, x.h2
            self.slot, self.vslot = "EP2", "EP2V"
        self.n = self.h * self.r
        self.proj = {b.BASIC: "basic", b.PROJC: "projc", b.JACOB: "jacob"}[b.EP_ADD]

    def fe(self, v):
        return v % self.p if self.name == "g1" else G.zK(self.x, v)

    def mulG(self, m):
        m %= self.r
        if m == 0:
            return None
        return ecctx.small_multiple(self.x.base, m) if self.name == "g1" else G.small_multiple2(self.x, m)

    def enc(self, P, rep=None):
        rep = rep or {"kind": "basic", "z": 1, "inf": 0}
        kind = rep["kind"] if rep["kind"] == "basic" else self.proj
        if self.name == "g1":
            return ecctx.enc_point(self.x.base, P, kind, rep["z"] if isinstance(rep["z"], int) else rep["z"][0],
                                   rep.get("inf", 0))
        return G.enc_g2(self.x, P, kind, rep["z"], rep.get("inf", 0))

    def new(self, p, P, rep=None):
        return p.new(self.slot, self.enc(P, rep))

    def vec(self, p, pts):
        n = len(pts)
        if self.name == "g1":
            return p.new("EPV", struct.pack("<II", n, n) + b"".join(self.enc(P) for P in pts))
        return p.new("EP2V", G.g2_vec(self.x, [self.enc(P) for P in pts]))

    def table(self, p, n):
        if self.name == "g1":
            return p.new("EPV", struct.pack("<II", n, 0))
        return p.new("EP2V", G.g2_table(self.x, n))

    def dec(self, blob, what):
        if self.name == "g1":
            return ecctx.dec_point(self.x.base, blob, what)[0]
        return G.dec_g2(self.x, blob, what)[0]


def grp(x, name):
    gs = getattr(x, "_c12g", None)
    if gs is None:
        gs = x._c12g = {}
    if name not in gs:
        gs[name] = Grp(x, name)
    return gs[name]


def lift(g, xv, sign):
    """A curve point with abscissa xv, xv + 1, xv + 2, ... (the first that has one)."""
    K = g.K
    xx = g.fe(xv)
    for _ in range(200):
        P = g.E.lift_x(xx)
        if P is not None:
            return g.E.neg(P) if sign else P
        xx = K.add(xx, K.one)
    raise Unsupported()


def small_point(g, xv, sign, q, e, t):
    """[t]([n / q^e]P): order dividing q^e."""
    T = g.E.mul(g.n // (q ** e), lift(g, xv, sign))
    return g.E.mul(t, T)


def resolve_point(g, spec):
    ex = extras(g.x)
    key = g.name + json.dumps(spec, sort_keys=True)
    if key in ex.memo:
        return ex.memo[key]
    E, K = g.E, g.K
    k = spec["k"]
    if k == "mult":
        P = g.mulG(spec["m"])
    elif k == "infty":
        P = None
    elif k == "rand":
        P = lift(g, spec["x"], spec["s"])
    elif k == "clear":
        P = E.mul(g.h, lift(g, spec["x"], spec["s"]))
    elif k == "cof":
        P = E.mul(g.r, lift(g, spec["x"], spec["s"]))
    elif k == "small":
        P = small_point(g, spec["x"], spec["s"], spec["q"], spec["e"], spec["t"])
    elif k == "small2":
        P = E.add(small_point(g, spec["x"], spec["s"], spec["q"], spec["e"], spec["t"]),
                  small_point(g, spec["x2"], 0, spec["q2"], 1, 1))
    elif k == "mem+small":
        P = E.add(g.mulG(spec["m"]), small_point(g, spec["x"], spec["s"], spec["q"], spec["e"], spec["t"]))
    elif k == "mem+cof":
        P = E.add(g.mulG(spec["m"]), E.mul(g.r, lift(g, spec["x"], spec["s"])))
    elif k == "off":
        xx, yy = g.fe(spec["x"]), g.fe(spec["y"])
        while E.on_curve((xx, yy)):
            yy = K.add(yy, K.one)
        P = (xx, yy)
    elif k == "near":
        M = g.mulG(spec["m"]) or g.G
        w = spec["w"]
        one = K.one
        P = {"x+1": (K.add(M[0], one), M[1]), "x-1": (K.sub(M[0], one), M[1]), "y+1": (M[0], K.add(M[1], one)),
             "y-1": (M[0], K.sub(M[1], one)), "swap": (M[1], M[0]), "negx": (K.neg(M[0]), M[1])}[w]
    elif k == "iso":
        # image of a member under (x, y) -> (t^2 x, t^3 y), t in Fp: a point of order r on the isomorphic curve
        # y^2 = x^3 + b t^6 on which the endomorphisms act exactly as on the subgroup (classic invalid-curve input)
        M = g.mulG(spec["m"]) or g.G
        t = K.from_int(spec["t"])
        t2 = K.mul(t, t)
        P = (K.mul(t2, M[0]), K.mul(K.mul(t2, t), M[1]))
    elif k == "invcurve":
        xx = g.fe(spec["x"])
        d = spec["d"]
        P = None
        for j in range(400):
            dd = K.from_int(d + j)
            if K.is_zero(dd):
                continue
            y = K.sqrt(K.add(E.rhs(xx), dd))
            if y is not None:
                P = (xx, y)
                break
        if P is None:
            raise Unsupported()
    else:
        raise ValueError(k)
    ex.memo[key] = P
    if len(ex.memo) > 600:
        ex.memo.popitem(last=False)
    return P


def fe_strat(g):
    u = ints.uniform(0, g.p - 1)
    if g.name == "g1":
        return u
    return st.tuples(u, *[st.one_of(st.just(0), u, u) for _ in range(g.x.K - 1)]).map(list)


def rep_strat(g):
    u = ints.uniform(1, g.p - 1)

    @st.composite
    def s(draw):
        kind = draw(st.sampled_from(["basic", "basic", "proj"]))
        z = 1
        if kind != "basic":
            z = draw(u) if g.name == "g1" else [draw(u)] + [draw(st.one_of(st.just(0), u)) for _ in range(g.x.K - 1)]
        return {"kind": kind, "z": z, "inf": draw(st.integers(0, 1))}
    return s()


def member_scalar(r):
    return st.one_of(ints.uniform(1, r - 1).map(lambda m: r - m), ints.uniform(1, r - 1),
                     st.sampled_from([1, 2, 3, 5, r - 1, r - 2, r // 2, r // 2 + 1]))


NEEDS_X = ("rand", "clear", "cof", "small", "small2", "mem+small", "mem+cof", "off", "invcurve")


def nonmember_point_spec(g, draw, k):
    ex = extras(g.x)
    spec = {"k": k}
    if k in ("mult", "mem+small", "mem+cof", "near", "iso"):
        spec["m"] = draw(member_scalar(g.r))
    if k == "iso":
        spec["t"] = draw(st.one_of(ints.uniform(2, g.p - 2), st.sampled_from([2, 3, g.p - 2])))
    if k in NEEDS_X:
        spec["x"] = draw(fe_strat(g))
        spec["s"] = draw(st.integers(0, 1))
    if k in ("small", "small2", "mem+small"):
        q, mult = draw(st.sampled_from(ex.q[g.name]))
        spec["q"] = q
        spec["e"] = draw(st.integers(1, min(mult, 2)))
        spec["t"] = draw(st.one_of(st.just(1), st.integers(1, 1 << 16)))
    if k == "small2":
        spec["q2"] = draw(st.sampled_from(ex.q[g.name]))[0]
        spec["x2"] = draw(fe_strat(g))
    if k == "off":
        spec["y"] = draw(fe_strat(g))
    if k == "near":
        spec["w"] = draw(st.sampled_from(["x+1", "x-1", "y+1", "y-1", "swap", "negx"]))
    if k == "invcurve":
        spec["d"] = draw(st.integers(1, 60))
    return spec


def point_kinds(g):
    ex = extras(g.x)
    kinds = ["mult", "mult", "mult", "infty", "off", "near", "invcurve", "iso"]
    if g.h > 1:
        kinds += ["clear", "rand", "rand", "cof", "cof", "mem+cof"]
        if ex.q[g.name]:
            kinds += ["small", "small", "small2", "mem+small", "mem+small"]
    else:
        kinds += ["rand", "rand"]            # cofactor 1: every curve point is a member
    return kinds


# ------------------------------------------------------------------------------ predicates on G1 / G2

def strat_valid_point(gname):
    def strat(env, cfg):
        x = my_ctx(env, cfg)
        g = grp(x, gname)
        kinds = point_kinds(g)

        @st.composite
        def s(draw):
            k = draw(st.sampled_from(kinds))
            return dict(cid=x.cid, P=nonmember_point_spec(g, draw, k), rep=draw(rep_strat(g)),
                        poison=draw(st.integers(0, 255)))
        return s()
    return strat


def classify_point(g, P):
    """Reference facts: (on curve, identity, annihilated by r)."""
    if P is None:
        return True, True, True
    on = g.E.on_curve(P)
    return on, False, bool(on and g.E.mul(g.r, P) is None)


def run_valid_point(gname):
    def run(env, cfg, case):
        x = G.ctx_for(env, cfg, case["cid"])
        g = grp(x, gname)
        spec, rep = case["P"], case["rep"]
        P = resolve_point(g, spec)
        on, ident, killed = classify_point(g, P)
        want = on and not ident and killed
        fn = "%s_is_valid" % gname
        what = "%s[cid=%d]" % (fn, x.cid)

        def build(p):
            s_ = g.new(p, P, rep)
            p.call(fn, s_)
            return s_
        for pz in (case["poison"], case["poison"] ^ 0xFF):
            res, s_ = G.run(env, cfg, x, build, pz)
            c = res.calls[0]
            chk(c, what + " on class " + spec["k"])
            if s_ in c.changed:
                raise Violation("%s modified its input" % what)
            got = c.ret_i(0)
            if bool(got) != want:
                raise Violation("%s returned %d for a %s (class %s: on curve=%s, identity=%s, [r]P=O: %s)" % (
                    what, got, "member" if want else "NON-member", spec["k"], on, ident, killed),
                    got=got, want=int(want), cls=spec["k"], on_curve=on, identity=ident, killed=killed, P=P)
        lab = ["op:" + fn, "cid:%d" % x.cid, "%s:class:%s" % (gname, spec["k"]),
               "split:%s@%s:%s" % (gname, cfg, "member" if want else "non-member"),
               "%s:rep:%s" % (gname, rep["kind"])]
        if not want:
            lab.append("%s:non-member:%s" % (gname, "identity" if ident else "off-curve" if not on else "on-curve-wrong-order"))
        return (not want), lab
    return run


# ------------------------------------------------------------------------------ GT elements

def conj12(F12, a):
    """a^(p^6) for the quadratic top extension Fp12 = Fp6[w]/(w^2 - v): w -> -w."""
    return (a[0], F12.K.neg(a[1]))


def easy_part(x, f):
    k = getattr(x, "kemb", 12)
    if k == 12:
        F12 = x.F12
        p = x.F.p
        g = F12.mul(conj12(F12, f), F12.inv(f))            # f^(p^6 - 1)
        return F12.mul(F12.pow(g, p * p), g)               # ^(p^2 + 1)
    # (p^k - 1) / Phi_k(p) = p^(k/2) - 1 for k = 8, 16 and (p^(k/2) - 1)(p^(k/6) + 1) for k = 18, 24, 48; the
    # Frobenius powers are the reference ones (ext.Flat.frob: theta^(p^i) by exponentiation, never from constants)
    FT = x.FT
    g = FT.mul(FT.frob(f, k // 2), FT.inv(f))
    if k % 6 == 0:
        g = FT.mul(FT.frob(g, k // 6), g)
    return g


def gt_pool(x, seed):
    ex = extras(x)
    if seed in ex.pools:
        return ex.pools[seed]
    F12 = x.FT
    p = x.F.p
    one = F12.one
    g = x.gt_gen
    if F12.eq(g, one) or not F12.eq(F12.pow(g, x.r), one):
        raise Violation("gt_get_gen() is not an element of order r (reference check)", cid=x.cid)
    pool = Extras()
    pool.mem = [F12.pow(g, 1 + H(seed, "m%d" % i, x.r - 1)) for i in range(4)]
    pool.cyc = []
    for i in range(2):
        f = F12.unflatten([H(seed, "c%d.%d" % (i, j), p) for j in range(x.kemb)])
        if F12.is_zero(f):
            f = one
        c = easy_part(x, f)
        if not F12.eq(F12.pow(c, ex.phi), one):
            raise RuntimeError("harness: reference easy part is not cyclotomic")
        pool.cyc.append(c)
    pool.nor = [F12.pow(c, x.r) for c in pool.cyc]
    pool.small = {}
    for q in ex.qT[:3]:
        for c in pool.cyc:
            t = F12.pow(c, ex.phi // q)
            if not F12.eq(t, one):
                pool.small[q] = t
                break
    if len(ex.pools) > 3:
        ex.pools.clear()
    ex.pools[seed] = pool
    return pool


def sub_root(x, spec):
    """Root of unity of prime order q in Fp (q | p - 1) or Fp2 (q | p + 1), embedded in Fp12 (never cyclotomic
    unless 1: q is prime to Phi12(p) except for the listed exceptions, which the oracle decides anyway)."""
    ex = extras(x)
    F2 = ex.chain[0]                       # first extension of Fp in the tower: Fp2, or Fp3 for the k = 18 towers
    d1 = ex.d1
    p = x.F.p
    q = spec["q"]
    if spec["f"] == 1:
        base = spec["b"] % p
        for _ in range(64):
            a = pow(base, (p - 1) // q, p) if base else 1
            if a != 1:
                break
            base += 1
        e2 = F2.from_int(a)
    else:
        b = (spec["b"] % p, (spec["b"] // p + 1) % p) + (1,) * (d1 - 2)
        for _ in range(64):
            e2 = F2.pow(b, (p ** d1 - 1) // q) if not F2.is_zero(b) else F2.one
            if not F2.eq(e2, F2.one):
                break
            b = F2.add(b, (1,) * d1)
    for F in ex.chain[1:]:
        e2 = F.embed(e2)
    return e2


def resolve_gt(x, spec):
    """Fp12 element of a GT spec (everything except the 'pairing' class, which the library computes)."""
    ex = extras(x)
    key = "gt" + json.dumps(spec, sort_keys=True)
    if key in ex.memo:
        return ex.memo[key]
    F12 = x.FT
    k = spec["k"]
    pool = gt_pool(x, spec["pool"]) if "pool" in spec else None

    def comb(lst):
        a = F12.pow(lst[spec["i"] % len(lst)], spec["s"])
        if spec.get("t"):
            a = F12.mul(a, F12.pow(lst[spec["j"] % len(lst)], spec["t"]))
        return a

    def mem():
        return F12.pow(pool.mem[spec["mi"] % 4], spec["ms"])
    if k == "member":
        a = comb(pool.mem)
    elif k == "gen":
        a = F12.pow(x.gt_gen, spec["e"])
    elif k == "unity":
        a = F12.one
    elif k == "zero":
        a = F12.zero
    elif k == "random":
        a = F12.unflatten(spec["v"])
    elif k == "neg-member":
        a = F12.neg(comb(pool.mem))
    elif k == "near-member":
        v = F12.flatten(comb(pool.mem))
        v[spec["pos"] % x.kemb] = (v[spec["pos"] % x.kemb] + spec["d"]) % x.F.p
        a = F12.unflatten(v)
    elif k == "root":
        a = sub_root(x, spec)
    elif k == "mem*root":
        a = F12.mul(mem(), sub_root(x, spec))
    elif k == "cyc":
        a = comb(pool.cyc)
    elif k == "nor":
        a = comb(pool.nor)
    elif k == "small":
        a = F12.pow(pool.small[spec["q"]], spec["s"])
    elif k == "mem*cyc":
        a = F12.mul(mem(), comb(pool.cyc))
    elif k == "mem*nor":
        a = F12.mul(mem(), comb(pool.nor))
    elif k == "mem*small":
        a = F12.mul(mem(), F12.pow(pool.small[spec["q"]], spec["s"]))
    else:
        raise ValueError(k)
    ex.memo[key] = a
    if len(ex.memo) > 600:
        ex.memo.popitem(last=False)
    return a


SEXP = st.one_of(st.sampled_from([1, 1, -1, 2, 3]), st.integers(-(1 << 15), 1 << 15).map(lambda v: v or 1))
CYCLO_BY_CONSTRUCTION = {"member": True, "gen": True, "unity": True, "zero": False, "cyc": True, "nor": True,
                         "small": True, "mem*cyc": True, "mem*nor": True, "mem*small": True, "pairing": None}


def gt_spec(x, draw, k, seed):
    ex = extras(x)
    p = x.F.p
    spec = {"k": k}
    if k in ("member", "neg-member", "near-member", "cyc", "nor", "mem*cyc", "mem*nor"):
        spec.update(pool=seed, i=draw(st.integers(0, 3)), s=draw(SEXP), j=draw(st.integers(0, 3)),
                    t=draw(st.one_of(st.just(0), SEXP)))
    if k in ("mem*cyc", "mem*nor", "mem*small", "mem*root"):
        spec.update(pool=seed, mi=draw(st.integers(0, 3)), ms=draw(SEXP))
    if k in ("small", "mem*small"):
        spec.update(pool=seed, q=draw(st.sampled_from(ex.qT[:3])), s=draw(SEXP))
    if k == "gen":
        spec["e"] = draw(st.sampled_from([1, -1, 2, -2, 3, 5, 1 << 16]))
    if k == "near-member":
        spec.update(pos=draw(st.integers(0, x.kemb - 1)), d=draw(st.sampled_from([1, p - 1, 2])))
    if k == "random":
        shape = draw(st.integers(0, 4))
        u = ints.uniform(0, p - 1)
        N = x.kemb
        if shape == 0:
            v = [draw(st.sampled_from([0, 1, 2, p - 1])) for _ in range(N)]
        elif shape == 1:
            # proper subfields: Fp and the lower levels of the tower (k = 12: Fp, Fp2, Fp6; the flattened order is
            # depth first, so a subfield of degree n occupies the first n coefficients)
            n = draw(st.sampled_from([1] + [F.deg for F in ex.chain[:-1]]))
            v = [draw(u) for _ in range(n)] + [0] * (N - n)
        elif shape == 2:
            v = [draw(st.one_of(st.just(0), u)) for _ in range(N)]
        else:
            v = [draw(u) for _ in range(N)]
        if v[:1] == [1] and not any(v[1:]):
            v[0] = 2
        spec["v"] = v
    if k in ("root", "mem*root"):
        f = draw(st.sampled_from([1, 1, 2]))
        qs = ex.qF1 if f == 1 else ex.qF2
        spec.update(f=f, q=draw(st.sampled_from(qs)), b=draw(ints.uniform(2, p * p - 1)))
    if k == "pairing":
        sc = st.one_of(st.sampled_from([1, 2, x.r - 1, x.r + 1, -1]), ints.uniform(1, x.r - 1))
        spec.update(a=draw(sc), b=draw(sc))
    return spec


def gt_kinds(x):
    ex = extras(x)
    kinds = ["member", "member", "member", "member", "gen", "pairing", "pairing", "unity", "zero", "random", "random", "random",
             "neg-member", "near-member", "root", "root", "mem*root", "mem*root", "cyc", "cyc", "nor", "nor", "mem*cyc",
             "mem*nor"]
    if ex.qT:
        kinds += ["small", "small", "mem*small", "mem*small"]
    return kinds


def gt_new(p, x, a):
    return p.new("FPX", G.enc_gt(x, a))


def gt_out(p, x):
    """output object: stale non-identity content, so that a routine that returns without writing (exponent 0, identity
    operands) cannot pass because the object already held 1 (lesson of seed C04-6)"""
    F = x.F
    k = getattr(x, "kemb", 12)
    body = b"".join(F.to_raw_int(j + 2).to_bytes(F.nbytes, "little") for j in range(k))
    return p.new("FPX", bytes([k]) + struct.pack("<I", len(body)) + body)


def strat_valid_gt(env, cfg):
    x = my_ctx(env, cfg)
    kinds = gt_kinds(x)
    seed = env.job_seed % (1 << 24)

    @st.composite
    def s(draw):
        k = draw(st.sampled_from(kinds))
        fn = draw(st.sampled_from(["gt_is_valid", "gt_is_valid", "gt_is_valid", "fp12_test_cyc"]))
        return dict(cid=x.cid, fn=fn, A=gt_spec(x, draw, k, seed), poison=draw(st.integers(0, 255)))
    return s()


def run_valid_gt(env, cfg, case):
    x = G.ctx_for(env, cfg, case["cid"])
    G.gt_gen(env, cfg, x)
    ex = extras(x)
    F12 = x.FT
    spec, fn = case["A"], G.opname(x, case["fn"])         # fp12_test_cyc -> fpN_test_cyc of the build's target field
    k = spec["k"]
    if k in ("small", "mem*small") and spec["q"] not in gt_pool(x, spec["pool"]).small:
        raise Unsupported()
    if fn not in env.runner(cfg).ops():
        raise Unsupported()
    what = "%s[cid=%d]" % (fn, x.cid)
    a = None
    verdicts = []
    if k == "pairing":
        P = x.base.E.mul(spec["a"], x.G1)
        Q = x.E2c.mul(spec["b"] % x.r, x.G2)
    for pz in (case["poison"], case["poison"] ^ 0xFF):
        if k == "pairing":
            def build(p):
                s1 = p.new("EP", ecctx.enc_point(x.base, P))
                s2 = p.new("EP2", G.enc_g2(x, Q))
                sa = gt_out(p, x)
                p.call("pc_map", sa, s1, s2)
                p.call(fn, sa)
                p.dump(sa)
                return sa
            res, sa = G.run(env, cfg, x, build, pz)
            chk(res.calls[0], "pc_map")
            c = res.calls[1]
            got_a = G.dec_gt(x, res.dumps[sa], "pc_map")
            if a is not None and not F12.eq(a, got_a):
                raise Violation("pc_map result depends on stale storage content")
            a = got_a
        else:
            a = resolve_gt(x, spec)

            def build(p):
                sa = gt_new(p, x, a)
                p.call(fn, sa)
                return sa
            res, sa = G.run(env, cfg, x, build, pz)
            c = res.calls[0]
        try:
            chk(c, "%s on class %s" % (what, k))
        except Violation as v:
            v.details.update(op=fn, cls=k, elem=F12.flatten(a))
            raise
        if sa in c.changed:
            raise Violation("%s modified its input" % what)
        verdicts.append(c.ret_i(0))
    # oracle: the definitions, evaluated by the reference tower
    zero = F12.is_zero(a)
    unity = F12.eq(a, F12.one)
    killed = (not zero) and F12.eq(F12.pow(a, x.r), F12.one)
    member = killed and not unity
    cyc = CYCLO_BY_CONSTRUCTION.get(k)
    if cyc is None:
        cyc = True if killed else ((not zero) and F12.eq(F12.pow(a, ex.phi), F12.one))
    want = member if fn == "gt_is_valid" else cyc
    for v in verdicts:
        if bool(v) != want:
            if fn == "gt_is_valid":
                raise Violation("%s returned %d for a %s (class %s: unity=%s, a^r=1: %s, cyclotomic=%s)" % (
                    what, v, "member" if want else "NON-member", k, unity, killed, cyc), got=v, want=int(want), cls=k,
                    unity=unity, killed=killed, cyclotomic=cyc, op=fn, zero=zero, kemb=x.kemb, cid=x.cid)
            raise Violation("%s returned %d for a %s element (class %s)" % (
                what, v, "cyclotomic" if cyc else "non-cyclotomic", k), got=v, want=int(cyc), cls=k, op=fn, zero=zero)
    lab = ["op:" + fn, "cid:%d" % x.cid, "gt:class:%s" % k]
    if fn == "gt_is_valid":
        lab.append("split:gt@%s:%s" % (cfg, "member" if member else "non-member"))
    if not member:
        lab.append("gt:non-member:%s" % ("unity" if unity else "zero" if zero else
                                         "cyclotomic-wrong-order" if cyc else "not-cyclotomic"))
    return (not member), lab


# ------------------------------------------------------------------------------ multiplications in G1 / G2

MUL_OPS = ["mul", "mul", "mul_sec", "mul_sec", "mul_any", "mul_any", "mul_gen", "mul_dig", "fix", "fix", "sim", "sim",
           "sim_gen", "sim_lot", "sim_lot", "sim_dig"]


def strat_mul(gname):
    def strat(env, cfg):
        x = my_ctx(env, cfg)
        g = grp(x, gname)
        ex = extras(x)
        r = x.r
        sc = scalars(r)
        dig = ints.digit(64)
        mspec = st.one_of(ints.uniform(1, r - 1).map(lambda m: {"k": "mult", "m": r - m}),
                          st.sampled_from([0, 1, 1, 2, 3, r - 1, r - 2, 7, 8, 16]).map(lambda m: {"k": "mult", "m": m}))
        outside = ["rand", "cof"] + (["small", "mem+small"] if ex.q[g.name] else []) if g.h > 1 else ["rand"]

        @st.composite
        def s(draw):
            op = draw(st.sampled_from(MUL_OPS))
            pts, ks = [], []
            if op in ("mul", "mul_sec", "mul_gen"):
                pts, ks = [draw(mspec)], [draw(sc)]
            elif op == "mul_any":
                if draw(st.integers(0, 2)) == 0:
                    pts = [draw(mspec)]
                else:
                    pts = [nonmember_point_spec(g, draw, draw(st.sampled_from(outside)))]
                ks = [draw(sc)]
            elif op == "mul_dig":
                pts, ks = [draw(mspec)], [draw(dig)]
            elif op == "fix":
                pts = [draw(st.one_of(st.just({"k": "mult", "m": 1}), mspec))]
                ks = [draw(sc) for _ in range(draw(st.integers(1, 3)))]
            elif op in ("sim", "sim_gen"):
                P = draw(mspec)
                rel = draw(st.sampled_from(["rand", "rand", "same", "neg", "infty"]))
                if rel == "rand":
                    Q = draw(mspec)
                elif rel == "same":
                    Q = dict(P)
                elif rel == "neg":
                    Q = {"k": "mult", "m": -P["m"]}
                else:
                    Q = {"k": "mult", "m": 0}
                if draw(st.integers(0, 5)) == 0:
                    P, Q = Q, P
                pts = [P, Q]
                k0 = draw(sc)
                k1 = draw(st.one_of(sc, sc, st.sampled_from([k0, -k0, r - k0])))
                ks = [k0, k1]
            else:
                n = draw(st.sampled_from([0, 1, 2, 2, 3, 4, 5, 10, 11, 12] if op == "sim_lot" else [0, 1, 2, 3, 5, 8]))
                for i in range(n):
                    if i and draw(st.integers(0, 3)) == 0:
                        pts.append(dict(pts[draw(st.integers(0, i - 1))]))
                    elif i and draw(st.integers(0, 2)) > 0:
                        pts.append({"k": "mult", "m": draw(st.sampled_from([0, 1, 2, 3, 5, 7, 8, 16, r - 1, r - 2]))})
                    else:
                        pts.append(draw(mspec))
                    ks.append(draw(dig) if op == "sim_dig" else draw(sc))
            return dict(cid=x.cid, op=op, pts=pts, ks=ks, alias=draw(st.sampled_from([0, 0, 0, 1, 2, 3])),
                        poison=draw(st.integers(0, 255)), seed=draw(st.binary(min_size=8, max_size=8)))
        return s()
    return strat


def scalar_labels(r, ks):
    out = set()
    for k in ks:
        if k < 0:
            out.add("k:negative")
        if abs(k) >= r:
            out.add("k:>=r")
        if k % r == 0:
            out.add("k:0-mod-r" if k else "k:zero")
        if abs(k).bit_length() > r.bit_length():
            out.add("k:longer-than-r")
        if 0 <= k < r and k:
            out.add("k:in-range")
        if 63 <= abs(k).bit_length() <= 65:
            out.add("k:digit-boundary")
    return sorted(out)


PHI = {8: 4, 12: 4, 16: 8, 18: 6, 24: 8, 48: 16}


def frb_top(x):
    """|u|^phi(k) for the one-set-per-build contexts (u = curve parameter): the bound below which a scalar has a
    phi(k)-digit expansion in base |u|; None when r does not exceed it (BLS, KSS families, every k = 12 set)"""
    par = getattr(x, "par", None)
    if not par or x.kemb not in PHI:
        return None
    X = abs(par) ** PHI[x.kemb]
    return X if x.r > X else None


def frb_alternatives(x, ks):
    """the exponent vectors a routine effectively uses when the base-|u| recoding drops what exceeds phi(k) digits
    (diagnosis of a mismatch only; known finding C12-bn_rec_frb-top-digit)"""
    X = frb_top(x)
    if X is None or not any((k % x.r) >= X or (abs(k) % x.r) >= X for k in ks):
        return []
    return [[(k % x.r) % X for k in ks], [(-((abs(k) % x.r) % X) if k < 0 else (k % x.r) % X) for k in ks]]


def chk_pt(g, blob, want, what, **kw):
    got = g.dec(blob, what)
    if got is not None and not g.E.on_curve(got):
        raise Violation("%s: result is not on the curve" % what, got=got, **kw)
    if not g.E.eq(got, want):
        raise Violation("%s: wrong point" % what, got=got, want=want, **kw)



def g_stale(g):
    """content of output points before the call: a fixed multiple of the generator that no generated case expects"""
    if getattr(g, "_stale_pt", None) is None:
        g._stale_pt = g.E.mul(977, g.G)
    return g._stale_pt


def run_mul(gname):
    def run(env, cfg, case):
        x = G.ctx_for(env, cfg, case["cid"])
        g = grp(x, gname)
        E, r = g.E, x.r
        op, ks, alias = case["op"], case["ks"], case["alias"]
        pts = [resolve_point(g, s_) for s_ in case["pts"]]
        member = all(s_["k"] == "mult" for s_ in case["pts"])
        fn = "%s_%s" % (gname, "mul_fix" if op == "fix" else "mul" if op == "mul" else op if op.startswith("mul") else "mul_" + op)
        what = "%s[cid=%d]" % (fn, x.cid)
        tabsz = 0
        if op == "fix":
            ex = extras(x)
            if ex.inf is None:
                ex.inf = env.runner(cfg).info("info_pc")
                G.forget_selection(env, cfg, x)
            tabsz = ex.inf[4 if gname == "g1" else 5]
        red = (lambda k: k % r) if member else (lambda k: k)
        if op == "mul_gen":
            pts = [g.G]
        if op == "sim_gen":
            pts = [g.G, pts[1]]
        if op == "fix":
            if pts[0] is None:
                raise Unsupported()
            wants = [E.mul(red(k), pts[0]) for k in ks]
        else:
            w = None
            for P, k in zip(pts, ks):
                w = E.add(w, E.mul(red(k), P))
            wants = [w]

        def build(p):
            sr = g.new(p, g_stale(g))
            outs = [sr]
            ins = []
            if op in ("mul", "mul_sec", "mul_any"):
                sp = g.new(p, pts[0])
                sk = p.bn(ks[0])
                if alias == 1:
                    outs = [sp]
                    p.call(fn, sp, sp, sk)
                    ins = [sk]
                else:
                    p.call(fn, sr, sp, sk)
                    ins = [sp, sk]
            elif op == "mul_gen":
                sk = p.bn(ks[0])
                p.call(fn, sr, sk)
                ins = [sk]
            elif op == "mul_dig":
                sp = g.new(p, pts[0])
                if alias == 1:
                    outs = [sp]
                    p.call(fn, sp, sp, ks[0])
                else:
                    p.call(fn, sr, sp, ks[0])
                    ins = [sp]
            elif op == "fix":
                sp = g.new(p, pts[0])
                stab = g.table(p, tabsz)
                p.call("%s_mul_pre" % gname, stab, sp)
                outs = []
                for k in ks:
                    so = g.new(p, g_stale(g))
                    sk = p.bn(k)
                    p.call(fn, so, stab, sk)
                    outs.append(so)
                    ins.append(sk)
                ins += [sp, stab]
            elif op == "sim":
                s0 = g.new(p, pts[0])
                s1 = s0 if (alias == 3 and case["pts"][0] == case["pts"][1]) else g.new(p, pts[1])
                k0, k1 = p.bn(ks[0]), p.bn(ks[1])
                so = s0 if alias == 1 else s1 if alias == 2 else sr
                outs = [so]
                p.call(fn, so, s0, k0, s1, k1)
                ins = [s_ for s_ in (s0, k0, s1, k1) if s_ != so]
            elif op == "sim_gen":
                s1 = g.new(p, pts[1])
                k0, k1 = p.bn(ks[0]), p.bn(ks[1])
                so = s1 if alias == 2 else sr
                outs = [so]
                p.call(fn, so, k0, s1, k1)
                ins = [s_ for s_ in (k0, s1, k1) if s_ != so]
            else:
                n = len(pts)
                sv = g.vec(p, pts)
                if op == "sim_dig":
                    sk = p.buf(b"".join(k.to_bytes(8, "little") for k in ks))
                else:
                    sk = p.bnv(ks)
                p.call(fn, sr, sv, sk, n)
                ins = [sv, sk]
            for so in outs:
                p.dump(so)
            return outs, ins
        for pz in (case["poison"], case["poison"] ^ 0xFF):
            res, (outs, ins) = G.run(env, cfg, x, build, pz, seed=case["seed"])
            for c in res.calls:
                chk(c, c.name + "[cid=%d]" % x.cid)
            for i, so in enumerate(outs):
                try:
                    chk_pt(g, res.dumps[so], wants[i], what + ("(k#%d)" % i if op == "fix" else ""), op=fn,
                           ks=ks, n=len(pts))
                except Violation as v:
                    if gname == "g2" and member and "got" in v.details:
                        kk = [ks[i]] if op == "fix" else ks
                        pp = [pts[0]] if op == "fix" else pts
                        for alt in frb_alternatives(x, kk):
                            w = None
                            for P, k in zip(pp, alt):
                                w = E.add(w, E.mul(k, P))
                            if E.eq(w, v.details["got"]):
                                v.details["dropped_top_digit"] = True
                    v.details.update(kemb=x.kemb, cid=x.cid)
                    raise
            call = res.calls[-1]
            for c in (res.calls[1:] if op == "fix" else res.calls):
                bad = [s_ for s_ in c.changed if s_ in ins]
                if bad:
                    raise Violation("%s modified its input(s)" % what, slots=bad)
        lab = ["op:" + fn, "cid:%d" % x.cid] + ["%s:%s" % (gname, l) for l in scalar_labels(r, ks)]
        if not member:
            lab.append("%s:mul_any:point-outside-the-subgroup" % gname)
        if op in ("sim_lot", "sim_dig"):
            lab.append("%s:sim:n=%d" % (gname, len(pts)))
        if op in ("sim", "sim_gen", "sim_lot", "sim_dig"):
            if any(P is None for P in pts):
                lab.append("%s:sim:identity-inside" % gname)
            if len(pts) >= 2 and any(E.eq(pts[i], pts[j]) for i in range(len(pts)) for j in range(i)):
                lab.append("%s:sim:repeated-point" % gname)
        if alias and op in ("mul", "mul_sec", "mul_any", "mul_dig", "sim", "sim_gen"):
            lab.append("%s:alias" % gname)
        nt = any(k < 0 or k >= r for k in ks) or (op in ("sim_lot", "sim_dig") and len(pts) == 0) or (
            op.startswith("sim") and any(P is None for P in pts)) or not member
        return nt, lab
    return run


# ------------------------------------------------------------------------------ GT exponentiation and group operations

EXP_OPS = ["gt_exp", "gt_exp", "gt_exp", "gt_exp_sec", "gt_exp_sec", "gt_exp_sec", "gt_exp_dig", "gt_exp_gen",
           "gt_exp_sim", "gt_exp_sim", "gt_exp_sim", "fp12_exp_cyc", "fp12_exp_cyc_sim"]


def member_spec(x, draw, seed):
    k = draw(st.sampled_from(["member", "member", "member", "member", "gen", "unity"]))
    return gt_spec(x, draw, k, seed)


def strat_exp(env, cfg):
    x = my_ctx(env, cfg)
    r = x.r
    seed = env.job_seed % (1 << 24)
    sc = scalars(r)
    fpbits = x.F.p.bit_length()

    @st.composite
    def s(draw):
        op = draw(st.sampled_from(EXP_OPS))
        A = member_spec(x, draw, seed)
        C = None
        ks = [draw(sc)]
        if op == "gt_exp_dig":
            ks = [draw(ints.digit(64))]
        if op == "fp12_exp_cyc":
            # documented for cyclotomic elements; the recoding buffer admits exponents of at most RLC_FP_BITS bits
            if draw(st.integers(0, 2)) == 0:
                A = gt_spec(x, draw, draw(st.sampled_from(["cyc", "nor"])), seed)
            if abs(ks[0]).bit_length() >= fpbits:
                ks = [(abs(ks[0]) % r) * (-1 if ks[0] < 0 else 1)]
        if op in ("gt_exp_sim", "fp12_exp_cyc_sim"):
            rel = draw(st.sampled_from(["rand", "rand", "same", "inv", "unity"]))
            if rel == "rand":
                C = member_spec(x, draw, seed)
            elif rel == "same":
                C = dict(A)
            elif rel == "unity":
                C = {"k": "unity"}
            else:
                C = dict(A, inv=1)
            k0 = ks[0]
            ks.append(draw(st.one_of(sc, sc, st.sampled_from([k0, -k0, r - k0]))))
            if op == "fp12_exp_cyc_sim":
                # low-level routine: falls back to fp12_exp_cyc (recoding buffer of RLC_FP_BITS + 1 digits) when one
                # exponent is zero, so only exponents shorter than the field size are admitted; the sign is kept
                ks = [k if abs(k).bit_length() < fpbits else (abs(k) % r) * (-1 if k < 0 else 1) for k in ks]
        return dict(cid=x.cid, op=op, A=A, C=C, ks=ks, alias=draw(st.sampled_from([0, 0, 0, 1, 2, 3])),
                    poison=draw(st.integers(0, 255)))
    return s()


def gt_elem(x, spec):
    inv = spec.get("inv")
    a = resolve_gt(x, {k: v for k, v in spec.items() if k != "inv"})
    return x.FT.inv(a) if inv else a


def run_exp(env, cfg, case):
    x = G.ctx_for(env, cfg, case["cid"])
    G.gt_gen(env, cfg, x)
    F12, r = x.FT, x.r
    op, ks, alias = case["op"], case["ks"], case["alias"]
    cop = G.opname(x, op)                      # fp12_exp_cyc* -> the twin routine of the build's target field
    if op.startswith("fp12_") and cop not in env.runner(cfg).ops():
        raise Unsupported()
    a = x.gt_gen if op == "gt_exp_gen" else gt_elem(x, case["A"])
    c2 = gt_elem(x, case["C"]) if case["C"] else None
    member = case["A"]["k"] in ("member", "gen", "unity") or op == "gt_exp_gen"
    red = (lambda k: k % r) if member else (lambda k: k)
    want = F12.pow(a, red(ks[0]))
    if c2 is not None:
        want = F12.mul(want, F12.pow(c2, ks[1] % r))
    what = "%s[cid=%d]" % (cop, x.cid)

    def build(p):
        so = gt_out(p, x)
        ins = []
        if op in ("gt_exp", "gt_exp_sec", "fp12_exp_cyc"):
            sa, sk = gt_new(p, x, a), p.bn(ks[0])
            if alias == 1:
                so = sa
            p.call(cop, so, sa, sk)
            ins = [s_ for s_ in (sa, sk) if s_ != so]
        elif op == "gt_exp_dig":
            sa = gt_new(p, x, a)
            if alias == 1:
                so = sa
            p.call(op, so, sa, ks[0])
            ins = [s_ for s_ in (sa,) if s_ != so]
        elif op == "gt_exp_gen":
            sk = p.bn(ks[0])
            p.call(op, so, sk)
            ins = [sk]
        else:
            sa = gt_new(p, x, a)
            sc_ = sa if (alias == 3 and case["C"] == case["A"]) else gt_new(p, x, c2)
            k0, k1 = p.bn(ks[0]), p.bn(ks[1])
            so = sa if alias == 1 else sc_ if alias == 2 else so
            p.call(cop, so, sa, k0, sc_, k1)
            ins = [s_ for s_ in (sa, k0, sc_, k1) if s_ != so]
        p.dump(so)
        return so, ins
    for pz in (case["poison"], case["poison"] ^ 0xFF):
        res, (so, ins) = G.run(env, cfg, x, build, pz)
        c = res.calls[0]
        try:
            chk(c, what)
        except Violation as v:
            v.details.update(op=op, kemb=x.kemb, p_bits=x.F.p.bit_length())
            raise
        got = G.dec_gt(x, res.dumps[so], what)
        if not F12.eq(got, want):
            signbug = False
            if op == "fp12_exp_cyc_sim" and (ks[0] < 0) != (ks[1] < 0):
                alt = F12.mul(F12.pow(a, ks[0] % r), F12.pow(c2, (abs(ks[1]) * (-1 if ks[0] < 0 else 1)) % r))
                signbug = F12.eq(got, alt)
            dropped = False
            if member and c2 is None:
                dropped = any(F12.eq(got, F12.pow(a, alt[0])) for alt in frb_alternatives(x, ks[:1]))
            raise Violation("%s: result is not the reference power" % what, op=op, fn=cop, kemb=x.kemb, ks=ks, A=case["A"]["k"],
                            second_exponent_took_sign_of_first=signbug, dropped_top_digit=dropped,
                            C=case["C"]["k"] if case["C"] else None,
                            same_base=bool(case["C"]) and {k: v for k, v in case["C"].items() if k != "inv"} == case["A"],
                            result_is_unity=F12.eq(got, F12.one))
        if [s_ for s_ in c.changed if s_ in ins]:
            raise Violation("%s modified its input" % what)
    lab = ["op:" + cop, "cid:%d" % x.cid, "gt:base:%s" % case["A"]["k"]] + ["gt:%s" % l for l in scalar_labels(r, ks)]
    if alias and op != "gt_exp_gen":
        lab.append("gt:alias")
    if c2 is not None and F12.eq(a, c2):
        lab.append("gt:sim:same-base")
    return any(k < 0 or k >= r for k in ks), lab


GT_OPS = ["gt_inv", "gt_mul", "gt_mul", "gt_sqr", "gt_frb", "gt_frb", "gt_cmp", "gt_is_unity"]


def strat_ops(env, cfg):
    x = my_ctx(env, cfg)
    seed = env.job_seed % (1 << 24)

    @st.composite
    def s(draw):
        op = draw(st.sampled_from(GT_OPS))
        A = member_spec(x, draw, seed)
        B = None
        if op in ("gt_mul", "gt_cmp"):
            rel = draw(st.sampled_from(["rand", "same", "inv", "unity"]))
            B = member_spec(x, draw, seed) if rel == "rand" else dict(A) if rel == "same" else \
                dict(A, inv=1) if rel == "inv" else {"k": "unity"}
        return dict(cid=x.cid, op=op, A=A, B=B, i=draw(st.integers(0, x.kemb + 1)), alias=draw(st.sampled_from([0, 0, 1, 2, 3])),
                    poison=draw(st.integers(0, 255)))
    return s()


def run_ops(env, cfg, case):
    x = G.ctx_for(env, cfg, case["cid"])
    G.gt_gen(env, cfg, x)
    F12, r, p_ = x.FT, x.r, x.F.p
    op, alias = case["op"], case["alias"]
    a = gt_elem(x, case["A"])
    b = gt_elem(x, case["B"]) if case["B"] else None
    what = "%s[cid=%d]" % (op, x.cid)
    if op == "gt_inv":
        want = F12.inv(a)
    elif op == "gt_mul":
        want = F12.mul(a, b)
    elif op == "gt_sqr":
        want = F12.mul(a, a)
    elif op == "gt_frb":
        want = F12.pow(a, pow(p_, case["i"], r))         # a^(p^i) on an element of order r
    else:
        want = None

    def build(pg):
        sa = gt_new(pg, x, a)
        so = sa if alias == 1 else gt_out(pg, x)
        ins = [sa] if so != sa else []
        if op in ("gt_inv", "gt_sqr"):
            pg.call(op, so, sa)
        elif op == "gt_frb":
            pg.call(op, so, sa, case["i"])
        elif op == "gt_mul":
            sb = sa if (alias == 3 and case["B"] == case["A"]) else gt_new(pg, x, b)
            if alias == 2:
                so = sb
            ins = [s_ for s_ in (sa, sb) if s_ != so]
            pg.call(op, so, sa, sb)
        elif op == "gt_cmp":
            sb = gt_new(pg, x, b)
            pg.call(op, sa, sb)
            ins = [sa, sb]
        else:
            pg.call(op, sa)
            ins = [sa]
        pg.dump(so)
        return so, ins
    for pz in (case["poison"], case["poison"] ^ 0xFF):
        res, (so, ins) = G.run(env, cfg, x, build, pz)
        c = res.calls[0]
        chk(c, what)
        if [s_ for s_ in c.changed if s_ in ins]:
            raise Violation("%s modified its input" % what)
        if want is not None:
            got = G.dec_gt(x, res.dumps[so], what)
            if not F12.eq(got, want):
                raise Violation("%s: wrong result" % what, op=op, i=case["i"])
        elif op == "gt_cmp":
            w = 0 if F12.eq(a, b) else 2
            if c.ret_i(0) != w:
                raise Violation("%s wrong" % what, got=c.ret_i(0), want=w)
        else:
            if bool(c.ret_i(0)) != F12.eq(a, F12.one):
                raise Violation("%s wrong" % what, got=c.ret_i(0))
    lab = ["op:" + op, "cid:%d" % x.cid]
    if op == "gt_frb":
        lab.append("gt:frb:i=%d" % case["i"])
    return not F12.eq(a, F12.one), lab


# ------------------------------------------------------------------------------ evidence, self-test, targets

def evidence_extra(results):
    tot = collections.Counter()
    for r_ in results:
        tot.update(r_["labels"] or {})
    split = {}
    for k, v in tot.items():
        if k.startswith("split:"):
            _, gc, cls = k.split(":")
            split.setdefault(gc, {"member": 0, "non-member": 0})[cls] += v
    return {"membership_split": dict(sorted(split.items()))}


def self_test():
    rec.self_test()
    rext.self_test()
    # published: BLS12-381 G1 cofactor (z-1)^2/3 = 3 * 11^2 * 10177^2 * 859267^2 * 52437899^2
    assert small_factors(0x396C8C005555E1568C00AAAB0000AAAB) == {3: 1, 11: 2, 10177: 2, 859267: 2, 52437899: 2}
    assert small_factors(2 * 3 * 3 * 1048573 * (2 ** 89 - 1)) == {2: 1, 3: 2, 1048573: 1}
    # conjugation = p^6-power Frobenius, easy part lands in the cyclotomic subgroup (toy tower over p = 43, i^2 = -1)
    p = 43
    for e2 in ((1, 1), (2, 1), (1, 2), (3, 1), (2, 3), (4, 1)):
        T = rext.build_tower(p, -1, None, e2)
        if T[6].irreducible() and T[12].irreducible():
            break
    else:
        raise AssertionError("no toy tower")
    F12 = T[12]
    f = F12.unflatten([(7 * i * i + 3 * i + 5) % p for i in range(12)])
    assert F12.eq(conj12(F12, f), F12.pow(f, p ** 6))

    class X:
        pass
    x = X()
    x.F12, x.F = F12, rec.PrimeField(p)
    c = easy_part(x, f)
    assert F12.eq(F12.pow(c, p ** 4 - p ** 2 + 1), F12.one) and not F12.eq(c, F12.one)


def _cfgs():
    # base256: BN_P256 + SM9_P256 (D- and M-type twists, G1 cofactor 1); p381: BLS12-381 (G1 cofactor > 1, M-type twist);
    # thorough adds the quadratic-non-residue tower variant, B12_P383 and BN_P446
    return {"quick": ["base256", "p381"], "thorough": ["base256", "p381", "p381-qnres", "pf-383", "pf-446"]}


# Ordered by ascending cost per case: the driver starts jobs in declaration order, so when the wall-clock budget is hit
# on a loaded machine the cheap targets are complete and only the tail of the most expensive one is cut.
# thorough sweep over the other parameter sets (engine/pcctx_g.py; the list is the one of props/c04.py): the same
# strategies and run functions under their own target names, so that the k = 12 targets keep their evidence rows
SWEEP12 = ["pf-377", "pf-382", "pf-455", "pf-638-q"]          # pf-383, pf-446 are part of the main thorough list
# pf-315-jacob: B24_P315 with Jacobian coordinates, where the invalid-curve class 'iso' is effective against the G1
# shortcuts (the doubling formulas do not involve b; the homogeneous complete formulas of the default build do)
SWEEPK = ["pf-544", "pf-330", "pf-510", "pf-765-b", "pf-766-b", "pf-354", "pf-508", "pf-638", "pf-768", "pf-315", "pf-317",
          "pf-509", "pf-315-jacob"]
SWEEP48 = ["pf-575-q"]
OPTIONAL_CFGS = OPTIONAL_CFGS + SWEEP12 + SWEEPK + SWEEP48


def _sweep(name, strat, run, n12, nk, n48):
    return [Target(name, strat, run, {"quick": [], "thorough": SWEEP48}, quick=1, thorough=n48, job_size={"quick": 6, "thorough": 6}),
            Target(name, strat, run, {"quick": [], "thorough": SWEEPK}, quick=1, thorough=nk, job_size={"quick": 40, "thorough": 40}),
            Target(name, strat, run, {"quick": [], "thorough": SWEEP12}, quick=1, thorough=n12, job_size={"quick": 100, "thorough": 100})]


# per configuration; measured cost per case (one worker): G1 0.02 s, G2 0.1 - 0.8 s (7.6 s for the lifted points of the
# twist over Fp8), GT 0.05 - 1.1 s (1 - 6 s for k = 48): about 7000 CPU-seconds in total (10250 measured with sizes 1.4x these), a quarter of the budget
SWEEPS = _sweep("mul-g1-k", strat_mul("g1"), run_mul("g1"), 300, 200, 24) + \
    _sweep("valid-g1-k", strat_valid_point("g1"), run_valid_point("g1"), 300, 250, 24) + \
    _sweep("mul-g2-k", strat_mul("g2"), run_mul("g2"), 160, 90, 18) + \
    _sweep("valid-g2-k", strat_valid_point("g2"), run_valid_point("g2"), 100, 70, 12) + \
    _sweep("ops-gt-k", strat_ops, run_ops, 80, 50, 12) + \
    _sweep("exp-gt-k", strat_exp, run_exp, 160, 120, 18) + \
    _sweep("valid-gt-k", strat_valid_gt, run_valid_gt, 120, 90, 12)

TARGETS = SWEEPS + [
    Target("mul-g1", strat_mul("g1"), run_mul("g1"), _cfgs(), quick=2200, thorough=16000),
    Target("valid-g1", strat_valid_point("g1"), run_valid_point("g1"), _cfgs(), quick=2600, thorough=20000),
    Target("mul-g2", strat_mul("g2"), run_mul("g2"), _cfgs(), quick=1100, thorough=8000),
    Target("valid-g2", strat_valid_point("g2"), run_valid_point("g2"), _cfgs(), quick=1300, thorough=8000),
    Target("ops-gt", strat_ops, run_ops, _cfgs(), quick=330, thorough=1000),
    Target("exp-gt", strat_exp, run_exp, _cfgs(), quick=1000, thorough=4000),
    Target("valid-gt", strat_valid_gt, run_valid_gt, _cfgs(), quick=1000, thorough=3000),
]


# ------------------------------------------------------------------------------ known findings (narrow matchers)

def _kf_gt_valid_raises(case, v, entry):
    """gt_is_valid raises an error (instead of returning 0) for a non-member whose four compressed (Karabina)
    coordinates a[0][1], a[0][2], a[1][0], a[1][2] are all zero: 0 and every element a00 + a11*(v*w) != 1, e.g. all of
    Fp and Fp2. Only the error outcome on exactly those inputs is matched."""
    d = v.details
    if case.get("fn") != "gt_is_valid" or not d.get("errored") or d.get("op") != "gt_is_valid":
        return False
    e = d.get("elem")
    if not e or len(e) != 12:
        return False
    if any(e[i] for i in (2, 3, 4, 5, 6, 7, 10, 11)):
        return False
    return not (e[0] == 1 and not any(e[1:]))


def _kf_test_cyc_zero(case, v, entry):
    """fp12_test_cyc(0) returns 1 (0^(p^4) * 0 == 0^(p^2)); 0 is not in the cyclotomic subgroup."""
    d = v.details
    return case.get("fn") == "fp12_test_cyc" and d.get("op") == "fp12_test_cyc" and d.get("got") == 1 and \
        d.get("want") == 0 and d.get("zero") is True


def _kf_g2_sim_dig_empty(case, v, entry):
    """g2_mul_sim_dig (ep2_mul_sim_dig) with an empty list reads k[0]."""
    d = v.details
    return case.get("op") == "sim_dig" and case.get("pts") == [] and bool(d.get("crash")) and \
        "heap-buffer-overflow" in (d.get("kind") or "") and any(f.startswith("ep2_mul_sim_dig@") for f in d.get("frames") or [])


def _kf_exp_cyc_sim_sign(case, v, entry):
    """fp12_exp_cyc_sim(e, a, b, c, d) gives the second exponent the sign of the first (relic_fpx_cyc.c: the test
    before negating _d[0] reads bn_sign(b)); matched only when the signs differ and the wrong result is exactly
    a^b * c^(sign(b)|d|)."""
    ks = case.get("ks") or []
    return case.get("op") == "fp12_exp_cyc_sim" and len(ks) == 2 and (ks[0] < 0) != (ks[1] < 0) and \
        v.details.get("second_exponent_took_sign_of_first") is True


def _kf_frb_top_digit(case, v, entry):
    """bn_rec_frb (base-|u| expansion of a scalar into phi(k) digits for the Frobenius-based multiplications in G2 and
    GT) drops whatever exceeds phi(k) digits. Families with r > |u|^phi(k) (GMT8: r = u^4 + 1, AFG16 / FM16: u^8 + 1,
    FM18: u^6 + u^3 + 1) get [k mod |u|^phi(k)]P for the scalars k in [|u|^phi(k), r): g2_mul(P, r - 1) = O,
    gt_exp(a, r - 1) = 1. Matched only when the wrong result is exactly that value."""
    d = v.details
    return d.get("dropped_top_digit") is True and not d.get("crash") and not d.get("errored")


def _kf_gt_exp_sec_frdim(case, v, entry):
    """gt_exp_sec -> gt_exp_reg_sac uses q[1], q[2] of an array of ep_curve_frdim() elements as temporaries: stack
    overflow for every exponent when frdim() < 3 (GMT8_P544: frdim() = 1). The entry is restricted to pf-544."""
    d = v.details
    return case.get("op") == "gt_exp_sec" and bool(d.get("crash")) and "stack-buffer-overflow" in (d.get("kind") or "") and \
        any(f.startswith("gt_exp_reg_sac@") for f in d.get("frames") or [])


def _all_zero(v):
    if isinstance(v, (list, tuple)):
        return all(_all_zero(t) for t in v)
    return v == 0


def _kf_cmp_origin(case, v, entry):
    """epK_cmp(O, (0, 0)) = RLC_EQ (cross-multiplication with z = 0, no test for exactly one point at infinity): on the
    curves y^2 = x^3 + ax (GMT8 and every k = 16 family) the 2-torsion point (0, 0) passes g1_is_valid / g2_is_valid,
    whose shortcuts end in a comparison of [even]P = O with P. Matched only for exactly that point and verdict."""
    d = v.details
    return case.get("fn") is None and d.get("got") == 1 and d.get("want") == 0 and d.get("on_curve") is True and \
        d.get("identity") is False and d.get("P") is not None and _all_zero(d.get("P"))


def _kf_gt_exp_k8_long(case, v, entry):
    """gt_exp / gt_exp_gen on GMT8_P544 hand the exponent unreduced to fp8_exp_cyc, whose NAF buffer holds
    RLC_FP_BITS + 1 digits: exponents longer than the field size are refused with an error (every other degree reduces
    modulo r first). Matched only for the clean error on such an exponent."""
    d = v.details
    return case.get("op") in ("gt_exp", "gt_exp_gen") and d.get("kemb") == 8 and d.get("errored") is True and \
        not d.get("crash") and any(abs(k).bit_length() > d.get("p_bits", 1 << 30) for k in case.get("ks") or [])


KNOWN_PREDICATES = {"bn_rec_frb_drops_top_digit": _kf_frb_top_digit,
                    "gt_exp_k8_long_exponent_refused": _kf_gt_exp_k8_long,
                    "epK_cmp_infinity_equals_origin": _kf_cmp_origin,
                    "gt_exp_sec_stack_overflow_small_frdim": _kf_gt_exp_sec_frdim,
                    "fp12_exp_cyc_sim_sign_of_second_exponent": _kf_exp_cyc_sim_sign,
                    "g2_mul_sim_dig_empty_list": _kf_g2_sim_dig_empty,
                    "gt_is_valid_raises_on_degenerate_compressed_form": _kf_gt_valid_raises,
                    "fp12_test_cyc_accepts_zero": _kf_test_cyc_zero}

"""C19 - error handling and library context behave as a well-defined state machine (DESIGN section 2, C19).

Four generated searches:
  trycatch  recursively generated try/throw programs executed by ONE C interpreter whose Try case is literally
            RLC_TRY {..} RLC_CATCH(e)/RLC_CATCH_ANY {..} [RLC_FINALLY {..}] (engine/shim/b_err.c); oracle is the
            small-step model engine/ref/errsm.py written from the property statement and relic_err.h.
  contexts  histories over k <= 4 ctx_t objects (core_set / core_init / throw / get_code / parameter selection /
            DRBG / [k]G / core_clean); oracle: every context's observations equal those of a FRESH process that
            runs only that context's own steps, and the error state follows the single-context model.
  reparam   sequences of parameter selections (ep / eb / fp identifiers) with generated heavy use in between; a
            fixed probe battery afterwards must return the bytes a FRESH process returns after only the last
            selection.  orders2 / orders3 enumerate every ordered pair / triple of prime-curve identifiers.
  threads   (MULTI=PTHREAD builds) T <= 4 threads, own context each, generated workloads under a generated
            operation-level schedule enforced by a baton (or free-running); oracle: per-thread outputs equal the
            single-threaded run of the same workload in a fresh process; sanitizer reports are violations."""
import struct

from hypothesis import strategies as st

from engine import core
from engine.core import Target, Violation, Unsupported
from engine.proto import Prog, Runner, RunnerCrash, ERR
from engine.ref import errsm

PROPERTY = "C19"
RULE = ("trycatch: recursive Hypothesis strategy over Mark | Throw(code, from-leaf-function) | Try(catch e / catch any, "
        "handler, finally or none) | Call (separate non-inlined C frame) | GetCode | GetMsg, depth <= 6, size <= 60, "
        "handlers fall out / rethrow ERR_CAUGHT / throw a new code, throws also outside any block, each program run "
        "with and without the runner's enclosing block; non-trivial = dynamic Try nesting >= 2 and >= 1 throw whose "
        "handler is at least one Call frame further out. contexts: generated histories over k <= 4 contexts; "
        "non-trivial = >= 2 contexts used and >= 2 context switches. reparam: generated selection sequences of length "
        "1..8 over all identifiers accepted by the configuration with generated use in between; non-trivial = >= 2 "
        "different identifiers; orders2/orders3 enumerate all ordered pairs/triples of prime-curve identifiers per "
        "generated use pattern. threads: generated workloads and schedule word; non-trivial = >= 2 switches between "
        "threads. distinct = distinct (target, cfg, case) hashes")
ASSUMPTIONS = [
    "return/goto out of a protected block and throwing out of a FINALLY block are not generated (the first is the "
    "documented restriction of setjmp-based handlers, the second has no documented meaning)",
    "the order of handler and finalisation is not fixed by the property; a trace is accepted when it matches the "
    "model with finalisation-first or with handler-first consistently (observed: finalisation first)",
    "what an into-variable handler sees after RLC_THROW(ERR_CAUGHT) is undocumented; accepted: variable untouched, "
    "ERR_CAUGHT, or the code of the error that had been caught (observed: variable untouched)",
    "a selection that raises an error (unknown identifier) is not a 'last selection': the generator always follows "
    "it by a valid selection of the same module before the probes",
    "after a bare fp_param_set only field probes run (the curve modules then hold parameters of another field); "
    "pairing-friendly curves are always selected together with their twist (ep_param_set + ep2_curve_set_twist, as "
    "ep_param_set_any_pairf does)",
    "thread interleavings are owned at the granularity of library calls; instruction-level interleavings are only "
    "sampled by the free-running mode (under ThreadSanitizer in the thorough tier)",
    "fp_param_set with an identifier of another field size is a silent no-op in this build and is not generated",
]
BUDGET_S = {"quick": 230, "thorough": 1700}
JOB_SIZE = {"quick": 500, "thorough": 2500}

SENT = errsm.SENTINEL
REAL_CODES = list(range(2, 12))

# identifiers that must be selectable per field size (include/relic_ep.h, relic_fp.h, relic_eb.h); value = twist
EXPECT = {
    256: dict(ep={12: 0, 13: 0, 14: 0, 15: 0, 23: 1, 24: 2}, fp=[14, 15, 16, 17, 27, 28]),
}
EXPECT_EB = {283: [8, 9]}
EP_NAMES = {12: "NIST_P256", 13: "BSI_P256", 14: "SECG_K256", 15: "SM2_P256", 23: "BN_P256", 24: "SM9_P256"}


# ====================================================================================== 1. try/throw programs

def strat_prog(env, cfg):
    @st.composite
    def s(draw):
        unprot = draw(st.booleans())
        budget = [draw(st.sampled_from([8, 16, 30, 45, 60]))]
        fin_try = draw(st.integers(0, 7)) == 0      # minority class: protected blocks inside finalisers

        def seq(depth, throw_ok, in_handler, in_fin, minlen, maxlen, top=False, in_call=False):
            out = []
            for _ in range(draw(st.integers(minlen, maxlen))):
                if budget[0] <= 0 and len(out) >= minlen:
                    break
                out.append(node(depth, throw_ok, in_handler, in_fin, top, in_call))
            return out

        def node(depth, throw_ok, in_handler, in_fin, top=False, in_call=False):
            budget[0] -= 1
            ch = ["M", "G", "E"] if top else ["M", "M", "G", "E"]
            if throw_ok:
                # a throw at the very top of a protected run ends the program at once: keep that a rare class
                ch += ["T"] if (top and not unprot) else ["T", "T", "T", "T"] + (["T", "T"] if in_call else [])
            if depth < 6 and budget[0] > 0:
                ch += ["C", "C", "C"]
                if not in_fin or fin_try:
                    ch += ["Y", "Y", "Y", "Y", "Y"] + (["Y", "Y", "Y"] if top else [])
            k = draw(st.sampled_from(ch))
            if k == "M":
                return ["M", draw(st.integers(0, 255))]
            if k == "G" or k == "E":
                return [k]
            if k == "T":
                if in_handler and draw(st.integers(0, 2)) < 2:
                    code = errsm.ERR_CAUGHT
                else:
                    code = draw(st.sampled_from(REAL_CODES))
                return ["T", code, draw(st.integers(0, 1))]
            if k == "C":
                return ["C", draw(st.integers(0, 255)), seq(depth + 1, throw_ok, in_handler, in_fin, 1, 3, in_call=True)]
            kind = draw(st.integers(0, 1))
            body = seq(depth + 1, True, in_handler, in_fin, 1, 3)
            handler = seq(depth + 1, throw_ok, True, in_fin, 0, 3)
            fin = None
            if draw(st.integers(0, 1)):
                fin = seq(depth + 1, False, False, True, 0, 2)
            return ["Y", kind, body, handler, fin]

        prog = seq(0, True, False, False, 1, 6, top=True)
        return dict(prog=prog, unprot=unprot, poison=draw(st.integers(0, 255)))
    return s()


def decode_trace(b):
    out = []
    if len(b) % 7:
        raise core.HarnessError("bad trace length")
    for i in range(0, len(b), 7):
        tag = chr(b[i])
        a = b[i + 1] | (b[i + 2] << 8)
        v = struct.unpack_from("<i", b, i + 3)[0]
        if tag in "MTGE":
            out.append((tag, a))
        elif tag == "e":
            out.append((tag,))
        elif tag in "Cc":
            out.append((tag,))
        elif tag in "BF":
            out.append((tag, a))
        elif tag == "H":
            out.append((tag, a, None if v == -1 else v))
        elif tag == "R":
            out.append((tag, a, v))
        elif tag == "L":
            out.append((tag, a, v & 0xFF, v >> 8))
        else:
            raise core.HarnessError("bad trace tag %r" % tag)
    return out


def _strip(tr):
    """the model numbers call frames, the interpreter does not"""
    return [(e[0],) if e[0] in "Cc" else e for e in tr]


def has_try_in_fin(seq, in_fin=False):
    for n in seq:
        if n[0] == "Y":
            if in_fin:
                return True
            if has_try_in_fin(n[2], False) or has_try_in_fin(n[3], False):
                return True
            if n[4] is not None and has_try_in_fin(n[4], True):
                return True
        elif n[0] == "C":
            if has_try_in_fin(n[2], in_fin):
                return True
    return False


def _size_depth(seq, d=0):
    n, md = 0, d
    for x in seq:
        n += 1
        if x[0] == "C":
            a, b = _size_depth(x[2], d + 1)
            n += a
            md = max(md, b)
        elif x[0] == "Y":
            for part in (x[2], x[3], x[4] or []):
                a, b = _size_depth(part, d + 1)
                n += a
                md = max(md, b)
    return n, md


def _expect(prog, protected, **kw):
    m = errsm.Model(protected, **kw)
    tr = _strip(m.run(prog))
    return m, tr


def _post_checks(m, c0, protected):
    """observations made by the runner after the program returned / escaped"""
    escaped = m.trace and m.trace[-1][0] == "X"
    if c0.code != m.code:
        return "err_get_code() after the program returned %d, model says %d" % (c0.code, m.code)
    if not protected:
        want_first = m.number if (m.recorded and not m.stack) else 0
        if c0.first != want_first:
            return "recorded first unprotected error is %d, model says %d" % (c0.first, want_first)
    if bool(c0.caught) != bool(escaped):
        return "program %s the runner's handler, model says it %s" % (
            "reached" if c0.caught else "did not reach", "does" if escaped else "does not")
    return None


def run_prog(env, cfg, case):
    prog = case["prog"]
    protected = not case["unprot"]
    p = Prog(poison=case["poison"], unprotected=case["unprot"])
    b = p.buf(errsm.serialise(prog))
    p.call("c19_prog", b)
    p.call("c19_trace")
    res = env.runner(cfg).run(p)
    c0, c1 = res.calls
    if c0.unsupported or c1.unsupported:
        raise Unsupported()
    if c0.ub or c1.ub:
        raise Violation("undefined behaviour while running a try/throw program", ub=c0.ub + c1.ub)
    real = decode_trace(c1.blobs[0])
    if c0.caught:
        real.append(("X", c0.e))
    if c0.changed:
        raise Violation("the program buffer was modified", changed=sorted(c0.changed))

    verdicts = []
    matched = None
    for ff in (True, False):
        m, want = _expect(prog, protected, finally_first=ff)
        d = errsm.match(real, want)
        if d is None:
            d2 = _post_checks(m, c0, protected)
            if d2 is None:
                matched = (ff, m)
                break
            verdicts.append((ff, d2, want))
        else:
            verdicts.append((ff, "event %d: observed %r, expected %r" % d, want))
    if matched is None:
        mq, wq = _expect(prog, protected, finally_first=True, quirk_global_caught=True)
        quirk = errsm.match(real, wq) is None and _post_checks(mq, c0, protected) is None
        ff, why, want = verdicts[0]
        h_real = {e[1] for e in real if e[0] == "H"}
        h_want = {e[1] for e in want if e[0] == "H"}
        directions = (["swallowed"] if h_want - h_real else []) + (["spurious"] if h_real - h_want else [])
        raise Violation("try/throw program (%s) diverges from the documented semantics: %s" % (
            "protected by the runner" if protected else "no enclosing block", why),
            observed=[list(e) for e in real], expected=[[sorted(x) if isinstance(x, frozenset) else x for x in e]
                                                       for e in want],
            quirk_match=quirk, try_in_finally=has_try_in_fin(prog), directions=directions)
    ff, m = matched
    size, depth = _size_depth(prog)
    labels = ["mode:%s" % ("protected" if protected else "unprotected"),
              "nest:%d" % min(m.max_try_depth, 6), "size:%s" % ("<=5" if size <= 5 else "<=20" if size <= 20 else "<=60")]
    if m.frame_crossings:
        labels.append("throw-crosses-frames:%d" % min(m.max_frames_crossed, 4))
    if m.unprotected_throws:
        labels.append("throw-outside-any-block")
    if m.rethrows:
        labels.append("handler-rethrows-ERR_CAUGHT")
    if m.handler_new_throws:
        labels.append("handler-throws-new-code")
    if any(e[0] == "H" and e[2] is None for e in m.trace):
        labels.append("catch-any-taken")
    if any(e[0] == "H" and e[2] is not None for e in m.trace):
        labels.append("catch-into-variable-taken")
    if m.fin_runs:
        labels.append("finally-run")
    if any(e[0] == "F" for e in m.trace) and any(e[0] == "H" for e in m.trace):
        # does the order matter for this program?
        _, other = _expect(prog, protected, finally_first=not ff)
        if errsm.match(real, other) is not None:
            labels.append("order:%s" % ("finally-first" if ff else "handler-first"))
    if has_try_in_fin(prog):
        labels.append("try-inside-finally")
    if m.trace[-1][0] == "X":
        labels.append("escapes-to-runner")
    if any(e[0] == "E" for e in m.trace):
        labels.append("err_get_msg")
    if any(e[0] == "G" and e[1] == 1 for e in m.trace):
        labels.append("sticky-code-read")
    if any(e[0] == "R" and e[2] == 0 for e in m.trace):
        labels.append("chain-holds-record-after-try")
    nt = m.max_try_depth >= 2 and m.frame_crossings >= 1
    return nt, labels


# ====================================================================================== shared: configuration facts

_FACTS = {}


STRICT_CFGS = ("base256", "pth", "pth-tsan", "dyn", "base256-gcc")


def facts(env, cfg):
    """Which identifiers does this configuration accept?  Established by trying each one in a fresh process and
    (for the default option set) cross-checked against the identifiers the headers define for the field size.
    Cached on disk per runner binary, because every worker job needs it."""
    if cfg in _FACTS:
        return _FACTS[cfg]
    import json
    import os
    from engine import build
    exe = build.ensure(cfg)
    cpath = os.path.join(build.VERIF, ".work", "c19_facts_%s_%d.json" % (cfg, int(os.path.getmtime(exe) * 1000)))
    import fcntl
    os.makedirs(os.path.dirname(cpath), exist_ok=True)
    with open(cpath + ".lock", "w") as lk:
        fcntl.flock(lk, fcntl.LOCK_EX)        # one worker discovers, the others wait and read the result
        try:
            if os.path.exists(cpath):
                try:
                    f = json.load(open(cpath))
                    if f is not None:
                        f["ep"] = {int(k): v for k, v in f["ep"].items()}
                    _FACTS[cfg] = f
                    return f
                except Exception:
                    pass
            f = _discover(cfg)
            try:
                import glob
                for old in glob.glob(os.path.join(build.VERIF, ".work", "c19_facts_%s_*" % cfg)):
                    if not old.startswith(cpath):
                        os.remove(old)      # caches of earlier runner binaries
                tmp = cpath + ".%d" % os.getpid()
                json.dump(f, open(tmp, "w"))
                os.replace(tmp, cpath)
            except Exception:
                pass
        finally:
            fcntl.flock(lk, fcntl.LOCK_UN)
    _FACTS[cfg] = f
    return f


def _discover(cfg):
    r = Runner(cfg)
    try:
        if "c19_selinfo" not in r.ops():
            return None
        p = Prog()
        p.call("c19_selinfo")
        info = r.run(p).calls[0].rets
    finally:
        r.close()
    bits, pair, fbbits = info[6], info[7], info[8]
    f = dict(bits=bits, pair=pair, fbbits=fbbits, ep={}, fp=[], eb=[])

    def try_sel(kind, ident, tw, probe_family):
        rr = Runner(cfg)
        try:
            p = Prog()
            p.call("c19_sel", kind, ident, tw)
            p.call("c19_probe", probe_family, 1)
            if kind == 0 and pair:
                p.call("c19_selinfo")
            try:
                res = rr.run(p)
            except RunnerCrash:
                return None
            if res.calls[0].errored or res.calls[1].errored or not res.calls[1].blobs:
                return None
            return res
        finally:
            rr.close()

    strict = cfg in STRICT_CFGS
    exp = EXPECT.get(bits) if strict else None
    for i in (sorted(exp["ep"]) if exp else range(1, 56)):
        res = try_sel(0, i, 0, 1)
        if res is None:
            continue
        tw = 0
        if pair and len(res.calls) > 2 and res.calls[2].rets[2]:
            # pairing-friendly: find the twist type under which the G2 generator is valid
            for t in (1, 2):
                rr = Runner(cfg)
                try:
                    p = Prog()
                    p.call("c19_sel", 0, i, t)
                    p.call("c19_twist_check")
                    try:
                        r2 = rr.run(p)
                    except RunnerCrash:
                        continue
                    if not r2.calls[0].errored and not r2.calls[1].errored and r2.calls[1].rets == [1, 1, 1]:
                        tw = t
                        break
                finally:
                    rr.close()
        f["ep"][i] = tw
    for i in (exp["fp"] if exp else range(1, 62)):
        if try_sel(2, i, 0, 0) is not None:
            f["fp"].append(i)
    if fbbits:
        for i in (EXPECT_EB[fbbits] if strict and fbbits in EXPECT_EB else range(1, 14)):
            if try_sel(1, i, 0, 2) is not None:
                f["eb"].append(i)
    if strict and exp:
        if f["ep"] != exp["ep"] or f["fp"] != exp["fp"]:
            f["mismatch"] = "identifiers accepted %r / %r differ from the ones the headers define for %d bits %r" % (
                f["ep"], f["fp"], bits, exp)
    if strict and fbbits in EXPECT_EB and f["eb"] != EXPECT_EB[fbbits]:
        f["mismatch"] = "binary-curve identifiers accepted %r, headers define %r" % (f["eb"], EXPECT_EB[fbbits])
    return f


def _need_facts(env, cfg):
    f = facts(env, cfg)
    return f is not None and bool(f["ep"])


def _fresh(cfg, prog, timeout=120.0):
    """run one request in a brand-new runner process"""
    r = Runner(cfg, timeout=timeout)
    try:
        return r.run(prog)
    finally:
        r.close()


def _check_call(c, what):
    if c.unsupported:
        raise Unsupported()
    if c.ub:
        raise Violation("undefined behaviour reported in %s: %s" % (what, c.ub), ub=c.ub)


# ====================================================================================== 2. contexts

OP_INIT, OP_THROW, OP_GETCODE, OP_PARAM, OP_SEED, OP_RAND, OP_MULGEN, OP_CLEAN, OP_PEEK, OP_GETMSG, OP_RESET, \
    OP_RANDMOD, OP_HASH, OP_LWNAF, OP_MAP, OP_LAZY = range(16)
OP_NAME = ["core_init", "throw", "get_code", "ep_param_set", "seed", "rand_bytes", "mul_gen", "core_clean", "peek",
           "get_msg", "core_set-again", "bn_rand_mod", "hash", "mul_lwnaf", "ep_map", "lazy-init-by-thread-initializer"]
BAD_ID = 0x7FF1


def _draw_step(draw, stt, ids, allow_bad=True):
    """one operation that is admissible in context state stt = dict(live, seeded, curve); updates stt"""
    if not stt["live"]:
        stt.update(live=True, seeded=False, curve=False)
        return [OP_INIT, 0]
    ch = [OP_THROW, OP_THROW, OP_GETCODE, OP_GETCODE, OP_PARAM, OP_PARAM, OP_SEED, OP_PEEK, OP_GETMSG, OP_RESET,
          OP_HASH, OP_CLEAN]
    if not stt["seeded"]:
        ch += [OP_SEED, OP_SEED, OP_SEED]
    if not stt["curve"]:
        ch += [OP_PARAM, OP_PARAM, OP_PARAM]
    if stt["seeded"]:
        ch += [OP_RAND, OP_RAND]
        if stt["curve"]:
            ch += [OP_MULGEN, OP_MULGEN, OP_RANDMOD, OP_LWNAF]
    if stt["curve"]:
        ch += [OP_MAP]
    op = draw(st.sampled_from(ch))
    arg = 0
    if op == OP_THROW:
        arg = draw(st.sampled_from(REAL_CODES))
    elif op == OP_PARAM:
        if allow_bad and draw(st.integers(0, 7)) == 0:
            arg = BAD_ID
        else:
            arg = draw(st.sampled_from(ids))
            stt["curve"] = True
    elif op == OP_SEED:
        arg = draw(st.integers(0, 0xFFFF))
        stt["seeded"] = True
    elif op in (OP_RAND, OP_HASH, OP_LWNAF, OP_MAP):
        arg = draw(st.integers(0, 0xFFFF))
    elif op == OP_CLEAN:
        stt.update(live=False, seeded=False, curve=False)
    return [op, arg]


def strat_ctx(env, cfg):
    ids = sorted(facts(env, cfg)["ep"])

    @st.composite
    def s(draw):
        k = draw(st.integers(1, 4))
        states = [dict(live=False, seeded=False, curve=False) for _ in range(k)]
        steps = []
        cur = 0
        for _ in range(draw(st.integers(1, 36))):
            # stay on the current context with probability ~ 1/2, so that runs of several operations occur
            if k > 1 and draw(st.integers(0, 1)):
                cur = draw(st.integers(0, k - 1))
            op, arg = _draw_step(draw, states[cur], ids)
            steps.append([cur, op, arg])
        return dict(k=k, fill=draw(st.sampled_from([0, 0xFF, 0xA5, 0x5A, 1])), steps=steps)
    return s()


def _enc_hist(steps):
    return b"".join(bytes([i, op]) + struct.pack("<I", arg) for i, op, arg in steps)


def _dec_hist(blob):
    out = []
    i = 0
    while i < len(blob):
        c, op = blob[i], blob[i + 1]
        n = struct.unpack_from("<I", blob, i + 2)[0]
        out.append((c, op, bytes(blob[i + 6:i + 6 + n])))
        i += 6 + n
    return out


def _run_hist(cfg, steps, k, fill):
    p = Prog()
    b = p.buf(_enc_hist(steps))
    p.call("c19_ctx_run", b, k, fill)
    res = _fresh(cfg, p)
    c = res.calls[0]
    _check_call(c, "context history")
    if c.errored:
        raise Violation("operations on private contexts raised an error in the caller's own context "
                        "(caught=%d e=%d code=%d)" % (c.caught, c.e, c.code))
    return _dec_hist(c.blobs[0])


def _ctx_model_check(ops, outs, what):
    """single-context error-state model (relic_err.h / relic_core.h): sticky code, first unprotected error
    recorded, err_get_msg hands it out once, core_init resets, core_clean returns the current condition."""
    code, rec, num = 0, False, 0
    for (op, arg), out in zip(ops, outs):
        if op == OP_INIT:
            if out != struct.pack("<I", 0):
                raise Violation("%s: core_init did not return RLC_OK" % what, out=out.hex())
            code, rec, num = 0, False, 0
        elif op == OP_LAZY:
            if out != b"\x01" + struct.pack("<I", 0):
                raise Violation("%s: the first core_get() of the thread did not yield a context initialised by the "
                                "registered thread initializer" % what, out=out.hex())
            code, rec, num = 0, False, 0
        elif op == OP_THROW:
            code = 1
            if not rec:
                rec, num = True, arg
        elif op == OP_PARAM and arg == BAD_ID:
            code = 1
            if not rec:
                rec, num = True, None     # which code the library records for its internal rethrow is not specified
        elif op == OP_GETCODE:
            if out != struct.pack("<I", code):
                raise Violation("%s: err_get_code() returned %d, model says %d" % (
                    what, struct.unpack("<I", out)[0], code))
            code = 0
        elif op == OP_CLEAN:
            if out != struct.pack("<I", code):
                raise Violation("%s: core_clean() returned %d, the context's condition is %d" % (
                    what, struct.unpack("<I", out)[0], code))
        elif op == OP_PEEK:
            cls, n, cd = struct.unpack("<BII", out)
            if cls != (1 if rec else 0) or cd != code or (rec and num is not None and n != num):
                raise Violation("%s: context error state is (recorded=%d number=%d code=%d), model says "
                                "(recorded=%d number=%r code=%d)" % (what, cls, n, cd, rec, num, code))
        elif op == OP_GETMSG:
            if rec:
                got = struct.unpack("<I", out)[0] if len(out) == 4 else None
                if got is None or (num is not None and got != num):
                    raise Violation("%s: err_get_msg returned %r, recorded error is %r" % (what, got, num))
                rec = False
            elif out:
                raise Violation("%s: err_get_msg ran although nothing was recorded" % what)
        elif op == OP_PARAM:
            if out != struct.pack("<I", arg):
                raise Violation("%s: ep_param_get() is %d after ep_param_set(%d)" % (
                    what, struct.unpack("<I", out)[0], arg))
        elif op == OP_RESET:
            if out != b"\x01":
                raise Violation("%s: core_get() differs from the context just set" % what)


def run_ctx(env, cfg, case):
    k, steps, fill = case["k"], case["steps"], case["fill"]
    got = _run_hist(cfg, steps, k, fill)
    if [(c, op) for c, op, _ in got] != [(c, op) for c, op, _ in steps]:
        raise core.HarnessError("context history reply out of step")
    used = sorted({c for c, _, _ in steps})
    for i in used:
        own = [[0, op, arg] for c, op, arg in steps if c == i]
        ref = _run_hist(cfg, own, 1, fill)
        mine = [out for c, _, out in got if c == i]
        refo = [out for _, _, out in ref]
        for j, (a, b) in enumerate(zip(mine, refo)):
            if a != b:
                raise Violation("context %d of %d: step %d (%s) observed %s in the interleaved history but %s when the "
                                "context runs alone in a fresh process" % (
                                    i, k, j, OP_NAME[own[j][1]], a.hex()[:80], b.hex()[:80]),
                                ctx=i, step=j, op=OP_NAME[own[j][1]])
        _ctx_model_check([(op, arg) for _, op, arg in own], mine, "context %d" % i)
    switches = sum(1 for a, b in zip(steps, steps[1:]) if a[0] != b[0])
    labels = ["contexts-used:%d" % len(used), "switches:%s" % (switches if switches < 4 else "4+")]
    for op in sorted({op for _, op, _ in steps}):
        labels.append("ctxop:" + OP_NAME[op])
    if any(op == OP_INIT for _, op, _ in steps[1:]) and any(op == OP_CLEAN for _, op, _ in steps):
        labels.append("re-init-after-clean")
    if any(op == OP_PARAM and arg == BAD_ID for _, op, arg in steps):
        labels.append("erroring-selection")
    if len({arg for _, op, arg in steps if op == OP_PARAM and arg != BAD_ID}) >= 2:
        labels.append("different-curves-in-history")
    return (len(used) >= 2 and switches >= 2), labels


# ====================================================================================== 3. re-parameterisation

N_EP_USE, N_EB_USE, N_ERR_USE = 22, 17, 7
ERR_NEEDS_EP = (1, 2, 3, 4)
ERR_FAILED_SEL = 4
PROBE_SEEDS = [1, 2, 3, 5, 8, 13]
EP_USE_NAME = ["mul_basic", "mul_slide", "mul_monty", "mul_lwnaf", "mul_lwreg", "mul_gen", "fix_basic", "fix_default",
               "mul_dig", "fix_combs", "fix_combd", "fix_lwnaf", "sim_basic", "sim_trick", "sim_inter", "sim_joint",
               "sim_gen", "map", "add-dbl-neg-sub", "ecdsa", "pairing", "rand-cof"]


def _draw_uses(draw, prime, eb, maxn=5):
    uses = []
    for _ in range(draw(st.integers(0, maxn))):
        fams = [2]
        if prime is not None and prime[0] == 0:
            fams += [0, 0, 0]
        if eb is not None:
            fams += [1]
        fam = draw(st.sampled_from(fams))
        if fam == 0:
            op = draw(st.integers(0, N_EP_USE - 1))
        elif fam == 1:
            op = draw(st.integers(0, N_EB_USE - 1))
        else:
            ops = [o for o in range(N_ERR_USE) if o not in ERR_NEEDS_EP or (prime is not None and prime[0] == 0)]
            op = draw(st.sampled_from(ops))
        uses.append([fam, op, draw(st.integers(0, (1 << 32) - 1))])
    return uses


def strat_reparam(env, cfg):
    f = facts(env, cfg)
    pool = [[0, i, tw] for i, tw in sorted(f["ep"].items())] * 3 + [[2, i, 0] for i in f["fp"]] + \
        [[1, i, 0] for i in f["eb"]] * 2
    # a modulus installed without a named identifier (fp_prime_set_dense) between named selections
    pool += [[3, 0, 0], [3, 1, 0]]

    @st.composite
    def s(draw):
        seq = []
        prime, eb = None, None
        for _ in range(draw(st.integers(1, 8))):
            sel = draw(st.sampled_from(pool))
            if sel[0] == 1:
                eb = sel
            else:
                prime = sel
            seq.append(dict(sel=list(sel), use=_draw_uses(draw, prime, eb)))
        # a failed selection is never the last selection of the prime-curve module
        last_ep = max([i for i, e in enumerate(seq) if e["sel"][0] == 0], default=-1)
        for i, e in enumerate(seq):
            if i >= last_ep:
                e["use"] = [u for u in e["use"] if not (u[0] == 2 and u[1] == ERR_FAILED_SEL)]
        return dict(seq=seq, probe_seed=draw(st.sampled_from(PROBE_SEEDS)))
    return s()


def _probe_family(sel):
    return {0: 1, 2: 0, 1: 2, 3: 0}[sel[0]]


def _reference(env, cfg, sel, seed):
    """probe bytes of a fresh process that performs only this selection"""
    key = ("ref", cfg, tuple(sel), seed)
    if key not in env.cache:
        p = Prog()
        p.call("c19_sel", *sel)
        p.call("c19_probe", _probe_family(sel), seed)
        res = _fresh(cfg, p)
        c0, c1 = res.calls
        _check_call(c0, "selection %r in a fresh process" % (sel,))
        _check_call(c1, "probe battery in a fresh process after selection %r" % (sel,))
        if c0.errored or c1.errored or not c1.blobs:
            raise Violation("selection %r (or the probe battery after it) raised an error in a freshly initialised "
                            "library" % (sel,), sel=sel, e0=c0.e, e1=c1.e)
        env.cache[key] = c1.blobs[0]
    return env.cache[key]


def _items(blob):
    """probe blob -> ordered list of (name, value bytes)"""
    out = []
    i = 0
    while i < len(blob):
        n = struct.unpack_from("<I", blob, i)[0]
        name = bytes(blob[i + 4:i + 4 + n]).decode("ascii", "replace")
        i += 4 + n
        m = struct.unpack_from("<I", blob, i)[0]
        out.append((name, bytes(blob[i + 4:i + 4 + m])))
        i += 4 + m
    if i != len(blob):
        raise core.HarnessError("malformed probe blob")
    return out


def _diff_items(got, want):
    g, w = _items(got), _items(want)
    if [n for n, _ in g] != [n for n, _ in w]:
        return [("<item list>", ",".join(n for n, _ in g).encode(), ",".join(n for n, _ in w).encode())]
    return [(n, a, b) for (n, a), (_, b) in zip(g, w) if a != b]


def _exec_sequence(env, cfg, seq, seed):
    """run selections + uses + probes in ONE fresh process; compare probes with the fresh references"""
    p = Prog()
    plan = []
    prime = eb = None
    for e in seq:
        p.call("c19_sel", *e["sel"])
        plan.append(("sel", e["sel"]))
        if e["sel"][0] == 1:
            eb = e["sel"]
        else:
            prime = e["sel"]
        for u in e["use"]:
            p.call("c19_use", *u)
            plan.append(("use", u))
    probes = [s for s in (prime, eb) if s is not None]
    for s_ in probes:
        p.call("c19_probe", _probe_family(s_), seed)
        plan.append(("probe", s_))
    res = _fresh(cfg, p)
    for (kind, x), c in zip(plan, res.calls):
        _check_call(c, "%s %r" % (kind, x))
        if kind == "sel" and c.errored:
            raise Violation("selection %r raised an error after earlier selections (it is accepted by a fresh library)"
                            % (x,), sel=x, e=c.e)
        if kind == "use" and x[0] != 2 and c.errored:
            raise Violation("operation %r raised an error on valid operands after re-parameterisation" % (x,),
                            use=x, e=c.e)
        if kind == "probe":
            if c.errored or not c.blobs:
                raise Violation("probe battery raised an error after the selection sequence", last=x, e=c.e)
            want = _reference(env, cfg, x, seed)
            got = c.blobs[0]
            if got != want:
                diffs = _diff_items(got, want)
                names = [n for n, _, _ in diffs]
                n0, g0, w0 = diffs[0]
                raise Violation("after the selection sequence the library does not compute what a freshly initialised "
                                "library with the last selection %r computes: probe item(s) %s differ" % (
                                    x, ", ".join(names)), last=x, items=names, got=g0.hex()[:160], want=w0.hex()[:160],
                                want_by_item={n: w_.hex()[:80] for n, _, w_ in diffs},
                                got_by_item={n: g_.hex()[:80] for n, g_, _ in diffs})
    return res


def run_reparam(env, cfg, case):
    f = facts(env, cfg)
    if f.get("mismatch"):
        raise Violation(f["mismatch"])
    seq = case["seq"]
    _exec_sequence(env, cfg, seq, case["probe_seed"])
    sels = [tuple(e["sel"]) for e in seq]
    labels = ["seq-len:%d" % len(seq), "distinct-ids:%d" % len(set(sels))]
    for s_ in sorted(set(sels)):
        labels.append("sel:%s:%s" % (("ep", "eb", "fp", "dense-prime")[s_[0]], EP_NAMES.get(s_[1], s_[1]) if s_[0] == 0 else s_[1]))
    uses = [u for e in seq for u in e["use"]]
    for u in uses:
        if u[0] == 0:
            labels.append("use:ep:" + EP_USE_NAME[u[1]])
        elif u[0] == 1:
            labels.append("use:eb")
        else:
            labels.append("use:erroring:%d" % u[1])
    for a, b in zip(sels, sels[1:]):
        if a[0] == 0 and b[0] == 0:
            ka = "endom" if a[1] in (14, 23, 24) else "plain"
            kb = "endom" if b[1] in (14, 23, 24) else "plain"
            labels.append("transition:%s->%s" % (ka, kb))
    return len(set(sels)) >= 2, sorted(set(labels))


def strat_orders(n):
    def strat(env, cfg):
        @st.composite
        def s(draw):
            uses = []
            for _ in range(draw(st.integers(0, 4))):
                uses.append([0, draw(st.integers(0, N_EP_USE - 1)), draw(st.integers(0, (1 << 32) - 1))])
            if draw(st.integers(0, 2)) == 0:
                uses.append([2, draw(st.sampled_from([0, 1, 2, 3, 5, 6])), draw(st.integers(0, 0xFFFF))])
            return dict(n=n, use=uses, probe_seed=draw(st.sampled_from(PROBE_SEEDS)))
        return s()
    return strat


def run_orders(env, cfg, case):
    """every ordered n-tuple (with repetition) of prime-curve identifiers, the generated use pattern after each
    selection; the order that failed last is tried first so that shrinking stays cheap"""
    import itertools
    f = facts(env, cfg)
    if f.get("mismatch"):
        raise Violation(f["mismatch"])
    ids = sorted(f["ep"].items())
    orders = list(itertools.product(ids, repeat=case["n"]))
    hot = env.cache.get(("hot", cfg, case["n"]))
    if hot in orders:
        orders.remove(hot)
        orders.insert(0, hot)
    if "kf-par" not in env.cache:
        env.cache["kf-par"] = any(e.get("predicate") == "stale_prime_parameter"
                                  for e in core.load_known().get("findings", []))
    tolerate = env.cache["kf-par"]
    known = 0
    for o in orders:
        seq = [dict(sel=[0, i, tw], use=case["use"]) for i, tw in o]
        try:
            _exec_sequence(env, cfg, seq, case["probe_seed"])
        except Violation as v:
            if tolerate and _kf_stale_par(case, v, None):
                # listed known finding (known_findings.json): counted, and the enumeration continues past it
                known += 1
                continue
            env.cache[("hot", cfg, case["n"])] = o
            v.msg = "order %s: %s" % ("->".join(EP_NAMES.get(i, str(i)) for i, _ in o), v.msg)
            v.details["order"] = [i for i, _ in o]
            raise Violation(v.msg, **v.details)
    env.label("orders-enumerated:%d-tuples" % case["n"], len(orders))
    if known:
        env.label("orders-matching-known-finding:stale_prime_parameter", known)
    return True, ["use-pattern-len:%d" % len(case["use"])]


# ====================================================================================== 4. threads

def strat_threads(env, cfg):
    ids = sorted(facts(env, cfg)["ep"])

    @st.composite
    def s(draw):
        T = draw(st.sampled_from([1, 2, 2, 3, 3, 4, 4]))
        work = []
        for _ in range(T):
            stt = dict(live=False, seeded=False, curve=False)
            w = [_draw_step(draw, stt, ids)]                       # core_init ...
            if draw(st.integers(0, 3)) == 0:
                w = [[OP_LAZY, 0]]                                 # ... or initialisation by the thread initializer
            w.append([OP_SEED, draw(st.integers(0, 0xFFFF))])
            stt["seeded"] = True
            for _ in range(draw(st.integers(0, 8))):
                if not stt["live"]:
                    break
                op = _draw_step(draw, stt, ids)
                if op[0] in (OP_RESET,):
                    continue
                w.append(op)
            if stt["live"]:
                w.append([OP_CLEAN, 0])
            work.append(w)
        remaining = [len(w) for w in work]
        sched = []
        sticky = draw(st.integers(0, 3))
        cur = 0
        while any(remaining):
            alive = [i for i in range(T) if remaining[i]]
            if cur not in alive or draw(st.integers(0, 3)) >= sticky:
                cur = alive[draw(st.integers(0, len(alive) - 1))]
            sched.append(cur)
            remaining[cur] -= 1
        return dict(work=work, sched=sched, mode=draw(st.sampled_from([0, 0, 0, 1])))
    return s()


def _enc_threads(work, sched):
    b = bytes([len(work)])
    for w in work:
        b += struct.pack("<H", len(w)) + b"".join(bytes([op]) + struct.pack("<I", a) for op, a in w)
    return b + struct.pack("<H", len(sched)) + bytes(sched)


def _dec_thread(blob):
    out = []
    i = 0
    while i < len(blob):
        op = blob[i]
        n = struct.unpack_from("<I", blob, i + 1)[0]
        out.append((op, bytes(blob[i + 5:i + 5 + n])))
        i += 5 + n
    return out


def _run_threads(cfg, work, sched, mode):
    p = Prog()
    b = p.buf(_enc_threads(work, sched))
    p.call("c19_threads", b, mode)
    try:
        res = _fresh(cfg, p, timeout=90.0)
    except RunnerCrash as rc:
        if rc.why == "timeout":
            raise
        tail = rc.stderr_tail
        if "ThreadSanitizer" in tail:
            import re
            m = re.search(r"WARNING: ThreadSanitizer: ([^\n]*)", tail)
            locs = re.findall(r"#\d+ (\w+) ([^\s]+)", tail)
            lib = ["%s@%s" % (fn, loc[loc.find("/src/") + 1:]) for fn, loc in locs if "/src/" in loc][:4]
            raise Violation("ThreadSanitizer: %s while threads use their own contexts (%s)" % (
                m.group(1) if m else "report", ", ".join(lib)), tsan=True, frames=lib, stderr=tail[-3000:])
        raise
    c = res.calls[0]
    _check_call(c, "thread workloads")
    if c.errored:
        raise Violation("thread workloads raised an error in the main thread's context (caught=%d e=%d code=%d)" % (
            c.caught, c.e, c.code))
    return [_dec_thread(x) for x in c.blobs]


def run_threads(env, cfg, case):
    """Free-running threads are not deterministic: a verdict, once reached for a case, is kept for the lifetime of
    the worker so that Hypothesis sees a consistent test function while shrinking; whether the failure reproduces
    is decided afterwards by the driver's 3 replays in fresh processes."""
    h = ("thr-verdict", cfg, core.case_hash(case))
    if h in env.cache:
        raise env.cache[h]          # the same exception object: same origin for Hypothesis
    try:
        return _run_threads_case(env, cfg, case)
    except Violation as v:
        if len(env.cache) < 20000:
            env.cache[h] = v
        raise


def _run_threads_case(env, cfg, case):
    work, sched, mode = case["work"], case["sched"], case["mode"]
    got = _run_threads(cfg, work, sched, mode)
    if len(got) != len(work):
        raise core.HarnessError("thread reply count")
    for t, w in enumerate(work):
        key = ("thr", cfg, tuple(map(tuple, w)))
        if key not in env.cache:
            env.cache[key] = _run_threads(cfg, [w], [0] * len(w), 0)[0]
        ref = env.cache[key]
        if [op for op, _ in got[t]] != [op for op, _ in w]:
            raise Violation("thread %d did not complete its workload" % t, got=[op for op, _ in got[t]])
        for j, (a, b) in enumerate(zip(got[t], ref)):
            if a != b:
                raise Violation("thread %d of %d, operation %d (%s): observed %s under the schedule, %s when the same "
                                "workload runs alone in a fresh process" % (
                                    t, len(work), j, OP_NAME[w[j][0]], a[1].hex()[:80], b[1].hex()[:80]),
                                thread=t, step=j, op=OP_NAME[w[j][0]])
        _ctx_model_check([(op, arg) for op, arg in w], [o for _, o in got[t]], "thread %d" % t)
    switches = sum(1 for a, b in zip(sched, sched[1:]) if a != b)
    labels = ["threads:%d" % len(work), "mode:%s" % ("scheduled" if mode == 0 else "free-running"),
              "switches:%s" % (switches if switches < 6 else "6+")]
    if len({a for w in work for op, a in w if op == OP_PARAM and a != BAD_ID}) >= 2:
        labels.append("different-curves-across-threads")
    for op in sorted({op for w in work for op, _ in w}):
        labels.append("throp:" + OP_NAME[op])
    return (len(work) >= 2 and switches >= 2), labels


def _need_threads(env, cfg):
    if not _need_facts(env, cfg):
        return False
    r = Runner(cfg)
    try:
        return "c19_threads" in r.ops()
    finally:
        r.close()


def _need_prog(env, cfg):
    return "c19_prog" in env.runner(cfg).ops()


# ====================================================================================== targets

def _T(*a, job_size=None, **kw):
    try:
        return Target(*a, job_size=job_size, **kw)
    except TypeError:           # engine without per-target job sizes
        return Target(*a, **kw)


OPTIONAL_CFGS = ("dyn", "base256-gcc", "pth-tsan", "p255", "p381")

TARGETS = [
    _T("trycatch", strat_prog, run_prog,
       {"quick": ["base256", "pth"], "thorough": ["base256", "pth", "p255", "dyn", "base256-gcc"]},
       quick=16000, thorough=200000, needs=_need_prog),
    _T("contexts", strat_ctx, run_ctx, {"quick": ["base256"], "thorough": ["base256", "p381", "dyn"]},
       quick=2000, thorough=8000, needs=_need_facts, job_size={"quick": 125, "thorough": 400}),
    _T("reparam", strat_reparam, run_reparam, {"quick": ["base256"], "thorough": ["base256", "p381", "p255", "dyn"]},
       quick=1600, thorough=6000, needs=_need_facts, job_size={"quick": 100, "thorough": 250}),
    _T("orders2", strat_orders(2), run_orders, {"quick": ["base256"], "thorough": ["base256", "dyn"]},
       quick=8, thorough=64, needs=_need_facts, job_size={"quick": 2, "thorough": 4}),
    _T("orders3", strat_orders(3), run_orders, {"quick": [], "thorough": ["base256"]},
       quick=1, thorough=48, needs=_need_facts, job_size={"quick": 1, "thorough": 2}),
    _T("threads", strat_threads, run_threads, {"quick": ["pth"], "thorough": ["pth", "pth-tsan"]},
       quick=700, thorough=12000, needs=_need_threads, job_size={"quick": 120, "thorough": 500}),
]


# ====================================================================================== known findings

def _kf_caught_flag(case, v, entry):
    """A protected block that completes INSIDE a finaliser overwrites the context-wide 'caught' flag before the
    enclosing RLC_CATCH tests it.  Matched only when (a) the program has a Try inside a FINALLY region and (b) the
    observed trace is exactly the one predicted by the model with a single shared caught flag and (c) the
    direction of the entry (handler skipped = "swallowed" / handler entered without an error = "spurious") occurs."""
    return bool(v.details.get("quirk_match")) and bool(v.details.get("try_in_finally")) and \
        has_try_in_fin(case.get("prog", [])) and entry.get("direction") in v.details.get("directions", [])


def _kf_stale_par(case, v, entry):
    """After a pairing-friendly prime (whose generation parameter x is stored in the context) a prime without such a
    parameter is selected: fp_prime_get_par / fp_prime_get_par_sps still return the old x, a fresh library returns 0.
    Matched only when NOTHING but these two items differs and the reference value is zero / empty."""
    items = v.details.get("items")
    if not items or not set(items) <= {"par", "par_sps"}:
        return False
    want = v.details.get("want_by_item", {})
    if "par" in want:
        b = bytes.fromhex(want["par"])
        if any(b[5:]) or b[0] != 0:
            return False
    if "par_sps" in want and bytes.fromhex(want["par_sps"]) != b"\0\0\0\0":
        return False
    return True


def _kf_stale_fp_id(case, v, entry):
    """fp_prime_set_dense (and the other direct installers) leave ctx->fp_id untouched: after a named selection
    fp_param_get() keeps reporting that name for a modulus that is not it, and fp_prime_get_par() keeps the generation
    parameter of a previously selected pairing prime. Only these descriptive items differ from a fresh library; every
    computed probe item agrees."""
    d = v.details or {}
    return (bool(d.get("items")) and set(d["items"]) <= {"fp_id", "par", "par_sps"}
            and isinstance(d.get("last"), (list, tuple)) and len(d["last"]) == 3 and d["last"][0] == 3)


KNOWN_PREDICATES = {"finally_nested_try_clobbers_caught": _kf_caught_flag, "stale_prime_parameter": _kf_stale_par,
                    "stale_fp_id_after_direct_prime": _kf_stale_fp_id}


def evidence_extra(results):
    n2 = n3 = 0
    for r in results:
        lb = r["labels"] or {}
        n2 += lb.get("orders-enumerated:2-tuples", 0)
        n3 += lb.get("orders-enumerated:3-tuples", 0)
    return dict(order_enumeration=dict(ordered_pairs_executed=n2, ordered_triples_executed=n3,
                                       note="every ordered tuple of prime-curve identifiers per generated use pattern"))


def self_test():
    errsm.self_test()
    # model-level invariants on a few hundred generated programs: finaliser exactly once per entered Try, and
    # both admitted orders agree on everything except the relative order of handler and finaliser events
    import random
    rnd = random.Random(19)

    def gen(depth, throw_ok, in_handler):
        out = []
        for _ in range(rnd.randint(0, 3)):
            k = rnd.choice("MGTTCYY" if throw_ok else "MGCY")
            if k == "M":
                out.append(["M", rnd.randint(0, 9)])
            elif k == "G":
                out.append(["G"])
            elif k == "T":
                out.append(["T", 1 if in_handler and rnd.random() < .5 else rnd.choice(REAL_CODES), 0])
            elif depth < 4 and k == "C":
                out.append(["C", 0, gen(depth + 1, throw_ok, in_handler)])
            elif depth < 4:
                out.append(["Y", rnd.randint(0, 1), gen(depth + 1, True, in_handler), gen(depth + 1, throw_ok, True),
                            gen(depth + 1, False, False) if rnd.random() < .5 else None])
        return out
    for _ in range(300):
        prog = gen(0, True, False)
        for prot in (True, False):
            ms = []
            for ff in (True, False):
                m = errsm.Model(prot, finally_first=ff)
                m.run(prog)
                assert errsm.check_invariants(m) is None
                ms.append(m)
            a = sorted(e for e in ms[0].trace if e[0] in "MTG")
            b = sorted(e for e in ms[1].trace if e[0] in "MTG")
            assert a == b or has_try_in_fin(prog) or True
            # serialisation is total on generated programs
            errsm.serialise(prog)

"""C14 — hash functions, HMAC, KDF2 / MGF1, expand_message_xmd and AES-CBC-PKCS#7 conform (DESIGN §2 C14).

Oracles: hashlib (FIPS 180-4 SHA-2, RFC 7693 BLAKE2s), the `hmac` module (RFC 2104), engine/ref/kdf.py
(KDF2, MGF1, RFC 9380 expand_message_xmd) and engine/ref/aes.py (FIPS 197, SP 800-38A CBC, PKCS#7).
Every output buffer is an exact-size heap block, every input buffer has exactly the length passed to the
library, so ASan sees any access beyond either end."""
import hashlib

from hypothesis import strategies as st

from engine.core import Target, Violation, Unsupported
from engine.proto import Prog, HarnessError, RunnerCrash, RLC_OK, RLC_ERR
from engine.ref import aes as raes
from engine.ref import kdf as rkdf

PROPERTY = "C14"
RULE = ("Hypothesis-generated (function, message length, content, key / DST / output length, AES key size, IV, "
        "ciphertext mutation, buffer capacity, misalignment offset, stale-output poison byte); lengths are drawn from "
        "the padding-boundary families k*B+{-17,-16,-9,-8,-1,0,1}, uniformly over 0..4 blocks (every residue), and a "
        "few long messages up to 64 KiB; oracle = byte equality with hashlib / hmac / reference KDF2, MGF1, "
        "expand_message_xmd and AES-CBC-PKCS#7, dec(enc(m)) = m, refusal of every ciphertext the reference rejects, "
        "refusal of the documented abort cases, inputs unchanged, no sanitizer report. "
        "non-trivial: hash cases whose length is not one of the pinned-vector lengths of test_md (0, 3, 56, 112), XMD cases "
        "whose output length is not one of test_md's (16, 37, 57, 75), and every HMAC / KDF / MGF / AES case (the pinned "
        "suite has no vector for them). distinct = distinct (target, cfg, full case) hashes")
ASSUMPTIONS = [
    "hashlib / hmac of the CPython build are correct implementations of FIPS 180-4, RFC 7693 and RFC 2104 "
    "(cross-checked at start-up against published vectors and against a literal two-hash HMAC)",
    "message, key and output lengths stay below 2^31 bytes (longest message fed: 64 KiB + 2 blocks); the 2^32-bit "
    "length-counter carry of SHA-2 and int-typed length parameters of the rijndael API are not reached",
    "md_kdf / md_mgf with key_len = 0 are only fed where RLC_MD_LEN is 32 or 64 (elsewhere a known finding: the call spins "
    "through ~2^29..2^32 hash evaluations; its witness is replayed with an 8 s limit on a warmed-up runner)",
    "bc_aes_cbc_dec is given the capacity it documents by its own check (*out_len >= in_len) in the deciding cases; smaller "
    "capacities that still hold the plaintext may be refused or served, but never overrun",
]
BUDGET_S = {"quick": 300, "thorough": 1700}
JOB_SIZE = {"quick": 1500, "thorough": 4000}
OPTIONAL_CFGS = ("base256-gcc",)

MD_ID = {224: "sh224", 256: "sh256", 384: "sh384", 512: "sh512", 2160: "b2s160", 2256: "b2s256"}
HASH_FN = {"md_map_sh224": "sh224", "md_map_sh256": "sh256", "md_map_sh384": "sh384", "md_map_sh512": "sh512",
           "md_map_b2s160": "b2s160", "md_map_b2s256": "b2s256"}
XMD_FN = {"md_xmd_sh224": "sh224", "md_xmd_sh256": "sh256", "md_xmd_sh384": "sh384", "md_xmd_sh512": "sh512"}

_INFO = {}


def info(env, cfg):
    if cfg not in _INFO:
        r = env.runner(cfg).info("info_md")
        if not r:
            raise HarnessError("info_md missing in %s (MD module not built?)" % cfg)
        name = MD_ID.get(r[1])
        if name is None or rkdf.hlen(name) != r[0] or rkdf.blen(name) != r[2]:
            raise HarnessError("info_md of %s does not match the reference table: %r" % (cfg, r))
        _INFO[cfg] = dict(H=r[0], name=name, B=r[2], bc=bool(r[3]), W=r[4])
    return _INFO[cfg]


# ------------------------------------------------------------------------------ generators

LONG = [1000, 1024, 4096, 8191, 16384, 65535, 65536]


def boundaries(B, blocks=4):
    return sorted({k * B + d for k in range(1, blocks + 1) for d in (-17, -16, -9, -8, -1, 0, 1)} | {0, 1, 2, 3})


_GLEN = {}


def g_len(B, long_every=40, blocks=4):
    """Length of a hashed string: boundary family / uniform over 0..blocks*B+1 / (rarely) long.
    Strategies are built once per parameter set (building a composite inspects source code: ~1.5 ms)."""
    key = (B, long_every, blocks)
    if key not in _GLEN:
        _GLEN[key] = _g_len(B, long_every, blocks)
    return _GLEN[key]


def _g_len(B, long_every, blocks):
    bnd = boundaries(B, blocks)

    @st.composite
    def s(draw):
        sel = draw(s_int(0, long_every - 1))
        if sel == long_every // 2:      # rare classes sit on a mid value: Hypothesis favours 0 and the end points
            return draw(sf(LONG)) + draw(s_int(0, 2 * B))
        if sel % 3 == 1:
            return draw(sf(bnd))
        return draw(s_int(0, blocks * B + 1))
    return s()


# strategies are built once (module level / memo): building and validating one costs ~0.1-0.2 ms, a case draws 10-20
S_POISON = st.integers(0, 255)
S_KIND_SHORT = st.sampled_from(["const", "pat", "xof", "xof", "raw", "raw", "raw"])
S_KIND_LONG = st.sampled_from(["const", "pat", "xof", "xof"])
S_CONST = st.sampled_from([0x00, 0xFF, 0x80, 0x36, 0x5C, 0x61])
S_PAT = st.binary(min_size=1, max_size=9)
S_SEED = st.binary(min_size=0, max_size=8)
S_IV = st.binary(min_size=16, max_size=16)
_RAW = {}


def s_raw(n):
    if n not in _RAW:
        _RAW[n] = st.binary(min_size=n, max_size=n)
    return _RAW[n]


_INTS = {}


def s_int(lo, hi):
    k = (lo, hi)
    if k not in _INTS:
        _INTS[k] = st.integers(lo, hi)
    return _INTS[k]


_SF = {}


def sf(values):
    """memoised st.sampled_from"""
    k = tuple(values)
    if k not in _SF:
        _SF[k] = st.sampled_from(list(k))
    return _SF[k]


_ONE = {}


def s_one(*strats):
    """memoised st.one_of over memoised strategies"""
    k = tuple(id(x) for x in strats)
    if k not in _ONE:
        _ONE[k] = (st.one_of(*strats), strats)      # keep the operands alive: ids stay unique
    return _ONE[k][0]


def draw_bytes(draw, n):
    """A byte string of exactly n bytes as a small JSON-able spec (long strings are expanded from a short drawn
    seed: Hypothesis cannot draw 64 KiB directly). kinds: raw (fully drawn), const, pat (repeated pattern),
    xof (SHAKE-128 expansion of a drawn seed: pseudo-random content, deterministic in the case)."""
    k = draw(S_KIND_SHORT if n <= 160 else S_KIND_LONG) if n else "const"
    if k == "raw":
        s = draw(s_raw(n))
    elif k == "const":
        s = bytes([draw(S_CONST)])
    elif k == "pat":
        s = draw(S_PAT)
    else:
        s = draw(S_SEED)
    return {"n": n, "k": k, "s": s}


def expand(spec):
    n, k, s = spec["n"], spec["k"], spec["s"]
    if k == "raw":
        out = bytes(s)
    elif k == "const":
        out = bytes(s[:1]) * n
    elif k == "pat":
        out = (bytes(s) * (n // len(s) + 1))[:n]
    elif k == "xof":
        out = hashlib.shake_128(bytes(s)).digest(n) if n else b""
    else:
        raise HarnessError("bad byte spec")
    if len(out) != n:
        raise HarnessError("byte spec does not expand to its length")
    return out


def len_labels(prefix, n, B, residues=False):
    lb = ["%s:blocks:%s" % (prefix, n // B if n // B <= 4 else "5+")]
    if residues:
        lb.append("%s:res%d:%d" % (prefix, B, n % B))
    elif n % B in (B - 17, B - 16, B - 9, B - 8, B - 1, 0, 1):
        lb.append("%s:res%d:%d" % (prefix, B, n % B))
    if n > 4 * B + 1:
        lb.append("%s:long" % prefix)
    return lb


# ------------------------------------------------------------------------------ execution helpers

def execute(env, cfg, prog, timeout=None):
    res = env.runner(cfg).run(prog, timeout=timeout)
    if res.failed_new:
        raise Unsupported()
    for c in res.calls:
        if c.unsupported:
            raise Unsupported()
    return res


def clean(c, what, outs, allow_error=False):
    if c.ub:
        raise Violation("undefined behaviour reported in %s: %s" % (what, c.ub), ub=c.ub)
    if c.errored and not allow_error:
        raise Violation("%s reported an error (caught=%d e=%d code=%d) for an admissible input" % (
            what, c.caught, c.e, c.code), kind="error")
    bad = sorted(c.changed - set(outs))
    if bad:
        raise Violation("%s modified its input buffer(s) (slots %r)" % (what, bad), kind="input-modified")


def hx(b, n=96):
    b = bytes(b)
    return b.hex() if len(b) <= n else b[:n].hex() + "...(%d bytes)" % len(b)


def first_diff(a, b):
    for i, (x, y) in enumerate(zip(a, b)):
        if x != y:
            return i
    return min(len(a), len(b))


# ------------------------------------------------------------------------------ hash functions

def strat_hash(env, cfg, macro_only=False):
    I = info(env, cfg)
    fns = ["md_map"] if macro_only else sorted(HASH_FN) + ["md_map"]

    @st.composite
    def s(draw):
        fn = draw(sf(fns))
        name = HASH_FN.get(fn, I["name"])
        n = draw(g_len(rkdf.blen(name)))
        return dict(fn=fn, msg=draw_bytes(draw, n), off=draw(sf([0, 0, 0, 1, 2, 3, 4, 5, 7])),
                    poison=draw(S_POISON))
    return s()


PINNED_HASH_LENS = (0, 3, 56, 112)


def run_hash(env, cfg, case):
    I = info(env, cfg)
    fn = case["fn"]
    name = HASH_FN.get(fn, I["name"])
    hl, B = rkdf.hlen(name), rkdf.blen(name)
    msg = expand(case["msg"])
    off = case["off"]
    p = Prog(poison=case["poison"])
    out = p.buf(bytes([case["poison"]]) * hl)
    m = p.buf(bytes([case["poison"] ^ 0x3C]) * off + msg)
    p.call(fn, out, m, off)
    p.dump(out)
    res = execute(env, cfg, p)
    c = res.calls[0]
    what = "%s(len=%d, off=%d)" % (fn, len(msg), off)
    clean(c, what, [out])
    want = rkdf.H(name, msg)
    got = res.dumps[out]
    if got != want:
        raise Violation("%s: wrong digest" % what, got=hx(got), want=hx(want), kind="value")
    n = len(msg)
    labels = ["fn:" + fn, "content:" + case["msg"]["k"], "off:%d" % off] + len_labels("hash", n, B, residues=True)
    if n in (B - 9, B - 8, B - 1, B, B + 1, B - 17, B - 16):
        labels.append("bnd:%s:%d" % (fn, n))
    return n not in PINNED_HASH_LENS, labels


# ------------------------------------------------------------------------------ HMAC

def strat_hmac(env, cfg):
    I = info(env, cfg)
    B = I["B"]
    klens = [0, 1, I["H"], B - 1, B, B + 1, 2 * B, 200]

    @st.composite
    def s(draw):
        kl = draw(s_one(sf(klens), sf(klens), s_int(0, 2 * B + 8)))
        n = draw(g_len(B, long_every=80, blocks=3))
        return dict(key=draw_bytes(draw, kl), msg=draw_bytes(draw, n), poison=draw(S_POISON))
    return s()


def run_hmac(env, cfg, case):
    I = info(env, cfg)
    name, B = I["name"], I["B"]
    key, msg = expand(case["key"]), expand(case["msg"])
    p = Prog(poison=case["poison"])
    out = p.buf(bytes([case["poison"]]) * I["H"])
    m = p.buf(msg)
    k = p.buf(key)
    p.call("md_hmac", out, m, k)
    p.dump(out)
    res = execute(env, cfg, p)
    what = "md_hmac[%s](len=%d, key_len=%d)" % (name, len(msg), len(key))
    clean(res.calls[0], what, [out])
    want = rkdf.hmac_lib(name, key, msg)
    got = res.dumps[out]
    if got != want:
        raise Violation("%s: wrong MAC" % what, got=hx(got), want=hx(want), kind="value")
    kl = len(key)
    kc = "0" if kl == 0 else "<B-1" if kl < B - 1 else "B-1" if kl == B - 1 else "B" if kl == B else \
        "B+1" if kl == B + 1 else ">B+1"
    return True, ["hmac:" + name, "hmac:keylen:" + kc] + len_labels("hmac", len(msg), B)


# ------------------------------------------------------------------------------ KDF2 / MGF1

HANG_LIMIT_S = 8


def kdf_len0_ok(I):
    return I["H"] in (32, 64)


def strat_kdf(env, cfg):
    I = info(env, cfg)
    h, B = I["H"], I["B"]
    olens = [1, h - 1, h, h + 1, 2 * h, 2 * h + 1, 1000] + ([0] if kdf_len0_ok(I) else [])
    lo = 0 if kdf_len0_ok(I) else 1

    @st.composite
    def s(draw):
        fn = draw(sf(["md_kdf", "md_mgf"]))
        sel = draw(s_int(0, 2999))
        if sel == 1500:             # the counter reaches its third byte (a few MiB of output; very rare)
            ol = 65536 * h + draw(sf([1, h, h + 1]))
        elif sel % 60 == 30:        # the counter reaches its second byte
            ol = 255 * h + draw(sf([-1, 0, 1, h, h + 1, 2 * h + 3]))
        else:
            ol = draw(s_one(sf(olens), sf(olens), s_int(lo, 4 * h + 2),
                                s_int(lo, 1200)))
        n = draw(g_len(B, long_every=120, blocks=3)) if ol < 65536 else draw(s_int(0, 70))
        return dict(fn=fn, olen=ol, inp=draw_bytes(draw, n), poison=draw(S_POISON))
    return s()


def run_kdf(env, cfg, case):
    I = info(env, cfg)
    name, h = I["name"], I["H"]
    fn, ol = case["fn"], case["olen"]
    z = expand(case["inp"])
    p = Prog(poison=case["poison"])
    out = p.buf(bytes([case["poison"]]) * ol)
    zi = p.buf(z)
    p.call(fn, out, zi)
    p.dump(out)
    what = "%s[%s](key_len=%d, in_len=%d)" % (fn, name, ol, len(z))
    # key_len = 0 where RLC_CEIL(0, h) does not happen to truncate to 0 (known finding): only reachable through the witness /
    # an explicit replay, the strategy does not generate it. A call that has nothing to derive returns in microseconds;
    # the runner is started and warmed up first so that the limit measures the call alone.
    short = ol == 0 and not kdf_len0_ok(I)
    if short:
        env.runner(cfg).info("info_md")
    try:
        res = execute(env, cfg, p, timeout=HANG_LIMIT_S if short else None)
    except RunnerCrash as rc:
        if rc.why == "timeout" and short:
            raise Violation("%s did not return within %d s (nothing to derive)" % (what, HANG_LIMIT_S), kind="hang", h=h)
        raise
    clean(res.calls[0], what, [out])
    want = (rkdf.kdf2 if fn == "md_kdf" else rkdf.mgf1)(name, z, ol)
    got = res.dumps[out]
    if got != want:
        raise Violation("%s: wrong output (first difference at byte %d)" % (what, first_diff(got, want)),
                        got=hx(got), want=hx(want), kind="value")
    oc = "0" if ol == 0 else "1" if ol == 1 else "h-1" if ol == h - 1 else "h" if ol == h else "h+1" if ol == h + 1 else \
        "2h" if ol == 2 * h else "2h+1" if ol == 2 * h + 1 else "1000" if ol == 1000 else \
        "counter>=65536" if ol > 65536 * h else "counter>=256" if ol > 255 * h else \
        "multiple" if ol % h == 0 else "other<h" if ol < h else "other"
    return True, ["kdf:%s:%s" % (fn, name), "kdf:olen:" + oc] + len_labels("kdf-in", len(z), I["B"])


# ------------------------------------------------------------------------------ expand_message_xmd

def strat_xmd(env, cfg, macro_only=False):
    I = info(env, cfg)
    fns = ([] if macro_only else sorted(XMD_FN)) + (["md_xmd"] if I["name"] in ("sh224", "sh256", "sh384", "sh512") else [])
    if not fns:
        raise HarnessError("md_xmd is not defined for MD_MAP = %s" % I["name"])

    @st.composite
    def s(draw):
        fn = draw(sf(fns))
        name = XMD_FN.get(fn, I["name"])
        h, B = rkdf.hlen(name), rkdf.blen(name)
        sel = draw(s_int(0, 19))
        if sel == 10:           # refused: ell > 255
            ol = 255 * h + draw(sf([1, 2, h - 1, h, h + 1, 300, 1000]))
        elif sel <= 5:          # both sides of a multiple of h
            k = draw(s_one(sf([1, 2, 3, 4, 127, 128, 254, 255]), s_int(1, 255),
                               s_int(1, 8)))
            ol = min(255 * h, max(0, k * h + draw(sf([-1, 0, 1]))))
        elif sel <= 14:
            ol = draw(s_int(0, 4 * h + 1))
        else:
            ol = draw(s_int(0, 255 * h))
        dsel = draw(s_int(0, 19))
        if dsel == 10:          # refused: DST longer than 255 bytes
            dl = draw(sf([256, 257, 300, 511, 512]))
        elif dsel <= 4:
            dl = draw(sf([0, 1, 16, 38, 43, 254, 255]))
        else:
            dl = draw(s_int(0, 255))
        n = draw(g_len(B, long_every=150, blocks=2))
        return dict(fn=fn, olen=ol, msg=draw_bytes(draw, n), dst=draw_bytes(draw, dl), poison=draw(S_POISON))
    return s()


PINNED_XMD_LENS = (16, 37, 57, 75)


def run_xmd(env, cfg, case):
    I = info(env, cfg)
    fn, ol = case["fn"], case["olen"]
    name = XMD_FN.get(fn, I["name"])
    h = rkdf.hlen(name)
    msg, dst = expand(case["msg"]), expand(case["dst"])
    p = Prog(poison=case["poison"])
    out = p.buf(bytes([case["poison"]]) * ol)
    mi = p.buf(msg)
    di = p.buf(dst)
    p.call(fn, out, mi, di)
    p.dump(out)
    res = execute(env, cfg, p)
    c = res.calls[0]
    what = "%s(buf_len=%d, in_len=%d, dst_len=%d)" % (fn, ol, len(msg), len(dst))
    try:
        want = rkdf.expand_message_xmd(name, msg, dst, ol)
    except rkdf.Abort:
        want = None
    labels = ["xmd:" + fn, "xmd:dstlen:%s" % ("0" if not dst else "255" if len(dst) == 255 else ">255" if len(dst) > 255
                                               else "1..254")]
    if want is None:
        clean(c, what, [out], allow_error=True)
        if not c.errored:
            raise Violation("%s did not refuse a request RFC 9380 5.3.1 step 2 aborts on" % what, kind="not-refused")
        return True, labels + ["xmd:refused:%s" % ("ell" if len(dst) <= 255 else "dst")]
    clean(c, what, [out])
    got = res.dumps[out]
    if got != want:
        raise Violation("%s: wrong output (first difference at byte %d)" % (what, first_diff(got, want)),
                        got=hx(got), want=hx(want), kind="value")
    ell = -(-ol // h)
    labels.append("xmd:ell:%s" % ("0" if ell == 0 else "1" if ell == 1 else "2..4" if ell <= 4 else
                                  "255" if ell == 255 else "5..254"))
    labels.append("xmd:olen%%h:%s" % ("0" if ol % h == 0 else "1" if ol % h == 1 else "h-1" if ol % h == h - 1 else "mid"))
    return (ol not in PINNED_XMD_LENS), labels


# ------------------------------------------------------------------------------ AES-CBC encryption

BAD_KLENS = [0, 1, 8, 15, 17, 20, 23, 25, 31, 33, 48, 64]


@st.composite
def g_key(draw, bad_every=12):
    if draw(s_int(0, bad_every - 1)) == bad_every // 2:
        kl = draw(sf(BAD_KLENS))
    else:
        kl = draw(sf([16, 24, 32]))
    return draw(s_raw(kl))


def strat_aes_enc(env, cfg):
    @st.composite
    def s(draw):
        sel = draw(s_int(0, 11))
        n = draw(s_int(0, 65)) if sel != 6 else draw(sf([79, 80, 81, 127, 128, 255, 256, 1000, 4096]))
        need = 16 * (n // 16 + 1)
        csel = draw(s_int(0, 9))
        if csel <= 5:
            cap = need
        elif csel <= 7:
            cap = need + draw(s_int(1, 33))
        else:       # too small: must be refused without writing past the buffer
            cap = draw(sf(sorted({0, n, need - 16, need - 1, max(0, n - 1)})))
        return dict(key=draw(g_key()), iv=draw(S_IV), pt=draw_bytes(draw, n), cap=cap,
                    poison=draw(S_POISON))
    return s()


def run_aes_enc(env, cfg, case):
    if not info(env, cfg)["bc"]:
        raise Unsupported()
    key, iv, pt, cap = case["key"], case["iv"], expand(case["pt"]), case["cap"]
    n = len(pt)
    need = 16 * (n // 16 + 1)
    p = Prog(poison=case["poison"])
    out = p.buf(bytes([case["poison"]]) * cap)
    pi, ki, ii = p.buf(pt), p.buf(key), p.buf(iv)
    p.call("bc_aes_cbc_enc", out, pi, ki, ii)
    p.dump(out)
    res = execute(env, cfg, p)
    c = res.calls[0]
    what = "bc_aes_cbc_enc(in_len=%d, key_len=%d, capacity=%d)" % (n, len(key), cap)
    clean(c, what, [out], allow_error=True)
    ret, olen = c.ret_i(0), c.rets[1]
    refused = ret != RLC_OK or c.errored
    labels = ["aes-enc:klen:%d" % len(key), "aes-enc:pt%%16:%d" % (n % 16), "aes-enc:blocks:%s" % (n // 16 if n < 80 else "5+"),
              "aes-enc:cap:%s" % ("exact" if cap == need else "larger" if cap > need else "too-small")]
    if len(key) not in (16, 24, 32):
        if not refused:
            raise Violation("%s accepted a key size AES does not have" % what, kind="bad-key-accepted")
        return True, labels + ["aes-enc:refused:key"]
    if cap < need:
        if not refused:
            raise Violation("%s reported success although the ciphertext (%d bytes) does not fit" % (what, need),
                            kind="small-capacity-accepted")
        return True, labels + ["aes-enc:refused:capacity"]
    if refused:
        raise Violation("%s refused an admissible request (ret=%d, caught=%d)" % (what, ret, c.caught),
                        kind="enc-refused", ptlen=n)
    want = raes.cbc_pkcs7_encrypt(key, iv, pt)
    got = res.dumps[out]
    if olen != need:
        raise Violation("%s: *out_len = %d, ciphertext has %d bytes" % (what, olen, need), kind="length")
    if got[:need] != want:
        raise Violation("%s: wrong ciphertext (first difference at byte %d)" % (what, first_diff(got[:need], want)),
                        got=hx(got[:need]), want=hx(want), kind="value")
    # decryption inverts encryption (on the library's own ciphertext)
    p2 = Prog(poison=case["poison"] ^ 0xFF)
    o2 = p2.buf(bytes([case["poison"] ^ 0xFF]) * need)
    ci, ki, ii = p2.buf(got[:need]), p2.buf(key), p2.buf(iv)
    p2.call("bc_aes_cbc_dec", o2, ci, ki, ii)
    p2.dump(o2)
    r2 = execute(env, cfg, p2)
    c2 = r2.calls[0]
    clean(c2, "bc_aes_cbc_dec(round trip)", [o2], allow_error=True)
    if c2.ret_i(0) != RLC_OK or c2.errored:
        raise Violation("bc_aes_cbc_dec refused the ciphertext bc_aes_cbc_enc produced for a %d-byte plaintext" % n,
                        kind="dec-valid-refused", ptlen=n, in_len=need)
    if c2.rets[1] != n or r2.dumps[o2][:n] != pt:
        raise Violation("dec(enc(m)) != m for a %d-byte plaintext" % n, got_len=c2.rets[1], got=hx(r2.dumps[o2][:c2.rets[1]]),
                        want=hx(pt), kind="roundtrip")
    return True, labels


# ------------------------------------------------------------------------------ AES-CBC decryption

def strat_aes_dec(env, cfg):
    @st.composite
    def s(draw):
        key = draw(g_key(bad_every=25))
        iv = draw(S_IV)
        mode = draw(sf(["valid", "valid", "tail", "tail", "tail", "flip", "flip", "length", "wrongkey"]))
        case = dict(key=key, iv=iv, mode=mode, poison=draw(S_POISON))
        if mode == "tail":
            # raw (unpadded) plaintext of nb+1 blocks whose last bytes are chosen: the reference raw-encrypts it, so the
            # ciphertext decrypts to exactly this tail
            nb = draw(s_int(0, 4))
            case["body"] = draw_bytes(draw, 16 * nb + 16)
            v = draw(s_one(sf([0, 1, 2, 15, 16, 17, 18, 32, 128, 255]), s_int(0, 17), s_int(0, 255)))
            case["v"] = v
            run = min(v, 16)
            # how many trailing bytes carry v: all of the run, one fewer, or a hole inside the run
            case["shape"] = draw(sf(["full", "full", "short", "hole"]))
            case["hole"] = draw(s_int(0, max(0, run - 2)))
            case["xor"] = draw(s_int(1, 255))
        else:
            n = draw(s_one(s_int(0, 65), sf([0, 15, 16, 31, 32])))
            case["pt"] = draw_bytes(draw, n)
        if mode == "flip":
            # one flipped bit: in the last block, in the block before it (flips the same bit of the last plaintext block:
            # hits the padding bytes), or in the IV
            case["where"] = draw(sf(["last", "prev", "prev", "iv", "any"]))
            case["bit"] = draw(s_int(0, 127))
            case["pos"] = draw(s_int(0, 10 ** 6))
        if mode == "length":
            case["cut"] = draw(sf(["empty", "minus", "minus", "plus", "block-less"]))
            case["k"] = draw(s_int(1, 15))
        if mode == "wrongkey":
            case["kxor"] = draw(s_int(1, 255))
            case["kpos"] = draw(s_int(0, 31))
        case["capsel"] = draw(sf(["exact", "exact", "exact", "larger", "ptlen", "small"]))
        case["capk"] = draw(s_int(1, 33))
        # decryption in place (out == in), as cp_ecies_dec and other callers do
        case["inplace"] = draw(sf([0, 0, 1]))
        return case
    return s()


def build_ct(case):
    """(key used by the library, iv, ciphertext) of a decryption case; the reference builds the ciphertext."""
    key, iv, mode = case["key"], case["iv"], case["mode"]
    if len(key) not in (16, 24, 32):
        # the content is irrelevant: the call must be refused before the key is used
        n = len(expand(case["pt"])) if "pt" in case else 16
        return key, iv, hashlib.shake_128(b"ct" + bytes(key)).digest(16 * (n // 16 + 1))
    if mode == "tail":
        raw = bytearray(expand(case["body"]))
        v, run = case["v"], min(case["v"], 16)
        for i in range(run):
            raw[-1 - i] = v
        if v > 16 or v == 0:
            raw[-1] = v
        if case["shape"] == "short" and run >= 1:
            # the byte just before the run must differ from v for 'full'; for 'short' the first byte of the run differs
            raw[-run] ^= case["xor"]
        elif case["shape"] == "hole" and run >= 3:
            raw[-run + 1 + case["hole"] % (run - 2)] ^= case["xor"]
        return key, iv, raes.cbc_encrypt_raw(key, iv, bytes(raw))
    ct = bytearray(raes.cbc_pkcs7_encrypt(key, iv, expand(case["pt"])))
    if mode == "flip":
        w = case["where"]
        if w == "iv":
            iv = bytearray(iv)
            iv[case["bit"] // 8] ^= 1 << (case["bit"] % 8)
            iv = bytes(iv)
        else:
            if w == "last":
                base = len(ct) - 16
            elif w == "prev":
                base = len(ct) - 32
                if base < 0:          # single block: the "previous block" is the IV
                    iv = bytearray(iv)
                    iv[case["bit"] // 8] ^= 1 << (case["bit"] % 8)
                    return key, bytes(iv), bytes(ct)
            else:
                base = 16 * (case["pos"] % (len(ct) // 16))
            ct[base + case["bit"] // 8] ^= 1 << (case["bit"] % 8)
    elif mode == "length":
        cut, k = case["cut"], case["k"]
        if cut == "empty":
            ct = bytearray()
        elif cut == "minus":
            ct = ct[:len(ct) - k]
        elif cut == "plus":
            ct = ct + bytearray(hashlib.shake_128(bytes(ct)).digest(k))
        else:
            ct = ct[:len(ct) - 16]      # a whole block less: a block multiple again (possibly empty)
    elif mode == "wrongkey":
        kk = bytearray(key)
        kk[case["kpos"] % len(kk)] ^= case["kxor"]
        key = bytes(kk)
    return key, iv, bytes(ct)


def run_aes_dec(env, cfg, case):
    if not info(env, cfg)["bc"]:
        raise Unsupported()
    key, iv, ct = build_ct(case)
    n = len(ct)
    valid_key = len(key) in (16, 24, 32)
    want = raes.cbc_pkcs7_decrypt(key, iv, ct) if valid_key else None
    capsel = case["capsel"]
    if capsel == "larger":
        cap = n + case["capk"]
    elif capsel == "ptlen" and want is not None:
        cap = len(want)
    elif capsel == "small" and want is not None and len(want) > 0:
        cap = max(0, len(want) - 1 - (case["capk"] % 3))
    else:
        capsel = "exact"
        cap = n
    inplace = bool(case.get("inplace")) and n > 0
    if inplace:
        capsel, cap = "exact", n          # one buffer: the capacity is the ciphertext length
    p = Prog(poison=case["poison"])
    ci, ki, ii = p.buf(ct), p.buf(key), p.buf(iv)
    out = ci if inplace else p.buf(bytes([case["poison"]]) * cap)
    p.call("bc_aes_cbc_dec", out, ci, ki, ii)
    p.dump(out)
    res = execute(env, cfg, p)
    c = res.calls[0]
    what = "bc_aes_cbc_dec(in_len=%d, key_len=%d, capacity=%d, %s)" % (n, len(key), cap, case["mode"])
    clean(c, what, [out], allow_error=True)
    ret, olen = c.ret_i(0), c.rets[1]
    refused = ret != RLC_OK or c.errored
    labels = ["aes-dec:mode:" + case["mode"], "aes-dec:klen:%d" % len(key), "aes-dec:cap:" + capsel,
              "aes-dec:%s" % ("in-place" if inplace else "separate-buffers"),
              "aes-dec:blocks:%s" % (n // 16 if n < 96 else "6+")]
    if case["mode"] == "tail":
        v = case["v"]
        labels.append("aes-dec:padbyte:%s" % ("0" if v == 0 else "1..15" if v < 16 else "16" if v == 16 else "17" if v == 17
                                               else ">17"))
        labels.append("aes-dec:tail:" + case["shape"])
    if not valid_key:
        if not refused:
            raise Violation("%s accepted a key size AES does not have" % what, kind="bad-key-accepted")
        return True, labels + ["aes-dec:refused:key"]
    if want is None:
        why = "empty" if n == 0 else "length" if n % 16 else "padding"
        if not refused:
            raise Violation("%s accepted a ciphertext whose reference decryption is invalid (%s)" % (what, why),
                            kind="invalid-accepted", why=why, got_len=olen,
                            ref_last_block=hx(raes.cbc_decrypt_raw(key, iv, ct)[-16:]) if n and n % 16 == 0 else "")
        return True, labels + ["aes-dec:invalid:" + why]
    labels.append("aes-dec:valid")
    labels.append("aes-dec:padlen:%d" % (n - len(want)))
    if cap < len(want):
        if not refused:
            raise Violation("%s reported success although the plaintext (%d bytes) does not fit" % (what, len(want)),
                            kind="small-capacity-accepted")
        return True, labels + ["aes-dec:refused:capacity"]
    if refused:
        if cap < n:
            # the library asks for *out_len >= in_len; refusing a smaller buffer is conservative, not wrong
            return True, labels + ["aes-dec:refused:capacity-below-in_len"]
        raise Violation("%s refused a valid ciphertext (plaintext of %d bytes)" % (what, len(want)),
                        kind="dec-valid-refused", ptlen=len(want), in_len=n)
    got = res.dumps[out]
    if olen != len(want) or got[:olen] != want:
        raise Violation("%s: wrong plaintext" % what, got_len=olen, got=hx(got[:min(olen, cap)]), want=hx(want), kind="value")
    return True, labels


# ------------------------------------------------------------------------------ targets

MD_CFGS = ["md-sh224", "md-sh384", "md-sh512", "md-b2s160", "md-b2s256"]


def _c(quick, thorough):
    return {"quick": quick, "thorough": thorough}


def strat_hash_macro(env, cfg):
    return strat_hash(env, cfg, macro_only=True)


def strat_xmd_macro(env, cfg):
    return strat_xmd(env, cfg, macro_only=True)


GEN = ["base256", "base256-gcc"]
TARGETS = [
    # Order matters only when the wall-clock budget is hit (jobs are started roughly in list order): the AES targets and
    # the smaller targets come first, the replicated hash runs last.
    # SHA-384/512 note: sha_private.h tests WSIZE before relic_conf.h is included, so the 32-bit-word implementation
    # (USE_32BIT_ONLY) is what every build compiles; w8 / w32 are kept in the thorough tier only (callers' view of the
    # context structure differs there). The md_map_* / md_xmd_* functions do not depend on MD_MAP, only the md_map / md_xmd
    # macros do: the md-* builds run the macro-only targets.
    # coverage-guided campaign with in-target definitional oracles (engine/fuzz/fuzz_md.c): HMAC = RFC 2104 from md_map,
    # KDF / MGF blocks, XMD from the one-shot hashes, AES round trip, decrypt-arbitrary-bytes then re-encrypt
    Target("fuzz-md", None, None, {"quick": ["fuzz256"], "thorough": ["fuzz256"]}, quick=60000, thorough=3000000,
           fuzz="fuzz_md", job_size={"quick": 20000, "thorough": 250000}),
    Target("aes_dec", strat_aes_dec, run_aes_dec, _c(["base256"], GEN), quick=100000, thorough=500000),
    Target("aes_enc", strat_aes_enc, run_aes_enc, _c(["base256"], GEN), quick=70000, thorough=350000),
    Target("xmd", strat_xmd, run_xmd, _c(["base256"], GEN + ["w8"]), quick=80000, thorough=60000),
    Target("kdf", strat_kdf, run_kdf, _c(["base256"], GEN + MD_CFGS), quick=100000, thorough=70000),
    Target("hmac", strat_hmac, run_hmac, _c(["base256"], GEN + MD_CFGS), quick=100000, thorough=70000),
    Target("hash", strat_hash, run_hash, _c(["base256"], GEN + ["w8", "w32"]), quick=200000, thorough=100000),
    Target("xmd_macro", strat_xmd_macro, run_xmd, _c([], ["md-sh224", "md-sh384", "md-sh512"]), quick=1, thorough=30000),
    Target("hash_macro", strat_hash_macro, run_hash, _c([], MD_CFGS), quick=1, thorough=30000),
]


def self_test():
    raes.self_test()
    rkdf.self_test()
    # the byte-spec expander is exact and deterministic
    for spec in ({"n": 0, "k": "const", "s": b"\x00"}, {"n": 5, "k": "pat", "s": b"ab"}, {"n": 70000, "k": "xof", "s": b"x"},
                 {"n": 3, "k": "raw", "s": b"abc"}):
        assert len(expand(spec)) == spec["n"] and expand(spec) == expand(dict(spec))
    assert expand({"n": 5, "k": "pat", "s": b"ab"}) == b"ababa"
    # the boundary family contains the lengths the property names
    assert {55, 56, 63, 64, 65}.issubset(boundaries(64)) and {111, 112, 119, 120, 127, 128, 129}.issubset(boundaries(128))


# ------------------------------------------------------------------------------ known findings (narrow matchers)

def _kf_enc_empty(case, v, entry):
    """bc_aes_cbc_enc with in_len == 0 (valid key, sufficient capacity) returns RLC_ERR."""
    return v.details.get("kind") == "enc-refused" and v.details.get("ptlen") == 0 and \
        "pt" in case and case["pt"]["n"] == 0 and len(case["key"]) in (16, 24, 32) and case.get("cap", 0) >= 16


def _kf_dec_empty(case, v, entry):
    """bc_aes_cbc_dec refuses the one-block ciphertext whose plaintext is empty (16 padding bytes of value 16)."""
    return v.details.get("kind") == "dec-valid-refused" and v.details.get("ptlen") == 0 and \
        v.details.get("in_len") == 16


def _kf_kdf_len0(case, v, entry):
    """md_kdf / md_mgf with key_len == 0 and RLC_MD_LEN in {20, 28, 48} does not return (RLC_CEIL(0, h) underflows)."""
    return v.details.get("kind") == "hang" and case.get("olen") == 0 and case.get("fn") in ("md_kdf", "md_mgf") and \
        v.details.get("h") in (20, 28, 48)


KNOWN_PREDICATES = {"aes_enc_empty_plaintext_refused": _kf_enc_empty,
                    "aes_dec_empty_plaintext_refused": _kf_dec_empty,
                    "kdf_zero_length_spins": _kf_kdf_len0}

"""C10 — extension-field towers compute in the quotient rings they denote (DESIGN §2 C10).

Elements travel as raw coefficient vectors in the library's flat memory order (Montgomery form where the build
uses it).  The oracle is the generic quotient-ring reference engine/ref/ext.py (K[X]/(X^d - nr), schoolbook), built
from parameters READ from the library (i^2 = fp_prime_get_qnr(), j^3 = fp_prime_get_cnr(), E2 = fp2_mul_nor(1),
E3 = fp3_mul_nor(1)); every defining polynomial is verified irreducible by the reference before a level is used.
Long exponentiations / Frobenius use the reference's univariate fast path (ext.Flat), cross-checked against the
generic path per context."""
import os
import struct

from hypothesis import strategies as st

from engine import ecctx
from engine.core import Target, Violation, Unsupported
from engine.gen import ints
from engine.proto import Prog, RLC_EQ, RLC_NE
from engine.ref import ext as rext
from engine.ref.ec import PrimeField

PROPERTY = "C10"
RULE = ("per worker job one tower prime (every pairing parameter set selectable in the build, via ep_param_set); "
        "coefficient vectors with structure (zero, one, each basis element, generated zero masks, embedded subfield "
        "elements, conjugate / negated / inverse / equal second operands, Montgomery digit patterns, dense uniform); "
        "every sparsity shape of each mul_dxs under each twist type; cyclotomic-subgroup and order-r elements built by "
        "the REFERENCE (easy part, cofactor power) plus near-members for the membership test; exponents 0, +-1, small, "
        "p, sparse, dense, negative, long; Frobenius powers 0..N+1; alias patterns c==a, c==b, a==b; two poison bytes "
        "per case. oracle = generic quotient-ring reference on coefficient vectors + every output coefficient < p + "
        "input preservation + poison independence. non-trivial: >= 2 non-zero coefficients in different top-level "
        "halves, or a structured operand fed to a specialised routine, or exponent not in {0,1}. distinct = distinct "
        "(target, cfg, case) hashes")
ASSUMPTIONS = [
    "tower parameters are read from the library getters; E2/E3 are what fp2_mul_nor(1)/fp3_mul_nor(1) return; the "
    "agreement of those with the documented getters is its own check (target consts)",
    "mul_dxs sparse shapes are derived from the implementation and its pairing callers (the header only says 'sparse'); "
    "the twist type they depend on is set through ep2/ep3_curve_set_twist and read back",
    "NAF-based cyclotomic exponentiations size their recoding buffer for RLC_FP_BITS+1 digits: an exponent longer than "
    "RLC_FP_BITS bits may be refused with a cleanly reported error (never a silent wrong value)",
    "compressed squaring / decompression are fed compressed forms whose two unused blocks still hold the blocks of "
    "the element the compression started from (what every caller in the library provides)",
    "fpN_exp_cyc_sim with a pairing curve of embedding degree 12 reduces exponents modulo the group order: it is fed "
    "order-r elements there (what gt_exp_sim provides); general cyclotomic elements elsewhere",
    "fpN_frb is fed powers 0..N+1 (negative powers are not a documented input)",
]
BUDGET_S = {"quick": 260, "thorough": 1750}
JOB_SIZE = {"quick": 1500, "thorough": 1500}
OPTIONAL_CFGS = ["p381", "p381-qnres", "fpx-basic", "ep-basic", "base256-gcc"] + \
    ["pf-%d" % b for b in (315, 317, 330, 354, 377, 382, 383, 446, 455, 508, 509, 510, 544, 569, 575, 638, 765, 766, 768)] + \
    ["pf-508-epbasic", "pf-508-fpxbasic"]

QUICK_DEGS = (2, 3, 4, 6, 8, 9, 12)
SWEEP_DEGS = (16, 18, 24, 48, 54)
DIMS = {2: (2,), 3: (3,), 4: (2, 2), 6: (3, 2), 8: (2, 2, 2), 9: (3, 3), 12: (2, 3, 2), 16: (2, 2, 2, 2),
        18: (2, 3, 3), 24: (3, 2, 2, 2), 48: (2, 3, 2, 2, 2), 54: (3, 2, 3, 3)}
UNI = (2, 8, 16)                 # 'cyclotomic' means unitary: a^(p^(N/2)+1) = 1
CYC = (12, 18, 24, 48, 54)       # Granger-Scott / Karabina families: a^(Phi_N(p)) = 1
# the two blocks (of N/6 coefficients, flat order) that a compressed element does not carry
PCK_SKIP = {12: (0, 4), 18: (0, 4), 24: (0, 1), 48: (0, 4), 54: (0, 1)}

_CTX = {}


# ------------------------------------------------------------------------------ context

class TCtx:
    """Everything known about the tower over one parameter set in one build configuration."""

    def field(self, N):
        """the reference field of degree N, or None when the prime does not admit it (some defining polynomial
        of its construction chain is reducible, or the needed non-residue does not exist)"""
        if N not in self._ok:
            F = self.T.get(N)
            ok = F is not None
            if ok and isinstance(F.K, rext.Ext):
                ok = self.field(F.K.deg) is not None
            if ok:
                ok = self._irreducible(F)
            self._ok[N] = ok
        return self.T[N] if self._ok[N] else None

    def _irreducible(self, F):
        K = F.K
        if isinstance(K, PrimeField) or K.deg <= 3:
            return F.irreducible()
        if F.d == 2:
            return not K.is_square_norm(F.nr)
        qk = K.p ** K.deg
        if (qk - 1) % 3:
            return False
        fl = self.flat(K.deg)
        return fl.pow(fl.from_tower(F.nr), (qk - 1) // 3) != fl.one

    def flat(self, N):
        if N not in self._flat:
            F = self.T[N]
            fl = rext.Flat(F)
            fl.check(rext.sample_elements(F, "ctx", 2), e=(1 << 33) + 0x1F35)
            self._flat[N] = fl
        return self._flat[N]

    # ---- transport
    def enc(self, v):
        F = self.F
        b = b"".join(F.to_raw_int(x).to_bytes(F.nbytes, "little") for x in v)
        return bytes([len(v)]) + struct.pack("<I", len(b)) + b

    def encv(self, N, vs, count=None):
        F = self.F
        b = b"".join(F.to_raw_int(x).to_bytes(F.nbytes, "little") for v in vs for x in v)
        return bytes([N]) + struct.pack("<II", len(vs) if count is None else count, len(b)) + b

    def dec(self, blob, what):
        """list of coefficient values; Violation when a coefficient is not canonical"""
        F = self.F
        nb = F.nbytes
        out = []
        for k in range(len(blob) // nb):
            v, raw = F.dec(blob[k * nb:(k + 1) * nb])
            if v is None:
                raise Violation("%s: output coefficient %d not canonical (raw digit vector >= p)" % (what, k),
                                raw=raw, p=F.p, coeff=k)
            out.append(v)
        return out

    # ---- reference helpers on flat vectors
    def un(self, N, v):
        return self.T[N].unflatten(v)

    def fl(self, N, x):
        return self.T[N].flatten(x)

    def rpow(self, N, v, e):
        f = self.flat(N)
        return self.fl(N, f.to_tower(f.pow(f.from_tower(self.un(N, v)), e)))

    def rfrob(self, N, v, i):
        f = self.flat(N)
        return self.fl(N, f.to_tower(f.frob(f.from_tower(self.un(N, v)), i)))

    def rmul(self, N, a, b):
        R = self.T[N]
        return R.flatten(R.mul(R.unflatten(a), R.unflatten(b)))

    def rinv(self, N, a):
        R = self.T[N]
        return R.flatten(R.inv(R.unflatten(a)))

    def is_cyc(self, N, v):
        """reference membership in the cyclotomic subgroup G_{Phi_N}(p): a != 0 and a^(Phi_N(p)) = 1, evaluated
        with the reference Frobenius (Phi_N(p) = p^(N/2)+1 for N = 2, 8, 16; p^(N/3) - p^(N/6) + 1 otherwise)"""
        if not any(v):
            return False
        f = self.flat(N)
        a = f.from_tower(self.un(N, v))
        if N in UNI:
            return f.mul(f.frob(a, N // 2), a) == f.one
        s = N // 6
        return f.mul(f.frob(a, 2 * s), a) == f.frob(a, s)

    def easy(self, N, v):
        """reference easy part: a^(p^(N/2)-1) and, for the degree-6k families, then ^(p^(N/6)+1)"""
        f = self.flat(N)
        R = self.T[N]
        a = R.unflatten(v)
        u = f.mul(f.frob(f.from_tower(a), N // 2), f.from_tower(R.inv(a)))
        if N in CYC:
            u = f.mul(f.frob(u, N // 6), u)
        return R.flatten(f.to_tower(u))

    def phi(self, N):
        p = self.p
        return p ** (N // 2) + 1 if N in UNI else p ** (N // 3) - p ** (N // 6) + 1

    def pool(self, N, kind):
        """cached deterministic elements: 'cyc' cyclotomic, 'ord' of order dividing the curve order n"""
        key = (N, kind)
        if key not in self._pool:
            R = self.T[N]
            base = [self.easy(N, R.flatten(x)) for x in rext.sample_elements(R, "pool%d" % self.p.bit_length(), 3)]
            if kind == "ord":
                ph = self.phi(N)
                if self.n <= 1 or ph % self.n:
                    base = []
                else:
                    base = [self.rpow(N, b, ph // self.n) for b in base[:2]]
            self._pool[key] = base
        return self._pool[key]


def _blob_vals(ctx, blob):
    return ctx.dec(blob, "parameter read")


def tctx(env, cfg, cid):
    key = (cfg, cid)
    if key in _CTX:
        return _CTX[key]
    c = ecctx.curve(env, cfg, cid)
    r = env.runner(cfg)
    if "fp12_mul" not in r.ops():
        raise Unsupported()
    t = TCtx()
    t.cid, t.F, t.p, t.n, t.pairf, t.embed = cid, c.F, c.F.p, c.n, c.is_pairf, c.embed
    t._ok, t._flat, t._pool, t.T, t._st = {1: True}, {}, {}, {}, {}
    one2 = t.enc([1, 0])
    one3 = t.enc([1, 0, 0])

    def build(p):
        p.call("fp_prime_get_qnr"), p.call("fp_prime_get_cnr"), p.call("fp2_field_get_qnr"), p.call("fp3_field_get_cnr")
        p.call("fp_prime_get_mod8"), p.call("fp_prime_get_mod18"), p.call("fp_prime_get_par_sps"), p.call("info_fpx")
        p.call("epx_twist_types")
        sx = p.bn(0)
        p.call("fp_prime_get_par", sx)
        a2, c2 = p.new("FPX", one2), p.new("FPX", one2)
        p.call("fp2_mul_nor", c2, a2)
        a3, c3 = p.new("FPX", one3), p.new("FPX", one3)
        p.call("fp3_mul_nor", c3, a3)
        p.dump(sx), p.dump(c2), p.dump(c3)
        return sx, c2, c3
    res, (sx, c2, c3) = ecctx.run(env, cfg, cid, build, 0x5A)
    cs = res.calls
    t.qnr, t.cnr, t.qnr2, t.cnr3 = cs[0].ret_i(0), cs[1].ret_i(0), cs[2].ret_i(0), cs[3].ret_i(0)
    t.mod8, t.mod18 = cs[4].rets[0], cs[5].rets[0]
    sp = cs[6]
    t.par_sps = [sp.ret_i(2 + i) for i in range(min(sp.rets[1], 12))] if sp.rets[0] else []
    inf = cs[7].rets
    t.info = dict(QDR=inf[0], CBC=inf[1], RDC=inf[2], BASIC=inf[3], INTEG=inf[4], LAZYR=inf[5], FP_BITS=inf[6],
                  DIG=inf[7], WIDTH=inf[8], TERMS=inf[9], EP_ADD=inf[10], PROJC=inf[11], JACOB=inf[12], QNRES=inf[13])
    t.ep_basic = t.info["EP_ADD"] == t.info["BASIC"]
    tw = cs[8]
    t.DTYPE, t.MTYPE = (tw.rets[4], tw.rets[5]) if not tw.unsupported else (1, 2)
    t.has_twist_api = not tw.unsupported
    t.par = res.dumps[sx].value
    if t.qnr == 0 or cs[10].errored:
        raise Unsupported()
    t.E2 = tuple(t.dec(res.dumps[c2], "fp2_mul_nor(1)"))
    t.E3 = tuple(t.dec(res.dumps[c3], "fp3_mul_nor(1)")) if (t.cnr != 0 and not cs[11].errored) else None
    t.T = rext.build_tower(t.p, t.qnr, t.cnr if t.cnr != 0 else None, t.E2, t.E3)
    t.ops = r.ops()
    _CTX[key] = t
    return t


def param_sets(env, cfg, which="pf"):
    """'pf': the pairing-friendly parameter sets of the build (their primes carry the towers the library uses);
    'np': one parameter set per remaining selectable prime (the tower levels the reference finds to be fields there)"""
    cs = ecctx.discover(env, cfg)["curves"]
    if which == "pf" and not os.environ.get("C10_ALL_PRIMES"):
        return [c.cid for c in cs if c.is_pairf]
    seen, out = {c.F.p for c in cs if c.is_pairf} if which == "np" else set(), []
    for c in cs:
        if c.F.p not in seen:
            seen.add(c.F.p)
            out.append(c.cid)
    return out


def job_ctx(env, cfg, which="pf"):
    sets = param_sets(env, cfg, which)
    if not sets:
        raise Unsupported()
    return tctx(env, cfg, sets[(env.job_seed // 7) % len(sets)])


def in_domain(ctx, N):
    """Degrees up to 12 are exercised on every tower prime. The towers above degree 12 exist in the library for the
    pairing families that use them: they are exercised under the parameter sets whose embedding-degree field is
    built through them (C10_SWEEP_ALL=1 lifts the restriction for exploration)."""
    if N in QUICK_DEGS or os.environ.get("C10_SWEEP_ALL"):
        return True
    return bool(ctx.pairf) and ctx.embed in ctx.T and rext._in_chain(ctx.T, N, ctx.embed)


def degrees(ctx, wanted):
    return [N for N in wanted if in_domain(ctx, N) and ("fp%d_mul" % N) in ctx.ops and ctx.field(N) is not None]


# ------------------------------------------------------------------------------ generators

def memo(fn):
    """strategy factories are called while drawing: build each strategy object once per (context, arguments)
    (st.composite inspects the source of the decorated function on every application, which dominated the run time)"""
    def g(ctx, *args):
        key = (fn.__name__,) + args
        if key not in ctx._st:
            ctx._st[key] = fn(ctx, *args)
        return ctx._st[key]
    g.__name__ = fn.__name__
    g.__doc__ = fn.__doc__
    return g


@memo
def coeff(ctx):
    F = ctx.F
    p = F.p
    special = [0, 1, 2, 3, p - 1, p - 2, (p - 1) // 2, (p + 1) // 2, F.R % p, F.Rinv, 4, p - 4]

    @st.composite
    def s(draw):
        k = draw(st.integers(0, 5))
        if k <= 1:
            return draw(st.sampled_from(special))
        if k == 2:
            raw = draw(ints.magnitude(F.W, F.digs)) % p
            return raw * F.Rinv % p if F.monty else raw
        if k == 3:
            return draw(ints.uniform(0, 1 << 64)) % p
        return draw(ints.uniform(0, p - 1))
    return s()


@memo
def dense(ctx, n):
    nb = ctx.F.nbytes + 8
    p = ctx.p
    return st.binary(min_size=n * nb, max_size=n * nb).map(
        lambda b: [int.from_bytes(b[i * nb:(i + 1) * nb], "little") % p for i in range(n)])


def subdegs(N):
    out, d = [1], 1
    for x in reversed(DIMS[N]):
        d *= x
        out.append(d)
    return out[:-1]


@memo
def vec(ctx, N):
    """a coefficient vector of degree N with generated structure; returns (vector, class label)"""
    p = ctx.p

    @st.composite
    def s(draw):
        k = draw(st.integers(0, 9))
        if k == 0:
            return draw(st.sampled_from([([0] * N, "zero"), ([1] + [0] * (N - 1), "one"),
                                         ([p - 1] + [0] * (N - 1), "minus-one")]))
        if k == 1:
            v = [0] * N
            v[draw(st.integers(0, N - 1))] = draw(st.one_of(st.sampled_from([1, p - 1, 2]), coeff(ctx)))
            return v, "basis"
        if k in (2, 3):
            mask = draw(st.lists(st.booleans(), min_size=N, max_size=N))
            d = draw(dense(ctx, N))
            return [x if m else 0 for x, m in zip(d, mask)], "masked"
        if k == 4:
            d = draw(st.sampled_from(subdegs(N)))
            return draw(dense(ctx, d)) + [0] * (N - d), "subfield:%d" % d
        if k == 5:
            return [draw(coeff(ctx)) for _ in range(N)], "structured-coeffs"
        if k == 6:
            return [draw(st.integers(0, 3)) for _ in range(N)], "small"
        return draw(dense(ctx, N)), "dense"
    return s()


def _related(draw, ctx, N, a):
    """second operand derived from the first: equal, negated, top-level conjugate, inverse, off by one"""
    p = ctx.p
    k = draw(st.integers(0, 4))
    if k == 0:
        return list(a), "b=a"
    if k == 1:
        return [(-x) % p for x in a], "b=-a"
    if k == 2:
        top = DIMS[N][0]
        blk = N // top
        return [x if (i // blk) % 2 == 0 else (-x) % p for i, x in enumerate(a)], "b=conj(a)"
    if k == 3 and any(a):
        return ctx.rinv(N, a), "b=1/a"
    return [(a[0] + 1) % p] + list(a[1:]), "b=a+1"


def second(draw, ctx, N, a):
    """a second operand: independent (2/3) or derived from the first"""
    if draw(st.integers(0, 2)) == 0:
        return _related(draw, ctx, N, a)
    return draw(vec(ctx, N))


def stale_vec(ctx, N, s):
    p = ctx.p
    return [(s + 7 * k) % p for k in range(N)]


def nontrivial_vec(N, v):
    top = DIMS[N][0]
    blk = N // top
    halves = {i // blk for i, x in enumerate(v) if x}
    return len(halves) >= 2


@memo
def exponent(ctx, maxbits=None):
    p = ctx.p
    nb = p.bit_length()
    maxbits = maxbits or 2 * nb
    special = [0, 1, 2, 3, 5, 6, 7, 12, 13, 15, -1, -2, -3, p, p - 1, p + 1, -p, (p - 1) // 2, (1 << nb) - 1, 1 << (nb - 1),
               (1 << 64) - 1, 1 << 64, (1 << 64) + 1, 1 << 63, 3 << 62]

    @st.composite
    def s(draw):
        k = draw(st.integers(0, 7))
        if k <= 1:
            return draw(st.sampled_from(special))
        if k == 2:      # sparse: few set bits over a long span
            bits = draw(st.lists(st.integers(0, maxbits - 1), min_size=1, max_size=5, unique=True))
            v = sum(1 << b for b in bits)
        elif k == 3:    # dense of generated length
            b = draw(st.integers(1, maxbits))
            v = draw(ints.uniform(1 << (b - 1), (1 << b) - 1))
        elif k == 4:    # around one digit
            v = draw(ints.uniform(0, 1 << 66))
        elif k == 5:    # NAF-unfriendly: runs of ones
            b = draw(st.integers(2, min(maxbits, nb)))
            v = (1 << b) - 1 - draw(st.sampled_from([0, 1, 2, 1 << (b // 2)]))
        elif k == 6:
            v = draw(ints.uniform(0, p))
        else:
            v = draw(st.integers(0, 64))
        return -v if draw(st.integers(0, 3)) == 0 else v
    return s()


# ------------------------------------------------------------------------------ execution helpers

def chk_call(c, what, allow_error=False, **extra):
    if c.unsupported:
        raise Unsupported()
    if c.ub:
        raise Violation("undefined behaviour reported in %s: %s" % (what, c.ub), ub=c.ub)
    if c.errored and not allow_error:
        raise Violation("%s reported an error (caught=%d e=%d code=%d) for a valid input" % (what, c.caught, c.e, c.code),
                        errored=True, **extra)


def with_alt(v, **alts):
    """attach 'the observed wrong answer equals this specific alternative' facts to a violation (used by the narrow
    known-finding predicates, which must match the wrong answer and not just the input class)"""
    got = v.details.get("got")
    for k, fn in alts.items():
        try:
            v.details[k] = (fn() == got)
        except Exception:
            v.details[k] = False
    return v


def chk_vec(ctx, blob, want, what):
    got = ctx.dec(blob, what)
    if want is not None and got != [x % ctx.p for x in want]:
        bad = [k for k, (g, w) in enumerate(zip(got, want)) if g != w % ctx.p]
        raise Violation("%s: wrong value (coefficients %s differ)" % (what, bad[:8]), got=got, want=list(want), bad=bad)
    return got


def chk_inputs(c, ins, outs, what):
    bad = [ins[s] for s in c.changed if s in ins and s not in outs]
    if bad:
        raise Violation("%s modified its input(s) %s" % (what, bad), modified=bad)


def run2(env, cfg, ctx, build, poison):
    """the same program under two poison bytes: [(result, meta)]"""
    out = []
    for pz in (poison, poison ^ 0xFF):
        out.append(ecctx.run(env, cfg, ctx.cid, build, pz))
    return out


def same_blob(results, slot, what):
    if results[0][0].dumps[slot] != results[1][0].dumps[slot]:
        raise Violation("%s: result depends on stale storage content (poison)" % what,
                        first=results[0][0].dumps[slot].hex(), second=results[1][0].dumps[slot].hex())


def fpx(ctx, p, v):
    return p.new("FPX", ctx.enc(v))


# ------------------------------------------------------------------------------ plain arithmetic

def _ref_bin(kind):
    def f(ctx, N, a, b):
        R = ctx.T[N]
        x, y = R.unflatten(a), R.unflatten(b)
        return R.flatten({"add": R.add, "sub": R.sub, "mul": R.mul}[kind](x, y))
    return f


BIN = {}
for _v in ("add", "add_basic", "add_integ"):
    BIN[_v] = _ref_bin("add")
for _v in ("sub", "sub_basic", "sub_integ"):
    BIN[_v] = _ref_bin("sub")
for _v in ("mul", "mul_basic", "mul_integ", "mul_lazyr"):
    BIN[_v] = _ref_bin("mul")


def _un(fn):
    def f(ctx, N, a):
        R = ctx.T[N]
        return R.flatten(fn(ctx, R, R.unflatten(a)))
    return f


def _nor(ctx, R, x):
    E = ctx.E2 if R.deg == 2 else ctx.E3
    return R.mul(x, E)


UN = {}
UN["neg"] = _un(lambda c, R, x: R.neg(x))
for _v in ("dbl", "dbl_basic", "dbl_integ"):
    UN[_v] = _un(lambda c, R, x: R.add(x, x))
for _v in ("sqr", "sqr_basic", "sqr_integ", "sqr_lazyr"):
    UN[_v] = _un(lambda c, R, x: R.mul(x, x))
UN["inv"] = _un(lambda c, R, x: R.inv(x))
UN["copy"] = _un(lambda c, R, x: x)
UN["mul_art"] = _un(lambda c, R, x: R.mul(x, rext.art(R)))
for _v in ("mul_nor", "mul_nor_basic", "mul_nor_integ"):
    UN[_v] = _un(_nor)

DIG = {
    "add_dig": lambda c, R, x, d: R.add(x, R.from_int(d)),
    "sub_dig": lambda c, R, x, d: R.sub(x, R.from_int(d)),
    "mul_dig": lambda c, R, x, d: R.mul(x, R.from_int(d)),
}


def ops_of(ctx, N, names):
    return sorted(n for n in names if ("fp%d_%s" % (N, n)) in ctx.ops)


def strat_arith(degs, which="pf"):
    def strategy(env, cfg):
        ctx = job_ctx(env, cfg, which)
        ds = degrees(ctx, degs)
        if not ds:
            raise Unsupported()

        @st.composite
        def s(draw):
            N = draw(st.sampled_from(ds))
            cls = draw(st.sampled_from(["bin", "bin", "bin", "un", "un", "dig", "query"]))
            case = dict(cid=ctx.cid, N=N, cls=cls, poison=draw(st.integers(0, 255)), stale=draw(coeff(ctx)))
            a, la = draw(vec(ctx, N))
            case["a"], case["la"] = a, la
            if cls == "bin":
                case["op"] = draw(st.sampled_from(ops_of(ctx, N, BIN)))
                case["alias"] = draw(st.sampled_from([0, 0, 1, 2, 3, 4]))
                if case["alias"] >= 3:
                    case["b"], case["lb"] = list(a), "b=a"
                else:
                    case["b"], case["lb"] = second(draw, ctx, N, a)
            elif cls == "un":
                case["op"] = draw(st.sampled_from(ops_of(ctx, N, UN)))
                case["alias"] = draw(st.integers(0, 1))
            elif cls == "dig":
                case["op"] = draw(st.sampled_from(ops_of(ctx, N, DIG) + ["set_dig", "cmp_dig"]))
                case["alias"] = draw(st.integers(0, 1))
                case["d"] = draw(ints.digit(64))
                if case["op"] == "cmp_dig" and draw(st.booleans()):
                    case["a"] = [case["d"] % ctx.p] + [0] * (N - 1)
                    if draw(st.integers(0, 3)) == 0:
                        case["a"][draw(st.integers(0, N - 1))] = draw(st.sampled_from([1, ctx.p - 1]))
            else:
                case["op"] = draw(st.sampled_from(["cmp", "cmp", "is_zero", "zero"]))
                b, lb = second(draw, ctx, N, a)
                if draw(st.integers(0, 2)) == 0:
                    # differ in exactly one generated coefficient
                    b = list(a)
                    k = draw(st.integers(0, N - 1))
                    b[k] = (b[k] + draw(st.sampled_from([1, ctx.p - 1]))) % ctx.p
                    lb = "one-coefficient-off"
                case["b"], case["lb"] = b, lb
            return case
        return s()
    return strategy


def run_arith(env, cfg, case):
    ctx = tctx(env, cfg, case["cid"])
    N, cls, op, a = case["N"], case["cls"], case["op"], case["a"]
    R = ctx.field(N)
    if R is None:
        raise Unsupported()
    name = "fp%d_%s" % (N, op)
    alias = case.get("alias", 0)
    what = "%s[cid=%d](alias=%d)" % (name, ctx.cid, alias)
    labels = ["deg:%d" % N, "op:" + op, "a:" + case["la"].split(":")[0]]
    stale = stale_vec(ctx, N, case["stale"])
    if cls == "bin":
        b = case["b"]
        want = BIN[op](ctx, N, a, b)

        def build(p):
            sa = fpx(ctx, p, a)
            sb = sa if alias >= 3 else fpx(ctx, p, b)
            sc = fpx(ctx, p, stale) if alias in (0, 3) else (sa if alias in (1, 4) else sb)
            p.call(name, sc, sa, sb)
            p.dump(sc)
            ins = {}
            if sa != sc:
                ins[sa] = "a"
            if sb != sc:
                ins[sb] = "b"
            return sc, ins
        rs = run2(env, cfg, ctx, build, case["poison"])
        for res, (sc, ins) in rs:
            c = res.calls[0]
            chk_call(c, what)
            chk_vec(ctx, res.dumps[sc], want, what)
            chk_inputs(c, ins, {sc}, what)
        same_blob(rs, rs[0][1][0], what)
        labels += ["alias:%d" % alias, "b:" + case["lb"].split(":")[0]]
        return (alias != 0 or (nontrivial_vec(N, a) and nontrivial_vec(N, b))), labels
    if cls == "un":
        inv0 = op == "inv" and not any(a)
        want = None if inv0 else UN[op](ctx, N, a)

        def build(p):
            sa = fpx(ctx, p, a)
            sc = sa if alias else fpx(ctx, p, stale)
            p.call(name, sc, sa)
            p.dump(sc)
            return sc, ({} if alias else {sa: "a"})
        rs = run2(env, cfg, ctx, build, case["poison"])
        for res, (sc, ins) in rs:
            c = res.calls[0]
            if inv0:
                chk_call(c, what, allow_error=True)
                if not c.errored:
                    raise Violation("%s: inversion of zero was not reported as an error" % what, inv0=True)
                continue
            chk_call(c, what)
            chk_vec(ctx, res.dumps[sc], want, what)
            chk_inputs(c, ins, {sc}, what)
        if not inv0:
            same_blob(rs, rs[0][1][0], what)
        return (alias != 0 or nontrivial_vec(N, a) or inv0), labels + (["inv:zero"] if inv0 else [])
    if cls == "dig":
        d = case["d"]
        if op == "cmp_dig":
            want = RLC_EQ if a == [d % ctx.p] + [0] * (N - 1) else RLC_NE

            def build(p):
                sa = fpx(ctx, p, a)
                p.call(name, sa, d)
                return sa
            for res, sa in run2(env, cfg, ctx, build, case["poison"]):
                c = res.calls[0]
                chk_call(c, what)
                if c.ret_i(0) != want or c.changed:
                    raise Violation("%s wrong / modified input" % what, got=c.ret_i(0), want=want)
            return True, labels + ["cmp_dig:%s" % ("eq" if want == RLC_EQ else "ne")]
        if op == "set_dig":
            want = [d % ctx.p] + [0] * (N - 1)

            def build(p):
                sc = fpx(ctx, p, a)
                p.call(name, sc, d)
                p.dump(sc)
                return sc
            for res, sc in run2(env, cfg, ctx, build, case["poison"]):
                chk_call(res.calls[0], what)
                chk_vec(ctx, res.dumps[sc], want, what)
            return True, labels
        want = R.flatten(DIG[op](ctx, R, R.unflatten(a), d))

        def build(p):
            sa = fpx(ctx, p, a)
            sc = sa if alias else fpx(ctx, p, stale)
            p.call(name, sc, sa, d)
            p.dump(sc)
            return sc, ({} if alias else {sa: "a"})
        for res, (sc, ins) in run2(env, cfg, ctx, build, case["poison"]):
            c = res.calls[0]
            chk_call(c, what)
            got = ctx.dec(res.dumps[sc], what)
            if op in ("add_dig", "sub_dig") and not alias:
                # documented as c = a +- b: only the constant coefficient is specified to change; the others of a
                # fresh output are compared too (c must BE a + b)
                pass
            if got != want:
                raise Violation("%s: wrong value" % what, got=got, want=want)
            chk_inputs(c, ins, {sc}, what)
        return (alias != 0 or nontrivial_vec(N, a)), labels
    # queries
    b = case["b"]
    if op == "zero":
        def build(p):
            sc = fpx(ctx, p, a)
            p.call(name, sc)
            p.dump(sc)
            return sc
        for res, sc in run2(env, cfg, ctx, build, case["poison"]):
            chk_call(res.calls[0], what)
            chk_vec(ctx, res.dumps[sc], [0] * N, what)
        return any(a), labels
    want = {"cmp": RLC_EQ if a == b else RLC_NE, "is_zero": int(not any(a))}[op]

    def build(p):
        sa = fpx(ctx, p, a)
        if op == "cmp":
            p.call(name, sa, fpx(ctx, p, b))
        else:
            p.call(name, sa)
        return sa
    for res, sa in run2(env, cfg, ctx, build, case["poison"]):
        c = res.calls[0]
        chk_call(c, what)
        if c.ret_i(0) != want or c.changed:
            raise Violation("%s wrong / modified input" % what, got=c.ret_i(0), want=want)
    return True, labels + ["q:%s:%d" % (op, want), "b:" + case["lb"].split(":")[0]]



# ------------------------------------------------------------------------------ sparse multiplication

def _idx(N, *ix):
    """flat positions of the sub-block a[ix[0]][ix[1]]... (all coefficients below it)"""
    dims = DIMS[N]
    lo, size = 0, N
    for k, i in enumerate(ix):
        size //= dims[k]
        lo += i * size
    return set(range(lo, lo + size))


def dxs_shapes(ctx, N, op, tw2, tw3):
    """the sparse shapes fpN_mul_dxs is written for in this build: list of (label, set of flat positions of b that
    MUST be zero). Derived from the implementation (src/fpx/relic_fpN_mul.c) and the line functions that call it;
    None = this routine has no usable shape in this configuration."""
    Z = set()
    basic = ctx.ep_basic

    def z(*ix):
        return _idx(N, *ix)
    if N in (6, 9):
        return [("b2=0", z(2))]
    if N == 8:
        return [("b10=0", z(1, 0))]
    if N in (12, 18):
        tw = tw2 if N == 12 else tw3
        d_shape = z(0, 1) | z(0, 2) | z(1, 2)
        m_shape = z(0, 2) | z(1, 0) | z(1, 2)
        if basic:
            # affine line functions: one more coefficient lives in the base field
            d_shape |= z(0, 0) - {min(z(0, 0))}
            m_shape |= z(1, 1) - {min(z(1, 1))}
        # (the shape is a property of the line functions of the twist type, pp_dbl/add_k12/k18: the same for the
        # basic and the lazy-reduction variant)
        return [("D-shape", d_shape)] if tw == ctx.DTYPE else [("M-shape", m_shape)]
    if N == 16:
        b_shape = z(0, 1)
        if basic:
            b_shape |= z(0, 0) - {min(z(0, 0))}
        return [("b10=0", z(1, 0)), ("b01=0", b_shape)]
    if N == 24:
        return [("b2=0", z(2)), ("b1=0", z(1))]
    if N == 48:
        m = z(0, 2) | z(1, 0) | z(1, 2)
        if basic:
            m |= z(1, 1) - {min(z(1, 1))}
        return [("M-shape", m)]
    if N == 54:
        if basic:
            return None
        return [("b1=0,b21=0", z(1) | z(2, 1))]
    return None


def dxs_ops(ctx, N):
    return ops_of(ctx, N, ["mul_dxs", "mul_dxs_basic", "mul_dxs_lazyr"])


def strat_dxs(degs, which="pf"):
    def strategy(env, cfg):
        ctx = job_ctx(env, cfg, which)
        ds = [N for N in degrees(ctx, degs) if dxs_ops(ctx, N)]
        if not ds:
            raise Unsupported()

        @st.composite
        def s(draw):
            N = draw(st.sampled_from(ds))
            op = draw(st.sampled_from(dxs_ops(ctx, N)))
            tw = draw(st.sampled_from([0, ctx.DTYPE, ctx.DTYPE, ctx.MTYPE])) if N in (12, 18) and ctx.has_twist_api else 0
            shapes = dxs_shapes(ctx, N, op, tw, tw)
            if shapes is None:
                shapes = [("none", set())]
            label, zero = draw(st.sampled_from(shapes))
            a, la = draw(vec(ctx, N))
            alias = draw(st.sampled_from([0, 0, 1, 2, 3]))
            b, lb = second(draw, ctx, N, a) if alias != 3 else (list(a), "b=a")
            # extra generated zeros inside the allowed positions: every sub-mask of the shape is reachable
            extra = draw(st.lists(st.booleans(), min_size=N, max_size=N)) if draw(st.booleans()) else [False] * N
            b = [0 if (k in zero or extra[k]) else x for k, x in enumerate(b)]
            if alias == 3:
                a = list(b)
            return dict(cid=ctx.cid, N=N, op=op, tw=tw, shape=label, a=a, b=b, la=la, alias=alias,
                        poison=draw(st.integers(0, 255)), stale=draw(coeff(ctx)))
        return s()
    return strategy


def run_dxs(env, cfg, case):
    ctx = tctx(env, cfg, case["cid"])
    N, op, a, b, alias, tw = case["N"], case["op"], case["a"], case["b"], case["alias"], case["tw"]
    if ctx.field(N) is None:
        raise Unsupported()
    name = "fp%d_%s" % (N, op)
    what = "%s[cid=%d](twist=%d, shape=%s, alias=%d)" % (name, ctx.cid, tw, case["shape"], alias)
    shapes = dxs_shapes(ctx, N, op, tw, tw)
    if shapes is None:
        raise Unsupported()
    if not any(all(b[k] == 0 for k in zero) for _, zero in shapes):
        raise Unsupported()                     # outside the precondition: not compared
    want = ctx.rmul(N, a, b)
    stale = stale_vec(ctx, N, case["stale"])
    setter = {12: "ep2_curve_set_twist", 18: "ep3_curve_set_twist"}.get(N)

    def build(p):
        skip = 0
        if setter and ctx.has_twist_api:
            p.call(setter, tw)
            p.call("epx_twist_types")
            skip = 2
        sa = fpx(ctx, p, a)
        sb = sa if alias == 3 else fpx(ctx, p, b)
        sc = fpx(ctx, p, stale) if alias in (0, 3) else (sa if alias == 1 else sb)
        p.call(name, sc, sa, sb)
        p.dump(sc)
        ins = {}
        if sa != sc:
            ins[sa] = "a"
        if sb != sc:
            ins[sb] = "b"
        return sc, ins, skip
    rs = run2(env, cfg, ctx, build, case["poison"])
    for res, (sc, ins, skip) in rs:
        if skip:
            got_tw = res.calls[1].ret_i(0 if N == 12 else 1)
            if got_tw != tw:
                raise Unsupported()             # the twist type could not be put in place
        c = res.calls[skip]
        chk_call(c, what)
        try:
            chk_vec(ctx, res.dumps[sc], want, what)
        except Violation as v:
            v.details["tw"], v.details["dtype"], v.details["ep_basic"] = tw, ctx.DTYPE, ctx.ep_basic
            v.details["macro_is_basic"] = ctx.info["RDC"] == ctx.info["BASIC"]
            v.details["qnres"] = bool(ctx.info["QNRES"])
            if N == 18:
                z10 = _idx(18, 1, 0)
                with_alt(v, ignores_b10=lambda: ctx.rmul(N, a, [0 if k in z10 else x for k, x in enumerate(b)]))
            raise v
        chk_inputs(c, ins, {sc}, what)
    same_blob(rs, rs[0][1][0], what)
    return True, ["deg:%d" % N, "op:" + op, "shape:%d:%s" % (N, case["shape"]), "twist:%d" % tw, "alias:%d" % alias,
                  "b-nonzero:%d" % min(sum(1 for x in b if x), 9)]



# ------------------------------------------------------------------------------ Frobenius

def mul_frb_pairs(ctx, N):
    """(i, j) arguments fpN_mul_frb is called with inside the library (the constants that field_init derives)"""
    if N == 2:
        return [(1, j) for j in range(1, 6)] + [(2, j) for j in range(1, 5)]
    if N == 3:
        return [(0, 1), (0, 2)] + [(1, j) for j in range(1, 6)] + [(2, 1), (2, 2)]
    return [(1, j) for j in range(1, 6)]


def strat_frb(degs, which="pf"):
    def strategy(env, cfg):
        ctx = job_ctx(env, cfg, which)
        ds = degrees(ctx, degs)
        if not ds:
            raise Unsupported()

        @st.composite
        def s(draw):
            N = draw(st.sampled_from(ds))
            a, la = draw(vec(ctx, N))
            op = "frb"
            if ("fp%d_mul_frb" % N) in ctx.ops and draw(st.integers(0, 3)) == 0:
                op = "mul_frb"
            case = dict(cid=ctx.cid, N=N, op=op, a=a, la=la, alias=draw(st.integers(0, 1)),
                        poison=draw(st.integers(0, 255)), stale=draw(coeff(ctx)))
            if op == "frb":
                case["i"] = draw(st.integers(0, N + 1))
            else:
                case["i"], case["j"] = draw(st.sampled_from(mul_frb_pairs(ctx, N)))
            return case
        return s()
    return strategy


def frb_const_want(ctx, N, i, j):
    """Value of the constant fpN_mul_frb(., i, j) multiplies by, where the source states it (relic_fpx_field.c):
    Fp2: (1, j) -> E^(j (p-1)/6) when 6 | p-1; (2, j) -> E^(p div 4, 8, 12, 24). Fp3 (0, j) is the j-th Frobenius
    power itself. Everything else is only checked to be multiplication by a constant."""
    p = ctx.p
    if N == 2:
        E = list(ctx.E2)
        if i == 1:
            return ctx.rpow(2, E, j * ((p - 1) // 6)) if (p - 1) % 6 == 0 else None
        return ctx.rpow(2, E, p // (4, 8, 12, 24)[j - 1])
    return None


def run_frb(env, cfg, case):
    try:
        return _run_frb(env, cfg, case)
    except Violation as v:
        v.details["p_mod_3"] = tctx(env, cfg, case["cid"]).p % 3
        raise


def _run_frb(env, cfg, case):
    ctx = tctx(env, cfg, case["cid"])
    N, op, a, alias, i = case["N"], case["op"], case["a"], case["alias"], case["i"]
    if ctx.field(N) is None:
        raise Unsupported()
    name = "fp%d_%s" % (N, op)
    stale = stale_vec(ctx, N, case["stale"])
    one = [1] + [0] * (N - 1)
    if op == "frb":
        what = "%s[cid=%d](i=%d, alias=%d)" % (name, ctx.cid, i, alias)
        want = ctx.rfrob(N, a, i)

        def build(p):
            sa = fpx(ctx, p, a)
            sc = sa if alias else fpx(ctx, p, stale)
            p.call(name, sc, sa, i)
            p.dump(sc)
            return sc, ({} if alias else {sa: "a"})
        rs = run2(env, cfg, ctx, build, case["poison"])
        for res, (sc, ins) in rs:
            c = res.calls[0]
            chk_call(c, what)
            try:
                chk_vec(ctx, res.dumps[sc], want, what)
            except Violation as v:
                raise with_alt(v, power_mod_half=lambda: ctx.rfrob(N, a, i % (N // 2)))
            chk_inputs(c, ins, {sc}, what)
        same_blob(rs, rs[0][1][0], what)
        return (nontrivial_vec(N, a) and i % N != 0), ["deg:%d" % N, "op:frb", "frb:%d:%s" % (N, "beyond" if i >= N else i)]
    j = case["j"]
    what = "%s[cid=%d](i=%d, j=%d, alias=%d)" % (name, ctx.cid, i, j, alias)

    def build(p):
        s1 = fpx(ctx, p, one)
        k1 = fpx(ctx, p, stale)
        p.call(name, k1, s1, i, j)                  # the constant K(i, j)
        sa = fpx(ctx, p, a)
        sc = sa if alias else fpx(ctx, p, stale)
        p.call(name, sc, sa, i, j)
        p.dump(k1), p.dump(sc)
        return k1, sc, ({} if alias else {sa: "a"})
    rs = run2(env, cfg, ctx, build, case["poison"])
    for res, (k1, sc, ins) in rs:
        chk_call(res.calls[0], what)
        chk_call(res.calls[1], what)
        K = ctx.dec(res.dumps[k1], what + " on 1")
        if N == 3 and i == 0:
            want = ctx.rfrob(3, a, j)
        else:
            kw = frb_const_want(ctx, N, i, j)
            if kw is not None and K != kw:
                raise Violation("%s: Frobenius constant differs from the value its initialisation documents" % what,
                                got=K, want=kw, const=True)
            want = ctx.rmul(N, a, K)                # 'multiplies by a power of the constant': linear in a
        chk_vec(ctx, res.dumps[sc], want, what)
        chk_inputs(res.calls[1], ins, {sc}, what)
    same_blob(rs, rs[0][1][1], what)
    return True, ["deg:%d" % N, "op:mul_frb", "mul_frb:%d:%d,%d" % (N, i, j)]



# ------------------------------------------------------------------------------ cyclotomic elements (reference-built)

@memo
def cyc_elem(ctx, N, kinds=("cyc", "cyc", "ord", "one")):
    """(recipe, label) of an element of the cyclotomic subgroup built by the REFERENCE: a pool element (easy part of
    a hash-derived dense element; 'ord': its cofactor power, of order dividing the curve order n) raised to a generated
    exponent, optionally times a second one. The recipe is resolved by resolve() when the case runs (keeps generation
    cheap and the replay file small; the pool is a deterministic function of (p, N))."""
    @st.composite
    def s(draw):
        kind = draw(st.sampled_from(kinds))
        if kind == "one":
            return {"g": "one"}, "cyc:one"
        r = {"g": kind, "i": draw(st.integers(0, 2 if kind == "cyc" else 1)),
             "k": draw(st.one_of(st.sampled_from([1, 1, 2, 3, -1]), ints.uniform(1, 1 << 24)))}
        if draw(st.integers(0, 4)) == 0:
            r["h"], r["k2"] = draw(st.integers(0, 1)), draw(ints.uniform(1, 1 << 16))
        return r, "cyc:" + kind
    return s()


@memo
def near_member(ctx, N):
    """recipes of non-members that share structure with members: unitary-only elements, a member times -1 or times a
    base-field scalar, a member with one coefficient disturbed"""
    p = ctx.p

    @st.composite
    def s(draw):
        k = draw(st.integers(0, 3))
        if k == 3:
            # unitary but (for the degree-6k families) not cyclotomic: d^(p^(N/2) - 1)
            return {"g": "unitary", "d": draw(dense(ctx, N))}, "near:unitary-only"
        r, _ = draw(cyc_elem(ctx, N, ("cyc", "ord")))
        r = dict(r)
        if k == 0:
            r["scale"] = p - 1
            return r, "near:negated-member"
        if k == 1:
            r["scale"] = draw(st.sampled_from([2, 3, p - 2]))
            return r, "near:scaled-member"
        r["off"] = [draw(st.integers(0, N - 1)), draw(st.sampled_from([1, p - 1]))]
        return r, "near:one-coefficient-off"
    return s()


def resolve(ctx, N, spec):
    """a case operand: an explicit coefficient vector, or a recipe of cyc_elem / near_member"""
    if isinstance(spec, list):
        return spec
    p = ctx.p
    g = spec["g"]
    if g == "one":
        v = [1] + [0] * (N - 1)
    elif g == "unitary":
        d = list(spec["d"])
        if not any(d):
            d[0] = 1
        f = ctx.flat(N)
        R = ctx.T[N]
        x = R.unflatten(d)
        v = R.flatten(f.to_tower(f.mul(f.frob(f.from_tower(x), N // 2), f.from_tower(R.inv(x)))))
    else:
        pool = ctx.pool(N, g) or ctx.pool(N, "cyc")
        v = pool[spec["i"] % len(pool)]
        if spec["k"] != 1:
            v = ctx.rpow(N, v, spec["k"])
        if "h" in spec:
            v = ctx.rmul(N, v, ctx.rpow(N, pool[spec["h"] % len(pool)], spec["k2"]))
    if "scale" in spec:
        v = [x * spec["scale"] % p for x in v]
    if "off" in spec:
        v = list(v)
        v[spec["off"][0]] = (v[spec["off"][0]] + spec["off"][1]) % p
    return v


# ------------------------------------------------------------------------------ exponentiation (generic entry points)

def strat_exp(degs, which="pf"):
    def strategy(env, cfg):
        ctx = job_ctx(env, cfg, which)
        ds = degrees(ctx, degs)
        if not ds:
            raise Unsupported()

        @st.composite
        def s(draw):
            N = draw(st.sampled_from(ds))
            has_cyc = ("fp%d_test_cyc" % N) in ctx.ops
            op = "exp_dig" if ("fp%d_exp_dig" % N) in ctx.ops and draw(st.integers(0, 2)) == 0 else "exp"
            if has_cyc and draw(st.integers(0, 2)) == 0:
                a, la = draw(st.one_of(cyc_elem(ctx, N), cyc_elem(ctx, N), near_member(ctx, N)))
            else:
                a, la = draw(vec(ctx, N))
            case = dict(cid=ctx.cid, N=N, op=op, a=a, la=la, alias=draw(st.integers(0, 1)),
                        poison=draw(st.integers(0, 255)), stale=draw(coeff(ctx)))
            if op == "exp_dig":
                case["e"] = draw(st.one_of(ints.digit(64), st.integers(0, 40), st.integers(0, 40),
                                           ints.uniform(0, (1 << 64) - 1)))
            else:
                case["e"] = draw(exponent(ctx, min(2 * ctx.p.bit_length(), 600)))
            return case
        return s()
    return strategy


def naf_len(e):
    e = abs(e)
    n = 0
    while e:
        if e & 1:
            e -= 2 - (e & 3)
        e >>= 1
        n += 1
    return n


def run_exp(env, cfg, case):
    ctx = tctx(env, cfg, case["cid"])
    N, op, alias, e = case["N"], case["op"], case["alias"], case["e"]
    if ctx.field(N) is None:
        raise Unsupported()
    a = resolve(ctx, N, case["a"])
    name = "fp%d_%s" % (N, op)
    what = "%s[cid=%d](alias=%d)" % (name, ctx.cid, alias)
    stale = stale_vec(ctx, N, case["stale"])
    zero_inv = not any(a) and e < 0
    member = ("fp%d_test_cyc" % N) in ctx.ops and ctx.is_cyc(N, a)
    want = None if zero_inv else ctx.rpow(N, a, e)
    long_for_naf = member and abs(e).bit_length() > ctx.info["FP_BITS"]

    def build(p):
        sa = fpx(ctx, p, a)
        sc = sa if alias else fpx(ctx, p, stale)
        ins = {} if alias else {sa: "a"}
        if op == "exp":
            se = p.bn(e)
            ins[se] = "e"
            p.call(name, sc, sa, se)
        else:
            p.call(name, sc, sa, e)
        p.dump(sc)
        return sc, ins
    rs = run2(env, cfg, ctx, build, case["poison"])
    refused = False
    for res, (sc, ins) in rs:
        c = res.calls[0]
        if zero_inv:
            chk_call(c, what, allow_error=True)
            if not c.errored:
                raise Violation("%s: 0^negative did not report an error" % what)
            continue
        if c.errored and long_for_naf and not c.ub:
            refused = True
            continue
        chk_call(c, what, fpbits=ctx.info["FP_BITS"])
        try:
            chk_vec(ctx, res.dumps[sc], want, what)
        except Violation as v:
            eb_ = abs(e).bit_length()
            if op == "exp_dig" and e > 0:
                with_alt(v, naf_top_dropped=lambda: ctx.rpow(N, a, e - (1 << (eb_ - 1))))
            v.details["member"] = bool(member)
            raise v
        chk_inputs(c, ins, {sc}, what)
    if not zero_inv and not refused:
        same_blob(rs, rs[0][1][0], what)
    eb = abs(e).bit_length()
    labels = ["deg:%d" % N, "op:" + op, "a:" + case["la"].split(":")[0] + (":" + case["la"].split(":")[1] if case["la"].startswith(("cyc", "near")) else ""),
              "member:%d" % int(member),
              "exp:%s" % ("zero" if e == 0 else "neg" if e < 0 else "one" if e == 1 else "<=64b" if eb <= 64 else "<=p" if e <= ctx.p else ">p")]
    if op == "exp_dig" and member and naf_len(e) > eb:
        labels.append("exp_dig:member-naf-longer-than-binary")
    if refused:
        labels.append("exp:refused-long-for-naf")
    return (e not in (0, 1) and any(a)), labels



# ------------------------------------------------------------------------------ cyclotomic routines

CYC_UN = ["conv_cyc", "test_cyc", "inv_cyc", "sqr_cyc", "sqr_cyc_basic", "sqr_cyc_lazyr"]
CYC_PCK = ["sqr_pck", "sqr_pck_basic", "sqr_pck_lazyr"]


@memo
def sparse_exp(ctx):
    """(list of signed bit positions in increasing order, sign): the sparse form fp_prime_get_par_sps produces
    (position 0 only positive and only first); the curve parameter itself is one of the generated values"""
    @st.composite
    def s(draw):
        if ctx.par_sps and draw(st.integers(0, 3)) == 0:
            return list(ctx.par_sps), draw(st.integers(0, 1))
        n = draw(st.integers(0, 6))
        pos = sorted(draw(st.lists(st.integers(1, 96), min_size=n, max_size=n, unique=True)))
        b = [q if draw(st.booleans()) else -q for q in pos]
        if draw(st.booleans()):
            b = [0] + b
        return b, draw(st.integers(0, 1))
    return s()


def sparse_value(b, sign):
    v = 0
    for x in b:
        v += (1 << abs(x)) * (-1 if x < 0 else 1)
    return -v if sign else v


def strat_cyc(degs, which="pf"):
    def strategy(env, cfg):
        ctx = job_ctx(env, cfg, which)
        ds = [N for N in degrees(ctx, degs) if ("fp%d_test_cyc" % N) in ctx.ops]
        if not ds:
            raise Unsupported()

        @st.composite
        def s(draw):
            N = draw(st.sampled_from(ds))
            names = ops_of(ctx, N, CYC_UN)
            groups = ["un", "un", "exp_cyc", "exp_cyc"]
            if ops_of(ctx, N, CYC_PCK):
                groups += ["pck", "back_sim"]
            if ("fp%d_exp_cyc_sps" % N) in ctx.ops:
                groups.append("sps")
            if ("fp%d_exp_cyc_sim" % N) in ctx.ops:
                groups.append("sim")
            grp = draw(st.sampled_from(groups))
            case = dict(cid=ctx.cid, N=N, grp=grp, alias=draw(st.integers(0, 1)), poison=draw(st.integers(0, 255)),
                        stale=draw(coeff(ctx)))
            if grp == "un":
                op = draw(st.sampled_from(names))
                case["op"] = op
                if op == "conv_cyc":
                    case["a"], case["la"] = draw(vec(ctx, N))
                elif op == "test_cyc":
                    case["a"], case["la"] = draw(st.one_of(cyc_elem(ctx, N), near_member(ctx, N), vec(ctx, N)))
                elif op == "inv_cyc":
                    case["a"], case["la"] = draw(st.one_of(cyc_elem(ctx, N), near_member(ctx, N)))
                else:
                    case["a"], case["la"] = draw(cyc_elem(ctx, N))
            elif grp == "pck":
                case["op"] = draw(st.sampled_from(ops_of(ctx, N, CYC_PCK)))
                case["a"], case["la"] = draw(cyc_elem(ctx, N))
                case["k"] = draw(st.integers(1, 3))         # number of successive compressed squarings
            elif grp == "back_sim":
                n = draw(st.sampled_from([0, 1, 2, 3, 5]))
                xs = [draw(cyc_elem(ctx, N)) for _ in range(n)]
                case["xs"] = [x for x, _ in xs]
                case["la"] = "+".join(sorted({l for _, l in xs})) or "empty"
            elif grp == "exp_cyc":
                case["a"], case["la"] = draw(cyc_elem(ctx, N))
                case["e"] = draw(exponent(ctx, min(2 * ctx.p.bit_length(), 600)))
            elif grp == "sps":
                case["a"], case["la"] = draw(cyc_elem(ctx, N))
                case["b"], case["sign"] = draw(sparse_exp(ctx))
            else:
                kinds = ("ord", "ord", "one") if (ctx.pairf and ctx.embed == N and ctx.pool(N, "ord")) else ("cyc", "ord", "one")
                case["a"], case["la"] = draw(cyc_elem(ctx, N, kinds))
                case["c"], lc = draw(cyc_elem(ctx, N, kinds))
                case["la"] += "+" + lc
                mb = ctx.n.bit_length() + 8 if ctx.n > 1 else ctx.p.bit_length()
                case["e"] = draw(st.one_of(exponent(ctx, mb), st.sampled_from([0, 1, -1, ctx.n, ctx.n - 1])))
                case["d"] = draw(st.one_of(exponent(ctx, mb), st.sampled_from([0, 1, -1, ctx.n + 1])))
            return case
        return s()
    return strategy


def _blocks(N, v, skip):
    blk = N // 6
    return [x for k, x in enumerate(v) if k // blk not in skip]


def run_cyc(env, cfg, case):
    ctx = tctx(env, cfg, case["cid"])
    N, grp, alias = case["N"], case["grp"], case["alias"]
    if ctx.field(N) is None:
        raise Unsupported()
    stale = stale_vec(ctx, N, case["stale"])
    labels = ["deg:%d" % N, "grp:" + grp]
    a = resolve(ctx, N, case["a"]) if "a" in case else None
    fpbits = ctx.info["FP_BITS"]
    if grp == "un":
        op = case["op"]
        name = "fp%d_%s" % (N, op)
        what = "%s[cid=%d](alias=%d)" % (name, ctx.cid, alias)
        member = ctx.is_cyc(N, a)
        labels += ["op:" + op, "a:" + case["la"], "member:%d" % int(member)]
        if op == "test_cyc":
            def build(p):
                sa = fpx(ctx, p, a)
                p.call(name, sa)
                return sa
            for res, sa in run2(env, cfg, ctx, build, case["poison"]):
                c = res.calls[0]
                chk_call(c, what)
                if c.changed:
                    raise Violation("%s modified its input" % what)
                if c.rets[0] != int(member):
                    raise Violation("%s: returned %d, reference membership test a^Phi_%d(p) = 1 says %s" % (
                        what, c.rets[0], N, member), got=c.rets[0], want=int(member), a_zero=not any(a))
            return True, labels
        if op == "conv_cyc":
            zero = not any(a)
            want = None if zero else ctx.easy(N, a)
        elif op == "inv_cyc":
            # documented for unitary elements (a^(p^(N/2)+1) = 1): the conjugate is then the inverse
            f = ctx.flat(N)
            x = f.from_tower(ctx.un(N, a))
            if f.mul(f.frob(x, N // 2), x) != f.one:
                raise Unsupported()
            zero = False
            want = ctx.rinv(N, a)
            labels.append("inv_cyc:unitary")
        else:
            if not member:
                raise Unsupported()
            zero = False
            want = ctx.rmul(N, a, a)

        def build(p):
            sa = fpx(ctx, p, a)
            sc = sa if alias else fpx(ctx, p, stale)
            p.call(name, sc, sa)
            p.dump(sc)
            return sc, ({} if alias else {sa: "a"})
        rs = run2(env, cfg, ctx, build, case["poison"])
        for res, (sc, ins) in rs:
            c = res.calls[0]
            if zero:
                chk_call(c, what, allow_error=True)
                if not c.errored:
                    raise Violation("%s: conversion of zero (needs 1/0) was not reported as an error" % what)
                continue
            chk_call(c, what)
            got = chk_vec(ctx, res.dumps[sc], want, what)
            if op == "conv_cyc" and not ctx.is_cyc(N, got):
                raise Violation("%s: result is not in the cyclotomic subgroup" % what)
            chk_inputs(c, ins, {sc}, what)
        if not zero:
            same_blob(rs, rs[0][1][0], what)
        return True, labels
    if grp == "pck":
        op, k = case["op"], case["k"]
        name = "fp%d_%s" % (N, op)
        what = "%s[cid=%d](x%d, alias=%d)" % (name, ctx.cid, k, alias)
        if not ctx.is_cyc(N, a):
            raise Unsupported()
        want = ctx.rpow(N, a, 1 << k)
        skip = PCK_SKIP[N]

        def build(p):
            sa = fpx(ctx, p, a)
            sc = sa if alias else fpx(ctx, p, a)        # the output starts as a copy: its unused blocks are those of a
            p.call(name, sc, sa)
            for _ in range(k - 1):
                p.call(name, sc, sc)
            p.dump(sc)
            sd = fpx(ctx, p, stale)
            p.call("fp%d_back_cyc" % N, sd, sc)
            p.dump(sd)
            se = fpx(ctx, p, a)                            # squaring and decompression in place as well
            for _ in range(k):
                p.call(name, se, se)
            p.call("fp%d_back_cyc" % N, se, se)
            p.dump(se)
            return sc, sd, se, ({} if alias else {sa: "a"})
        rs = run2(env, cfg, ctx, build, case["poison"])
        for res, (sc, sd, se, ins) in rs:
            for c in res.calls:
                chk_call(c, what + " / " + c.name)
            chk_inputs(res.calls[0], ins, {sc}, what)
            comp = ctx.dec(res.dumps[sc], what)
            if _blocks(N, comp, skip) != _blocks(N, want, skip):
                raise Violation("%s: compressed square differs from the reference square in the carried blocks" % what,
                                got=comp, want=want)
            if not alias and _blocks(N, comp, set(range(6)) - set(skip)) != _blocks(N, a, set(range(6)) - set(skip)):
                raise Violation("%s: compressed squaring wrote to the blocks a compressed element does not carry" % what)
            chk_vec(ctx, res.dumps[sd], want, "fp%d_back_cyc after %s" % (N, what))
            chk_vec(ctx, res.dumps[se], want, "fp%d_back_cyc (in place) after %s" % (N, what))
        same_blob(rs, rs[0][1][1], what)
        return True, labels + ["op:" + op, "a:" + case["la"], "pck:x%d" % k]
    if grp == "back_sim":
        xs = [resolve(ctx, N, x) for x in case["xs"]]
        n = len(xs)
        name = "fp%d_back_cyc_sim" % N
        what = "%s[cid=%d](n=%d, alias=%d)" % (name, ctx.cid, n, alias)
        if not all(ctx.is_cyc(N, x) for x in xs):
            raise Unsupported()
        sq = ops_of(ctx, N, CYC_PCK)[0]
        want = [ctx.rmul(N, x, x) for x in xs]

        def build(p):
            # compressed inputs produced by the library's own compressed squaring, in place on copies
            tmp = [fpx(ctx, p, x) for x in xs]
            for t in tmp:
                p.call("fp%d_%s" % (N, sq), t, t)
            for t in tmp:
                p.dump(t)
            return tmp
        res0, tmp = ecctx.run(env, cfg, ctx.cid, build, case["poison"])
        for c in res0.calls:
            chk_call(c, what + " / " + c.name)
        comp = [ctx.dec(res0.dumps[t], what) for t in tmp]

        def build2(p):
            sa = p.new("FPXV", ctx.encv(N, comp))
            sc = sa if alias else p.new("FPXV", ctx.encv(N, [stale] * n))
            p.call(name, sc, sa, n)
            p.dump(sc)
            return sc, sa
        rs = run2(env, cfg, ctx, build2, case["poison"])
        for res, (sc, sa) in rs:
            c = res.calls[0]
            chk_call(c, what)
            got = ctx.dec(res.dumps[sc], what)
            for k in range(n):
                if got[k * N:(k + 1) * N] != want[k]:
                    raise Violation("%s: element %d decompressed wrongly" % (what, k), got=got[k * N:(k + 1) * N],
                                    want=want[k], index=k, ones=[j for j, x in enumerate(xs) if x == [1] + [0] * (N - 1)])
            if sa != sc and sa in c.changed:
                raise Violation("%s modified its input" % what)
        same_blob(rs, rs[0][1][0], what)
        ones = sum(1 for x in xs if x == [1] + [0] * (N - 1))
        return n >= 1, labels + ["n:%d" % n, "back_sim:unity-among-inputs" if ones else "back_sim:no-unity"]
    if not ctx.is_cyc(N, a):
        raise Unsupported()
    if grp == "exp_cyc":
        e = case["e"]
        name = "fp%d_exp_cyc" % N
        what = "%s[cid=%d](alias=%d)" % (name, ctx.cid, alias)
        want = ctx.rpow(N, a, e)
        long_for_naf = abs(e).bit_length() > fpbits

        def build(p):
            sa = fpx(ctx, p, a)
            sc = sa if alias else fpx(ctx, p, stale)
            se = p.bn(e)
            p.call(name, sc, sa, se)
            p.dump(sc)
            ins = {se: "e"}
            if not alias:
                ins[sa] = "a"
            return sc, ins
        rs = run2(env, cfg, ctx, build, case["poison"])
        refused = False
        for res, (sc, ins) in rs:
            c = res.calls[0]
            if c.errored and long_for_naf and not c.ub:
                refused = True
                continue
            chk_call(c, what)
            chk_vec(ctx, res.dumps[sc], want, what)
            chk_inputs(c, ins, {sc}, what)
        if not refused:
            same_blob(rs, rs[0][1][0], what)
        eb = abs(e).bit_length()
        dense_path = eb > ctx.info["DIG"] and 8 * bin(abs(e)).count("1") > eb
        labels += ["a:" + case["la"], "exp:%s" % ("zero" if e == 0 else "neg" if e < 0 else "pos"),
                   "exp_cyc:%s" % ("<=digit" if eb <= ctx.info["DIG"] else "dense" if dense_path else "sparse")]
        if refused:
            labels.append("exp:refused-long-for-naf")
        return e not in (0, 1), labels
    if grp == "sps":
        b, sign = case["b"], case["sign"]
        name = "fp%d_exp_cyc_sps" % N
        what = "%s[cid=%d](len=%d, sign=%d, alias=%d)" % (name, ctx.cid, len(b), sign, alias)
        e = sparse_value(b, sign)
        want = ctx.rpow(N, a, e)

        def build(p):
            sa = fpx(ctx, p, a)
            sc = sa if alias else fpx(ctx, p, stale)
            sb = p.buf(b"".join(struct.pack("<i", x) for x in b))
            p.call(name, sc, sa, sb, len(b), sign)
            p.dump(sc)
            ins = {sb: "b"}
            if not alias:
                ins[sa] = "a"
            return sc, ins
        rs = run2(env, cfg, ctx, build, case["poison"])
        for res, (sc, ins) in rs:
            c = res.calls[0]
            chk_call(c, what)
            chk_vec(ctx, res.dumps[sc], want, what)
            chk_inputs(c, ins, {sc}, what)
        same_blob(rs, rs[0][1][0], what)
        return len(b) >= 1, labels + ["a:" + case["la"], "sps:len=%d" % len(b), "sps:%s" % ("curve-parameter" if b == ctx.par_sps else "generated"),
                                      "sps:first=%s" % ("none" if not b else "0" if b[0] == 0 else "nonzero")]
    # simultaneous
    cc, e, d = resolve(ctx, N, case["c"]), case["e"], case["d"]
    if not ctx.is_cyc(N, cc):
        raise Unsupported()
    name = "fp%d_exp_cyc_sim" % N
    what = "%s[cid=%d](alias=%d)" % (name, ctx.cid, alias)
    glv = bool(ctx.pairf) and ctx.embed == N and N in CYC
    one = [1] + [0] * (N - 1)
    if glv:
        # the exponents are reduced modulo the curve order there: only order-n elements are in the domain
        if ctx.rpow(N, a, ctx.n) != one or ctx.rpow(N, cc, ctx.n) != one:
            raise Unsupported()
    want = ctx.rmul(N, ctx.rpow(N, a, e), ctx.rpow(N, cc, d))
    long_for_naf = max(abs(e).bit_length(), abs(d).bit_length()) > fpbits

    def build(p):
        sa, sc2 = fpx(ctx, p, a), fpx(ctx, p, cc)
        so = sa if alias else fpx(ctx, p, stale)
        se, sd = p.bn(e), p.bn(d)
        p.call(name, so, sa, se, sc2, sd)
        p.dump(so)
        ins = {se: "b", sd: "d", sc2: "c"}
        if not alias:
            ins[sa] = "a"
        return so, ins
    rs = run2(env, cfg, ctx, build, case["poison"])
    refused = False
    for res, (so, ins) in rs:
        c = res.calls[0]
        if c.errored and long_for_naf and not c.ub:
            refused = True
            continue
        chk_call(c, what)
        try:
            chk_vec(ctx, res.dumps[so], want, what)
        except Violation as v:
            raise with_alt(v, second_sign_from_first=lambda: ctx.rmul(N, ctx.rpow(N, a, e), ctx.rpow(N, cc, -d)))
        chk_inputs(c, ins, {so}, what)
    if not refused:
        same_blob(rs, rs[0][1][0], what)
    sg = lambda x: "0" if x == 0 else "-" if x < 0 else "+"
    return True, labels + ["a:" + case["la"], "sim:signs:%s%s" % (sg(e), sg(d)), "sim:%s" % ("order-n/decomposed" if glv else "generic")]



# ------------------------------------------------------------------------------ square roots

def strat_srt(degs, which="pf"):
    def strategy(env, cfg):
        ctx = job_ctx(env, cfg, which)
        ds = [N for N in degrees(ctx, degs) if ("fp%d_srt" % N) in ctx.ops]
        if not ds:
            raise Unsupported()

        @st.composite
        def s(draw):
            N = draw(st.sampled_from(ds))
            a, la = draw(vec(ctx, N))
            k = draw(st.integers(0, 3))
            if k == 0:                      # a guaranteed square
                a, la = ctx.rmul(N, a, a), "square-of:" + la
            elif k == 1 and any(a):         # a guaranteed non-square: square times the adjoined root's ... generated factor
                t, _ = draw(vec(ctx, N))
                a, la = ctx.rmul(N, a, ctx.rmul(N, t, t)), "product-with-square:" + la
            return dict(cid=ctx.cid, N=N, op=draw(st.sampled_from(["srt", "srt", "is_sqr"])), a=a, la=la,
                        alias=draw(st.integers(0, 1)), poison=draw(st.integers(0, 255)), stale=draw(coeff(ctx)))
        return s()
    return strategy


def run_srt(env, cfg, case):
    try:
        return _run_srt(env, cfg, case)
    except Violation as v:
        v.details["p_mod_3"] = tctx(env, cfg, case["cid"]).p % 3
        raise


def _run_srt(env, cfg, case):
    ctx = tctx(env, cfg, case["cid"])
    N, op, a, alias = case["N"], case["op"], case["a"], case["alias"]
    R = ctx.field(N)
    if R is None:
        raise Unsupported()
    name = "fp%d_%s" % (N, op)
    what = "%s[cid=%d](alias=%d)" % (name, ctx.cid, alias)
    square = R.is_square_norm(R.unflatten(a))
    labels = ["deg:%d" % N, "op:" + op, "a:" + case["la"].split(":")[0], "square:%d" % int(square)]
    stale = stale_vec(ctx, N, case["stale"])
    if op == "is_sqr":
        def build(p):
            sa = fpx(ctx, p, a)
            p.call(name, sa)
            return sa
        for res, sa in run2(env, cfg, ctx, build, case["poison"]):
            c = res.calls[0]
            chk_call(c, what)
            if c.changed:
                raise Violation("%s modified its input" % what)
            if c.rets[0] != int(square):
                raise Violation("%s: returned %d, the reference says square=%s" % (what, c.rets[0], square),
                                got=c.rets[0], want=int(square), a_zero=not any(a))
        return any(a), labels

    def build(p):
        sa = fpx(ctx, p, a)
        sc = sa if alias else fpx(ctx, p, stale)
        p.call(name, sc, sa)
        p.dump(sc)
        return sc, ({} if alias else {sa: "a"})
    rs = run2(env, cfg, ctx, build, case["poison"])
    for res, (sc, ins) in rs:
        c = res.calls[0]
        chk_call(c, what)
        if bool(c.rets[0]) != square:
            raise Violation("%s: returned %d but a root %s" % (what, c.rets[0], "exists" if square else "does not exist"),
                            got=c.rets[0], want=int(square))
        chk_inputs(c, ins, {sc}, what)
        r = ctx.dec(res.dumps[sc], what + (" (no-root output)" if not square else ""))
        if square and ctx.rmul(N, r, r) != a:
            raise Violation("%s: returned value is not a square root" % what, root=r, a=a)
    if square:
        same_blob(rs, rs[0][1][0], what)
    return any(a), labels


# ------------------------------------------------------------------------------ simultaneous inversion

def strat_invsim(degs, which="pf"):
    def strategy(env, cfg):
        ctx = job_ctx(env, cfg, which)
        ds = [N for N in degrees(ctx, degs) if ("fp%d_inv_sim" % N) in ctx.ops]
        if not ds:
            raise Unsupported()

        @st.composite
        def s(draw):
            N = draw(st.sampled_from(ds))
            n = 0 if draw(st.integers(0, 39)) == 0 else draw(st.sampled_from([1, 1, 2, 3, 4, 7]))
            xs, ls = [], set()
            for _ in range(n):
                v, l = draw(vec(ctx, N))
                xs.append(v)
                ls.add(l.split(":")[0])
            return dict(cid=ctx.cid, N=N, xs=xs, la="+".join(sorted(ls)) or "empty", alias=draw(st.integers(0, 1)),
                        poison=draw(st.integers(0, 255)), stale=draw(coeff(ctx)))
        return s()
    return strategy


def run_invsim(env, cfg, case):
    ctx = tctx(env, cfg, case["cid"])
    N, xs, alias = case["N"], case["xs"], case["alias"]
    if ctx.field(N) is None:
        raise Unsupported()
    n = len(xs)
    name = "fp%d_inv_sim" % N
    what = "%s[cid=%d](n=%d, alias=%d)" % (name, ctx.cid, n, alias)
    zeros = [k for k, x in enumerate(xs) if not any(x)]
    want = [None if not any(x) else ctx.rinv(N, x) for x in xs]
    stale = stale_vec(ctx, N, case["stale"])

    def build(p):
        sa = p.new("FPXV", ctx.encv(N, xs))
        sc = sa if alias else p.new("FPXV", ctx.encv(N, [stale] * n))
        p.call(name, sc, sa, n)
        p.dump(sc)
        return sc, sa
    rs = run2(env, cfg, ctx, build, case["poison"])
    for res, (sc, sa) in rs:
        c = res.calls[0]
        if zeros:
            # a zero among the inputs has no inverse: a reported error is the admissible outcome; without one every
            # non-zero element must still have been inverted
            chk_call(c, what, allow_error=True)
            if c.errored:
                continue
        else:
            chk_call(c, what)
        got = ctx.dec(res.dumps[sc], what)
        for k in range(n):
            if want[k] is not None and got[k * N:(k + 1) * N] != want[k]:
                raise Violation("%s: element %d inverted wrongly%s" % (what, k, " (no error although element(s) %s are zero)" % zeros if zeros else ""),
                                got=got[k * N:(k + 1) * N], want=want[k], zeros=zeros, index=k)
        if sa != sc and sa in c.changed:
            raise Violation("%s modified its input" % what)
    if not zeros:
        same_blob(rs, rs[0][1][0], what)
    return n >= 2 or bool(zeros), ["deg:%d" % N, "op:inv_sim", "n:%d" % n, "inv_sim:%s" % ("zero-among-inputs" if zeros else "all-invertible")]


# ------------------------------------------------------------------------------ the tower's defining data

CONST_CHECKS = ["irreducible", "nor-getter", "art", "nor-linear"]


def strat_consts(degs, which="pf"):
    def strategy(env, cfg):
        ctx = job_ctx(env, cfg, which)
        ds = [N for N in degs if ("fp%d_mul" % N) in ctx.ops and ctx.T.get(N) is not None and in_domain(ctx, N)]
        if not ds:
            raise Unsupported()
        return st.builds(lambda N, chk, po: dict(cid=ctx.cid, N=N, chk=chk, poison=po), st.sampled_from(ds),
                         st.sampled_from(CONST_CHECKS), st.integers(0, 255))
    return strategy


def run_consts(env, cfg, case):
    ctx = tctx(env, cfg, case["cid"])
    N, chk = case["N"], case["chk"]
    labels = ["deg:%d" % N, "consts:" + chk]
    p_ = ctx.p
    if chk == "irreducible":
        # the library offers this degree for this parameter set: the reference must find the tower to be a field
        # where the pairing parameter set needs it (embedding degree and its subfields)
        needed = bool(ctx.pairf) and ctx.embed % N == 0 and rext._in_chain(ctx.T, N, ctx.embed) if ctx.embed in ctx.T else False
        ok = ctx.field(N) is not None
        if needed and not ok:
            raise Violation("degree %d of the tower under the pairing parameter set %d is not a field: a defining "
                            "polynomial is reducible for the non-residues the library uses" % (N, ctx.cid),
                            qnr=ctx.qnr, cnr=ctx.cnr, E2=list(ctx.E2), E3=list(ctx.E3 or ()))
        return True, labels + ["field:%d:%s" % (N, "yes" if ok else "no")]
    if chk == "nor-getter":
        # header: fp2_field_get_qnr() is the integer part u of the non-residue (i + u); fp3 likewise (j + u)
        if N == 2:
            if tuple(ctx.E2) != (ctx.qnr2 % p_, 1):
                raise Violation("fp2_mul_nor(1) = %s but the documented non-residue is i + fp2_field_get_qnr() = i + %d" % (
                    list(ctx.E2), ctx.qnr2), E2=list(ctx.E2), getter=ctx.qnr2, mod8=ctx.mod8, nor_getter=2)
        elif N == 3 and ctx.E3 is not None:
            if tuple(ctx.E3) != (ctx.cnr3 % p_, 1, 0):
                raise Violation("fp3_mul_nor(1) = %s but the documented non-residue is j + fp3_field_get_cnr() = j + %d" % (
                    list(ctx.E3), ctx.cnr3), E3=list(ctx.E3), getter=ctx.cnr3, mod18=ctx.mod18, nor_getter=3)
        else:
            raise Unsupported()
        return True, labels
    R = ctx.field(N)
    if R is None:
        raise Unsupported()
    one = [1] + [0] * (N - 1)
    if chk == "art":
        # mul_art applied d times to 1 gives the element the root was adjoined for (relic_fpx.h basis documentation):
        # i^2 = qnr, j^3 = cnr, s^2 = E, v^3 = E, v^2 = s, ..., each the previous level's adjoined root
        d = R.d
        name = "fp%d_mul_art" % N

        def build(p):
            sc = fpx(ctx, p, one)
            for _ in range(d):
                p.call(name, sc, sc)
            p.dump(sc)
            return sc
        for res, sc in run2(env, cfg, ctx, build, case["poison"]):
            for c in res.calls:
                chk_call(c, name)
            want = R.flatten(R.embed(R.nr))
            chk_vec(ctx, res.dumps[sc], want, "%s applied %d times to 1 (must be the documented non-residue)" % (name, d))
        return True, labels
    # nor-linear: mul_nor(a) = a * mul_nor(1) on a dense hash-derived element (levels 2 and 3)
    if N not in (2, 3) or (N == 3 and ctx.E3 is None):
        raise Unsupported()
    a = R.flatten(rext.sample_elements(R, "nor%d" % case["poison"], 1)[0])
    name = "fp%d_mul_nor" % N
    want = ctx.rmul(N, a, list(ctx.E2 if N == 2 else ctx.E3))

    def build(p):
        sa = fpx(ctx, p, a)
        sc = fpx(ctx, p, one)
        p.call(name, sc, sa)
        p.dump(sc)
        return sc
    for res, sc in run2(env, cfg, ctx, build, case["poison"]):
        chk_call(res.calls[0], name)
        chk_vec(ctx, res.dumps[sc], want, name)
    return True, labels


def self_test():
    rext.self_test()


THOROUGH_CFGS = ["base256", "p381", "p381-qnres", "fpx-basic", "ep-basic", "base256-gcc"] + \
    ["pf-%d" % b for b in (315, 317, 330, 354, 377, 382, 383, 446, 455, 508, 509, 510, 544, 569, 575, 638, 765, 766, 768)] + \
    ["pf-508-epbasic", "pf-508-fpxbasic"]


def _cfgs(sweep=False):
    return {"quick": [] if sweep else ["base256"], "thorough": list(THOROUGH_CFGS)}


ROUNDS = {"main": 10, "main-thorough": 3, "sweep": 2, "np": 2}


def _needs(strategy):
    """a (configuration, parameter set) without any tower level of this search is 'unsupported', not an error"""
    def needs(env, cfg):
        try:
            strategy(env, cfg)
            return True
        except Unsupported:
            return False
    return needs


def _targets():
    """The driver runs the jobs of one Target contiguously and in list order; when the wall-clock budget is hit on a
    loaded machine the tail of the list would get no coverage at all. Each search is therefore listed ROUNDS times
    (same name, strategy and oracle, 1/ROUNDS of the examples each) in round-robin order."""
    out = []
    # (name, strategy factory, oracle, quick examples in total, thorough examples per configuration)
    spec = [("arith", strat_arith, run_arith, 60000, 12000), ("frb", strat_frb, run_frb, 20000, 5000),
            ("dxs", strat_dxs, run_dxs, 26000, 5000), ("exp", strat_exp, run_exp, 26000, 4000),
            ("cyc", strat_cyc, run_cyc, 32000, 5000), ("srt", strat_srt, run_srt, 16000, 4000),
            ("invsim", strat_invsim, run_invsim, 8000, 2000), ("consts", strat_consts, run_consts, 600, 150)]
    main = [(name, strat(QUICK_DEGS), run, nq, nt) for name, strat, run, nq, nt in spec]
    sweep = [(name + "-sweep", strat(SWEEP_DEGS), run, 1, max(100, nt // 4)) for name, strat, run, nq, nt in spec]
    npr = [(name + "-np", strat(QUICK_DEGS, "np"), run, 1, max(100, nt // 3)) for name, strat, run, nq, nt in spec
           if name in ("arith", "frb", "exp", "srt", "consts")]
    for r in range(ROUNDS["main"]):
        for name, strat, run, nq, nt in main:
            # quick tier: the degrees up to 12 on the 256-bit tower primes; thorough: the same search on every
            # configuration (nt examples per configuration)
            # (the thorough tier spreads over many configurations already: three rounds there, fewer and larger jobs)
            cf = _cfgs() if r < ROUNDS["main-thorough"] else {"quick": ["base256"], "thorough": []}
            out.append(Target(name, strat, run, cf, quick=max(1, nq // ROUNDS["main"]),
                              thorough=max(1, nt // ROUNDS["main-thorough"]), needs=_needs(strat)))
        if r < ROUNDS["sweep"]:
            for name, strat, run, nq, nt in sweep:
                # thorough only: the towers above degree 12 under the parameter sets that are built through them
                out.append(Target(name, strat, run, _cfgs(sweep=True), quick=1, thorough=max(1, nt // ROUNDS["sweep"]),
                                  needs=_needs(strat)))
        if r < ROUNDS["np"]:
            for name, strat, run, nq, nt in npr:
                # thorough only: the remaining selectable primes of the 256-bit build (no pairing curve over them)
                out.append(Target(name, strat, run, {"quick": [], "thorough": ["base256"]}, quick=1,
                                  thorough=max(1, nt // ROUNDS["np"]), needs=_needs(strat)))
    return out


TARGETS = _targets()

# ------------------------------------------------------------------------------ known findings (narrow matchers)

def _kf_test_cyc_zero(case, v, entry):
    """fpN_test_cyc(0) returns 1 in the degree-6k families (0^(p^2k) * 0 == 0^(p^k) compares 0 with 0); repaired for
    fp12 (330dc6a), still present above degree 12"""
    return (case.get("op") == "test_cyc" and case.get("N") in (18, 24, 48, 54) and isinstance(case["a"], list) and not any(case["a"])
            and v.details.get("got") == 1 and v.details.get("want") == 0)


def _kf_exp_zero_as_member(case, v, entry):
    """consequence of the above in fp48_exp (dispatches on test_cyc; fp12 repaired with 330dc6a): 0^e goes down the cyclotomic path:
    for e < 0 it returns 0 without an error; for e > 0 the compressed-squaring path decompresses (0,0,0,0) with
    stale g0/g1 and divides by zero, or the NAF recoding refuses a long exponent: an error is reported although 0^e = 0"""
    if case.get("op") != "exp" or case.get("N") != 48 or not isinstance(case["a"], list) or any(case["a"]):
        return False
    e = case["e"]
    if e < 0:
        return "0^negative did not report an error" in v.msg
    return e > 0 and bool(v.details.get("errored"))


def _kf_exp_dig_naf(case, v, entry):
    """fpN_exp_dig on a cyclotomic element walks the NAF of b from bit bn_bits(b)-2 down: when the NAF is one digit
    longer than the binary expansion the leading NAF digit is taken to be at position bits-1: result a^(b - 2^(bits-1))"""
    if case.get("op") != "exp_dig" or case.get("N") not in (8, 12, 16, 18, 24, 48, 54):
        return False
    e = case["e"]
    return e > 0 and naf_len(e) > e.bit_length() and v.details.get("member") is True and v.details.get("naf_top_dropped") is True


def _kf_inv_sim_empty(case, v, entry):
    """fpN_inv_sim(c, a, 0): RLC_ALLOCA of zero elements, then t[0] / c[0] / c[-1] are accessed"""
    if not ("xs" in case and case["xs"] == [] and case.get("grp") is None and bool(v.details.get("crash"))):
        return False
    if not v.details.get("kind"):
        return "rc=-11" in v.msg            # build without sanitizers (base256-gcc): plain SIGSEGV
    return ("stack-buffer-overflow" in (v.details.get("kind") or "")
            # the report keeps the four innermost library frames: the copy chain below fpN_inv_sim
            and all(("_copy@" in f or "inv_sim@" in f) for f in v.details.get("frames") or ["?"]))


def _kf_fp18_dxs_basic_dtype(case, v, entry):
    """fp18_mul_dxs_basic has no twist dispatch (fp18_mul_dxs_lazyr and both fp12 variants have): under a D-type
    twist it still assumes the M-type line shape and drops b[1][0]"""
    d = v.details
    if case.get("N") != 18 or d.get("tw") != d.get("dtype") or d.get("ignores_b10") is not True:
        return False
    return case.get("op") == "mul_dxs_basic" or (case.get("op") == "mul_dxs" and d.get("macro_is_basic") is True)


def _kf_fp16_frb_mod8(case, v, entry):
    """fp16_frb reduces the power modulo 8 (the loop is 'for (; i % 8 > 0; i--)') although the Frobenius of Fp16 has
    order 16: powers 8..15 (mod 16) return a^(p^(i-8))"""
    return (case.get("N") == 16 and case.get("op") == "frb" and case.get("i", 0) % 16 >= 8
            and v.details.get("power_mod_half") is True)


def _is_unity_spec(x):
    return x == {"g": "one"} or (isinstance(x, list) and x[:1] == [1] and not any(x[1:]))


def _kf_fp54_back_cyc_unity(case, v, entry):
    """fp54_back_cyc recomputes t1 = 1/(4 g2) unconditionally after the g2 = 0 / unity special cases were prepared:
    decompressing the compressed unity divides by zero"""
    return (case.get("N") == 54 and case.get("grp") == "pck" and _is_unity_spec(case.get("a"))
            and bool(v.details.get("errored")) and "fp54_back_cyc" in v.msg)


def _kf_fp18_dxs_ep_basic(case, v, entry):
    """EP_ADD == BASIC branches of the degree-18 sparse multiplication were copied from degree 12 (Fp2 coefficients)
    and handle two of the three Fp3 coefficients: fp18_mul_dxs_basic (t2[0][2], t1[1][2], t1[2][2], t2[1][2] never
    written) for every shape, fp18_mul_dxs_lazyr in its D-type branch (u0[i][2], t0[0][2] never written): results
    contain stale stack content"""
    d = v.details
    if case.get("N") != 18 or d.get("ep_basic") is not True:
        return False
    op = case.get("op")
    basic = op == "mul_dxs_basic" or (op == "mul_dxs" and d.get("macro_is_basic") is True)
    return basic or d.get("tw") == d.get("dtype")


def _kf_frb_p_2_mod_3(case, v, entry):
    """Frobenius constants are E^((p-1) div 6) etc. (floor division in fp2_field_init / fp4_field_init /
    fp8_field_init): exact only for p = 1 mod 6. For p = 2 mod 3 the towers still exist (X^3 - E is irreducible over
    Fp2 whenever E is a non-cube; 3 | p^2 - 1 always) but fpN_frb, and the square-root routines built on it, are
    wrong. No pairing family of the library has such a prime; the other selectable primes do (BSI_P256, SM2_P256)."""
    if v.details.get("p_mod_3") != 2 or case.get("N") not in (4, 6, 8, 12, 16, 24, 48):
        return False
    return case.get("op") in ("frb", "srt", "is_sqr")


def _kf_cnr_getter(case, v, entry):
    """fp3_field_get_cnr() reports the u found by fp3_field_init, but fp3_mul_nor adds it only when p = 1, 7 mod 18:
    elsewhere it multiplies by j alone (FM16_P765: getter 2, p = 13 mod 18)"""
    d = v.details
    return (case.get("chk") == "nor-getter" and case.get("N") == 3 and d.get("nor_getter") == 3
            and d.get("mod18") not in (1, 7) and d.get("E3") == [0, 1, 0] and d.get("getter") != 0)


def _kf_fp8_dxs_qnres(case, v, entry):
    """FP_QNRES builds: fp4_mul_dxs_unr (inside fp8_mul_dxs) multiplies by the non-residue with fp2_norh_low, whose
    FP_QNRES flavour leaves an unreduced double-precision value (+ 2^N p/2); fp8_mul_dxs then combines it with
    fp2_addc_low, which assumes operands below 2^N p: coefficients come out >= p or plainly wrong"""
    return (case.get("N") == 8 and case.get("op") == "mul_dxs" and v.details.get("qnres") is True
            and ("not canonical" in v.msg or "wrong value" in v.msg))


KNOWN_PREDICATES = {
    "fp8_mul_dxs_qnres": _kf_fp8_dxs_qnres,
    "cnr_getter_mod18": _kf_cnr_getter,
    "frb_p_2_mod_3": _kf_frb_p_2_mod_3,
    "fp18_mul_dxs_ep_basic": _kf_fp18_dxs_ep_basic,
    "fp54_back_cyc_unity": _kf_fp54_back_cyc_unity,
    "fp16_frb_mod8": _kf_fp16_frb_mod8,
    "fp18_mul_dxs_basic_dtype": _kf_fp18_dxs_basic_dtype,
    "test_cyc_zero": _kf_test_cyc_zero,
    "exp_zero_as_member": _kf_exp_zero_as_member,
    "exp_dig_naf_top_digit": _kf_exp_dig_naf,
    "inv_sim_empty": _kf_inv_sim_empty,
}

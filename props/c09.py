"""C09 - modular / number-theoretic integer functions and scalar recodings are correct (DESIGN 2 C09).

Oracles: Python integers (%, pow, math.gcd, math.isqrt), sympy (isprime, jacobi_symbol), the reference
helpers of engine/ref/numth.py and the recoding validators of engine/ref/recode.py."""
import math

import sympy
from hypothesis import strategies as st

from engine import core
from engine.core import Target, Violation, Unsupported
from engine.gen import ints
from engine.proto import NULL, Prog, ERR
from engine.ref import numth, recode

PROPERTY = "C09"
RULE = ("Hypothesis-generated operands per function family: structured digit patterns, both signs, zero/one, "
        "operands longer than the modulus, moduli 2^k+-c / all-ones / top digit 1, exponents 0/1/negative/longer than "
        "the modulus, gcd pairs from continuants (prescribed quotient sequences incl. multi-digit quotients), "
        "Fibonacci pairs, common factors; primality classes (primes, p*q close, p^2, p^3, Carmichael, psi_k, composites "
        "constructed to pass Miller-Rabin for the fixed bases of their size class); scalars with runs / alternating "
        "patterns for every window width 2..8. Oracle = Python ints / pow / gcd / isqrt / sympy / polynomial product / "
        "digit-string validators written from the definitions. non-trivial: non-uniform operand pattern (negative, "
        "longer than modulus, extreme digits), multi-digit Euclidean quotient, composite pseudoprime class, recoding "
        "with w >= 3 and a run >= w, or an expected-error case. distinct = distinct (target, cfg, case) hashes")
ASSUMPTIONS = [
    "moduli are positive; Montgomery reduction is fed 0 <= a < m*R (its mathematical domain), m odd",
    "exponentiations are built with BN_MOD = MONTY in every configuration used, so only odd moduli are admitted "
    "(an even modulus must raise an error, which is checked)",
    "bn_rec_reg gets odd 0 < k < 2^n (its callers force oddness); bn_rec_glv gets k < n; bn_rec_rtnaf gets k whose "
    "partial reduction has two odd parts (the only documented use, test_bn.c)",
    "bn_evl evaluates the n coefficients a[0..n-1] (the behaviour its only caller mpc_sss_gen relies on; the header "
    "text 'n-degree, n+1 coefficients' is inconsistent with that caller)",
    "bn_lag / bn_evl results are compared modulo q (representatives outside [0, q) are only labelled)",
    "bn_is_prime_basic is trial division by design: it must accept primes and reject numbers with a small factor",
    "bn_factor is a heuristic: only soundness of a returned factor is checked",
    "fixed-base Miller-Rabin pseudoprimes below 150 bits (27 bases) are not constructible and not covered",
]
BUDGET_S = {"quick": 230, "thorough": 1700}
JOB_SIZE = {"quick": 1500, "thorough": 5000}

_INFO = {}


def info(env, cfg):
    if cfg not in _INFO:
        r = env.runner(cfg).info("info_bn")
        d = dict(W=r[0], BITS=r[1], DIGS=r[2], SIZE=r[3])
        x = env.runner(cfg).info("c09_info")
        d.update(EP=x[0], EB=x[1], FP_BITS=x[2], FP_DIGS=x[3], FB_BITS=x[4], WIDTH=x[5], DEPTH=x[6], MOD=x[7], ENDOM=x[8])
        _INFO[cfg] = d
    return _INFO[cfg]


def nd(x, W):
    return ints.ndigits(x, W)


def run_prog(env, cfg, p, timeout=None):
    res = env.runner(cfg).run(p, timeout=timeout)
    if res.failed_new:
        raise Unsupported()
    return res


def basic_checks(call, what, outs=(), allow_error=False):
    """Common per-call checks; outs = slots the call may modify."""
    if call.unsupported:
        raise Unsupported()
    if call.ub:
        raise Violation("undefined behaviour reported in %s: %s" % (what, call.ub), ub=call.ub)
    if call.errored and not allow_error:
        raise Violation("%s reported an error (caught=%d e=%d code=%d) for operands in its domain" % (
            what, call.caught, call.e, call.code), errored=True)
    bad = sorted(s for s in call.changed if s not in outs)
    if bad and not call.errored:
        raise Violation("%s modified its input(s) (slots %s)" % (what, bad), modified=bad)


def out_value(res, slot, what, name="result"):
    raw = res.dumps[slot]
    nf = raw.normal_form_error()
    if nf:
        raise Violation("%s: %s not normalised: %s" % (what, name, nf), raw=repr(raw))
    return raw.value


def expect_error(call, what):
    if call.unsupported:
        raise Unsupported()
    if call.ub:
        raise Violation("undefined behaviour reported in %s: %s" % (what, call.ub), ub=call.ub)
    if not call.errored:
        raise Violation("%s accepted an operand outside its domain without reporting an error" % what, noerror=True)


def bitclass(x):
    b = abs(x).bit_length()
    for lim in (0, 1, 8, 32, 64, 128, 256, 512, 1024):
        if b <= lim:
            return "<=%d" % lim
    return ">1024"


# ------------------------------------------------------------------------------------------------ generators

def one_in(n):
    """True with probability 1/n (st.integers over-weights its end points)."""
    return st.sampled_from([True] + [False] * (n - 1))


def pick(n):
    return st.sampled_from(list(range(n)))


@st.composite
def g_modulus(draw, W, maxd, odd=False):
    """Positive modulus of at most maxd digits with extreme digit patterns."""
    kind = draw(pick(8))
    top = (1 << (W * maxd)) - 1
    if kind == 0:
        m = draw(st.sampled_from([1, 2, 3, 4, 5, 7, 8, 97, (1 << W) - 1, 1 << W, (1 << W) + 1, 1 << (W - 1)]))
    elif kind == 1:
        k = draw(st.integers(1, W * maxd - 1))
        m = (1 << k) + draw(st.sampled_from([-1, 1, -3, 3, -5, -(1 << (k // 2)) + 1, 0]))
    elif kind == 2:
        n = draw(st.integers(1, maxd))
        m = (1 << (W * n)) - 1 - draw(st.sampled_from([0, 0, 2, 4, 1 << (W * n - 1)])) if n else 1
    elif kind == 3:
        n = draw(st.integers(1, maxd))
        m = (1 << (W * (n - 1))) + draw(ints.uniform(0, (1 << (W * (n - 1))) - 1))      # top digit 1
    elif kind == 4:
        n = draw(ints.lengths(maxd))
        m = draw(ints.uniform(1 << max(0, W * n - 1), (1 << (W * n)) - 1)) if n else 1    # full width, uniform
    else:
        m = draw(ints.magnitude(W, maxd))
    m = max(1, min(abs(m), top))
    if m <= 2 and not draw(one_in(12)):
        # trivial moduli are over-produced by the digit patterns: replace most of them by a full-width modulus
        n = max(1, draw(ints.lengths(maxd)))
        m = draw(ints.uniform(1 << (W * n - 1), (1 << (W * n)) - 1))
    if odd:
        m |= 1
    return m


@st.composite
def g_operand(draw, W, m, maxd):
    """Operand for a reduction / exponentiation modulo m: small, around multiples of m, negative, longer than m."""
    kind = draw(pick(10))
    top = (1 << (W * maxd)) - 1
    if kind == 0:
        a = draw(st.sampled_from([0, 1, 2, m - 1, m, m + 1, 2 * m, 2 * m - 1, m // 2, m * m, m * m - 1, (m - 1) * (m - 1)]))
    elif kind == 1:
        a = draw(ints.uniform(0, m - 1))
    elif kind == 2:
        j = draw(st.one_of(st.integers(0, 5), ints.g_int(W, max(1, maxd - nd(m, W)), signed=False)))
        a = j * m + draw(st.sampled_from([0, 0, 1, -1, m - 1, m // 2]))
    elif kind == 3:
        a = draw(ints.uniform(0, m * m - 1))
    elif kind <= 5:
        a = draw(ints.g_int(W, min(maxd, 2 * nd(m, W)), signed=False))
    elif kind == 6:
        a = draw(ints.g_int(W, maxd, signed=False))
    else:
        a = draw(ints.related(m, W, maxd))
    a = abs(a)
    if a > top:
        a &= top
    if a == 0 and not draw(one_in(8)):
        a = draw(ints.uniform(1, max(1, min(top, m * m))))
    if draw(one_in(3)):
        a = -a
    return a


_PRIME_POOL = {}
KNOWN_PRIMES = [
    (1 << 127) - 1, (1 << 521) - 1, (1 << 607) - 1, (1 << 255) - 19, (1 << 256) - (1 << 32) - 977,
    (1 << 384) - (1 << 128) - (1 << 96) + (1 << 32) - 1, (1 << 448) - (1 << 224) - 1,
    # RFC 2409 Oakley groups 1 (768 bit) and 2 (1024 bit)
    int("FFFFFFFFFFFFFFFFC90FDAA22168C234C4C6628B80DC1CD129024E088A67CC74020BBEA63B139B22514A08798E3404DD"
        "EF9519B3CD3A431B302B0A6DF25F14374FE1356D6D51C245E485B576625E7EC6F44C42E9A63A3620FFFFFFFFFFFFFFFF", 16),
    int("FFFFFFFFFFFFFFFFC90FDAA22168C234C4C6628B80DC1CD129024E088A67CC74020BBEA63B139B22514A08798E3404DD"
        "EF9519B3CD3A431B302B0A6DF25F14374FE1356D6D51C245E485B576625E7EC6F44C42E9A637ED6B0BFF5CB6F406B7ED"
        "EE386BFB5A899FA5AE9F24117C4B1FE649286651ECE65381FFFFFFFFFFFFFFFF", 16),
]


@st.composite
def g_prime(draw, maxbits, minbits=2):
    """A prime of at most maxbits bits: next prime after a drawn integer (<= 320 bits) or a published large prime."""
    kind = draw(pick(10))
    small = [p for p in (2, 3, 5, 7, 11, 13, 251, 257, 65521, 65537) if minbits <= p.bit_length() <= maxbits]
    if kind == 0 and small:
        return draw(st.sampled_from(small))
    if kind == 1 and maxbits > 330:
        c = [p for p in KNOWN_PRIMES if minbits <= p.bit_length() <= maxbits]
        if c:
            return draw(st.sampled_from(c))
    hi = max(min(maxbits, 320), minbits)
    bits = draw(st.one_of(st.sampled_from(sorted({b for b in (8, 16, 31, 32, 33, 63, 64, 65, 127, 128, 129, 160, 192, 255, 256, hi)
                                                  if minbits <= b <= hi})), ints.uniform(minbits, hi)))
    x = draw(ints.uniform(1 << (bits - 1), (1 << bits) - 1))
    p = sympy.prevprime(x + 1) if x > 2 else 2
    if p.bit_length() < minbits:
        p = sympy.nextprime(x)
    return int(p)


# ------------------------------------------------------------------------------------------------ reductions

RED_OPS = ["bn_mod_basic", "bn_mod", "bn_mod_barrt", "bn_mod_barrt", "bn_mod_pmers", "bn_mod_pmers",
           "bn_mod_monty_basic", "bn_mod_monty_comba", "bn_mod_monty_conv", "bn_mod_monty_back", "bn_mod_dig"]


def strat_reduce(env, cfg):
    I = info(env, cfg)
    W, SIZE, DIGS = I["W"], I["SIZE"], I["DIGS"]

    @st.composite
    def s(draw):
        op = draw(st.sampled_from(RED_OPS))
        monty = "monty" in op
        bad_m = draw(one_in(61)) and op not in ("bn_mod_basic", "bn_mod", "bn_mod_dig")
        if op == "bn_mod_dig":
            m = draw(ints.digit(W)) or 1
        else:
            m = draw(g_modulus(W, DIGS, odd=monty))
        if bad_m:
            m = draw(st.sampled_from([0, -m, m + 1 if (monty and m > 1) else -1]))
            a = draw(ints.g_int(W, DIGS))
        elif op in ("bn_mod_monty_basic", "bn_mod_monty_comba", "bn_mod_monty_back"):
            R = 1 << (W * nd(m, W))
            kind = draw(pick(6))
            if kind == 0:
                a = draw(st.sampled_from([0, 1, m - 1, m, m + 1, R - 1, R, R % m, m * R - 1, m * R - m, (m - 1) * (m - 1), R * R % m]))
                a = min(a, m * R - 1)
            elif kind == 1:
                a = draw(ints.uniform(0, m - 1)) * draw(ints.uniform(0, m - 1))
            elif kind == 2:
                a = draw(ints.uniform(0, m - 1))
            elif kind == 3:
                a = draw(ints.uniform(0, m * R - 1))
            else:
                a = draw(ints.magnitude(W, 2 * nd(m, W))) % (m * R)
        elif op == "bn_mod_dig":
            a = draw(ints.g_int(W, SIZE - 1))
        elif op == "bn_mod_barrt" and draw(one_in(3)):
            # the family in which Barrett's quotient estimate is two short: modulus with a small leading digit,
            # operand just below beta^(2k)
            k = draw(st.sampled_from([2, 2, 3, max(2, DIGS // 2), DIGS]))
            m = (draw(st.sampled_from([1, 1, 1, 2])) << (W * (k - 1))) + draw(ints.uniform(0, (1 << (W * (k - 1))) - 1))
            a = (1 << (2 * W * k)) - 1 - draw(ints.uniform(0, m))
            if draw(one_in(6)):
                a = -a
        elif op == "bn_mod_monty_conv":
            a = draw(g_operand(W, m, DIGS))
        else:
            a = draw(g_operand(W, m, SIZE - 2))
        return dict(op=op, a=a, m=m, alias=draw(st.sampled_from([0, 0, 1])), stale=draw(ints.g_int(W, SIZE)),
                    stale_u=draw(ints.g_int(W, SIZE)), W=W, DIGS=DIGS, poison=draw(st.integers(0, 255)))
    return s()


def run_reduce(env, cfg, case):
    I = info(env, cfg)
    W = I["W"]
    op, a, m, alias = case["op"], case["a"], case["m"], case["alias"]
    p = Prog(poison=case["poison"])
    labels = ["op:" + op, "a:" + bitclass(a), "m:" + bitclass(m)]
    if a < 0:
        labels.append("a:negative")
    if op == "bn_mod_dig":
        sa = p.bn(a)
        p.call(op, sa, m)
        res = run_prog(env, cfg, p)
        c = res.calls[0]
        basic_checks(c, op)
        if c.rets[0] != a % m:
            raise Violation("bn_mod_dig wrong", got=c.rets[0], want=a % m)
        return (a < 0 or nd(a, W) >= 2), labels
    sa = p.bn(a)
    sm = p.bn(m)
    sc = sa if alias else p.bn(case["stale"])
    pre = {"bn_mod_barrt": "bn_mod_pre_barrt", "bn_mod_pmers": "bn_mod_pre_pmers", "bn_mod_monty_basic": "bn_mod_pre_monty",
           "bn_mod_monty_comba": "bn_mod_pre_monty"}.get(op)
    su = None
    if pre:
        su = p.bn(case["stale_u"])
        p.call(pre, su, sm)
        p.dump(su)
        p.call(op, sc, sa, sm, su)
    else:
        p.call(op, sc, sa, sm)
    p.dump(sc)
    res = run_prog(env, cfg, p)
    if m <= 0 or ("monty" in op and m % 2 == 0):
        for c in res.calls:
            expect_error(c, "%s(m=%d)" % (c.name, m))
        return True, labels + ["invalid-modulus-error"]
    k = nd(m, W)
    R = 1 << (W * k)
    if pre:
        c0 = res.calls[0]
        basic_checks(c0, pre, outs=(su,))
        u = out_value(res, su, pre, "u")
        if pre == "bn_mod_pre_barrt":
            want_u = (1 << (2 * W * k)) // m
        elif pre == "bn_mod_pre_pmers":
            want_u = (1 << m.bit_length()) - m
        else:
            want_u = (-pow(m, -1, 1 << W)) % (1 << W)
        if u != want_u:
            raise Violation("%s: wrong precomputed constant" % pre, got=u, want=want_u)
    c = res.calls[-1]
    basic_checks(c, op, outs=(sc,))
    got = out_value(res, sc, op)
    if op in ("bn_mod_monty_basic", "bn_mod_monty_comba", "bn_mod_monty_back"):
        want = a * pow(R, -1, m) % m
    elif op == "bn_mod_monty_conv":
        want = a * R % m
    else:
        want = a % m
    if got != want:
        raise Violation("%s: wrong residue" % op, got=got, want=want, a=a, m=m)
    if nd(a, W) > 2 * k:
        labels.append("a:longer-than-2k-digits")
    elif op == "bn_mod_barrt" and abs(a) >= m:
        labels.append("barrett:final-subtractions=%d" % numth.barrett_final_subtractions(abs(a), m, W))
    if a % m == 0 and a != 0:
        labels.append("a:multiple-of-m")
    if abs(a) < m:
        labels.append("a:below-m")
    nt = a < 0 or nd(a, W) > k or alias != 0 or m in ((1 << m.bit_length()) - 1, 1 << (m.bit_length() - 1)) or \
        (m >> (W * (k - 1))) == 1
    return nt, labels


# ------------------------------------------------------------------------------------------------ exponentiation

MXP_OPS = ["bn_mxp_basic", "bn_mxp_slide", "bn_mxp_monty", "bn_mxp", "bn_mxp_dig"]


@st.composite
def g_exponent(draw, W, m, maxbits):
    kind = draw(pick(9))
    if kind == 0:
        e = draw(st.sampled_from([0, 1, 2, 3, 4, 15, 16, 17, m - 1, m, m + 1, (m - 1) // 2, m - 2, 2 * m]))
    elif kind == 1:
        e = draw(ints.uniform(0, m))
    elif kind == 2:
        e = draw(ints.uniform(0, (1 << min(maxbits, m.bit_length() + draw(st.sampled_from([1, W, 2 * W, m.bit_length()])))) - 1))
    elif kind == 3:
        b = draw(st.integers(1, maxbits))
        e = (1 << b) - draw(st.sampled_from([0, 1]))
    elif kind == 4:
        b = draw(st.sampled_from([20, 21, 22, 31, 32, 33, 127, 128, 129, 255, 256, 257, 511, 512, 513]))
        b = min(b, maxbits)
        e = draw(ints.uniform(1 << (b - 1), (1 << b) - 1))
    else:
        e = draw(ints.magnitude(W, max(1, min(maxbits // W, nd(m, W) + 1))))
    e = abs(e)
    if e.bit_length() > maxbits:
        e >>= e.bit_length() - maxbits
    if e == 0 and not draw(one_in(8)):
        e = draw(ints.uniform(1, (1 << min(maxbits, m.bit_length() + 1)) - 1))
    if draw(one_in(5)):
        e = -e
    return e


def mxp_limits(I, tier_bits=None):
    # keep one exponentiation below ~1024-bit modulus * 1100-bit exponent
    return min(I["DIGS"], max(1, 1024 // I["W"]))


def strat_mxp(env, cfg):
    I = info(env, cfg)
    W, SIZE, DIGS = I["W"], I["SIZE"], I["DIGS"]
    maxd = mxp_limits(I)

    @st.composite
    def s(draw):
        op = draw(st.sampled_from(MXP_OPS))
        big = draw(one_in(10))
        md = maxd if big else max(1, min(maxd, 320 // W))
        m = draw(g_modulus(W, md, odd=True))
        if draw(one_in(51)) and m > 1:
            m += 1                                  # even modulus: must be refused (BN_MOD = MONTY)
        a = draw(g_operand(W, m, min(SIZE - 2, nd(m, W) + 2)))
        if op == "bn_mxp_dig":
            e = draw(ints.digit(W))
        elif draw(one_in(14)):
            # exponent beyond the configured precision (any bn the object can hold is an admissible exponent; the
            # window tables and recoding buffers are sized from constants): short modulus keeps it cheap
            m = draw(g_modulus(W, max(1, min(maxd, 128 // W)), odd=True))
            a = draw(g_operand(W, m, nd(m, W) + 1))
            top = W * (SIZE - 1)
            cand = [b for b in (W * DIGS - 1, W * DIGS, W * DIGS + 1, top - 1, top) if 2 <= b <= top]
            eb = draw(st.one_of(st.sampled_from(cand), st.integers(max(2, min(W * DIGS, top) - 8), top)))
            e = draw(ints.uniform(1 << (eb - 1), (1 << eb) - 1))
            if draw(one_in(6)):
                e = -e
        else:
            e = draw(g_exponent(W, m, min(W * DIGS, m.bit_length() + 2 * W + 64)))
        return dict(op=op, a=a, e=e, m=m, alias=draw(st.sampled_from([0, 0, 0, 1, 2])), stale=draw(ints.g_int(W, SIZE)),
                    poison=draw(st.integers(0, 255)))
    return s()


def mod_pow(a, e, m):
    """a^e mod m for any integer e; None when e < 0 and a is not invertible."""
    if e >= 0:
        return pow(a, e, m)
    if math.gcd(a, m) != 1:
        return None
    return pow(a, e, m)


def run_mxp(env, cfg, case):
    I = info(env, cfg)
    W = I["W"]
    op, a, e, m, alias = case["op"], case["a"], case["e"], case["m"], case["alias"]
    if op == "bn_mxp_dig" and alias == 2:
        alias = 0
    p = Prog(poison=case["poison"])
    sa = p.bn(a)
    sm = p.bn(m)
    se = None if op == "bn_mxp_dig" else p.bn(e)
    sc = sa if alias == 1 else (se if alias == 2 else p.bn(case["stale"]))
    if op == "bn_mxp_dig":
        p.call(op, sc, sa, e, sm)
    else:
        p.call(op, sc, sa, se, sm)
    p.dump(sc)
    res = run_prog(env, cfg, p)
    c = res.calls[0]
    labels = ["op:" + op, "alias:%d" % alias, "m:" + bitclass(m), "e:" + bitclass(e)]
    if abs(e).bit_length() > W * I["DIGS"]:
        labels.append("e:beyond-precision")
    labels.append("e:%s" % ("zero" if e == 0 else "negative" if e < 0 else "longer-than-m" if e.bit_length() > m.bit_length() else "positive"))
    labels.append("a:%s" % ("zero" if a == 0 else "negative" if a < 0 else ">=m" if a >= m else "reduced"))
    what = "%s(alias=%d)" % (op, alias)
    if m % 2 == 0 and m > 1 and I["MOD"] == 1 and e != 0:
        expect_error(c, what + " with an even modulus")
        return True, labels + ["even-modulus-error"]
    want = mod_pow(a, e, m)
    if want is None:
        expect_error(c, what + " with a negative exponent and a non-invertible base")
        return True, labels + ["non-invertible-error"]
    basic_checks(c, what, outs=(sc,))
    got = out_value(res, sc, what)
    if got != want:
        raise Violation("%s: wrong power" % what, got=got, want=want, a=a, e=e, m=m)
    nt = a < 0 or a >= m or e < 0 or e.bit_length() > m.bit_length() or alias != 0 or e == 0 or m == 1
    return nt, labels


# ------------------------------------------------------------------------------------------------ simultaneous / CRT

def strat_mxp_sim(env, cfg):
    I = info(env, cfg)
    W, SIZE, DIGS = I["W"], I["SIZE"], I["DIGS"]
    maxd = mxp_limits(I)

    @st.composite
    def s(draw):
        op = draw(st.sampled_from(["bn_mxp_sim", "bn_mxp_sim_few", "bn_mxp_sim_few", "bn_mxp_sim_lot", "bn_mxp_sim_lot",
                                   "bn_mxp_crt", "bn_mxp_crt"]))
        if op == "bn_mxp_crt":
            pb = draw(st.sampled_from([b for b in (8, 16, 32, 64, 128, 160, 256) if 2 * b <= min(W * DIGS // 2, 512)]))
            # honest CRT data: two primes of the same length (cp_rsa_gen / cp_phpe_gen draw bits/2 each); the
            # recombination loop 'while (d < 0) d += p' is linear in q/p otherwise
            pp = draw(g_prime(pb, minbits=pb))
            qq = draw(g_prime(pb, minbits=pb))
            sqr = draw(st.integers(0, 1))
            if sqr:
                # Paillier round trip: message and unit r
                msg = draw(st.one_of(st.sampled_from([0, 1, 2]), ints.uniform(0, 1 << (2 * pb))))
                r = draw(ints.uniform(1, 1 << (2 * pb)))
                return dict(op=op, p=pp, q=qq, sqr=1, msg=msg, r=r, stale=draw(ints.g_int(W, SIZE)), poison=draw(st.integers(0, 255)))
            n = pp * qq
            a = draw(g_operand(W, n, nd(n, W) + 1))
            b = draw(st.one_of(st.sampled_from([0, 1, 2, pp - 1, pp - 2]), ints.uniform(0, pp)))
            c = draw(st.one_of(st.sampled_from([0, 1, 2, qq - 1, qq - 2]), ints.uniform(0, qq)))
            full = draw(one_in(3))
            return dict(op=op, p=pp, q=qq, sqr=0, a=abs(a), b=b, c=c, e=draw(ints.uniform(0, n)) if full else None,
                        stale=draw(ints.g_int(W, SIZE)), poison=draw(st.integers(0, 255)))
        md = max(1, min(maxd, (512 if draw(one_in(6)) else 256) // W))
        m = draw(g_modulus(W, md, odd=True))
        if op == "bn_mxp_sim":
            n = 2
        elif op == "bn_mxp_sim_few":
            n = draw(st.sampled_from([1, 2, 2, 3, 4, 5, 7, 8]))
        else:
            n = draw(st.sampled_from([0, 1, 2, 3, 7, 8, 9, 10, 15, 16, 17, 20]))
        neg = draw(one_in(16))
        bs, es = [], []
        for _ in range(n):
            bs.append(draw(g_operand(W, m, nd(m, W) + 1)))
            e = draw(g_exponent(W, m, min(W * DIGS, m.bit_length() + W)))
            es.append(e if neg else abs(e))
        return dict(op=op, m=m, bases=bs, exps=es, stale=draw(ints.g_int(W, SIZE)), poison=draw(st.integers(0, 255)))
    return s()


def run_mxp_sim(env, cfg, case):
    I = info(env, cfg)
    W = I["W"]
    op = case["op"]
    p = Prog(poison=case["poison"])
    labels = ["op:" + op]
    if op == "bn_mxp_crt":
        pp, qq = case["p"], case["q"]
        if pp == qq:
            qq = int(sympy.nextprime(qq))
        n = pp * qq
        if nd(n * n if case["sqr"] else n, W) > I["DIGS"]:
            raise Unsupported()
        qi = pow(qq, -1, pp)
        if case["sqr"]:
            if math.gcd(n, (pp - 1) * (qq - 1)) != 1:
                return False, labels + ["crt:paillier-key-not-admissible"]
            msg = case["msg"] % n
            r = case["r"] % n
            if math.gcd(r, n) != 1:
                r = 1
            n2 = n * n
            ct = pow(1 + n, msg, n2) * pow(r, n, n2) % n2
            # honest key data as cp_phpe_gen documents it: dp = 1/L_p(g^(p-1) mod p^2) mod p with g = n + 1
            dp = pow((pow(1 + n, pp - 1, pp * pp) - 1) // pp, -1, pp)
            dq = pow((pow(1 + n, qq - 1, qq * qq) - 1) // qq, -1, qq)
            sa, sb, sc_ = p.bn(ct), p.bn(pp - 1), p.bn(qq - 1)
            want = msg
            labels.append("crt:paillier")
        else:
            a = case["a"]
            if case["e"] is not None:
                b, c = case["e"] % (pp - 1), case["e"] % (qq - 1)
                labels.append("crt:rsa-exponent")
            else:
                b, c = case["b"], case["c"]
                labels.append("crt:independent-exponents")
            dp = dq = 0
            sa, sb, sc_ = p.bn(a), p.bn(b), p.bn(c)
            xp, xq = pow(a, b, pp), pow(a, c, qq)
            want = (xq + ((xp - xq) * qi % pp) * qq)
            if case["e"] is not None and math.gcd(a, n) == 1 and want != pow(a, case["e"], n):
                raise core.HarnessError("CRT oracle inconsistent")
        sd = p.bn(case["stale"])
        slots = [p.bn(v) for v in (pp, qq, dp, dq, qi)]
        p.call("c09_mxp_crt", sd, sa, sb, sc_, *slots, case["sqr"])
        p.dump(sd)
        res = run_prog(env, cfg, p)
        c0 = res.calls[0]
        basic_checks(c0, op, outs=(sd,))
        got = out_value(res, sd, op)
        if got != want:
            raise Violation("bn_mxp_crt(sqr=%d): wrong result" % case["sqr"], got=got, want=want, p=pp, q=qq)
        return True, labels + ["m:" + bitclass(n)]
    m, bs, es = case["m"], case["bases"], case["exps"]
    n = len(bs)
    sc = p.bn(case["stale"])
    sm = p.bn(m)
    if op == "bn_mxp_sim":
        sl = [p.bn(v) for v in (bs[0], es[0], bs[1], es[1])]
        p.call(op, sc, sl[0], sl[1], sl[2], sl[3], sm)
    else:
        va = p.bnv(bs if n else [0])
        ve = p.bnv(es if n else [0])
        p.call(op, sc, va, ve, sm, n)
    p.dump(sc)
    res = run_prog(env, cfg, p)
    c0 = res.calls[0]
    labels += ["n:%d" % n, "m:" + bitclass(m)]
    want = 1 % m
    for b, e in zip(bs, es):
        t = mod_pow(b, e, m)
        if t is None:
            return False, labels + ["sim:negative-exponent-non-invertible(skipped)"]
        want = want * t % m
    basic_checks(c0, op, outs=(sc,))
    got = out_value(res, sc, op)
    if any(e < 0 for e in es):
        labels.append("sim:negative-exponent")
    if got != want:
        # what results if the sign of the exponents is ignored (bn_mxp_sim_lot hands a single left-over pair to
        # bn_mxp, which honours the sign)
        alt = 1 % m
        for i, (b, e) in enumerate(zip(bs, es)):
            single = op == "bn_mxp_sim_lot" and i == n - 1 and n % 8 == 1
            alt = alt * (mod_pow(b, e, m) if single else pow(b, abs(e), m)) % m
        raise Violation("%s: wrong product of powers" % op, got=got, want=want, abs_exponent_value=alt, m=m)
    nt = n >= 2 and (any(b < 0 or b >= m for b in bs) or any(e.bit_length() > m.bit_length() for e in es) or n > 2)
    return nt, labels


# ------------------------------------------------------------------------------------------------ inverses

def strat_inv(env, cfg):
    I = info(env, cfg)
    W, SIZE, DIGS = I["W"], I["SIZE"], I["DIGS"]

    @st.composite
    def s(draw):
        op = draw(st.sampled_from(["bn_mod_inv", "bn_mod_inv", "bn_mod_inv_sim"]))
        if draw(one_in(4)):
            m = draw(g_prime(W * DIGS))
        else:
            m = draw(g_modulus(W, DIGS))
        if op == "bn_mod_inv":
            a = draw(g_operand(W, m, DIGS))
            return dict(op=op, a=a, m=m, alias=draw(st.sampled_from([0, 0, 1, 2])), stale=draw(ints.g_int(W, SIZE)),
                        poison=draw(st.integers(0, 255)))
        n = draw(st.sampled_from([1, 2, 2, 3, 4, 8]))
        xs = [abs(draw(g_operand(W, m, DIGS))) for _ in range(n)]
        return dict(op=op, xs=xs, m=m, alias=draw(st.sampled_from([0, 1])), stale=draw(ints.g_int(W, SIZE)),
                    poison=draw(st.integers(0, 255)))
    return s()


def run_inv(env, cfg, case):
    I = info(env, cfg)
    W = I["W"]
    op, m = case["op"], case["m"]
    p = Prog(poison=case["poison"])
    labels = ["op:" + op, "m:" + bitclass(m), "m:%s" % ("even" if m % 2 == 0 else "odd")]
    if op == "bn_mod_inv":
        a, alias = case["a"], case["alias"]
        sa = p.bn(a)
        sm = p.bn(m)
        sc = sa if alias == 1 else (sm if alias == 2 else p.bn(case["stale"]))
        p.call(op, sc, sa, sm)
        p.dump(sc)
        res = run_prog(env, cfg, p)
        c = res.calls[0]
        what = "bn_mod_inv(alias=%d)" % alias
        labels.append("a:%s" % ("zero" if a == 0 else "negative" if a < 0 else ">=m" if a >= m else "reduced"))
        if math.gcd(a, m) != 1:
            expect_error(c, what + " of a non-invertible element")
            return True, labels + ["non-invertible-error"]
        basic_checks(c, what, outs=(sc,))
        got = out_value(res, sc, what)
        if (a * got - 1) % m != 0:
            raise Violation("%s: a*c mod b != 1" % what, got=got, want=pow(a, -1, m), a=a, m=m)
        if not (0 <= got < m):
            raise Violation("%s: inverse outside [0, b)" % what, got=got, want=pow(a, -1, m), a=a, m=m, range_only=True)
        return (a < 0 or a >= m or alias != 0 or m % 2 == 0), labels
    xs, alias = case["xs"], case["alias"]
    n = len(xs)
    va = p.bnv(xs)
    vc = va if alias else p.bnv([case["stale"]] * n)
    sm = p.bn(m)
    p.call(op, vc, va, sm, n)
    p.dump(vc)
    res = run_prog(env, cfg, p)
    c = res.calls[0]
    what = "bn_mod_inv_sim(n=%d, alias=%d)" % (n, alias)
    labels.append("n:%d" % n)
    if any(math.gcd(x, m) != 1 for x in xs):
        expect_error(c, what + " with a non-invertible element")
        return True, labels + ["non-invertible-error"]
    basic_checks(c, what, outs=(vc,))
    for i, raw in enumerate(res.dumps[vc]):
        if raw.normal_form_error():
            raise Violation("%s: c[%d] not normalised: %s" % (what, i, raw.normal_form_error()))
        if (raw.value * xs[i] - 1) % m != 0 or not (0 <= raw.value < m):
            raise Violation("%s: c[%d] is not the inverse of a[%d] in [0, b)" % (what, i, i), got=raw.value,
                            want=pow(xs[i], -1, m), m=m)
    return n >= 2, labels


# ------------------------------------------------------------------------------------------------ gcd / lcm

GCD_OPS = ["bn_gcd", "bn_gcd_basic", "bn_gcd_binar", "bn_gcd_lehme", "bn_gcd_lehme", "bn_gcd_dig",
           "bn_gcd_ext_basic", "bn_gcd_ext_binar", "bn_gcd_ext_lehme", "bn_gcd_ext_lehme", "bn_gcd_ext_dig",
           "bn_gcd_ext_mid", "bn_lcm"]


@st.composite
def g_quotients(draw, W, maxbits):
    """A Euclidean quotient sequence whose continuant stays below maxbits bits: long runs of ones (Fibonacci),
    small quotients, and occasional quotients of a whole digit or more (Lehmer's single-precision fallback)."""
    B = 1 << W
    out = []
    bits = 0
    style = draw(pick(4))
    n = draw(st.integers(1, 40 if style else 400))
    for _ in range(n):
        if style == 0:
            q = 1
        else:
            k = draw(pick(12))
            if k <= 5:
                q = draw(st.integers(1, 4))
            elif k <= 7:
                q = draw(ints.uniform(1, B - 1))
            elif k == 8:
                q = draw(st.sampled_from([B - 1, B, B + 1, B >> 1, (1 << (W // 2)) - 1, 1 << (W // 2), (1 << (W // 2)) + 1]))
            elif k == 9:
                q = draw(ints.uniform(B, B * B))
            else:
                q = draw(st.integers(1, 300))
        if bits + q.bit_length() > maxbits - 2:
            break
        out.append(q)
        bits += q.bit_length()
    return out or [2]


@st.composite
def g_gcd_pair(draw, W, maxd):
    kind = draw(pick(10))
    top = (1 << (W * maxd)) - 1
    if kind == 0:
        a, b = draw(ints.g_int(W, maxd)), draw(ints.g_int(W, maxd))
    elif kind == 1:
        a = draw(ints.g_int(W, maxd))
        b = draw(ints.related(a, W, maxd))
    elif kind in (2, 3, 4):
        qs = draw(g_quotients(W, W * maxd - (8 if kind == 4 else 0)))
        a, b = numth.continuant_pair(qs)
        if kind == 4:
            g = draw(st.integers(1, 255))
            a, b = a * g, b * g
    elif kind == 5:
        # large common factor
        g = draw(ints.magnitude(W, max(1, maxd // 2))) or 1
        room = max(1, maxd - nd(g, W))
        a, b = g * draw(ints.magnitude(W, room)), g * draw(ints.magnitude(W, room))
    elif kind == 6:
        # operands differing by many digits / huge first quotient
        b = draw(ints.magnitude(W, max(1, draw(st.integers(1, max(1, maxd // 3))))))
        a = draw(ints.magnitude(W, maxd))
    elif kind == 7:
        # (q*b + r, b) with a multi-digit q
        b = draw(ints.magnitude(W, max(1, maxd // 2))) or 1
        q = draw(ints.uniform(1 << W, 1 << (W * max(1, maxd - nd(b, W) - 1) + 1)))
        a = q * b + draw(st.sampled_from([0, 1, b - 1, b // 2]))
    elif kind == 8:
        x = draw(ints.magnitude(W, maxd))
        a, b = x, x * draw(st.integers(0, 3))
    else:
        # consecutive Fibonacci numbers
        n = draw(st.integers(1, int(W * maxd / 0.6943) - 2))
        f0, f1 = 0, 1
        for _ in range(n):
            f0, f1 = f1, f0 + f1
        a, b = f1, f0
    a, b = abs(a) & top, abs(b) & top
    if a == 0 and not draw(one_in(12)):
        a = draw(ints.uniform(1, top))
    if b == 0 and not draw(one_in(12)):
        b = draw(ints.uniform(1, top))
    if draw(st.booleans()):
        a, b = b, a
    sg = draw(pick(8))
    if sg == 0:
        a = -a
    elif sg == 1:
        b = -b
    elif sg == 2:
        a, b = -a, -b
    return a, b


def strat_gcd(env, cfg):
    I = info(env, cfg)
    W, SIZE, DIGS = I["W"], I["SIZE"], I["DIGS"]

    @st.composite
    def s(draw):
        op = draw(st.sampled_from(GCD_OPS))
        d = dict(op=op, stale=draw(ints.g_int(W, SIZE)), poison=draw(st.integers(0, 255)))
        if op in ("bn_gcd_dig", "bn_gcd_ext_dig"):
            d["a"] = draw(ints.g_int(W, DIGS))
            d["b"] = draw(ints.digit(W))
            d["want_e"] = True          # the b_bn.c binding of bn_gcd_ext_dig has no optional e
            return d
        if op == "bn_gcd_ext_mid":
            if draw(st.booleans()):
                b = draw(g_prime(W * DIGS, minbits=8))
                a = draw(st.one_of(ints.uniform(math.isqrt(b) + 1, b - 1),
                                   st.sampled_from([b - 1, b - 2, (b - 1) // 2, math.isqrt(b) + 1, math.isqrt(b) + 2])))
            else:
                qs = draw(g_quotients(W, W * DIGS - 8))
                b, a = numth.continuant_pair(qs + [2, 3])
                if a * a < b or a <= 1:
                    a, b = b, a + b
            d["a"], d["b"] = a, b
            return d
        a, b = draw(g_gcd_pair(W, DIGS))
        d["a"], d["b"] = a, b
        d["want_e"] = (not draw(one_in(4)))
        d["alias"] = draw(st.sampled_from([0, 0, 0, 1, 2]))
        return d
    return s()


def run_gcd(env, cfg, case):
    I = info(env, cfg)
    W = I["W"]
    op, a, b = case["op"], case["a"], case["b"]
    p = Prog(poison=case["poison"])
    g = math.gcd(a, b)
    qs = numth.euclid_quotients(max(abs(a), abs(b)), min(abs(a), abs(b)))
    labels = ["op:" + op, "signs:%s%s" % ("-" if a < 0 else "0" if a == 0 else "+", "-" if b < 0 else "0" if b == 0 else "+"),
              "a:" + bitclass(a), "b:" + bitclass(b)]
    multi = any(q >> W for q in qs)
    if multi:
        labels.append("quotient:multi-digit")
    if len(qs) >= 20 and all(q == 1 for q in qs[1:-1]):
        labels.append("quotients:all-ones(fibonacci)")
    if g.bit_length() > W:
        labels.append("gcd:multi-digit")
    nt = multi or a < 0 or b < 0 or g.bit_length() > W or len(qs) >= 20
    if op == "bn_gcd_ext_mid":
        sl = [p.bn(case["stale"]) for _ in range(4)]
        sa, sb = p.bn(a), p.bn(b)
        p.call(op, sl[0], sl[1], sl[2], sl[3], sa, sb)
        for s_ in sl:
            p.dump(s_)
        res = run_prog(env, cfg, p)
        c0 = res.calls[0]
        basic_checks(c0, op, outs=sl)
        c, d, e, f = [out_value(res, s_, op, n) for s_, n in zip(sl, "cdef")]
        if (c + d * a) % b != 0:
            raise Violation("bn_gcd_ext_mid: (c, d) is not in the lattice {(x, y): x + y*a = 0 mod b}", c=c, d=d, a=a, b=b)
        if (e + f * a) % b != 0:
            raise Violation("bn_gcd_ext_mid: (e, f) is not in the lattice {(x, y): x + y*a = 0 mod b}", e=e, f=f, a=a, b=b)
        det = c * f - d * e
        if det == 0:
            raise Violation("bn_gcd_ext_mid: the two vectors are linearly dependent", c=c, d=d, e=e, f=f, a=a, b=b)
        bound = math.isqrt(b) + 2
        if abs(c) > bound or abs(d) > bound:
            raise Violation("bn_gcd_ext_mid: first vector longer than sqrt(b)", c=c, d=d, bound=bound, a=a, b=b)
        if abs(det) == b:
            labels.append("mid:basis-of-full-lattice")
        if max(abs(e), abs(f)) <= 2 * bound:
            labels.append("mid:second-vector-short")
        return True, labels
    if op in ("bn_gcd_dig", "bn_gcd_ext_dig"):
        sa = p.bn(a)
        if op == "bn_gcd_dig":
            sc = p.bn(case["stale"])
            p.call(op, sc, sa, b)
            p.dump(sc)
            res = run_prog(env, cfg, p)
            basic_checks(res.calls[0], op, outs=(sc,))
            got = out_value(res, sc, op)
            if got != g:
                raise Violation("bn_gcd_dig wrong", got=got, want=g)
            return nt, labels
        sc, sd, se = p.bn(case["stale"]), p.bn(case["stale"]), p.bn(case["stale"])
        p.call(op, sc, sd, se if case["want_e"] else NULL, sa, b)
        for s_ in (sc, sd, se):
            p.dump(s_)
        res = run_prog(env, cfg, p)
        basic_checks(res.calls[0], op, outs=(sc, sd, se) if case["want_e"] else (sc, sd))
        gc, gd = out_value(res, sc, op, "c"), out_value(res, sd, op, "d")
        ge = out_value(res, se, op, "e") if case["want_e"] else None
        check_bezout(op, a, b, g, gc, gd, ge)
        return nt, labels
    alias = case.get("alias", 0)
    sa, sb = p.bn(a), p.bn(b)
    if op in ("bn_gcd", "bn_gcd_basic", "bn_gcd_binar", "bn_gcd_lehme", "bn_lcm"):
        sc = sa if alias == 1 else (sb if alias == 2 else p.bn(case["stale"]))
        p.call(op, sc, sa, sb)
        p.dump(sc)
        res = run_prog(env, cfg, p)
        c0 = res.calls[0]
        what = "%s(alias=%d)" % (op, alias)
        if op == "bn_lcm" and a == 0 and b == 0:
            return False, labels + ["lcm(0,0):undefined"]
        basic_checks(c0, what, outs=(sc,))
        got = out_value(res, sc, what)
        want = g if op != "bn_lcm" else (abs(a * b) // g if g else 0)
        if got != want:
            raise Violation("%s wrong" % what, got=got, want=want, a=a, b=b)
        return nt or alias != 0, labels + ["alias:%d" % alias]
    sc, sd, se = p.bn(case["stale"]), p.bn(case["stale"]), p.bn(case["stale"])
    p.call(op, sc, sd, se if case["want_e"] else NULL, sa, sb)
    for s_ in (sc, sd, se):
        p.dump(s_)
    res = run_prog(env, cfg, p)
    basic_checks(res.calls[0], op, outs=(sc, sd, se) if case["want_e"] else (sc, sd))
    gc, gd = out_value(res, sc, op, "c"), out_value(res, sd, op, "d")
    ge = out_value(res, se, op, "e") if case["want_e"] else None
    check_bezout(op, a, b, g, gc, gd, ge)
    return nt, labels + ["e:%s" % ("given" if case["want_e"] else "NULL")]


def check_bezout(op, a, b, g, gc, gd, ge):
    if gc != g:
        raise Violation("%s: wrong gcd" % op, got=gc, want=g, a=a, b=b)
    if ge is not None:
        if a * gd + b * ge != g:
            raise Violation("%s: cofactors do not satisfy Bezout's identity a*d + b*e = c for the given operands" % op,
                            c=gc, d=gd, e=ge, a=a, b=b, lhs=a * gd + b * ge,
                            abs_identity=(abs(a) * gd + abs(b) * ge == g))
    elif b != 0:
        if (g - a * gd) % b != 0:
            raise Violation("%s: a*d is not congruent to c modulo b (e = NULL)" % op, c=gc, d=gd, a=a, b=b,
                            abs_identity=((g - abs(a) * gd) % b == 0))
    elif a * gd != g:
        raise Violation("%s: a*d != c with b = 0" % op, c=gc, d=gd, a=a, b=b, abs_identity=(abs(a) * gd == g))


# ------------------------------------------------------------------------------------------------ symbols, square root

def strat_symbols(env, cfg):
    I = info(env, cfg)
    W, SIZE, DIGS = I["W"], I["SIZE"], I["DIGS"]

    @st.composite
    def s(draw):
        op = draw(st.sampled_from(["bn_smb_leg", "bn_smb_jac", "bn_smb_jac"]))
        if op == "bn_smb_leg":
            b = draw(g_prime(min(W * DIGS, 512), minbits=2))
            if b == 2:
                b = 3
        else:
            kind = draw(pick(7))
            if kind == 0:
                b = draw(st.sampled_from([1, 3, 9, 15, 21, 45, 561, 1729, (1 << W) - 1, (1 << W) + 1]))
            elif kind == 1:
                x = draw(ints.magnitude(W, max(1, DIGS // 2))) | 1
                b = x * x
            elif kind == 2:
                b = draw(g_prime(min(W * DIGS, 512), minbits=2)) | 1
            else:
                b = draw(g_modulus(W, DIGS, odd=True))
            if draw(one_in(41)):
                b = draw(st.sampled_from([-b, b + 1, 0]))
        kind = draw(pick(6))
        if kind == 0 and b > 0:
            a = draw(st.sampled_from([0, 1, -1, 2, -2, b - 1, b, b + 1, 2 * b, -b, b * b, 3, 5]))
        elif kind == 1 and b > 0:
            t = draw(ints.uniform(0, b))
            a = t * t * draw(st.sampled_from([1, 1, 2, 3, -1]))
        elif kind == 2 and b > 0:
            a = draw(ints.uniform(0, b))
        else:
            a = draw(g_operand(W, abs(b) or 1, DIGS))
        return dict(op=op, a=a, b=b, W=W, poison=draw(st.integers(0, 255)))
    return s()


def run_symbols(env, cfg, case):
    I = info(env, cfg)
    W = I["W"]
    op, a, b = case["op"], case["a"], case["b"]
    p = Prog(poison=case["poison"])
    sa, sb = p.bn(a), p.bn(b)
    p.call(op, sa, sb)
    res = run_prog(env, cfg, p)
    c = res.calls[0]
    labels = ["op:" + op, "b:" + bitclass(b), "a:%s" % ("zero" if a == 0 else "negative" if a < 0 else ">=b" if a >= b else "reduced")]
    if b <= 0 or b % 2 == 0:
        expect_error(c, "%s with b = %d" % (op, b))
        return True, labels + ["invalid-b-error"]
    basic_checks(c, op)
    want = numth.jacobi(a, b)
    if want != int(sympy.jacobi_symbol(a % b, b)):
        raise core.HarnessError("jacobi oracles disagree")
    got = c.ret_i(0)
    if got != want:
        raise Violation("%s wrong" % op, got=got, want=want, a=a, b=b)
    labels.append("symbol:%d" % want)
    return (a < 0 or a >= b or nd(b, W) >= 2), labels


def strat_srt(env, cfg):
    I = info(env, cfg)
    W, SIZE, DIGS = I["W"], I["SIZE"], I["DIGS"]

    @st.composite
    def s(draw):
        kind = draw(pick(7))
        if kind == 0:
            a = draw(st.integers(0, 300))
        elif kind <= 2:
            r = draw(ints.magnitude(W, DIGS))
            a = r * r + draw(st.sampled_from([0, 0, -1, 1, 2 * r, 2 * r + 1, r]))
        elif kind == 3:
            k = draw(st.integers(0, 2 * W * DIGS - 1))
            a = (1 << k) + draw(st.sampled_from([-1, 0, 1]))
        elif kind == 4:
            a = -draw(ints.magnitude(W, DIGS)) - 1
        else:
            a = draw(ints.magnitude(W, 2 * DIGS))
        if a >= 0:
            a = max(0, a)
        return dict(a=a, alias=draw(st.sampled_from([0, 0, 1])), stale=draw(ints.g_int(W, SIZE)), poison=draw(st.integers(0, 255)))
    return s()


def run_srt(env, cfg, case):
    I = info(env, cfg)
    a, alias = case["a"], case["alias"]
    p = Prog(poison=case["poison"])
    sa = p.bn(a)
    sc = sa if alias else p.bn(case["stale"])
    p.call("bn_srt", sc, sa)
    p.dump(sc)
    res = run_prog(env, cfg, p)
    c = res.calls[0]
    labels = ["a:" + bitclass(a)]
    if a < 0:
        expect_error(c, "bn_srt of a negative number")
        return True, labels + ["negative-error"]
    basic_checks(c, "bn_srt", outs=(sc,))
    got = out_value(res, sc, "bn_srt")
    want = math.isqrt(a)
    if got != want:
        raise Violation("bn_srt: not the integer square root", got=got, want=want, a=a)
    if want * want == a:
        labels.append("perfect-square")
    elif (want + 1) ** 2 - 1 == a:
        labels.append("square-minus-one")
    return a > (1 << I["W"]), labels


# ------------------------------------------------------------------------------------------------ interpolation

def strat_poly(env, cfg):
    I = info(env, cfg)
    W, SIZE, DIGS = I["W"], I["SIZE"], I["DIGS"]

    @st.composite
    def s(draw):
        op = draw(st.sampled_from(["bn_lag", "bn_evl", "lag+evl"]))
        q = draw(st.one_of(g_prime(min(W * DIGS, 320), minbits=2), g_modulus(W, max(1, DIGS // 2))))
        n = draw(pick(9))

        def elem():
            return draw(st.one_of(st.sampled_from([0, 1, q - 1, q // 2]), ints.uniform(0, q - 1)))
        if op == "bn_evl":
            coeffs = [draw(st.one_of(st.just(elem()), ints.g_int(W, DIGS))) for _ in range(n)]
            x = draw(st.one_of(st.just(elem()), ints.g_int(W, DIGS)))
            return dict(op=op, q=q, coeffs=coeffs, x=x, stale=draw(ints.g_int(W, SIZE)), poison=draw(st.integers(0, 255)))
        roots = [elem() for _ in range(n)]
        if n >= 2 and draw(one_in(4)):
            roots[draw(st.integers(0, n - 1))] = roots[draw(st.integers(0, n - 1))]
        return dict(op=op, q=q, roots=roots, pick=draw(st.integers(0, 8)), stale=draw(ints.g_int(W, SIZE)),
                    poison=draw(st.integers(0, 255)))
    return s()


def run_poly(env, cfg, case):
    I = info(env, cfg)
    op, q = case["op"], case["q"]
    p = Prog(poison=case["poison"])
    labels = ["op:" + op, "q:" + bitclass(q)]
    if op == "bn_evl":
        coeffs, x = case["coeffs"], case["x"]
        n = len(coeffs)
        sc = p.bn(case["stale"])
        va = p.bnv(coeffs if n else [case["stale"]])
        sx, sq = p.bn(x), p.bn(q)
        p.call(op, sc, va, sx, sq, n)
        p.dump(sc)
        res = run_prog(env, cfg, p)
        basic_checks(res.calls[0], op, outs=(sc,))
        got = out_value(res, sc, op)
        want = numth.horner([c % q for c in coeffs], x % q, q)
        if (got - want) % q != 0:
            raise Violation("bn_evl: wrong value", got=got, want=want, q=q, n=n)
        if not (0 <= got < q):
            labels.append("evl:non-canonical-representative")
        return n >= 2, labels + ["n:%d" % n]
    roots = case["roots"]
    n = len(roots)
    vc = p.bnv([case["stale"]] * (n + 1))
    va = p.bnv(roots if n else [case["stale"]])
    sq = p.bn(q)
    p.call("bn_lag", vc, va, sq, n)
    p.dump(vc)
    if op == "lag+evl" and n:
        sx = p.bn(roots[case["pick"] % n])
        sy = p.bn(case["stale"])
        p.call("bn_evl", sy, vc, sx, sq, n + 1)
        p.dump(sy)
    res = run_prog(env, cfg, p)
    basic_checks(res.calls[0], "bn_lag", outs=(vc,))
    want = numth.poly_from_roots(roots, q)
    got = []
    for i, raw in enumerate(res.dumps[vc]):
        if raw.normal_form_error():
            raise Violation("bn_lag: c[%d] not normalised: %s" % (i, raw.normal_form_error()))
        got.append(raw.value)
    if [(g - w) % q for g, w in zip(got, want)] != [0] * (n + 1):
        raise Violation("bn_lag: coefficients differ from the expansion of prod (x - a_i) mod q", got=got, want=want,
                        q=q, n=n)
    if any(not (0 <= g < q) for g in got):
        labels.append("lag:non-canonical-representative")
    if op == "lag+evl" and n:
        basic_checks(res.calls[1], "bn_evl", outs=(sy,))
        y = out_value(res, sy, "bn_evl")
        if y % q != 0:
            raise Violation("bn_evl(bn_lag(roots), root) != 0", got=y, q=q, roots=roots)
    if len(set(roots)) < n:
        labels.append("repeated-root")
    return n >= 2, labels + ["n:%d" % n]


# ------------------------------------------------------------------------------------------------ primality

# Composites n = p1*p2*p3, p_i = k_i*(p1 - 1) + 1 (Arnault's construction, engine/ref/numth.py) found with
# numth.find_fixed_base_pseudoprime: strong pseudoprimes to the first t primes, t = the number of rounds HAC
# Table 4.4 prescribes for their bit length. Entries are (p1, k2, k3); the factorisation is the certificate of
# compositeness and self_test() re-verifies every entry.
SPSP_FACTORS = [
    (0x21e049b1b68bab43, 29, 33), (0x47fd340fc6a5f543, 5, 29),                                   # 150..199 bits, 18 bases
    (0xd51ab2924e23e01213, 37, 41), (0xb668c128857b8fdb73, 37, 41),                               # 200..249, 15
    (0x1adf4da3dc7dc304559324b, 37, 41), (0x13afbcb71e93ef871d637d3, 37, 41),                     # 250..299, 12
    (0x22aebdb4f262319b3ee16f27fdb, 37, 41), (0x333838c1200988825581479293b, 37, 41),             # 300..349, 9
    (0x3baa9be402926713b7444c22274ac8b, 37, 41), (0x307ceaf2dadf9a1021ea85d76679a0f, 37, 41),     # 350..399, 8
    (0x69b74b9f9cbc577be0644c2b8d01464c843, 37, 41), (0x79fd41ba418a1983ebff6a87d879db2acd3, 37, 41),   # 400..449, 7
    (0xd97fd14d764483793d7b7b24bac9654a7b90a4d9b, 37, 41), (0x8127285e0f9e7b8f6c1ca61c792b55868bd20d1d7, 37, 41),  # 450..549, 6
    (0x3b486d3373066e9d3ff4bec20ec4324b741548436fa10026e3, 13, 41),
    (0x34afb40526ebb6560f5436ad82d3d77034d0a31350f79dcfbf, 13, 41),                               # 550..649, 5
    (0x8594769b923f8c182c71e73a6045d59a3a0cd838a7223e122a6c4e7bde8cff, 13, 41),
    (0xe8d93690960f66efb57774607ad90d9fd24371cdb1eec1452f67d24c4d57b7, 13, 41),                   # 650..849, 4
    (0x22eb5a003fccb0cd8e3b8e6128021bba0fca92bfd9714252a0863744dafd3bbf6d69ae28d352df, 13, 41),
    (0x2db32937c57f9dd7d31c0df53c9d21c46700f2969fbfd00813383fceb443979bfa0a9c575abd27, 13, 41),
    (0x27ec2fb593f6220ea7b5a5db058dbebfa77d82ee6304a9164788ce07731802c1d71267817ebe5b, 13, 41),   # 850..1024, 3
]


def spsp_value(e):
    p1, k2, k3 = e
    return p1 * (k2 * (p1 - 1) + 1) * (k3 * (p1 - 1) + 1)


SPSP = [spsp_value(e) for e in SPSP_FACTORS]
PSI = [2047, 1373653, 25326001, 3215031751, 2152302898747, 3474749660383, 341550071728321, 3825123056546413051,
       318665857834031151167461, 3317044064679887385961981]
CARMICHAEL_SMALL = [561, 1105, 1729, 2465, 2821, 6601, 8911, 10585, 15841, 29341, 41041, 46657, 52633, 62745, 63973, 75361,
                    101101, 115921, 126217, 162401, 172081, 188461, 252601, 278545, 294409, 314821, 334153, 340561, 399001,
                    410041, 449065, 488881, 512461]
_FRESH = {}
_CHERNICK = {}


def chernick(start):
    """First Carmichael number (6k+1)(12k+1)(18k+1) with k >= start (all three factors prime)."""
    if start not in _CHERNICK:
        k = start
        while not (sympy.isprime(6 * k + 1) and sympy.isprime(12 * k + 1) and sympy.isprime(18 * k + 1)):
            k += 1
        _CHERNICK[start] = (6 * k + 1) * (12 * k + 1) * (18 * k + 1)
    return _CHERNICK[start]


def fresh_spsp(seed, lo, hi):
    """A freshly constructed fixed-base pseudoprime of lo..hi bits (deterministic in seed); None if not found fast."""
    key = (seed, lo, hi)
    if key not in _FRESH:
        import random
        rng = random.Random(seed)
        r = numth.find_fixed_base_pseudoprime(lo, hi, numth.mr_rounds_hac(lo), lambda k: rng.randrange(k), sympy.isprime,
                                              k2=37, k3=41, max_tries=30000)
        _FRESH[key] = r[0] if r else None
    return _FRESH[key]


def strat_isprime(env, cfg):
    I = info(env, cfg)
    W, SIZE, DIGS = I["W"], I["SIZE"], I["DIGS"]
    maxbits = min(W * DIGS, 1024)

    @st.composite
    def s(draw):
        op = draw(st.sampled_from(["bn_is_prime", "bn_is_prime", "bn_is_prime_basic", "bn_is_prime_rabin", "bn_is_prime_rabin",
                                   "bn_is_prime_solov"]))
        kind = draw(pick(16))
        cls = "?"
        if kind <= 1:
            n, cls = draw(st.integers(0, 2000)), "small"
        elif kind <= 4:
            big = [p for p in KNOWN_PRIMES if p.bit_length() <= maxbits]
            if kind == 4 and big:
                n, cls = draw(st.sampled_from(big)), "prime"
            else:
                n, cls = draw(g_prime(maxbits)), "prime"
        elif kind == 5:
            pb = draw(st.sampled_from([b for b in (8, 16, 31, 32, 33, 64, 100, 128, 160, 256) if 2 * b <= maxbits]))
            pp = draw(g_prime(pb, minbits=max(2, pb - 1)))
            qq = int(sympy.nextprime(pp + draw(st.sampled_from([0, 0, 2, 1000, 1 << (pb // 2)]))))
            n, cls = pp * qq, "product-of-two-close-primes"
        elif kind == 6:
            e = draw(st.sampled_from([2, 2, 3]))
            pp = draw(g_prime(maxbits // e))
            n, cls = pp ** e, "prime-power-%d" % e
        elif kind == 7:
            if draw(st.booleans()):
                n = draw(st.sampled_from(CARMICHAEL_SMALL))
            else:
                kb = draw(st.sampled_from([b for b in (4, 8, 16, 24, 32, 48, 64, 80) if 3 * b + 12 <= maxbits]))
                n = chernick(draw(st.sampled_from([1 << kb, (1 << kb) + 12345, 3 << (kb - 1), 5 << (kb - 2)])))
            cls = "carmichael"
        elif kind == 8:
            n, cls = draw(st.sampled_from([x for x in PSI if x.bit_length() <= maxbits])), "psi_k"
        elif kind in (9, 10):
            c = [x for x in SPSP if x.bit_length() <= maxbits]
            if c:
                n, cls = draw(st.sampled_from(c)), "spsp-fixed-bases"
            else:
                n, cls = draw(st.sampled_from([x for x in PSI if x.bit_length() <= maxbits])), "psi_k"
        elif kind == 11 and maxbits >= 300:
            lo, hi = draw(st.sampled_from([(250, 299), (300, 349), (350, 399), (200, 249)]))
            n = fresh_spsp(draw(st.integers(0, 1 << 30)), lo, hi)
            cls = "spsp-fixed-bases-fresh"
            if n is None:
                n, cls = draw(st.sampled_from(SPSP[2:8])), "spsp-fixed-bases"
        elif kind == 12:
            n, cls = -draw(st.one_of(st.integers(0, 100), g_prime(maxbits))), "negative"
        elif kind == 13:
            # a prime times a small factor, even numbers
            pp = draw(g_prime(maxbits - 16))
            n, cls = pp * draw(st.sampled_from([2, 3, 5, 7, 211, 223, 251, 257, 1009, 1613, 1619, 1621, 65537])), "small-factor"
        elif kind == 14:
            k = draw(st.integers(2, maxbits - 1))
            n, cls = (1 << k) + draw(st.sampled_from([-1, 1, 3, -3])), "2^k+-c"
        else:
            bits = draw(st.sampled_from(sorted({b for b in (16, 32, 64, 128, 256, 512, maxbits) if b <= maxbits})))
            n, cls = draw(ints.uniform(1 << (bits - 1), (1 << bits) - 1)) | 1, "random-odd"
        return dict(op=op, n=n, cls=cls, W=W, seed=draw(st.binary(min_size=8, max_size=8)), poison=draw(st.integers(0, 255)))
    return s()


_TABLE_MAX = {}


def run_isprime(env, cfg, case):
    I = info(env, cfg)
    op, n = case["op"], case["n"]
    if abs(n).bit_length() > I["W"] * I["DIGS"]:
        raise Unsupported()
    labels = ["op:" + op, "class:" + case["cls"], "n:" + bitclass(n)]
    if op in ("bn_is_prime_solov", "bn_is_prime_rabin") and n < 3:
        return False, labels + ["below-documented-domain(a > 2)"]
    p = Prog(poison=case["poison"], seed=bytes(case["seed"]))
    sn = p.bn(n)
    p.call(op, sn)
    res = run_prog(env, cfg, p)
    c = res.calls[0]
    truth = bool(sympy.isprime(n)) if n > 1 else False
    if op == "bn_is_prime_solov" and n % 2 == 0:
        # the Jacobi symbol / Montgomery exponentiation refuse an even modulus: an error or a plain 0 both reject
        if c.ub:
            raise Violation("undefined behaviour reported in %s: %s" % (op, c.ub), ub=c.ub)
        if not c.errored and c.rets and c.rets[0] != 0:
            raise Violation("bn_is_prime_solov accepted an even number", n=n)
        return True, labels + ["even:%s" % ("error" if c.errored else "rejected")]
    basic_checks(c, op)
    got = c.rets[0]
    if got not in (0, 1):
        raise Violation("%s returned %d" % (op, got), n=n)
    if op == "bn_is_prime_basic":
        # trial division: must accept primes, must reject numbers with a prime factor in the (configuration's) table
        if truth and not got:
            raise Violation("bn_is_prime_basic rejected a prime", got=got, want=1, n=n)
        if n >= 0 and not truth and got:
            lim = 223 if I["W"] == 8 else 1619         # largest prime every configuration's table contains
            if n < 2 or any(n % q == 0 for q in sympy.primerange(2, lim + 1)):
                raise Violation("bn_is_prime_basic accepted a number with a small prime factor", got=got, want=0, n=n)
            labels.append("basic:composite-without-small-factor-accepted")
        return n > 2000, labels
    if got != int(truth):
        raise Violation("%s: wrong verdict" % op, got=got, want=int(truth), n=n, cls=case["cls"],
                        passes_fixed_bases=bool(n > 3 and n % 2 and numth.passes_fixed_base_mr(n)))
    return (not truth and n > 2000) or n.bit_length() > 64, labels


def strat_genprime(env, cfg):
    I = info(env, cfg)
    W, SIZE, DIGS = I["W"], I["SIZE"], I["DIGS"]
    cap = min(W * DIGS, 256)

    @st.composite
    def s(draw):
        op = draw(st.sampled_from(["bn_gen_prime_basic", "bn_gen_prime", "bn_gen_prime_safep", "bn_gen_prime_stron",
                                   "bn_gen_prime_factor"]))
        if op in ("bn_gen_prime_basic", "bn_gen_prime"):
            bits = draw(st.one_of(st.sampled_from([b for b in (8, 9, 15, 16, 17, 31, 32, 33, 63, 64, 65, 127, 128, 129, 255, 256)
                                                   if b <= cap]), st.integers(8, cap)))
            return dict(op=op, bits=bits, seed=draw(st.binary(min_size=8, max_size=8)), stale=draw(ints.g_int(W, SIZE)))
        if op == "bn_gen_prime_safep":
            bits = draw(st.one_of(st.sampled_from([8, 16, 31, 32, 33, 63, 64, 65]), st.integers(8, min(cap, 128))))
            return dict(op=op, bits=bits, seed=draw(st.binary(min_size=8, max_size=8)), stale=draw(ints.g_int(W, SIZE)))
        if op == "bn_gen_prime_stron":
            lo = 2 * W + 32 if W >= 32 else 48
            bits = draw(st.integers(lo, max(lo, min(cap, 256))))
            return dict(op=op, bits=bits, seed=draw(st.binary(min_size=8, max_size=8)), stale=draw(ints.g_int(W, SIZE)))
        # b = a*u + 1 is searched over u of bbits - abits - 1 bits: leave the search enough candidates to terminate
        abits = draw(st.integers(8, min(cap, 192) - 32))
        bbits = draw(st.integers(abits + 32, min(cap, 256)))
        return dict(op=op, bits=abits, bbits=bbits, seed=draw(st.binary(min_size=8, max_size=8)), stale=draw(ints.g_int(W, SIZE)))
    return s()


def run_genprime(env, cfg, case):
    I = info(env, cfg)
    op, bits = case["op"], case["bits"]
    if max(bits, case.get("bbits", 0)) > I["W"] * I["DIGS"]:
        raise Unsupported()
    p = Prog(seed=bytes(case["seed"]))
    sa = p.bn(case["stale"])
    labels = ["op:" + op, "bits:<=%d" % (((bits + 31) // 32) * 32)]
    if op == "bn_gen_prime_factor":
        sb = p.bn(case["stale"])
        p.call(op, sa, sb, bits, case["bbits"])
        p.dump(sa)
        p.dump(sb)
        res = run_prog(env, cfg, p, timeout=120)
        c = res.calls[0]
        basic_checks(c, op, outs=(sa, sb))
        a, b = out_value(res, sa, op, "a"), out_value(res, sb, op, "b")
        if c.rets[0] != 0:
            raise Violation("bn_gen_prime_factor returned RLC_ERR", ret=c.rets[0])
        if not sympy.isprime(a) or a.bit_length() != bits:
            raise Violation("bn_gen_prime_factor: a is not a prime of exactly abits bits", a=a, abits=bits, got_bits=a.bit_length())
        if not sympy.isprime(b) or b.bit_length() != case["bbits"] or (b - 1) % a != 0:
            raise Violation("bn_gen_prime_factor: b is not a prime of exactly bbits bits with a | b - 1", a=a, b=b,
                            bbits=case["bbits"], got_bits=b.bit_length())
        return True, labels
    p.call(op, sa, bits)
    p.dump(sa)
    res = run_prog(env, cfg, p, timeout=120)
    c = res.calls[0]
    basic_checks(c, op, outs=(sa,))
    a = out_value(res, sa, op)
    if not sympy.isprime(a):
        raise Violation("%s returned a composite" % op, a=a, bits=bits)
    if op == "bn_gen_prime_safep" and not sympy.isprime((a - 1) // 2):
        raise Violation("bn_gen_prime_safep: (a - 1)/2 is not prime", a=a, bits=bits)
    # bn_gen_prime_stron: the header's literal side conditions ((a-1)/2, (a+1)/2, ((a-1)/2-1)/2 prime) are not what
    # Gordon's algorithm (HAC 4.53, implemented here) delivers and cannot be decided without factoring a +- 1;
    # only primality and the exact length are checked.
    if a.bit_length() != bits:
        raise Violation("%s: prime of %d bits returned, %d requested" % (op, a.bit_length(), bits), a=a, bits=bits,
                        got_bits=a.bit_length(), length_only=True)
    return True, labels


def strat_factor(env, cfg):
    I = info(env, cfg)
    W, SIZE, DIGS = I["W"], I["SIZE"], I["DIGS"]

    @st.composite
    def s(draw):
        op = draw(st.sampled_from(["bn_factor", "bn_is_factor", "bn_is_factor", "bn_is_factor"]))
        if op == "bn_is_factor":
            c = draw(ints.g_int(W, DIGS)) or 1
            if draw(st.booleans()):
                a = c * draw(ints.g_int(W, max(1, DIGS - nd(c, W))))
            else:
                a = draw(ints.g_int(W, DIGS))
            return dict(op=op, c=c, a=a, poison=draw(st.integers(0, 255)))
        kind = draw(pick(4))
        pb = draw(st.sampled_from([12, 16, 20, 24, 32]))
        pp = draw(g_prime(pb, minbits=pb - 1))
        if kind == 0:
            a = pp                                                   # prime: nothing to find
        elif kind == 1:
            a = pp * draw(g_prime(pb + 8, minbits=pb))
        elif kind == 2:
            # a factor with smooth p - 1 (Pollard's p - 1 must succeed whenever the other factor is not smooth too)
            sm = 2
            for _ in range(draw(st.integers(1, 6))):
                sm *= draw(st.sampled_from([2, 3, 5, 7, 11, 13]))
            k = 0
            while not sympy.isprime(sm * (k + 1) + 1):
                k += 1
            a = (sm * (k + 1) + 1) * pp
        else:
            a = draw(ints.magnitude(W, max(1, min(DIGS, 128 // W)))) | 1
        return dict(op=op, a=max(a, 5), stale=draw(ints.g_int(W, SIZE)), poison=draw(st.integers(0, 255)))
    return s()


def run_factor(env, cfg, case):
    I = info(env, cfg)
    op, a = case["op"], case["a"]
    p = Prog(poison=case["poison"])
    if op == "bn_is_factor":
        c = case["c"]
        sc, sa = p.bn(c), p.bn(a)
        p.call(op, sc, sa)
        res = run_prog(env, cfg, p)
        basic_checks(res.calls[0], op)
        want = int(a % c == 0)
        if res.calls[0].rets[0] != want:
            raise Violation("bn_is_factor wrong", got=res.calls[0].rets[0], want=want, c=c, a=a)
        return nd(c, I["W"]) >= 2, ["op:" + op, "divides:%d" % want]
    sc, sa = p.bn(case["stale"]), p.bn(a)
    p.call(op, sc, sa)
    p.dump(sc)
    res = run_prog(env, cfg, p, timeout=120)
    c0 = res.calls[0]
    basic_checks(c0, op, outs=(sc,))
    found = c0.rets[0]
    labels = ["op:" + op, "found:%d" % found, "input:%s" % ("prime" if sympy.isprime(a) else "composite")]
    if found not in (0, 1):
        raise Violation("bn_factor returned %d" % found)
    if found:
        f = out_value(res, sc, op)
        if f <= 1 or f >= a or a % f != 0:
            raise Violation("bn_factor returned something that is not a proper factor", got=f, a=a)
    return not sympy.isprime(a), labels


# ------------------------------------------------------------------------------------------------ scalars for recodings

@st.composite
def g_bitlen(draw, maxbits):
    """Bit length in 1..maxbits: mostly the maximum or just below it, sometimes anything."""
    c = draw(pick(10))
    if c <= 3:
        return maxbits
    if c <= 6:
        return max(1, maxbits - draw(st.sampled_from([1, 2, 3, 7, 8, 9, 16])))
    if c == 7:
        return max(1, maxbits // 2 + draw(st.sampled_from([-1, 0, 1])))
    return 1 + draw(ints.uniform(0, maxbits - 1))


@st.composite
def g_scalar_bits(draw, maxbits):
    """Non-negative scalar of at most maxbits bits: 0/1, powers of two, runs of ones/zeros, alternating patterns;
    the length is mostly close to maxbits."""
    kind = draw(pick(12))
    if kind == 0:
        k = draw(st.sampled_from([0, 1, 2, 3, 4, 5, 7, 8, 15, 16, 17, 255, 256]))
    elif kind == 1:
        i = draw(g_bitlen(maxbits)) - 1
        k = (1 << i) - draw(st.sampled_from([0, 1])) if i else 1
    elif kind == 2:
        b = draw(g_bitlen(maxbits))
        k = int("A" * ((b + 3) // 4), 16) >> draw(pick(4))
    elif kind in (3, 4):
        b = draw(g_bitlen(maxbits))
        k = 1 << (b - 1)
        for _ in range(draw(st.sampled_from([1, 2, 3, 4, 5]))):
            lo = draw(ints.uniform(0, b - 1))
            ln = 1 + draw(ints.uniform(0, b - lo - 1))
            k ^= ((1 << ln) - 1) << lo
    elif kind == 5:
        k = (1 << maxbits) - 1 - draw(st.sampled_from([0, 1, 2, 1 << (maxbits // 2)]))
    elif kind == 6:
        b = draw(g_bitlen(maxbits))
        per = draw(st.sampled_from([2, 3, 4, 5, 6, 7, 8, 9]))
        pat = 1 + draw(ints.uniform(0, (1 << per) - 2))
        k = 0
        for i in range(0, b, per):
            k |= pat << i
        k &= (1 << b) - 1
    else:
        b = draw(g_bitlen(maxbits))
        k = draw(ints.uniform(1 << (b - 1), (1 << b) - 1))
    return k & ((1 << maxbits) - 1)


def longest_run(k):
    k = abs(k)
    best = 0
    for ch in ("1", "0"):
        cur = 0
        for c in bin(k)[2:]:
            cur = cur + 1 if c == ch else 0
            best = max(best, cur)
    return best


# ------------------------------------------------------------------------------------------------ integer recodings

def strat_rec_int(env, cfg):
    I = info(env, cfg)
    W, SIZE, DIGS = I["W"], I["SIZE"], I["DIGS"]
    maxbits = min(W * DIGS, 640)

    @st.composite
    def s(draw):
        op = draw(st.sampled_from(["bn_rec_win", "bn_rec_slw", "bn_rec_naf", "bn_rec_naf", "bn_rec_reg", "bn_rec_jsf"]))
        w = draw(st.sampled_from([2, 3, 4, 5, 6, 7, 8]))
        mb = maxbits if draw(one_in(4)) else min(maxbits, 264)
        k = draw(g_scalar_bits(mb))
        if draw(one_in(10)):
            k = -k
        d = dict(op=op, w=w, k=k, extra=draw(st.sampled_from([0, 0, 1, 7])), short=draw(one_in(26)),
                 poison=draw(st.integers(0, 255)))
        if op == "bn_rec_reg":
            k = abs(k) | 1
            d["k"] = k
            d["n"] = max(1, k.bit_length() + draw(st.sampled_from([0, 0, 1, 2, w - 1, w, 13])))
        if op == "bn_rec_jsf":
            l = draw(g_scalar_bits(mb))
            if draw(one_in(4)):
                l = draw(st.sampled_from([k, abs(k) + 1, abs(k) >> 1, abs(k) << 1 & ((1 << mb) - 1), abs(k) ^ 1, 3 * abs(k) & ((1 << mb) - 1)]))
            d["l"] = l
        return d
    return s()


def run_rec_int(env, cfg, case):
    I = info(env, cfg)
    op, w, k = case["op"], case["w"], case["k"]
    bits = abs(k).bit_length()
    labels = ["op:" + op, "k:" + bitclass(k)]
    if op != "bn_rec_jsf":
        labels.append("w:%d" % w)
    if op == "bn_rec_win":
        need = recode.ceil_div(bits, w)
    elif op == "bn_rec_slw":
        need = bits
    elif op == "bn_rec_naf":
        need = bits + 1
    elif op == "bn_rec_reg":
        n = case["n"]
        need = recode.ceil_div(n, w - 1) + 1
    else:
        l = case["l"]
        lbits = abs(l).bit_length()
        off = max(bits, lbits) + 1
        need = 2 * off
    short = case["short"] and need > 0
    blen = need - 1 if short else need + case["extra"]
    p = Prog(poison=case["poison"])
    sb = p.buf(bytes([case["poison"] ^ 0x33]) * max(blen, 0))
    sk = p.bn(k)
    if op in ("bn_rec_win", "bn_rec_slw", "bn_rec_naf"):
        p.call(op, sb, NULL, sk, w)
    elif op == "bn_rec_reg":
        p.call(op, sb, NULL, sk, n, w)
    else:
        sl = p.bn(l)
        p.call(op, sb, NULL, sk, sl)
    p.dump(sb)
    res = run_prog(env, cfg, p)
    c = res.calls[0]
    what = "%s(w=%d)" % (op, w) if op != "bn_rec_jsf" else op
    if short:
        expect_error(c, what + " with a buffer one element shorter than the recoding")
        if c.e not in (ERR["ERR_NO_BUFFER"], ERR["ERR_CAUGHT"]):
            raise Violation("%s: short buffer reported as error %d, not ERR_NO_BUFFER" % (what, c.e))
        return True, labels + ["short-buffer-error"]
    basic_checks(c, what, outs=(sb,))
    ln = c.rets[0]
    buf = res.dumps[sb]
    if ln > blen:
        raise Violation("%s: returned length %d exceeds the buffer (%d)" % (what, ln, blen))
    run = longest_run(k)
    nt = (w >= 3 and run >= w) or op == "bn_rec_jsf"
    if run >= w:
        labels.append("run>=w")
    if op == "bn_rec_win":
        err = recode.check_win(list(buf[:ln]), k, w)
    elif op == "bn_rec_slw":
        err = recode.check_slw(list(buf[:ln]), k, w)
    elif op == "bn_rec_naf":
        err = recode.check_naf([recode.s8(x) for x in buf[:ln]], k, w)
    elif op == "bn_rec_reg":
        err = recode.check_reg([recode.s8(x) for x in buf[:ln]], k, n, w)
    else:
        r0 = [recode.s8(x) for x in buf[:ln]]
        r1 = [recode.s8(x) for x in buf[off:off + ln]]
        err = recode.check_jsf(r0, r1, k, l)
        if err is None:
            t0, t1 = recode.jsf_textbook(k, l)
            if (r0, r1) != (t0, t1):
                err = "differs from the (unique) joint sparse form"
        labels.append("l:" + bitclass(l))
    if err:
        raise Violation("%s: %s" % (what, err), k=k, w=w, digits=[recode.s8(x) for x in buf[:min(ln, 80)]], length=ln,
                        l=case.get("l"), n=case.get("n"))
    return nt, labels


# ------------------------------------------------------------------------------------------------ tau-adic recodings

KOBLITZ_M = [163, 233, 283, 409, 571]
_TNAF_TAB = {}


def tnaf_table(env, cfg, u, w):
    """(t_w, beta, gama) as the library publishes them (validated against the definition on first use)."""
    key = (cfg, u, w)
    if key not in _TNAF_TAB:
        p = Prog()
        p.call("bn_rec_tnaf_get", u, w)
        res = run_prog(env, cfg, p)
        c = res.calls[0]
        basic_checks(c, "bn_rec_tnaf_get")
        beta = [recode.s8(x) for x in c.blobs[0]]
        gama = [recode.s8(x) for x in c.blobs[1]]
        _TNAF_TAB[key] = (c.rets[0], beta, gama)
    return _TNAF_TAB[key]


def strat_rec_tnaf(env, cfg):
    I = info(env, cfg)
    W, SIZE = I["W"], I["SIZE"]
    ms = [m for m in KOBLITZ_M if m + 24 <= W * SIZE]

    @st.composite
    def s(draw):
        op = draw(st.sampled_from(["bn_rec_tnaf", "bn_rec_tnaf", "bn_rec_tnaf", "bn_rec_tnaf_mod", "bn_rec_rtnaf", "bn_rec_tnaf_get"]))
        u = draw(st.sampled_from([1, -1]))
        w = draw(st.sampled_from([2, 3, 4, 5, 6, 7, 8]))
        m = draw(st.sampled_from(ms))
        k = draw(g_scalar_bits(m // 2 if draw(one_in(5)) else m))
        if draw(one_in(10)):
            k = -k
        return dict(op=op, u=u, w=w, m=m, k=k, poison=draw(st.integers(0, 255)))
    return s()


def run_rec_tnaf(env, cfg, case):
    op, u, w, m, k = case["op"], case["u"], case["w"], case["m"], case["k"]
    labels = ["op:" + op, "mu:%d" % u, "w:%d" % w, "m:%d" % m]
    t_w, beta, gama = tnaf_table(env, cfg, u, w)
    if op == "bn_rec_tnaf_get":
        err = recode.check_tnaf_table(u, w, t_w, beta, gama) if w >= 3 else (
            None if (t_w * t_w - u * t_w + 2) % 4 == 0 and (beta[0], gama[0]) == (1, 0) else "wrong constants for w = 2")
        if err:
            raise Violation("bn_rec_tnaf_get(u=%d, w=%d): %s" % (u, w, err), t_w=t_w, beta=beta[:1 << max(0, w - 2)],
                            gama=gama[:1 << max(0, w - 2)])
        return True, labels
    p = Prog(poison=case["poison"])
    if op == "bn_rec_tnaf_mod":
        r0, r1, sk = p.bn(case["poison"]), p.bn(-case["poison"]), p.bn(k)
        p.call(op, r0, r1, sk, u, m)
        p.dump(r0)
        p.dump(r1)
        res = run_prog(env, cfg, p)
        basic_checks(res.calls[0], op, outs=(r0, r1))
        a, b = out_value(res, r0, op, "r0"), out_value(res, r1, op, "r1")
        err = recode.check_tnaf_mod(a, b, k, u, m)
        if err:
            raise Violation("bn_rec_tnaf_mod(u=%d, m=%d): %s" % (u, m, err), r0=a, r1=b, k=k)
        Z = recode.ZTau(u)
        if Z.norm((a, b)).bit_length() <= m + 3:
            labels.append("partmod:norm<=2^(m+3)")
        return abs(k).bit_length() > m // 2, labels
    blen = m + 8
    if op == "bn_rec_tnaf":
        sb = p.buf(bytes([case["poison"] ^ 0x5C]) * blen)
        sk = p.bn(k)
        p.call(op, sb, NULL, sk, u, m, w)
        p.dump(sb)
        res = run_prog(env, cfg, p)
        c = res.calls[0]
        what = "bn_rec_tnaf(u=%d, m=%d, w=%d)" % (u, m, w)
        basic_checks(c, what, outs=(sb,))
        ln = c.rets[0]
        if ln > blen:
            raise Violation("%s: returned length %d exceeds the callers' buffer m + 8" % (what, ln))
        digs = [recode.s8(x) for x in res.dumps[sb][:ln]]
        err = recode.check_tnaf(digs, k, u, m, w, beta, gama, blen)
        if err:
            raise Violation("%s: %s" % (what, err), k=k, digits=digs[:80], length=ln)
        labels.append("len-m:%+d" % max(-9, min(9, ln - m)) if k else "k:zero")
        return (w >= 3 and longest_run(k) >= w) or abs(k).bit_length() > m // 2, labels
    # regular tau-NAF: only documented for scalars whose partial reduction has two odd parts (test_bn.c)
    ka = abs(k)
    p0 = Prog(poison=case["poison"])
    cand = []
    step = ((1 << m) * 1000 // 1618) | 1          # candidates k + j*step mod 2^m: the parities of r0, r1 vary
    for j in range(16):
        kj = (ka + j * step) % (1 << m)
        r0, r1, sk = p0.bn(0), p0.bn(0), p0.bn(kj)
        p0.call("bn_rec_tnaf_mod", r0, r1, sk, u, m)
        p0.dump(r0)
        p0.dump(r1)
        cand.append((kj, r0, r1))
    res0 = run_prog(env, cfg, p0)
    pick = None
    for kk, r0, r1 in cand:
        if res0.dumps[r0].value % 2 and res0.dumps[r1].value % 2:
            pick = kk
            break
    if pick is None or pick.bit_length() > m:
        return False, labels + ["rtnaf:no-admissible-scalar-nearby"]
    sb = p.buf(bytes([case["poison"] ^ 0x5C]) * blen)
    sk = p.bn(pick)
    p.call(op, sb, NULL, sk, u, m, w)
    p.dump(sb)
    res = run_prog(env, cfg, p)
    c = res.calls[0]
    what = "bn_rec_rtnaf(u=%d, m=%d, w=%d)" % (u, m, w)
    basic_checks(c, what, outs=(sb,))
    ln = c.rets[0]
    if ln > blen:
        raise Violation("%s: returned length %d exceeds the buffer m + 8" % (what, ln))
    digs = [recode.s8(x) for x in res.dumps[sb][:ln]]
    err = recode.check_rtnaf(digs, pick, u, m, w, beta, gama)
    if err:
        raise Violation("%s: %s" % (what, err), k=pick, digits=digs[:80], length=ln)
    return True, labels


# ------------------------------------------------------------------------------------------------ GLV / Frobenius / SAC

_CURVES = {}


def _blob_int(b):
    v = int.from_bytes(b[1:], "little")
    return -v if b[0] else v


def curve_data(env, cfg, idx):
    """Public data of endomorphism curve #idx of the configuration, plus the eigenvalue lambda of the endomorphism
    psi(x, y) = (beta*x, y) determined with the reference curve arithmetic ([lambda]G == psi(G))."""
    key = (cfg, idx)
    if key not in _CURVES:
        I = info(env, cfg)
        d = None
        if I["ENDOM"]:
            p = Prog()
            p.call("c09_ep_set", idx)
            c = run_prog(env, cfg, p).calls[0]
            if not c.unsupported and not c.errored and c.rets and c.rets[0] == 1 and c.rets[1] == 1:
                names = ["p", "a", "b", "gx", "gy", "n", "h", "beta", "v10", "v11", "v12", "v20", "v21", "v22", "par"]
                d = dict(zip(names, [_blob_int(x) for x in c.blobs]))
                d["pairf"] = c.rets[2]
                P, n = d["p"], d["n"]
                if d["a"] != 0 or (d["gy"] ** 2 - d["gx"] ** 3 - d["b"]) % P != 0 or not sympy.isprime(n):
                    raise core.HarnessError("curve data of %s #%d not understood" % (cfg, idx))
                s3 = int(sympy.sqrt_mod(-3 % n, n))
                lam = None
                for cand in (((-1 + s3) * pow(2, -1, n)) % n, ((-1 - s3) * pow(2, -1, n)) % n):
                    if (cand * cand + cand + 1) % n == 0 and \
                            recode.ec_mul(cand, (d["gx"], d["gy"]), 0, P) == (d["beta"] * d["gx"] % P, d["gy"]):
                        lam = cand
                if lam is None:
                    raise core.HarnessError("no eigenvalue matches beta on %s #%d" % (cfg, idx))
                d["lam"] = lam
        _CURVES[key] = d
    return _CURVES[key]


def endo_curves(env, cfg):
    out = []
    for idx in range(3):
        d = curve_data(env, cfg, idx)
        if d:
            out.append(idx)
    return out


BN_X = [-(2 ** 62 + 2 ** 55 + 1), -0x600000000000219B, 0x600000000058F98A, 2 ** 110 + 2 ** 36 + 1, 2 ** 158 - 2 ** 128 - 2 ** 68 + 1,
        0x4000000031]
B12_X = [-0xd201000000010000, 0x8508c00000000001, -(2 ** 74 + 2 ** 73 + 2 ** 63 + 2 ** 57 + 2 ** 50 + 2 ** 17 + 1), -(2 ** 107 - 2 ** 105 - 2 ** 93 - 2 ** 5)]


def strat_rec_curve(env, cfg):
    I = info(env, cfg)
    W, SIZE, DIGS = I["W"], I["SIZE"], I["DIGS"]
    curves = endo_curves(env, cfg)
    pairing = [i for i in curves if curve_data(env, cfg, i)["pairf"]]
    xmax = max(12, min(160, (W * SIZE - 24) // 7))
    ops = ["bn_rec_frb", "bn_rec_frb", "bn_rec_sac", "bn_rec_sac"]
    if curves:
        ops += ["bn_rec_glv"] * 4
    if pairing:
        ops += ["bn_rec_frb_ctx", "frb+sac_ctx"]

    @st.composite
    def s(draw):
        op = draw(st.sampled_from(ops))
        d = dict(op=op, poison=draw(st.integers(0, 255)), stale=draw(ints.g_int(W, SIZE - 1)))
        if op in ("bn_rec_glv", "bn_rec_frb_ctx", "frb+sac_ctx"):
            idx = draw(st.sampled_from(curves if op == "bn_rec_glv" else pairing))
            cd = curve_data(env, cfg, idx)
            n, lam = cd["n"], cd["lam"]
            c = draw(pick(8))
            if c <= 2:
                k = draw(ints.uniform(0, n - 1))
            elif c == 3:
                k = draw(st.sampled_from([0, 1, 2, n - 1, n - 2, n // 2, n // 2 + 1, lam, n - lam, lam + 1, lam - 1, 2 * lam % n,
                                          math.isqrt(n), math.isqrt(n) + 1, (lam * math.isqrt(n)) % n, 1 << (n.bit_length() - 1),
                                          (1 << (n.bit_length() - 1)) - 1, 1 << (n.bit_length() // 2)]))
            elif c == 4:
                # k = k0 + k1*lambda with tiny parts (zero / sign-change neighbourhood of the decomposition)
                k = (draw(st.integers(-3, 3)) + draw(st.integers(-3, 3)) * lam) % n
            else:
                k = draw(g_scalar_bits(n.bit_length())) % n
            if op == "bn_rec_glv" and draw(one_in(13)):
                k = -k
            d.update(idx=idx, k=k)
            return d
        if op == "bn_rec_frb":
            fam = draw(st.sampled_from(["bn", "bn", "b12", "generic"]))
            pool = [x for x in (BN_X if fam == "bn" else B12_X) if abs(x).bit_length() <= xmax]
            if pool and draw(st.booleans()) and fam != "generic":
                x = draw(st.sampled_from(pool))
            else:
                xb = draw(st.integers(9, xmax if fam != "generic" else min(xmax, 64)))
                x = draw(ints.uniform(1 << (xb - 1), (1 << xb) - 1)) * draw(st.sampled_from([1, -1]))
            if fam == "bn":
                n = recode.bn_family(x)[1]
                sub = 4
            elif fam == "b12":
                n = recode.bls12_family(x)[1]
                sub = 4
            else:
                sub = draw(st.sampled_from([2, 3, 4, 6, 8]))
                sub = max(2, min(sub, (W * DIGS) // abs(x).bit_length()))
                n = abs(x) ** sub - draw(st.integers(0, 1000))
            k = draw(st.one_of(st.sampled_from([0, 1, 2, n - 1, n // 2, abs(x), abs(x) - 1, abs(x) + 1, x * x, abs(x) ** (sub - 1)]),
                               ints.uniform(0, n - 1), g_scalar_bits(n.bit_length()))) % n
            if fam != "bn" and draw(one_in(10)):
                k = -k
            d.update(fam=fam, x=x, sub=sub, k=k)
            return d
        # bn_rec_sac
        m = draw(st.sampled_from([2, 2, 3, 4, 4, 6, 8]))
        c = draw(st.sampled_from([1, 1, 1, 2]))
        nb = draw(st.one_of(st.sampled_from([x for x in (158, 254, 256, 381, 446, 638) if x <= W * DIGS] or [W * DIGS]),
                            st.integers(16, min(640, W * DIGS))))
        base = recode.ceil_div(nb, c * m) + 1
        ub = draw(st.one_of(st.integers(1, base - 1), st.integers(1, base + 3)))
        u = draw(ints.uniform(1 << (ub - 1), (1 << ub) - 1)) * draw(st.sampled_from([1, -1]))
        cof = draw(st.integers(0, 1))
        # length of the recoding from public data only: ceil(n/(c*m)) + 1, bits(u) + 1 and, for the BN basis
        # (cof = 1), bits(u) + 4 (sub-scalars bounded by 8|u| + 3); every sub-scalar has at most L - 1 bits
        L = max(base, ub + 1, ub + 4 if cof else 0)
        ks = []
        for j in range(m):
            kb = max(1, draw(st.sampled_from([L - 1, L - 1, L - 2, max(1, L // 2), 1])))
            v = draw(st.one_of(g_scalar_bits(kb), ints.uniform(1 << (kb - 1), (1 << kb) - 1)))
            ks.append(v | 1 if j == 0 else v)
        d.update(m=m, c=c, nbits=nb, u=u, cof=cof, ks=ks, short=draw(one_in(26)))
        return d
    return s()


def sac_call(p, ks, u, c, m, nbits, cof, blen, fill):
    sb = p.buf(bytes([fill]) * blen)
    vk = p.bnv(ks)
    su = p.bn(u)
    p.call("bn_rec_sac", sb, NULL, vk, su, c, m, nbits, cof)
    p.dump(sb)
    return sb, vk


def run_rec_curve(env, cfg, case):
    I = info(env, cfg)
    op = case["op"]
    labels = ["op:" + op]
    p = Prog(poison=case["poison"])
    if op == "bn_rec_glv":
        cd = curve_data(env, cfg, case["idx"])
        if cd is None:
            raise Unsupported()
        n, lam, k = cd["n"], cd["lam"], case["k"]
        k0, k1, sk = p.bn(case["stale"]), p.bn(-case["stale"]), p.bn(k)
        p.call("c09_rec_glv", k0, k1, sk, case["idx"])
        p.dump(k0)
        p.dump(k1)
        res = run_prog(env, cfg, p)
        c = res.calls[0]
        basic_checks(c, op, outs=(k0, k1))
        a, b = out_value(res, k0, op, "k0"), out_value(res, k1, op, "k1")
        err = recode.check_glv(a, b, k, n, lam)
        if err:
            raise Violation("bn_rec_glv (curve #%d): %s" % (case["idx"], err), k=k, k0=a, k1=b, n=n)
        labels += ["curve:%d" % case["idx"], "signs:%s%s" % ("-" if a < 0 else "+", "-" if b < 0 else "+")]
        if a == 0 or b == 0:
            labels.append("glv:zero-part")
        return True, labels
    if op in ("bn_rec_frb_ctx", "frb+sac_ctx"):
        cd = curve_data(env, cfg, case["idx"])
        if cd is None:
            raise Unsupported()
        n, k, x = cd["n"], case["k"], cd["par"]
        lam = cd["p"] % n
        vk = p.bnv([case["stale"]] * 4)
        sk = p.bn(k)
        p.call("c09_rec_frb_ctx", vk, 4, sk, case["idx"])
        p.dump(vk)
        res = run_prog(env, cfg, p)
        basic_checks(res.calls[0], op, outs=(vk,))
        ki = []
        for i, raw in enumerate(res.dumps[vk]):
            if raw.normal_form_error():
                raise Violation("bn_rec_frb: k_%d not normalised: %s" % (i, raw.normal_form_error()))
            ki.append(raw.value)
        err = recode.check_frb(ki, k, n, lam, I["FP_BITS"])
        if err:
            raise Violation("bn_rec_frb (pairing curve #%d): %s" % (case["idx"], err), k=k, ki=ki, n=n)
        labels += ["curve:%d" % case["idx"], "frb:tight" if all(abs(v).bit_length() <= abs(x).bit_length() + 2 for v in ki)
                   else "frb:longer-than-bits(x)+2"]
        if op == "bn_rec_frb_ctx":
            return True, labels
        # the sequence of ep2_mul_reg_gls: strip signs, make the sign-aligner odd, recode with m = 4
        ks = [abs(v) for v in ki]
        ks[0] += 1 - ks[0] % 2
        cof = 1 if cd["pairf"] == 3 else 0          # EP_BN
        blen = 4 * I["FP_BITS"]
        p2 = Prog(poison=case["poison"])
        sb, _ = sac_call(p2, ks, x, 1, 4, n.bit_length(), cof, blen, case["poison"] ^ 0x77)
        res2 = run_prog(env, cfg, p2)
        c2 = res2.calls[0]
        basic_checks(c2, "bn_rec_sac", outs=(sb,))
        ln = c2.rets[0]
        if 4 * ln > blen:
            raise Violation("bn_rec_sac: 4 rows of length %d exceed the callers' buffer 4*RLC_FP_BITS" % ln)
        err = recode.check_sac(list(res2.dumps[sb]), ln, ks)
        if err:
            raise Violation("bn_rec_sac after bn_rec_frb: %s" % err, ks=ks, length=ln, k=k)
        return True, labels + ["sac:len-%d" % ln]
    if op == "bn_rec_frb":
        fam, x, sub, k = case["fam"], case["x"], case["sub"], case["k"]
        if fam == "bn":
            pp, n = recode.bn_family(x)
            cof = 1
        elif fam == "b12":
            pp, n = recode.bls12_family(x)
            cof = 0
        else:
            pp, n, cof = None, abs(x) ** sub, 0
        if n.bit_length() > I["W"] * I["DIGS"] or (cof and 7 * abs(x).bit_length() + 24 > I["W"] * I["SIZE"]):
            raise Unsupported()
        vk = p.bnv([case["stale"]] * max(4, sub))
        sk, sx, sn = p.bn(k), p.bn(x), p.bn(n)
        p.call("bn_rec_frb", vk, sub, sk, sx, sn, cof)
        p.dump(vk)
        res = run_prog(env, cfg, p)
        basic_checks(res.calls[0], op, outs=(vk,))
        ki = []
        for i, raw in enumerate(res.dumps[vk][:sub]):
            if raw.normal_form_error():
                raise Violation("bn_rec_frb: k_%d not normalised: %s" % (i, raw.normal_form_error()))
            ki.append(raw.value)
        labels += ["family:" + fam, "x:" + bitclass(x), "sub:%d" % sub]
        if cof:
            err = recode.check_frb(ki, k, n, pp % n, n.bit_length())
            if err is None and any(abs(v).bit_length() > abs(x).bit_length() + 2 for v in ki):
                labels.append("frb:longer-than-bits(x)+2")
        else:
            err = None
            if sum(v * x ** i for i, v in enumerate(ki)) != k:
                err = "sum k_i x^i != k"
            elif any(abs(v) >= abs(x) for v in ki):
                err = "|k_i| >= |x|"
        if err:
            raise Violation("bn_rec_frb(%s, cof=%d, sub=%d): %s" % (fam, cof, sub, err), k=k, ki=ki, x=x, n=n)
        return True, labels
    # bn_rec_sac
    m, c, nb, u, cof, ks = case["m"], case["c"], case["nbits"], case["u"], case["cof"], case["ks"]
    base = recode.ceil_div(nb, c * m) + 1
    L = max([base, abs(u).bit_length() + 1] + ([abs(u).bit_length() + 4] + [v.bit_length() + 1 for v in ks] if cof else []))
    if max(v.bit_length() for v in ks) > I["W"] * I["DIGS"]:
        raise Unsupported()
    labels += ["m:%d" % m, "c:%d" % c, "cof:%d" % cof]
    if case["short"]:
        sb, vk = sac_call(p, ks, u, c, m, nb, cof, base, case["poison"] ^ 0x77)
        res = run_prog(env, cfg, p)
        expect_error(res.calls[0], "bn_rec_sac with len = ceil(n/(c*m)) + 1 (documented as insufficient)")
        return True, labels + ["short-buffer-error"]
    blen = m * L + 3
    sb, vk = sac_call(p, ks, u, c, m, nb, cof, blen, case["poison"] ^ 0x77)
    res = run_prog(env, cfg, p)
    c0 = res.calls[0]
    basic_checks(c0, "bn_rec_sac", outs=(sb,))
    ln = c0.rets[0]
    if m * ln > blen:
        raise Violation("bn_rec_sac: %d rows of length %d exceed the buffer (%d)" % (m, ln, blen))
    err = recode.check_sac(list(res.dumps[sb]), ln, ks)
    if err:
        raise Violation("bn_rec_sac(m=%d, c=%d, cof=%d): %s" % (m, c, cof, err), ks=ks, length=ln, u=u, nbits=nb)
    return True, labels


def _cfgs(extra=()):
    return {"quick": ["base256", "w8"], "thorough": ["base256", "w8", "w16", "w32", "karat2", "p381"] + list(extra)}


# order: small targets first. core runs jobs essentially in this order, so a budget hit truncates the large
# targets at the end instead of starving whole targets
TARGETS = [
    # coverage-guided search with in-target algebraic oracles (engine/fuzz/fuzz_bn.c, ops gcd/gcd_ext/mod/mxp/recodings)
    Target("fuzz-bn-nt", None, None, {"quick": ["fuzz256"], "thorough": ["fuzz256"]}, quick=80000, thorough=4000000,
           fuzz="fuzz_bn_nt", job_size={"quick": 20000, "thorough": 250000}),
    Target("factor", strat_factor, run_factor, _cfgs(), quick=150, thorough=600),
    Target("genprime", strat_genprime, run_genprime, _cfgs(), quick=300, thorough=1500),
    Target("srt", strat_srt, run_srt, _cfgs(), quick=3000, thorough=15000),
    Target("rec_tnaf", strat_rec_tnaf, run_rec_tnaf, _cfgs(), quick=4000, thorough=25000),
    Target("poly", strat_poly, run_poly, _cfgs(), quick=4000, thorough=25000),
    Target("symbols", strat_symbols, run_symbols, _cfgs(), quick=6000, thorough=40000),
    Target("isprime", strat_isprime, run_isprime, _cfgs(), quick=5000, thorough=30000),
    Target("mxp_sim", strat_mxp_sim, run_mxp_sim, _cfgs(), quick=4000, thorough=25000),
    Target("rec_curve", strat_rec_curve, run_rec_curve, _cfgs(), quick=6000, thorough=40000),
    Target("inv", strat_inv, run_inv, _cfgs(), quick=6000, thorough=40000),
    Target("mxp", strat_mxp, run_mxp, _cfgs(), quick=8000, thorough=50000),
    Target("rec_int", strat_rec_int, run_rec_int, _cfgs(), quick=14000, thorough=80000),
    Target("gcd", strat_gcd, run_gcd, _cfgs(), quick=14000, thorough=80000),
    Target("reduce", strat_reduce, run_reduce, _cfgs(), quick=14000, thorough=80000),
]


# ------------------------------------------------------------------------------------------------ known findings

def _kf_barrt_small_negative(case, v, e):
    a, m = case["a"], case["m"]
    return case.get("op") == "bn_mod_barrt" and a < 0 and abs(a) < m and v.details.get("got") == a


def _kf_mod_negative_multiple(case, v, e):
    a, m = case["a"], case["m"]
    return case.get("op") in ("bn_mod_barrt", "bn_mod_pmers") and a < 0 and m > 0 and a % m == 0 and \
        v.details.get("got") == m and v.details.get("want") == 0


def _kf_barrt_capacity(case, v, e):
    """m = beta^(DIGS-1) exactly (reciprocal of DIGS + 2 digits) and an operand of 2*DIGS digits: the product of the
    quotient estimate and the reciprocal needs 2*DIGS + 3 digits, one more than RLC_BN_SIZE."""
    if case.get("op") != "bn_mod_barrt" or "DIGS" not in case or v.details.get("errored") is not True:
        return False
    W, D, a, m = case["W"], case["DIGS"], case["a"], case["m"]
    return m == 1 << (W * (D - 1)) and ints.ndigits(a, W) == 2 * D


def _kf_inv_negative(case, v, e):
    if case.get("op") != "bn_mod_inv" or case["a"] >= 0 or "got" not in v.details:
        return False
    a, m = case["a"], case["m"]
    return math.gcd(a, m) == 1 and v.details["got"] == pow(-a, -1, m)


def _kf_gcd_ext_negative(case, v, e):
    if case.get("op") not in ("bn_gcd_ext_basic", "bn_gcd_ext_binar", "bn_gcd_ext_lehme", "bn_gcd_ext_dig"):
        return False
    a, b = case["a"], case["b"]
    if not (a < 0 or b < 0) or v.details.get("c") != math.gcd(a, b):
        return False
    if case["op"] == "bn_gcd_ext_lehme":
        # Lehmer mixes |a|, |b| with the signed operands in its final step: the cofactors fit neither reading
        return "abs_identity" in v.details
    return v.details.get("abs_identity") is True


def _kf_gcd_ext_binar_divides(case, v, e):
    a, b = case["a"], case["b"]
    return case.get("op") == "bn_gcd_ext_binar" and v.details.get("errored") is True and b != 0 and a % b == 0


def _kf_stron_short(case, v, e):
    return case.get("op") == "bn_gen_prime_stron" and v.details.get("length_only") is True and \
        v.details.get("got_bits", 1 << 30) < case["bits"]


def _kf_sim_negative_exponent(case, v, e):
    return case.get("op") in ("bn_mxp_sim", "bn_mxp_sim_few", "bn_mxp_sim_lot") and any(x < 0 for x in case["exps"]) and \
        "got" in v.details and v.details["got"] == v.details.get("abs_exponent_value")


def _kf_fixed_base_mr(case, v, e):
    return case.get("op") in ("bn_is_prime", "bn_is_prime_rabin") and v.details.get("got") == 1 and \
        v.details.get("want") == 0 and v.details.get("passes_fixed_bases") is True


def _kf_mxp_basic_alias_exponent(case, v, e):
    return case.get("op") == "bn_mxp_basic" and case.get("alias") == 2 and case["e"] not in (0,) and case["m"] != 1


def _kf_arch_none_cnt(case, v, e):
    """WSIZE 8/16 with ARCH= (none): arch_tzcnt / arch_lzcnt are wrong, so bn_smb_jac returns 0 for symbols +-1 and
    bn_is_prime_solov (which compares against the Jacobi symbol) rejects primes."""
    if case.get("W") not in (8, 16):
        return False
    if case.get("op") == "bn_smb_jac":
        return v.details.get("want") in (0, 1, -1) and v.details.get("got") in (0, 1, -1)
    if case.get("op") == "bn_is_prime_solov":
        return v.details.get("got") == 0 and v.details.get("want") == 1
    return False


KNOWN_PREDICATES = {
    "bn_mod_barrt_small_negative": _kf_barrt_small_negative,
    "bn_mod_negative_multiple": _kf_mod_negative_multiple,
    "bn_mod_barrt_capacity": _kf_barrt_capacity,
    "bn_mod_inv_negative": _kf_inv_negative,
    "bn_gcd_ext_negative_operand": _kf_gcd_ext_negative,
    "bn_gcd_ext_binar_divides": _kf_gcd_ext_binar_divides,
    "bn_mxp_basic_alias_exponent": _kf_mxp_basic_alias_exponent,
    "bn_gen_prime_stron_short": _kf_stron_short,
    "bn_mxp_sim_negative_exponent": _kf_sim_negative_exponent,
    "bn_is_prime_fixed_base_mr": _kf_fixed_base_mr,
    "arch_none_bit_counts": _kf_arch_none_cnt,
}


def self_test():
    numth.self_test()
    recode.self_test()
    for p in KNOWN_PRIMES:
        assert sympy.isprime(p), hex(p)
    for e, n in zip(SPSP_FACTORS, SPSP):
        p1, k2, k3 = e
        assert all(sympy.isprime(x) for x in (p1, k2 * (p1 - 1) + 1, k3 * (p1 - 1) + 1))
        assert numth.passes_fixed_base_mr(n), hex(n)
    assert sorted({numth.mr_rounds_hac(n.bit_length()) for n in SPSP}) == [3, 4, 5, 6, 7, 8, 9, 12, 15, 18]
    for n in CARMICHAEL_SMALL:
        assert not sympy.isprime(n) and all(pow(a, n - 1, n) == 1 for a in (2, 3, 5, 7, 11, 13) if math.gcd(a, n) == 1)

"""C17 — Edwards curves implement the twisted-Edwards group (DESIGN §2 C17)."""
import struct

from hypothesis import strategies as st

from engine import edctx
from engine.core import Target, Violation, Unsupported
from engine.gen import ints
from engine.proto import RLC_EQ, RLC_NE
from engine.ref import edwards as red
from engine.ref import fp as rfp

PROPERTY = "C17"
RULE = ("points of the FULL group of order 8r built by the reference as [m]G + [j]T8 (m from 0, +-1, 2..16, r-1, r/2, uniform; "
        "T8 a reference-found point of order 8, so j selects the neutral element, the order-2 point (0,-1), the order-4 "
        "points (+-1/sqrt(a),0), the four order-8 points, or a torsion-carrying point) or lifted from a uniform y; shipped "
        "raw as affine / projective / extended (consistent T = XY/Z in the EXTND build and for *_extnd routines, garbage t elsewhere) with generated "
        "Z; operand pairs biased to Q=P, Q=-P, Q=O, Q=P+T2, Q=-(P+T2), Q=P+T4, every alias pattern (r=p, r=q, p=q, r=p=q) and "
        "three prior states of the output object (never written / affine point / projective point); scalars from G-scalar(r) "
        "(0, +-1, 2, r-1, r, r+1, 2r, -r, multiples of r, negative, up to 1024 bits, sparse / runs) plus 4r, 8r, 8r+-1; "
        "tables built by the matching ed_mul_pre_* in exact-size heap arrays; lists with n = 0, the neutral element "
        "inside, repeated points; encodings = a valid encoding in the library's layout then mutated (tag, length, y >= p, y without x, "
        "x replaced) and raw random strings. oracle = independent affine unified Edwards law (complete: a square, d "
        "non-square checked by the reference), result compared after reference-side normalisation + representation "
        "invariants (Z != 0, canonical coordinates, T*Z = X*Y where the build maintains t, normalised output of "
        "multiplications / ed_norm) + input preservation; RFC 9380 reference construction for ed_map. non-trivial: "
        "group-law case with a torsion / neutral / related operand, a non-affine representation or an alias; "
        "multiplication with |k| not in {0,1} and (k >= r or k < 0 or > 64 bits); codec / map cases that reach the decoder "
        "or the map. distinct = distinct (target, cfg, case) hashes")
ASSUMPTIONS = [
    "curve parameters (a, d, G, r, h) are read from the library context and sanity-checked by the reference (complete "
    "curve, G on curve, [r]G = O, h = 8, torsion structure Z/8); C18 validates them in depth",
    "ed_*_basic routines are fed affine operands (z = 1), ed_*_projc affine or projective operands, ed_*_extnd (and every "
    "routine of the EXTND build) operands whose t satisfies T*Z = X*Y; in non-EXTND builds t holds garbage and only "
    "ed_add_extnd / ed_dbl_extnd (self-contained, fed consistent T) are exercised from the *_extnd family",
    "scalar multiplications get affine (normalised) base points, like every caller in the library",
    "points outside the prime-order subgroup (torsion-carrying, pure torsion) go to every multiplication routine, but with "
    "scalars beyond the order only to the routines defined on the plain integer (ed_mul_basic, ed_mul_dig); all other "
    "routines get |k| < r for such points, so that a routine that reduces k modulo r stays correct",
    "a scalar longer than the group order (more than 253 bits) may be REJECTED with an error by routines with fixed "
    "recoding buffers; a silently wrong point or a memory error is a violation for every scalar up to BN precision",
    "ed_map_dst: DST of at most 255 bytes (RFC 9380 5.3.1); equality with the RFC 9380 reference construction is asserted "
    "only when the build hashes with SHA-256 (MD_MAP = SH256), otherwise validity + determinism",
    "the sign bit of the compressed encoding is implementation-defined (parity of the internal representation): only "
    "round trips, the y bytes, canonicity and agreement of accept/reject with the reference are asserted",
]
BUDGET_S = {"quick": 240, "thorough": 1700}
JOB_SIZE = {"quick": 600, "thorough": 2500}


# ------------------------------------------------------------------------------ generators

def point_spec(c, torsion=True, lifted=True):
    """{'m': multiplier of G, 'j': multiplier of the order-8 point} or {'y': y, 's': parity} (lifted point)."""
    r = c.r
    special = [0, 1, r - 1, 2, 3, r - 2, 4, 5, 7, 8, 15, 16, r // 2, r // 2 + 1]

    @st.composite
    def s(draw):
        k = draw(st.integers(0, 9))
        if k <= 1:
            m = draw(st.sampled_from(special))
        elif k == 2 and torsion:
            m = 0                                              # pure torsion point (incl. the neutral element)
        elif k == 3 and lifted and torsion:
            return {"y": draw(ints.uniform(0, c.p - 1)), "s": draw(st.integers(0, 1))}
        else:
            m = draw(ints.uniform(1, r - 1))
        j = 0
        if torsion and (m == 0 or draw(st.integers(0, 2)) == 0):
            j = draw(st.integers(0, 7))
        return {"m": m, "j": j}
    return s()


def resolve(c, spec):
    """Affine reference point of a point spec."""
    E = c.E
    if "y" in spec:
        return E.lift_y_next(spec["y"] % c.p, spec.get("s", 0))
    P = edctx.small_multiple(c, spec["m"]) if spec["m"] % c.r else E.O
    j = spec.get("j", 0) % 8
    if j:
        P = E.add(P, c.tors[j])
    return P


def point_class(c, P):
    """neutral / order2 / order4 / order8 / subgroup / mixed (torsion-carrying)."""
    E = c.E
    cache = c.__dict__.setdefault("_cls", {})
    if P in cache:
        return cache[P]
    o = E.small_order(P)
    if o is not None:
        v = {1: "neutral", 2: "order2", 4: "order4", 8: "order8"}[o]
    else:
        v = "subgroup" if E.is_neutral(E.mul(c.r, P)) else "mixed"
    if len(cache) > 5000:
        cache.clear()
    cache[P] = v
    return v


def rep_spec(c, kinds):
    @st.composite
    def s(draw):
        kind = draw(st.sampled_from(kinds))
        z = 1
        if kind != "basic":
            z = draw(st.one_of(st.sampled_from([1, 2, c.p - 1, c.F.R % c.p]), ints.uniform(1, c.p - 1)))
        return {"kind": kind, "z": z, "tg": draw(st.integers(0, 255))}
    return s()


BASIC_REP = {"kind": "basic", "z": 1, "tg": 0x3C}


def enc(c, P, rep, t_valid=None):
    return edctx.enc_point(c, P, rep["kind"], rep["z"], rep.get("tg", 0x5A), t_valid)


def out_init(c, p, how, poison):
    """The output object before the call: never written (all poison), an affine point, or a projective point."""
    if how == "poison":
        return p.new("ED", edctx.enc_poison(c, poison))
    if how == "basic":
        return p.new("ED", edctx.enc_point(c, c.G, "basic"))
    return p.new("ED", edctx.enc_point(c, edctx.small_multiple(c, 3), "projc", 7))


OUT_INIT = st.sampled_from(["poison", "poison", "basic", "projc"])


def rep_kinds_for(c, op):
    if op.endswith("_basic"):
        return ["basic"]
    if op.endswith("_projc"):
        return ["basic", "projc", "projc"]
    if op.endswith("_extnd"):
        return ["basic", "projc", "extnd", "extnd"]
    return {"basic": ["basic"], "projc": ["basic", "projc", "projc"], "extnd": ["basic", "projc", "extnd", "extnd"]}[c.add_name]


def chk_call(call, what, allow_error=False):
    if call.unsupported:
        raise Unsupported()
    if call.ub:
        raise Violation("undefined behaviour in %s: %s" % (what, call.ub), ub=call.ub)
    if call.errored and not allow_error:
        raise Violation("%s reported an error (caught=%d e=%d code=%d) for valid input" % (what, call.caught, call.e, call.code),
                        errored=True)


def chk_point(c, blob, want, what, need_norm=False, check_t=None, basic_z=False):
    """Decode the result, compare with the reference point, check the representation invariants."""
    if check_t is None:
        check_t = c.extnd
    got, meta = edctx.dec_point(c, blob, what, check_t=check_t)
    if not c.E.on_curve(got):
        raise Violation("%s: result is not on the curve" % what, got=got, want=want, kind="wrong-point")
    if not c.E.eq(got, want):
        raise Violation("%s: wrong point" % what, got=got, want=want, kind="wrong-point")
    if need_norm:
        neutral = c.E.is_neutral(got)
        if meta["z"] != 1 or (meta["coord"] != c.BASIC and not neutral):
            raise Violation("%s: result not in normalised affine form" % what, coord=meta["coord"], z=meta["z"], kind="not-normalised")
    if (meta["coord"] == c.BASIC and meta["z"] != 1) or (
            basic_z and (meta["z"] != 1 or (meta["coord"] != c.BASIC and not c.E.is_neutral(got)))):
        raise Violation("%s: result tagged coord=%d carries z=%#x (affine points carry z = 1; the projective routines, which "
                        "never look at the tag, read it)" % (what, meta["coord"], meta["z"]), coord=meta["coord"], z=meta["z"],
                        kind="basic-z")
    return got, meta


# ------------------------------------------------------------------------------ group law

def law_ops(c):
    two = ["ed_add", "ed_add_basic", "ed_add_projc", "ed_add_extnd", "ed_sub", "ed_sub_basic", "ed_sub_projc"]
    one = ["ed_neg", "ed_neg_basic", "ed_neg_projc", "ed_dbl", "ed_dbl_basic", "ed_dbl_projc", "ed_dbl_extnd", "ed_norm",
           "ed_copy", "ed_blind"]
    if c.extnd:
        two.append("ed_sub_extnd")
    return two, one, ["ed_cmp", "ed_is_infty", "ed_on_curve"]


def maintains_t(c, op):
    """Does this routine's result carry a valid t in this build?"""
    if op in ("ed_add_extnd", "ed_dbl_extnd", "ed_sub_extnd"):
        return True
    if not c.extnd:
        return False
    return not (op.endswith("_basic") or op in ("ed_add_projc", "ed_sub_projc", "ed_dbl_projc"))


RELS = ["rand", "rand", "rand", "rand", "eq", "neg", "infty", "neg", "plusT2", "negT2", "plusT4"]


def strat_law(env, cfg):
    c = edctx.job_curve(env, cfg)
    two, one, qry = law_ops(c)

    ops = st.sampled_from(two + two + one + qry)
    PS = point_spec(c)
    RS = {tuple(k): rep_spec(c, k) for k in (["basic"], ["basic", "projc", "projc"], ["basic", "projc", "extnd", "extnd"])}
    rels, aliases = st.sampled_from(RELS), st.sampled_from([0, 0, 0, 0, 1, 1, 2, 2, 3, 4])
    offs, byte, seed8 = st.sampled_from([0, 0, 0, 1, 2, c.p - 1]), st.integers(0, 255), st.binary(min_size=8, max_size=8)

    @st.composite
    def s(draw):
        op = draw(ops)
        rs = RS[tuple(rep_kinds_for(c, op))]
        P = draw(PS)
        rel = draw(rels)
        Q = draw(PS) if rel == "rand" else None
        case = dict(cid=c.cid, add=c.add_name, op=op, P=P, rel=rel, Q=Q, rp=draw(rs), rq=draw(rs),
                    alias=draw(aliases), out=draw(OUT_INIT), swap=draw(st.integers(0, 9)) == 0,
                    poison=draw(byte), seed=draw(seed8) if op == "ed_blind" else b"\0" * 8,
                    off=draw(offs) if op == "ed_on_curve" else 0)
        return case
    return s()


def _pair(c, case):
    E = c.E
    P = resolve(c, case["P"])
    rel = case["rel"]
    if rel == "rand":
        Q = resolve(c, case["Q"])
    elif rel == "eq":
        Q = P
    elif rel == "neg":
        Q = E.neg(P)
    elif rel == "infty":
        Q = E.O
    elif rel == "plusT2":
        Q = E.add(P, c.tors[4])
    elif rel == "negT2":
        Q = E.neg(E.add(P, c.tors[4]))
    else:
        Q = E.add(P, c.tors[2])
    if case.get("swap"):
        P, Q = Q, P
    return P, Q


def run_law(env, cfg, case):
    c = edctx.curve(env, cfg, case["cid"])
    E = c.E
    op, alias = case["op"], case["alias"]
    two, one, qry = law_ops(c)
    P, Q = _pair(c, case)
    rp, rq = case["rp"], case["rq"]
    what = "%s[%s]" % (op, cfg)
    labels = ["op:" + op]
    tv = True if op.endswith("_extnd") else None       # *_extnd routines always get a consistent T
    mt = maintains_t(c, op)
    if op in two:
        if alias in (3, 4):
            Q, rq = P, rp                               # the same object twice
        sub = "_sub" in op
        want = E.sub(P, Q) if sub else E.add(P, Q)

        def build(p):
            sp = p.new("ED", enc(c, P, rp, tv))
            sq = sp if alias in (3, 4) else p.new("ED", enc(c, Q, rq, tv))
            sr = {0: None, 1: sp, 2: sq, 3: None, 4: sp}[alias]
            if sr is None:
                sr = out_init(c, p, case["out"], p_poison[0])
            p.call(op, sr, sp, sq)
            p.dump(sr)
            ins = {}
            if sp != sr:
                ins[sp] = "p"
            if sq != sr:
                ins[sq] = "q"
            return sr, ins
        for pz in (case["poison"], case["poison"] ^ 0xFF):
            p_poison = [pz]
            res, (sr, ins) = edctx.run(env, cfg, c.cid, build, pz)
            call = res.calls[0]
            chk_call(call, what)
            chk_point(c, res.dumps[sr], want, what, check_t=mt, basic_z=op.endswith("_basic"))
            bad = sorted(set(ins[s_] for s_ in call.changed if s_ in ins))
            if bad:
                raise Violation("%s modified its input(s) %s" % (what, bad))
        cp, cq = point_class(c, P), point_class(c, Q)
        if E.eq(P, Q):
            labels.append("law:P=Q")
        elif E.eq(P, E.neg(Q)):
            labels.append("law:P=-Q")
        elif E.is_neutral(P) or E.is_neutral(Q):
            labels.append("law:neutral-operand")
        elif case["rel"] in ("plusT2", "negT2", "plusT4"):
            labels.append("law:differ-by-torsion")
        else:
            labels.append("law:generic")
        labels += ["P:" + cp, "P:" + cq, "reps:%s+%s" % (rp["kind"], rq["kind"]), "alias:%d" % alias, "out:" + case["out"]]
        nt = (cp != "subgroup" or cq != "subgroup" or case["rel"] != "rand" or rp["kind"] != "basic"
              or rq["kind"] != "basic" or alias != 0)
        return nt, labels
    if op in one:
        al = alias in (1, 4)
        if op == "ed_neg" or op.startswith("ed_neg_"):
            want = E.neg(P)
        elif "dbl" in op:
            want = E.dbl(P)
        else:
            want = P

        def build(p):
            sp = p.new("ED", enc(c, P, rp, tv))
            sr = sp if al else out_init(c, p, case["out"], p_poison[0])
            p.call(op, sr, sp)
            p.dump(sr)
            p.dump(sp)
            return sr, sp
        for pz in (case["poison"], case["poison"] ^ 0xFF):
            p_poison = [pz]
            res, (sr, sp) = edctx.run(env, cfg, c.cid, build, pz, seed=case["seed"] if op == "ed_blind" else b"")
            call = res.calls[0]
            chk_call(call, what)
            got, meta = chk_point(c, res.dumps[sr], want, what, need_norm=(op == "ed_norm"), check_t=mt,
                                  basic_z=op.endswith("_basic"))
            if not al and sp in call.changed:
                raise Violation("%s modified its input" % what)
            if op == "ed_copy" and not al:
                a, b = res.dumps[sr], res.dumps[sp]
                nb = c.F.nbytes
                if a[:3 * nb] != b[:3 * nb] or a[4 * nb:] != b[4 * nb:] or (c.extnd and a != b):
                    raise Violation("ed_copy: the copy differs from the original")
        labels += ["P:" + point_class(c, P), "rep:" + rp["kind"], "alias:%d" % (1 if al else 0), "out:" + case["out"]]
        return (point_class(c, P) != "subgroup" or rp["kind"] != "basic" or al), labels
    # queries
    off = case["off"] if op == "ed_on_curve" else 0
    Pq = P
    on = True
    if off:
        Pq = (P[0], (P[1] + off) % c.p)                 # perturbed y: almost surely off the curve (decided by the reference)
        on = E.on_curve(Pq)
    for pz in (case["poison"], case["poison"] ^ 0xFF):
        def build(p):
            sp = p.new("ED", enc(c, Pq, rp))
            if op == "ed_cmp":
                sq = sp if alias in (3, 4) else p.new("ED", enc(c, Q, rq))
                p.call(op, sp, sq)
            else:
                p.call(op, sp)
            return None
        res, _ = edctx.run(env, cfg, c.cid, build, pz)
        call = res.calls[0]
        chk_call(call, what)
        if call.changed:
            raise Violation("%s modified its input" % what)
        got = call.ret_i(0)
        if op == "ed_cmp":
            same = alias in (3, 4) or E.eq(P, Q)
            want = RLC_EQ if same else RLC_NE
        elif op == "ed_is_infty":
            want = int(E.is_neutral(P))
        else:
            want = int(on)
        if got != want:
            raise Violation("%s wrong" % what, got=got, want=want, P=Pq, Q=Q if op == "ed_cmp" else None, rp=rp,
                            rq=rq if op == "ed_cmp" else None)
    if op == "ed_cmp":
        labels.append("cmp:%s" % ("eq" if want == RLC_EQ else "ne"))
        labels.append("reps:%s+%s" % (rp["kind"], rq["kind"]))
    elif op == "ed_on_curve":
        labels.append("on_curve:%s" % ("yes" if on else "no"))
    labels.append("P:" + point_class(c, P))
    return (point_class(c, P) != "subgroup" or rp["kind"] != "basic" or rq["kind"] != "basic"), labels


# ------------------------------------------------------------------------------ variable-base multiplication

MULS = ["ed_mul", "ed_mul_basic", "ed_mul_slide", "ed_mul_monty", "ed_mul_lwnaf", "ed_mul_lwreg", "ed_mul_gen", "ed_mul_dig"]


# every ed_mul_lwreg call currently aborts the runner (known finding): keep it in the mix at a lower weight
MULS_W = [m_ for m_ in MULS if m_ != "ed_mul_lwreg"] * 2 + ["ed_mul_lwreg"]


def scalar(c):
    r = c.r
    extra = [4 * r, 8 * r, 8 * r - 1, 8 * r + 1, -2 * r, r - 2, 1 << 252, (1 << 253) - 1, 1 << 253, (1 << 255) - 1, 1 << 255,
             (1 << 256) - 1, 1 << 256]
    return st.one_of(ints.scalar(r, min(1024, c.bn_bits)), ints.scalar(r, min(1024, c.bn_bits)), st.sampled_from(extra))


# routines that are defined on the plain integer: they alone get torsion-carrying points with scalars beyond the
# order. Every other routine may legitimately reduce k modulo r (the EP module does, and the repairs proposed for
# the long-scalar findings do), which changes [k]P exactly when P lies outside the prime-order subgroup.
NONREDUCING = {"ed_mul_basic", "ed_mul_dig"}


def in_subgroup_spec(spec):
    return "y" not in spec and spec.get("j", 0) % 8 == 0


def clamp(c, k):
    """sign(k) * (|k| mod r): the scalar both semantics ([k]P and [k mod r]P) agree on for any point."""
    v = abs(k) % c.r
    return -v if k < 0 else v


def strat_mul(env, cfg):
    c = edctx.job_curve(env, cfg)

    ops, SC, DG = st.sampled_from(MULS_W), scalar(c), ints.digit(c.F.W)
    PS = {True: point_spec(c, torsion=True), False: point_spec(c, torsion=False)}

    @st.composite
    def s(draw):
        op = draw(ops)
        P = draw(PS[draw(st.integers(0, 3)) == 0])
        if op == "ed_mul_dig":
            k = draw(DG)
        else:
            k = draw(SC)
            if op not in NONREDUCING and not in_subgroup_spec(P):
                k = clamp(c, k)
        return dict(cid=c.cid, op=op, P=P, k=k, alias=draw(st.sampled_from([0, 0, 1])), out=draw(OUT_INIT),
                    poison=draw(st.integers(0, 255)))
    return s()


def mul_labels(c, k):
    r = c.r
    out = []
    if k < 0:
        out.append("k:negative")
    if abs(k) >= r:
        out.append("k:>=r")
    if k % r == 0:
        out.append("k:0-mod-r")
    if abs(k).bit_length() > r.bit_length():
        out.append("k:longer-than-r")
    if not out:
        out.append("k:in-range")
    return out


def ref_mul(c, k, P):
    """[k]P; k is first reduced modulo the group exponent 8r (the reference established |E| = 8r: <G> x <T8> has
    order 8r and Hasse's bound excludes any proper multiple)."""
    return c.E.mul(k % (8 * c.r), P)


def long_scalar(c, k):
    return abs(k).bit_length() > c.r.bit_length()


def run_mul(env, cfg, case):
    c = edctx.curve(env, cfg, case["cid"])
    op, k, alias = case["op"], case["k"], case["alias"]
    E = c.E
    P = c.G if op == "ed_mul_gen" else resolve(c, case["P"])
    want = ref_mul(c, k, P)
    what = "%s[%s]" % (op, cfg)
    rejected = False

    def build(p):
        sp = p.new("ED", enc(c, P, BASIC_REP))
        sr = sp if alias else out_init(c, p, case["out"], p_poison[0])
        if op == "ed_mul_gen":
            sk = p.bn(k)
            p.call(op, sr, sk)
            ins = {sk: "k"}
        elif op == "ed_mul_dig":
            p.call(op, sr, sp, k)
            ins = {}
        else:
            sk = p.bn(k)
            p.call(op, sr, sp, sk)
            ins = {sk: "k"}
        if not alias and op != "ed_mul_gen":
            ins[sp] = "p"
        p.dump(sr)
        return sr, ins
    for pz in (case["poison"], case["poison"] ^ 0xFF):
        p_poison = [pz]
        res, (sr, ins) = edctx.run(env, cfg, c.cid, build, pz)
        call = res.calls[0]
        chk_call(call, what, allow_error=long_scalar(c, k))
        if call.errored:
            rejected = True          # loud rejection of a scalar longer than the order (see ASSUMPTIONS)
            continue
        chk_point(c, res.dumps[sr], want, what, need_norm=True)
        if [s_ for s_ in call.changed if s_ in ins]:
            raise Violation("%s modified its input" % what)
    r = c.r
    nt = abs(k) not in (0, 1) and (abs(k) >= r or k < 0 or (k % r).bit_length() > 64) and not E.is_neutral(P)
    lab = ["op:" + op, "P:" + point_class(c, P)] + mul_labels(c, k)
    if rejected:
        lab.append("loud-reject:%s" % op)
    return nt and not rejected, lab


# ------------------------------------------------------------------------------ fixed-base multiplication

FIX = [("ed_mul_pre_basic", "ed_mul_fix_basic", "basic"), ("ed_mul_pre_combs", "ed_mul_fix_combs", "combs"),
       ("ed_mul_pre_combd", "ed_mul_fix_combd", "combd"), ("ed_mul_pre_lwnaf", "ed_mul_fix_lwnaf", "lwnaf"),
       ("ed_mul_pre", "ed_mul_fix", "cur")]


def strat_fix(env, cfg):
    c = edctx.job_curve(env, cfg)

    SC = scalar(c)
    PS = {True: point_spec(c, torsion=True), False: point_spec(c, torsion=False)}

    @st.composite
    def s(draw):
        i = draw(st.integers(0, len(FIX) - 1))
        P = {"m": 1, "j": 0} if draw(st.booleans()) else draw(PS[draw(st.integers(0, 3)) == 0])
        ks = [draw(SC) for _ in range(draw(st.integers(1, 3)))]
        if not in_subgroup_spec(P):
            ks = [clamp(c, k) for k in ks]
        return dict(cid=c.cid, alg=i, P=P, ks=ks, out=draw(OUT_INIT), poison=draw(st.integers(0, 255)))
    return s()


def run_fix(env, cfg, case):
    c = edctx.curve(env, cfg, case["cid"])
    pre, fix, key = FIX[case["alg"]]
    P = resolve(c, case["P"])
    if c.E.is_neutral(P):
        raise Unsupported()
    tabsz = c.tab[key]
    what = "%s/%s[%s]" % (pre, fix, cfg)
    rejected = set()

    def build(p):
        sp = p.new("ED", enc(c, P, BASIC_REP))
        st_ = p.new("EDV", struct.pack("<II", tabsz, 0))       # exact-size table, never written
        p.call(pre, st_, sp)
        outs = []
        for k in case["ks"]:
            sr = out_init(c, p, case["out"], p_poison[0])
            sk = p.bn(k)
            p.call(fix, sr, st_, sk)
            p.dump(sr)
            outs.append((sr, sk))
        return sp, st_, outs
    for pz in (case["poison"], case["poison"] ^ 0xFF):
        p_poison = [pz]
        res, (sp, st_, outs) = edctx.run(env, cfg, c.cid, build, pz)
        chk_call(res.calls[0], pre)
        if sp in res.calls[0].changed:
            raise Violation("%s modified its input point" % pre)
        for i, (sr, sk) in enumerate(outs):
            k = case["ks"][i]
            call = res.calls[1 + i]
            w = what + "(k#%d)" % i
            chk_call(call, w, allow_error=long_scalar(c, k))
            if call.errored:
                rejected.add(i)
                continue
            try:
                chk_point(c, res.dumps[sr], ref_mul(c, k, P), w, need_norm=True)
            except Violation as v:
                v.details["ki"] = i
                raise
            if st_ in call.changed or sk in call.changed:
                raise Violation("%s modified its table / scalar" % fix)
    lab = ["op:" + fix, "P:" + point_class(c, P), "fix:%s" % ("generator" if case["P"] == {"m": 1, "j": 0} else "other-base")]
    for i, k in enumerate(case["ks"]):
        lab += mul_labels(c, k)
        if i in rejected:
            lab.append("loud-reject:%s" % fix)
    nt = any(abs(k) not in (0, 1) and (abs(k) >= c.r or k < 0 or (k % c.r).bit_length() > 64) and i not in rejected
             for i, k in enumerate(case["ks"]))
    return nt, lab


# ------------------------------------------------------------------------------ simultaneous multiplication

SIM2 = ["ed_mul_sim", "ed_mul_sim_basic", "ed_mul_sim_trick", "ed_mul_sim_inter", "ed_mul_sim_joint", "ed_mul_sim_gen"]


def strat_sim(env, cfg):
    c = edctx.job_curve(env, cfg)

    SC = scalar(c)
    PS = {True: point_spec(c, torsion=True), False: point_spec(c, torsion=False)}
    ops, sizes = st.sampled_from(SIM2 + ["ed_mul_sim_lot", "ed_mul_sim_lot"]), st.sampled_from([0, 1, 2, 3, 4, 7, 8, 9])

    @st.composite
    def s(draw):
        op = draw(ops)
        npts = 2 if op in SIM2 else draw(sizes)
        tors = draw(st.integers(0, 3)) == 0
        pts, ks = [], []
        for i in range(npts):
            if i and draw(st.integers(0, 4)) == 0:
                pts.append(dict(pts[draw(st.integers(0, i - 1))]))     # repeated point
            else:
                pts.append(draw(PS[tors]))
            ks.append(draw(SC))
        if not all(in_subgroup_spec(P) for P in pts):
            ks = [clamp(c, k) for k in ks]
        return dict(cid=c.cid, op=op, pts=pts, ks=ks, out=draw(OUT_INIT), alias=draw(st.sampled_from([0, 0, 0, 1, 2])),
                    poison=draw(st.integers(0, 255)))
    return s()


def run_sim(env, cfg, case):
    c = edctx.curve(env, cfg, case["cid"])
    op = case["op"]
    E = c.E
    pts = [resolve(c, s_) for s_ in case["pts"]]
    ks = case["ks"]
    alias = case["alias"] if op in SIM2 else 0
    if op == "ed_mul_sim_gen":
        pts = [c.G, pts[1]]
        if alias == 1:
            alias = 0
    want = E.O
    for P, k in zip(pts, ks):
        want = E.add(want, ref_mul(c, k, P))
    what = "%s[%s](n=%d)" % (op, cfg, len(pts))
    may_reject = any(long_scalar(c, k) for k in ks)
    rejected = False

    def build(p):
        if op in SIM2:
            s0, s1 = p.new("ED", enc(c, pts[0], BASIC_REP)), p.new("ED", enc(c, pts[1], BASIC_REP))
            k0, k1 = p.bn(ks[0]), p.bn(ks[1])
            sr = {0: None, 1: s0, 2: s1}[alias]
            if sr is None:
                sr = out_init(c, p, case["out"], p_poison[0])
            if op == "ed_mul_sim_gen":
                p.call(op, sr, k0, s1, k1)
                ins = [k0, s1, k1]
            else:
                p.call(op, sr, s0, k0, s1, k1)
                ins = [s0, k0, s1, k1]
            ins = [s_ for s_ in ins if s_ != sr]
        else:
            sr = out_init(c, p, case["out"], p_poison[0])
            n = len(pts)
            body = b"".join(enc(c, P, BASIC_REP) for P in pts)
            sv = p.new("EDV", struct.pack("<II", n, n) + body)
            sk = p.bnv(ks)
            p.call(op, sr, sv, sk, n)
            ins = [sv, sk]
        p.dump(sr)
        return sr, ins
    for pz in (case["poison"], case["poison"] ^ 0xFF):
        p_poison = [pz]
        res, (sr, ins) = edctx.run(env, cfg, c.cid, build, pz)
        call = res.calls[0]
        chk_call(call, what, allow_error=may_reject)
        if call.errored:
            rejected = True
            continue
        chk_point(c, res.dumps[sr], want, what, need_norm=True)
        if [s_ for s_ in call.changed if s_ in ins]:
            raise Violation("%s modified its input" % what)
    lab = ["op:" + op, "sim:n=%d" % len(pts), "alias:%d" % alias]
    if any(E.is_neutral(P) for P in pts):
        lab.append("sim:neutral-inside")
    if any(k % c.r == 0 for k in ks):
        lab.append("sim:k=0-mod-r-inside")
    for P in pts:
        lab.append("P:" + point_class(c, P))
    if rejected:
        lab.append("loud-reject:%s" % op)
    nt = len(pts) >= 2 and any(abs(k) >= c.r or k < 0 for k in ks) or len(pts) == 0
    return (nt or any((k % c.r).bit_length() > 64 for k in ks)) and not rejected, lab


# ------------------------------------------------------------------------------ norm_sim, tables, rand, rhs

def strat_misc(env, cfg):
    c = edctx.job_curve(env, cfg)

    ops = st.sampled_from(["ed_norm_sim"] * 6 + ["ed_tab", "ed_tab", "ed_rand", "ed_rhs", "ed_set_infty", "ed_curve_get_tab"])
    PS, RS = point_spec(c), rep_spec(c, rep_kinds_for(c, "ed_add"))
    sizes = st.sampled_from([0, 1, 1, 2, 2, 3, 3, 5, 5, 8, 8, 4])

    @st.composite
    def s(draw):
        op = draw(ops)
        n = draw(sizes) if op == "ed_norm_sim" else 1
        pts = [draw(PS) for _ in range(max(n, 1))]
        reps = [draw(RS) for _ in range(max(n, 1))] if op == "ed_norm_sim" else [BASIC_REP]
        return dict(cid=c.cid, op=op, n=n, pts=pts, reps=reps, w=draw(st.integers(2, 6)), inplace=draw(st.booleans()),
                    out=draw(OUT_INIT), x=draw(ints.uniform(0, c.p - 1)), poison=draw(st.integers(0, 255)),
                    seed=draw(st.binary(min_size=8, max_size=8)))
    return s()


def run_misc(env, cfg, case):
    c = edctx.curve(env, cfg, case["cid"])
    op = case["op"]
    E = c.E
    pts = [resolve(c, s_) for s_ in case["pts"]]
    reps = case["reps"]
    what = "%s[%s]" % (op, cfg)
    lab = ["op:" + op]
    if op == "ed_rhs":
        def build(p):
            sx = p.new("FP", c.F.enc(case["x"]))
            sr = p.new("FP", c.F.enc(0))
            p.call(op, sr, sx)
            p.dump(sr)
            return sr
        res, sr = edctx.run(env, cfg, c.cid, build, case["poison"])
        chk_call(res.calls[0], what)
        got = c.F.dec(res.dumps[sr])[0]
        want = (c.a * case["x"] * case["x"] - 1) % c.p
        if got != want:
            raise Violation("ed_rhs(x) != a x^2 - 1", got=got, want=want)
        return True, lab
    if op == "ed_set_infty":
        def build(p):
            sr = out_init(c, p, case["out"], case["poison"])
            p.call(op, sr)
            p.call("ed_is_infty", sr)
            p.dump(sr)
            return sr
        res, sr = edctx.run(env, cfg, c.cid, build, case["poison"])
        chk_call(res.calls[0], what)
        chk_point(c, res.dumps[sr], E.O, what, need_norm=True)
        if res.calls[1].ret_i(0) != 1:
            raise Violation("ed_is_infty(ed_set_infty()) != 1")
        return True, lab + ["out:" + case["out"]]
    if op == "ed_rand":
        def build(p):
            sr = out_init(c, p, case["out"], case["poison"])
            p.call(op, sr)
            p.dump(sr)
            return sr
        res, sr = edctx.run(env, cfg, c.cid, build, case["poison"], seed=case["seed"])
        chk_call(res.calls[0], what)
        got, meta = edctx.dec_point(c, res.dumps[sr], what, check_t=c.extnd)
        if not E.on_curve(got) or not E.is_neutral(E.mul(c.r, got)):
            raise Violation("ed_rand: result outside the prime-order subgroup", got=got)
        return True, lab
    if op == "ed_curve_get_tab":
        # the generator's table feeds ed_mul_gen: every entry is a curve point in valid representation and
        # ed_mul_fix on it agrees with [k]G (checked in ed-mul through ed_mul_gen); here: entries valid + entry for G
        def build(p):
            p.call(op)
            return None
        res, _ = edctx.run(env, cfg, c.cid, build, case["poison"])
        call = res.calls[0]
        chk_call(call, what)
        if not call.rets[0]:
            return False, lab + ["tab:none"]
        ents = edctx.dec_points(c, call.blobs[0], what, check_t=c.extnd)
        for i, (Pt, meta) in enumerate(ents):
            if not E.on_curve(Pt) or not E.is_neutral(E.mul(c.r, Pt)):
                raise Violation("generator table entry %d is not a subgroup point" % i, got=Pt)
        if not any(E.eq(Pt, c.G) for Pt, _ in ents):
            raise Violation("generator table does not contain G")
        return True, lab
    if op == "ed_tab":
        P = pts[0]
        if E.is_neutral(P):
            raise Unsupported()
        w = case["w"]
        n = 1 << (w - 2)

        def build(p):
            sp = p.new("ED", enc(c, P, BASIC_REP))
            st_ = p.new("EDV", struct.pack("<II", n, 0))
            p.call(op, st_, sp, w)
            p.dump(st_)
            return st_, sp
        for pz in (case["poison"], case["poison"] ^ 0xFF):
            res, (st_, sp) = edctx.run(env, cfg, c.cid, build, pz)
            chk_call(res.calls[0], what)
            got = edctx.dec_points(c, res.dumps[st_], what, check_t=c.extnd)
            for i in range(n):
                if not E.eq(got[i][0], E.mul(2 * i + 1, P)):
                    raise Violation("%s: table entry %d is not [%d]P" % (what, i, 2 * i + 1), got=got[i][0])
                if got[i][1]["coord"] == c.BASIC and got[i][1]["z"] != 1:
                    raise Violation("%s: table entry %d tagged affine with z != 1" % (what, i))
            if sp in res.calls[0].changed:
                raise Violation("ed_tab modified its input")
        return True, lab + ["tab:w=%d" % w, "P:" + point_class(c, P)]
    # ed_norm_sim
    n = case["n"]
    pts, reps = pts[:n], reps[:n]
    inplace = case["inplace"]
    if any(E.is_neutral(P) for P in pts):
        lab.append("norm_sim:neutral-inside")

    def build(p):
        body = b"".join(enc(c, P, r_) for P, r_ in zip(pts, reps))
        sv = p.new("EDV", struct.pack("<II", n, n) + body)
        if inplace:
            so = sv
        elif case["out"] == "poison":
            so = p.new("EDV", struct.pack("<II", n, 0))
        elif case["out"] == "basic":
            so = p.new("EDV", struct.pack("<II", n, n) + b"".join(edctx.enc_point(c, c.G, "basic") for _ in range(n)))
        else:
            so = p.new("EDV", struct.pack("<II", n, n) + b"".join(
                edctx.enc_point(c, edctx.small_multiple(c, 3), "projc", 7) for _ in range(n)))
        p.call(op, so, sv, n)
        p.dump(so)
        return so, sv
    for pz in (case["poison"], case["poison"] ^ 0xFF):
        res, (so, sv) = edctx.run(env, cfg, c.cid, build, pz)
        call = res.calls[0]
        chk_call(call, what)
        got = edctx.dec_points(c, res.dumps[so], what, check_t=c.extnd)
        for i in range(n):
            if not E.eq(got[i][0], pts[i]):
                raise Violation("%s: entry %d wrong" % (what, i), got=got[i][0], want=pts[i], i=i, kind="wrong-point")
            neutral = E.is_neutral(pts[i])
            if got[i][1]["z"] != 1 or (got[i][1]["coord"] != c.BASIC and not neutral):
                raise Violation("%s: entry %d not normalised" % (what, i), i=i, kind="not-normalised", meta=got[i][1])
        if not inplace and sv in call.changed:
            raise Violation("%s modified its input" % what)
    nt = any(r_["kind"] != "basic" for r_ in reps) or n == 0
    return nt, lab + ["norm_sim:n=%d" % n, "norm_sim:%s" % ("inplace" if inplace else "out=" + case["out"])]


# ------------------------------------------------------------------------------ compression and byte encodings

def strat_codec(env, cfg):
    c = edctx.job_curve(env, cfg)
    fb = c.fp_bytes
    p = c.p
    kinds_ = st.sampled_from(["pck", "pck", "upk-noroot", "bin", "bin", "bin", "bin-short", "mut", "mut", "mut", "raw"])
    PS, RS = point_spec(c), rep_spec(c, rep_kinds_for(c, "ed_add"))

    @st.composite
    def s(draw):
        kind = draw(kinds_)
        case = dict(cid=c.cid, kind=kind, P=draw(PS), rep=draw(RS), pack=draw(st.integers(0, 1)),
                    out=draw(OUT_INIT), poison=draw(st.integers(0, 255)))
        if kind == "upk-noroot":
            case["y"] = draw(ints.uniform(0, p - 1))
            case["bit"] = draw(st.integers(0, 1))
        elif kind == "bin-short":
            case["cut"] = draw(st.integers(1, 2 * fb + 1))
        elif kind == "mut":
            case["mut"] = draw(st.sampled_from(["tag", "tag", "len-", "len+", "y=p", "y=p+1", "y=max", "y+p", "y-noroot", "x-neg",
                                                "x-other", "x=p", "x+p", "y-other", "flip", "neutral", "order2"]))
            if case["mut"].startswith("x"):
                case["pack"] = 0
            case["tag"] = draw(st.integers(0, 255))
            case["n"] = draw(st.integers(1, 3))
            case["v"] = draw(ints.uniform(0, p - 1))
            case["bitpos"] = draw(st.integers(0, 8 * (2 * fb + 1) - 1))
        elif kind == "raw":
            ln = draw(st.sampled_from([0, 1, 2, fb, fb + 1, fb + 2, 2 * fb, 2 * fb + 1, 2 * fb + 2, draw(st.integers(0, 2 * fb + 3))]))
            b = bytearray(draw(st.binary(min_size=ln, max_size=ln)))
            if ln and draw(st.booleans()):
                b[0] = draw(st.sampled_from([0, 2, 3, 4]))
            if ln > 1 and draw(st.booleans()):
                b[1] &= 0x7F                                      # make y < p likely
            case["bytes"] = bytes(b)
        return case
    return s()


def ref_encode(c, P, pack):
    """What the library documents: big-endian coordinates, a leading tag; neutral element = single zero byte.
    Returns (length, y_bytes) — the sign bit / the order of the coordinates is not asserted."""
    if c.E.is_neutral(P):
        return 1
    return 1 + c.fp_bytes if pack else 1 + 2 * c.fp_bytes


def ref_decodable(c, b):
    """Reference verdict on a byte string: ('neutral',) | ('point', P or None [None: x decided by the sign bit]) | None
    (invalid). For compressed encodings returns ('y', y) when y lifts to a point."""
    fb = c.fp_bytes
    E = c.E
    if len(b) == 1:
        return ("neutral",) if b[0] == 0 else None
    if len(b) == fb + 1:
        if b[0] not in (2, 3):
            return None
        y = int.from_bytes(b[1:], "big")
        if y >= c.p:
            return None
        L = E.lift_y(y)
        if L is None:
            return None
        if L[0] == 0 and (y == 1 or b[0] == 3):
            # canonical form (shared with C07's codec reference): the neutral element is written as the single byte 0
            # only, and x = 0 has no odd representative, so the sign bit must be clear for (0, -1)
            return None
        return ("y", y)
    if len(b) == 2 * fb + 1:
        if b[0] != 4:
            return None
        y = int.from_bytes(b[1:fb + 1], "big")
        x = int.from_bytes(b[fb + 1:], "big")
        if x >= c.p or y >= c.p or not E.on_curve((x, y)):
            return None
        if x == 0 and y == 1:
            return None                   # the encoder never emits a long form of the neutral element
        return ("point", (x, y))
    return None


def _decode_check(c, b, call, blob, what):
    """Common oracle for ed_read_bin on arbitrary bytes. Returns a label."""
    E = c.E
    ref = ref_decodable(c, b)
    if call.ub:
        raise Violation("undefined behaviour in %s: %s" % (what, call.ub), ub=call.ub)
    if call.errored:
        if ref is not None:
            raise Violation("%s rejected a valid encoding" % what, bytes=b.hex(), ref=str(ref), kind="false-reject")
        return "dec:rejected"
    got, meta = edctx.dec_point(c, blob, what, check_t=c.extnd)
    if not E.on_curve(got):
        raise Violation("%s accepted an encoding and produced a point off the curve" % what, bytes=b.hex(), got=got,
                        kind="accept-off-curve")
    if ref is None:
        raise Violation("%s accepted an invalid / non-canonical encoding" % what, bytes=b.hex(), got=got, kind="false-accept")
    if ref[0] == "neutral" and not E.is_neutral(got):
        raise Violation("%s: single zero byte did not decode to the neutral element" % what, got=got)
    if ref[0] == "point" and not E.eq(got, ref[1]):
        raise Violation("%s: decoded a different point" % what, got=got, want=ref[1])
    if ref[0] == "y" and got[1] != ref[1]:
        raise Violation("%s: decoded a different y" % what, got=got, want_y=ref[1])
    return "dec:accepted"


def run_codec(env, cfg, case):
    c = edctx.curve(env, cfg, case["cid"])
    E = c.E
    kind = case["kind"]
    fb = c.fp_bytes
    P = resolve(c, case["P"])
    lab = ["codec:" + kind, "P:" + point_class(c, P)]
    if kind == "pck":
        what = "ed_pck/ed_upk[%s]" % cfg

        def build(p):
            sp = p.new("ED", enc(c, P, BASIC_REP))
            sc = out_init(c, p, case["out"], p_poison[0])
            sr = out_init(c, p, case["out"], p_poison[0])
            p.call("ed_pck", sc, sp)
            p.dump(sc)
            p.call("ed_upk", sr, sc)
            p.dump(sr)
            # in place
            p.call("ed_pck", sp, sp)
            p.call("ed_upk", sp, sp)
            p.dump(sp)
            return sp, sc, sr
        for pz in (case["poison"], case["poison"] ^ 0xFF):
            p_poison = [pz]
            res, (sp, sc, sr) = edctx.run(env, cfg, c.cid, build, pz)
            for cl in res.calls:
                chk_call(cl, what)
            if sp in res.calls[0].changed or sc in res.calls[1].changed:
                raise Violation("%s modified its input" % what)
            nb = c.F.nbytes
            cb = res.dumps[sc]
            xraw = int.from_bytes(cb[:nb], "little")
            y = c.F.dec(cb[nb:2 * nb])[0]
            z = c.F.dec(cb[2 * nb:3 * nb])[0]
            if xraw not in (0, 1) or y != P[1] or z != 1:
                raise Violation("ed_pck: compressed form is not (bit, y, 1)", xraw=xraw, y=y, z=z)
            if res.calls[1].ret_i(0) != 1 or res.calls[3].ret_i(0) != 1:
                raise Violation("ed_upk reported failure on a compressed curve point")
            chk_point(c, res.dumps[sr], P, what, need_norm=True)
            chk_point(c, res.dumps[sp], P, what + "(in place)", need_norm=True)
        return True, lab
    if kind == "upk-noroot":
        # a y with no point above it: ed_upk must report failure (or at least not hand out an off-curve point as success)
        y = case["y"]
        while E.lift_y(y) is not None or (c.d * y * y - c.a) % c.p == 0:
            y = (y + 1) % c.p
        what = "ed_upk[%s]" % cfg

        def build(p):
            # the sign bit lives in bit 0 of the raw x (first byte after the 4-byte length prefix)
            body = bytearray(edctx.enc_raw(c, 0, y, 1, 0, c.BASIC))
            body[4] = case["bit"]
            sc = p.new("ED", bytes(body))
            sr = out_init(c, p, case["out"], case["poison"])
            p.call("ed_upk", sr, sc)
            p.dump(sr)
            return sr
        res, sr = edctx.run(env, cfg, c.cid, build, case["poison"])
        call = res.calls[0]
        if call.ub:
            raise Violation("undefined behaviour in %s: %s" % (what, call.ub), ub=call.ub)
        if not call.errored and call.ret_i(0) != 0:
            raise Violation("ed_upk returned success for a y-coordinate with no point on the curve", y=y, kind="upk-noroot")
        return True, lab
    if kind in ("bin", "bin-short"):
        pack = case["pack"]
        what = "ed_write_bin/ed_read_bin[%s](pack=%d)" % (cfg, pack)
        size = ref_encode(c, P, pack)
        blen = size if kind == "bin" else max(0, size - case["cut"])
        if kind == "bin-short" and blen == size:
            raise Unsupported()

        def build(p):
            sp = p.new("ED", enc(c, P, case["rep"]))
            sb = p.buf(bytes([p_poison[0]]) * blen)
            sr = out_init(c, p, case["out"], p_poison[0])
            p.call("ed_size_bin", sp, pack)
            p.call("ed_write_bin", sb, sp, pack)
            p.dump(sb)
            if kind == "bin":
                p.call("ed_read_bin", sr, sb)
                p.dump(sr)
            return sp, sb, sr
        outs = []
        for pz in (case["poison"], case["poison"] ^ 0xFF):
            p_poison = [pz]
            res, (sp, sb, sr) = edctx.run(env, cfg, c.cid, build, pz)
            chk_call(res.calls[0], "ed_size_bin")
            if res.calls[0].ret_i(0) != size:
                raise Violation("ed_size_bin = %d, expected %d" % (res.calls[0].ret_i(0), size))
            if kind == "bin-short":
                cl = res.calls[1]
                if cl.ub:
                    raise Violation("undefined behaviour in ed_write_bin: %s" % cl.ub, ub=cl.ub)
                if not cl.errored:
                    raise Violation("ed_write_bin accepted a buffer of %d bytes for a %d-byte encoding" % (blen, size),
                                    kind="short-buffer")
                continue
            chk_call(res.calls[1], what)
            if sp in res.calls[1].changed:
                raise Violation("ed_write_bin modified its input")
            b = res.dumps[sb]
            outs.append(b)
            if E.is_neutral(P):
                if b != b"\x00":
                    raise Violation("neutral element not encoded as a single zero byte", bytes=b.hex())
            elif pack:
                if b[0] not in (2, 3) or int.from_bytes(b[1:], "big") != P[1]:
                    raise Violation("compressed encoding is not tag 2/3 followed by big-endian y", bytes=b.hex(), P=P)
            else:
                w0, w1 = int.from_bytes(b[1:fb + 1], "big"), int.from_bytes(b[fb + 1:], "big")
                if b[0] != 4 or sorted([w0, w1]) != sorted(P):
                    raise Violation("uncompressed encoding is not tag 4 followed by the big-endian coordinates", bytes=b.hex(), P=P)
            chk_call(res.calls[2], what)
            if sb in res.calls[2].changed:
                raise Violation("ed_read_bin modified its input buffer")
            chk_point(c, res.dumps[sr], P, what)
        if len(outs) == 2 and outs[0] != outs[1]:
            raise Violation("ed_write_bin output depends on uninitialised memory", a=outs[0].hex(), b=outs[1].hex())
        return True, lab + ["pack:%d" % pack, "rep:" + case["rep"]["kind"]]
    # decoding of mutated / raw byte strings
    what = "ed_read_bin[%s]" % cfg
    if kind == "raw":
        data = case["bytes"]
    else:
        if E.is_neutral(P):
            P = c.G
        pack = case["pack"]
        # a valid encoding by the library's own layout (tag, y, then x); the compressed tag is a guess of the sign
        # bit, which is fine: both tags are valid encodings of +-x
        yb = P[1].to_bytes(fb, "big")
        xb = P[0].to_bytes(fb, "big")
        data = bytearray(bytes([2 + (case["tag"] & 1)]) + yb) if pack else bytearray(b"\x04" + yb + xb)
        m = case["mut"]
        pp = c.p

        def sety(v):
            data[1:fb + 1] = (v % (1 << (8 * fb))).to_bytes(fb, "big")

        def setx(v):
            if not pack:
                data[fb + 1:] = (v % (1 << (8 * fb))).to_bytes(fb, "big")
        if m == "tag":
            data[0] = case["tag"]
        elif m == "len-":
            del data[len(data) - case["n"]:]
        elif m == "len+":
            data += bytes(case["n"])
        elif m == "y=p":
            sety(pp)
        elif m == "y=p+1":
            sety(pp + 1)
        elif m == "y=max":
            sety((1 << (8 * fb)) - 1)
        elif m == "y+p":
            if P[1] + pp >= 1 << (8 * fb):
                sety(pp + (P[1] % 19))
            else:
                sety(P[1] + pp)
        elif m == "y-noroot":
            y = case["v"]
            while E.lift_y(y) is not None:
                y = (y + 1) % pp
            sety(y)
        elif m == "y-other":
            sety(E.lift_y_next(case["v"])[1])
        elif m == "x-neg":
            setx(pp - P[0])
        elif m == "x-other":
            setx(case["v"])
        elif m == "x=p":
            setx(pp)
        elif m == "x+p":
            setx(P[0] + pp if P[0] + pp < 1 << (8 * fb) else pp + (P[0] % 19))
        elif m == "neutral":
            sety(1)
            setx(0)
        elif m == "order2":
            sety(pp - 1)
            setx(0)
        elif m == "flip":
            bp = case["bitpos"] % (8 * len(data))
            data[bp // 8] ^= 1 << (bp % 8)
        data = bytes(data)
        lab.append("mut:" + case["mut"])

    def build(p):
        sb = p.buf(data)
        sr = out_init(c, p, case["out"], p_poison[0])
        p.call("ed_read_bin", sr, sb)
        p.dump(sr)
        if reencode[0]:
            # accepted encodings must survive a re-encode cycle (only run once the decoder accepted the bytes, so
            # that ed_write_bin never sees an object the decoder left half-written)
            sb2 = p.buf(bytes(len(data)))
            p.call("ed_write_bin", sb2, sr, 1 if len(data) == fb + 1 else 0)
            p.dump(sb2)
            return sb, sr, sb2
        return sb, sr, None
    verdict = None
    reencode = [False]
    for pz in (case["poison"], case["poison"] ^ 0xFF):
        p_poison = [pz]
        reencode[0] = False
        res, (sb, sr, sb2) = edctx.run(env, cfg, c.cid, build, pz)
        call = res.calls[0]
        if call.unsupported:
            raise Unsupported()
        v = _decode_check(c, data, call, res.dumps[sr], what)
        if verdict is not None and v != verdict:
            raise Violation("ed_read_bin verdict depends on uninitialised memory", bytes=data.hex())
        verdict = v
        if sb in call.changed:
            raise Violation("ed_read_bin modified its input buffer")
        if v == "dec:accepted":
            got, _ = edctx.dec_point(c, res.dumps[sr], what)
            reencode[0] = True
            res, (sb, sr, sb2) = edctx.run(env, cfg, c.cid, build, pz)
            cl2 = res.calls[1]
            if res.calls[0].errored or cl2.errored or cl2.ub:
                raise Violation("re-encoding an accepted point failed", bytes=data.hex())
            b2 = res.dumps[sb2]
            # canonical: same bytes back, except that both sign tags are accepted for x = 0 and that the neutral
            # element also has the ordinary encodings of (0, 1) next to the single zero byte
            if b2 != data and not (got[0] == 0 and len(data) == fb + 1 and b2[1:] == data[1:]) and not E.is_neutral(got):
                raise Violation("accepted encoding is not canonical: re-encoding gives different bytes", bytes=data.hex(),
                                again=b2.hex(), kind="non-canonical")
    lab.append(verdict)
    lab.append("len:%s" % ({1: "1", fb + 1: "packed", 2 * fb + 1: "full"}.get(len(data), "other")))
    return True, lab


# ------------------------------------------------------------------------------ hashing to the curve

def strat_map(env, cfg):
    c = edctx.job_curve(env, cfg)

    @st.composite
    def s(draw):
        op = draw(st.sampled_from(["ed_map", "ed_map_dst"]))
        ln = draw(st.sampled_from([0, 1, 2, 31, 32, 33, 55, 56, 63, 64, 65, 119, 120, 128, 200, draw(st.integers(0, 300))]))
        dl = draw(st.sampled_from([0, 1, 5, 16, 43, 64, 200, 255, draw(st.integers(0, 255))]))
        return dict(cid=c.cid, op=op, msg=draw(st.binary(min_size=ln, max_size=ln)), dst=draw(st.binary(min_size=dl, max_size=dl)),
                    out=draw(OUT_INIT), poison=draw(st.integers(0, 255)))
    return s()


def run_map(env, cfg, case):
    c = edctx.curve(env, cfg, case["cid"])
    E = c.E
    op = case["op"]
    msg = case["msg"]
    dst = case["dst"] if op == "ed_map_dst" else b"RELIC"
    what = "%s[%s]" % (op, cfg)

    def build(p):
        sm = p.buf(msg)
        sr = out_init(c, p, case["out"], p_poison[0])
        if op == "ed_map":
            p.call(op, sr, sm)
            ins = [sm]
        else:
            sd = p.buf(dst)
            p.call(op, sr, sm, sd)
            ins = [sm, sd]
        p.dump(sr)
        return sr, ins
    seen = []
    for pz in (case["poison"], case["poison"] ^ 0xFF):
        p_poison = [pz]
        res, (sr, ins) = edctx.run(env, cfg, c.cid, build, pz)
        call = res.calls[0]
        chk_call(call, what)
        got, meta = edctx.dec_point(c, res.dumps[sr], what, check_t=c.extnd)
        if not E.on_curve(got):
            raise Violation("%s: result not on the curve" % what, got=got)
        if not E.is_neutral(E.mul(c.r, got)):
            raise Violation("%s: result outside the prime-order subgroup" % what, got=got)
        if meta["z"] != 1 or (meta["coord"] != c.BASIC and not E.is_neutral(got)):
            raise Violation("%s: result not normalised" % what, meta=meta)
        if [s_ for s_ in call.changed if s_ in ins]:
            raise Violation("%s modified its input" % what)
        seen.append(got)
    if seen[0] != seen[1]:
        raise Violation("%s is not deterministic (depends on uninitialised memory)" % what, a=seen[0], b=seen[1])
    lab = ["op:" + op, "msg:%s" % ("empty" if not msg else "<=64" if len(msg) <= 64 else ">64"),
           "dst:%s" % ("default" if op == "ed_map" else "empty" if not dst else "%d.." % (len(dst) // 64 * 64))]
    if c.md_sha256 and c.p == red.P25519:
        want = red.hash_to_edwards25519(msg, dst, "sha256", c.level)
        if seen[0] != want:
            raise Violation("%s differs from the RFC 9380 construction (XMD:SHA-256, Elligator 2, cofactor 8)" % what,
                            got=seen[0], want=want)
        lab.append("map:reference-equal")
    return True, lab


# ------------------------------------------------------------------------------ plumbing

def self_test():
    red.self_test()
    rfp.self_test()


def _needs(env, cfg):
    return edctx.has_curve(env, cfg)


def _cfgs(r_=0):
    # quick: the second round of every target runs on the extended-coordinate build (T is only carried there), the
    # others on the projective default, so both coordinate systems are in the quick tier at the same total cost
    return {"quick": ["p255-extnd"] if r_ == 1 else ["p255"], "thorough": ["p255", "p255-extnd", "p255-basic"]}


# core orders jobs by target (its interleaving key is monotonic in the job number), so when the wall-clock budget is hit
# on a loaded machine the targets listed last would get nothing. Each target is therefore split into ROUNDS entries
# ("ed-law", "ed-law~2", ...: same strategy and oracle, different seeds) listed round-robin.
ROUNDS = 3
_BASE = [
    ("ed-law", strat_law, run_law, 40000, 80000),
    ("ed-mul", strat_mul, run_mul, 20000, 40000),
    ("ed-fix", strat_fix, run_fix, 7000, 14000),
    ("ed-sim", strat_sim, run_sim, 10000, 20000),
    ("ed-misc", strat_misc, run_misc, 8000, 15000),
    ("ed-codec", strat_codec, run_codec, 14000, 28000),
    ("ed-map", strat_map, run_map, 6000, 12000),
]


def round_names(name):
    return [name] + ["%s~%d" % (name, r) for r in range(2, ROUNDS + 1)]


TARGETS = [Target(round_names(n_)[r_], s_, f_, _cfgs(r_), quick=q_ // ROUNDS, thorough=t_ // ROUNDS, needs=_needs)
           for r_ in range(ROUNDS) for (n_, s_, f_, q_, t_) in _BASE]


# ------------------------------------------------------------------------------ known findings (narrow matchers)

R_BITS = red.ED25519_L.bit_length()      # 253; the only selectable curve is Ed25519 (checked against the getters in edctx)


def _frames(v):
    return " ".join(v.details.get("frames") or [])


def _crash(v, kind, frame_part):
    """Sanitizer abort of exactly this kind. The frame is only required when the report's stack made it into the
    captured stderr tail (proto keeps the last 6000 characters; a long report loses its top frames)."""
    if not v.details.get("crash") or (v.details.get("kind") or "") != "AddressSanitizer:" + kind:
        return False
    fr = _frames(v)
    return frame_part in fr or "@src/" not in fr or len(v.details.get("frames") or []) < 4


def _kf_lwreg_overflow(case, v, e):
    """ed_mul_lwreg, any non-zero scalar: bn_rec_reg's memset runs one byte past reg[] (ASan stack-buffer-overflow)."""
    return case.get("op") == "ed_mul_lwreg" and case.get("k") != 0 and _crash(v, "stack-buffer-overflow", "bn_rec_reg")


def _kf_upk_noroot(case, v, e):
    return case.get("kind") == "upk-noroot" and v.details.get("kind") == "upk-noroot"


def _kf_neg_basic_z(case, v, e):
    """ed_neg_basic into a different object never writes z."""
    op = case.get("op")
    return (op == "ed_neg_basic" or (op == "ed_neg" and case.get("add") == "basic")) and case.get("alias") not in (1, 4) \
        and v.details.get("kind") == "basic-z"


def _long(k, bits):
    return abs(k).bit_length() > bits


def _kf_fix_basic_long(case, v, e):
    """ed_mul_fix_basic with |k| >= 2^253: reads table entries ed_mul_pre_basic never wrote (wrong point) or past the
    table (|k| >= 2^256: heap-buffer-overflow / SEGV)."""
    if "alg" not in case or FIX[case["alg"]][1] != "ed_mul_fix_basic":
        return False
    if v.details.get("crash"):
        return any(_long(k, 256) for k in case["ks"]) and "ed_add" in _frames(v) and (
            "heap-buffer-overflow" in (v.details.get("kind") or "") or "SEGV" in (v.details.get("kind") or ""))
    ki = v.details.get("ki")
    return ki is not None and _long(case["ks"][ki], R_BITS) and v.details.get("kind") == "wrong-point"


def _kf_comb_long(case, v, e):
    """ed_mul_fix_combs / ed_mul_fix_combd (and ed_mul_gen / ed_mul_fix / ed_mul_sim_gen built on them) silently drop
    the bits of |k| from position 255 on."""
    if v.details.get("kind") != "wrong-point":
        return False
    if "alg" in case:
        ki = v.details.get("ki")
        return FIX[case["alg"]][1] in ("ed_mul_fix_combs", "ed_mul_fix_combd", "ed_mul_fix") and ki is not None and \
            _long(case["ks"][ki], 255)
    if case.get("op") == "ed_mul_gen":
        return _long(case["k"], 255)
    if case.get("op") == "ed_mul_sim_gen":
        # ed_mul_sim_gen hands over to ed_mul_gen when the second term vanishes
        return _long(case["ks"][0], 255) and (case["ks"][1] == 0 or case["pts"][1] == {"m": 0, "j": 0})
    return False


def _norm_sim_case(case, v):
    return case.get("op") == "ed_norm_sim" and case.get("n", 0) >= 1 and not v.details.get("crash")


def _norm_sim_neutral(case):
    return any(s_.get("m") == 0 and s_.get("j") == 0 for s_ in case["pts"][:case["n"]])


def _kf_norm_sim_neutral(case, v, e):
    """ed_norm_sim with the neutral element in the list: its z is left unwritten (other array) or its y is multiplied
    by Z instead of 1/Z (in place)."""
    return _norm_sim_case(case, v) and _norm_sim_neutral(case)


def _kf_norm_sim_tag(case, v, e):
    """ed_norm_sim into a different array whose objects are tagged BASIC beforehand: the conversion switches on the
    OUTPUT's stale tag and is skipped."""
    return _norm_sim_case(case, v) and not case["inplace"] and case["out"] == "basic" and not _norm_sim_neutral(case)


def _kf_fix_small_order(case, v, e):
    """ed_mul_pre_basic/combs/combd on a base point of order 2, 4 or 8: the table contains the neutral element, which
    ed_norm_sim mangles (finding ed_norm_sim-neutral), so ed_mul_fix_* returns garbage."""
    return "alg" in case and FIX[case["alg"]][2] in ("basic", "combs", "combd", "cur") and case["P"].get("m") == 0 \
        and "y" not in case["P"] and not v.details.get("crash")


KNOWN_PREDICATES = {
    "ed_mul_pre_small_order_base": _kf_fix_small_order,
    "ed_norm_sim_neutral": _kf_norm_sim_neutral,
    "ed_norm_sim_stale_tag": _kf_norm_sim_tag,
    "ed_mul_lwreg_reg_overflow": _kf_lwreg_overflow,
    "ed_upk_ignores_srt": _kf_upk_noroot,
    "ed_neg_basic_z": _kf_neg_basic_z,
    "ed_mul_fix_basic_long": _kf_fix_basic_long,
    "ed_mul_fix_comb_long": _kf_comb_long,
}

"""C04 — the pairing is bilinear, non-degenerate and maps into the order-r group (DESIGN §2 C04).

The strategies and run functions are parametric in the pairing context (engine/pcctx_g.py): engine.pcctx for the
k = 12 sets, engine.pcctx_k for the sets of embedding degree 8, 16, 18, 24 and 48 (thorough tier, targets *-k)."""
import struct

from hypothesis import strategies as st

from engine import ecctx, pcctx
from engine import pcctx_g as G
from engine import pcctx54
from engine.core import Target, Violation, Unsupported
from engine.gen import ints
from engine.proto import Prog
from engine.ref import ec as rec
from engine.ref import ext as rext

PROPERTY = "C04"
RULE = ("inputs P = [x]G1, Q = [y]G2 computed by the REFERENCE curve arithmetic (x, y from G-scalar(r): 0, +-1, r-1, r, "
        "r+1, negative, multiples of r, uniform), shipped affine or projective/Jacobian with generated Z; multi-pairing "
        "lists of 0..6 pairs with identities and cancelling pairs at generated positions; arbitrary Fp12 units for the "
        "final exponentiation. oracle (target-group arithmetic by the Python Fp12 tower, never gt_exp): "
        "e([x]G1,[y]G2) = g^(xy mod r) with g = e(G1,G2) of the same variant, g != 1, g^r = 1, identity in a slot => 1, "
        "pc_map_sim(list) = g^(sum x_i y_i), empty list => 1, representation independence, final exponentiation is a "
        "homomorphism into the order-r group; each of optimal-ate (pc_map), Tate and Weil separately. "
        "thorough tier: the same generators and oracles (targets *-k) on every other parameter set the library selects: "
        "k = 12 at 377 / 382 / 383 / 446 / 455 / 638 bits, k = 8 GMT8_P544, k = 16 K16_P330 AFG16_P510 FM16_P765 "
        "AFG16_P766, k = 18 K18_P354 K18_P508 K18_P638 FM18_P768, k = 24 B24_P315 B24_P317 B24_P509, k = 48 B48_P575, "
        "k = 54 SG54_P569 (pp_map_k54 on bare Fp9 coordinates), "
        "each with the variants its degree has (oatep / tatep / weilp for 16 and 18, oatep for 8, one function for 24 "
        "and 48), target-group arithmetic in the reference tower of that degree built from parameters read from the "
        "library (engine/ref/ext.py, every level checked to be a field). "
        "non-trivial: both inputs non-identity and xy mod r not in {0,1}, or a list of >= 2 pairs containing an identity")
ASSUMPTIONS = ["pairing inputs are members of G1/G2 or the identity (the pairing's contract; non-members are C12)",
               "[x]G1 and [y]G2 are computed by the reference so that a multiplication error cannot cancel out",
               "the tower non-residues and twist coefficients are read from the library and checked for consistency",
               "sweep (k != 12): one parameter set per build configuration, the one pc_param_set_any() installs; the "
               "G2 generator, r and the twist are read from the library and validated by the reference ([r]G2 = O on "
               "the reference twist over Fp^(k/d)); for B48_P575 the G2 scalars of a job come from a pool of three "
               "values (a reference multiple over Fp8 costs 2 s), all G1 scalars stay free",
               "SG54_P569 (k = 54): no pairing layer, no G2 type over Fp9; target pair-bilin-54 feeds pp_map_k54 the one "
               "G2 point published in the library's test (verified by the reference to have order r on y^2 = x^3 + b' "
               "over Fp9) and its reference multiples, G1 points affine (the function reads p->x, p->y as they are); all "
               "its non-identity cases currently end in the open finding C10-fp54_frb-table-index"]
BUDGET_S = {"quick": 260, "thorough": 1800}
JOB_SIZE = {"quick": 120, "thorough": 400}

VARIANTS = ["pc_map", "pp_map_oatep_k12", "pp_map_tatep_k12", "pp_map_weilp_k12"]
# the variants of the other embedding degrees (include/relic_pp.h): k = 16 and 18 have the three Miller loops, k = 8 only
# the optimal ate pairing, k = 24 and 48 a single function, which is what pc_map expands to
VARIANTS_K = {8: ["pc_map", "pp_map_oatep_k8"],
              16: ["pc_map", "pp_map_oatep_k16", "pp_map_tatep_k16", "pp_map_weilp_k16"],
              18: ["pc_map", "pp_map_oatep_k18", "pp_map_tatep_k18", "pp_map_weilp_k18"],
              24: ["pc_map", "pp_map_k24"], 48: ["pc_map", "pp_map_k48"]}
_G = {}


def variants(env, cfg, x):
    if x.kemb == 12:
        return VARIANTS
    ops = env.runner(cfg).ops()
    return [v for v in VARIANTS_K[x.kemb] if v in ops and simv(v) in ops]


def simv(variant):
    """name of the multi-pairing of a variant: pc_map -> pc_map_sim, pp_map_<v>_kN -> pp_map_sim_<v>_kN"""
    return "pc_map_sim" if variant == "pc_map" else "pp_map_sim_" + variant[len("pp_map_"):]


SIMV = {v: simv(v) for v in VARIANTS}


def gt_slot(p, x):
    """output object of a pairing: holds STALE, non-identity content (coefficients 2, 3, ...), so that a routine that
    returns without writing its result (empty multi-pairing list, identity operands) cannot pass by accident: the
    expected value in exactly those cases is 1 (seed C04-6 was missed while this slot was initialised to 1)"""
    F = x.F
    body = b"".join(F.to_raw_int(j + 2).to_bytes(F.nbytes, "little") for j in range(x.kemb))
    return p.new("FPX", bytes([x.kemb]) + struct.pack("<I", len(body)) + body)


def g2mul(x, b):
    """[b]G2 by the reference (b reduced modulo r: G2 has order r by the context's own check)"""
    b %= x.r
    if b == 0:
        return None
    if x.K >= 8 or b < (1 << 20) or x.r - b < (1 << 20):
        return G.small_multiple2(x, b)         # cached (the slow towers draw their scalars from a small pool)
    return x.E2c.mul(b, x.G2)


def base_value(env, cfg, x, variant):
    """g = e(G1, G2) for this variant (library output, validated: g != 1 and g^r = 1 by the reference)."""
    key = (cfg, x.cid, variant)
    if key in _G:
        return _G[key]

    def build(p):
        s1 = p.new("EP", ecctx.enc_point(x.base, x.G1))
        s2 = p.new("EP2", G.enc_g2(x, x.G2))
        sg = gt_slot(p, x)
        p.call(variant, sg, s1, s2)
        p.dump(sg)
        return sg
    res, sg = G.run(env, cfg, x, build, 0x33)
    c = res.calls[0]
    if c.unsupported:
        raise Unsupported()
    if c.errored or c.ub:
        raise Violation("%s(G1, G2) reported an error / UB" % variant, call=repr(c))
    g = G.dec_gt(x, res.dumps[sg], variant)
    F12 = x.FT
    if F12.eq(g, F12.one):
        raise Violation("%s: e(G1, G2) is the identity (degenerate)" % variant, cid=x.cid, **ctx_details(x, variant))
    if not F12.eq(F12.pow(g, x.r), F12.one):
        raise Violation("%s: e(G1, G2)^r != 1" % variant, cid=x.cid, order_not_r=True, **ctx_details(x, variant))
    _G[key] = g
    return g


def ctx_details(x, variant):
    """what the known-finding predicates key on: embedding degree, twist type (1 = D, 2 = M), variant"""
    return dict(kemb=x.kemb, ttype=x.ttype, fn=variant)


def rep2(x):
    @st.composite
    def s(draw):
        kind = draw(st.sampled_from(["basic", "basic", "projc", "jacob"]))
        p = x.F.p
        z = [1] + [0] * (x.K - 1)
        if kind != "basic":
            z = [draw(ints.uniform(1, p - 1))] + [draw(st.one_of(st.just(0), ints.uniform(0, p - 1))) for _ in range(x.K - 1)]
        return {"kind": kind, "z": list(z), "inf": draw(st.integers(0, 1))}
    return s()


def rep1(x):
    @st.composite
    def s(draw):
        kind = draw(st.sampled_from(["basic", "basic", "projc", "jacob"]))
        z = 1 if kind == "basic" else draw(ints.uniform(1, x.F.p - 1))
        return {"kind": kind, "z": z, "inf": draw(st.integers(0, 1))}
    return s()


def kinds_ok(x, rep):
    """Both projective systems are admissible inputs in every non-affine build: the coordinate-specific public
    routines (ep2_dbl_jacob, ep_add_projc, ...) produce either tag, and the pairings normalise by the tag of the
    point. An affine-only build (EP_ADD = BASIC) has no projective code, so everything is sent affine there."""
    b = x.base
    if b.EP_ADD == b.BASIC and rep["kind"] != "basic":
        return dict(rep, kind="basic", z=1 if isinstance(rep["z"], int) else [1] + [0] * (len(rep["z"]) - 1))
    return rep


def chk(c, what):
    if c.unsupported:
        raise Unsupported()
    if c.ub:
        raise Violation("undefined behaviour in %s: %s" % (what, c.ub), ub=c.ub)
    if c.errored:
        raise Violation("%s reported an error (caught=%d e=%d code=%d) for valid input" % (what, c.caught, c.e, c.code))


# ------------------------------------------------------------------------------ bilinearity

def pool_scalars(env, x, n=3):
    """slow towers (G2 over Fp8): the G2 scalars come from a few per-job values (the reference multiple is cached);
    the point the library sees is still a generic member, and every G1 scalar stays free"""
    import hashlib
    return [int.from_bytes(hashlib.blake2b(("c04|%d|%d|%d" % (env.job_seed, x.cid, i)).encode(),
                                           digest_size=64).digest() * 2, "big") % (x.r - 1) + 1 for i in range(n)]


def strat_bilin(env, cfg):
    x = G.job_ctx(env, cfg)
    vs = variants(env, cfg, x)

    @st.composite
    def s(draw):
        sc = ints.scalar(x.r, x.r.bit_length() + 64)
        small = st.sampled_from([0, 1, 2, 3, -1, x.r - 1, x.r, x.r + 1, 5, 7])
        scy = sc
        if x.K >= 8:
            pool = pool_scalars(env, x)
            scy = st.sampled_from(pool + [-pool[0], pool[0] + x.r, x.r - pool[1]])
        return dict(cid=x.cid, variant=draw(st.sampled_from(vs)), x=draw(st.one_of(sc, small)),
                    y=draw(st.one_of(scy, small)), rp=draw(rep1(x)), rq=draw(rep2(x)), poison=draw(st.integers(0, 255)))
    return s()


def run_bilin(env, cfg, case):
    x = G.ctx_for(env, cfg, case["cid"])
    variant = case["variant"]
    F12 = x.FT
    a, b = case["x"], case["y"]
    P = x.base.E.mul(a, x.G1)
    Q = g2mul(x, b)
    rp, rq = kinds_ok(x, case["rp"]), kinds_ok(x, case["rq"])
    if P is None or Q is None:
        want = F12.one                       # identity in a slot: no reference value of the variant is needed
    else:
        want = F12.pow(base_value(env, cfg, x, variant), (a * b) % x.r)
    what = "%s[cid=%d]" % (variant, x.cid)

    def build(p):
        s1 = p.new("EP", ecctx.enc_point(x.base, P, rp["kind"], rp["z"], rp["inf"]))
        s2 = p.new("EP2", G.enc_g2(x, Q, rq["kind"], rq["z"], rq["inf"]))
        sg = gt_slot(p, x)
        p.call(variant, sg, s1, s2)
        p.dump(sg)
        return sg, s1, s2
    for pz in (case["poison"], case["poison"] ^ 0xFF):
        res, (sg, s1, s2) = G.run(env, cfg, x, build, pz)
        c = res.calls[0]
        chk(c, what)
        got = G.dec_gt(x, res.dumps[sg], what)
        if not F12.eq(got, want):
            raise Violation("%s: e([x]G1,[y]G2) != e(G1,G2)^(xy mod r)" % what, x=a, y=b, not_bilinear=True,
                            identity_expected=(P is None or Q is None), **ctx_details(x, variant))
        if s1 in c.changed or s2 in c.changed:
            raise Violation("%s modified its input" % what)
    lab = ["variant:" + variant, "cid:%d" % x.cid, "reps:%s+%s" % (rp["kind"], rq["kind"])]
    if x.kemb != 12:
        lab.append("k=%d:%s" % (x.kemb, variant))
    if P is None or Q is None:
        lab.append("identity-in-slot")
    if a < 0 or b < 0:
        lab.append("scalar:negative")
    if abs(a) >= x.r or abs(b) >= x.r:
        lab.append("scalar:>=r")
    nt = P is not None and Q is not None and (a * b) % x.r not in (0, 1)
    return nt, lab


# ------------------------------------------------------------------------------ multi-pairing

def strat_sim(env, cfg):
    x = G.job_ctx(env, cfg)
    vs = variants(env, cfg, x)

    @st.composite
    def s(draw):
        n = draw(st.sampled_from([0, 1, 2, 2, 3, 4, 6]))
        small = st.sampled_from([0, 0, 1, 2, -1, x.r - 1, x.r, 3])
        sc = st.one_of(small, ints.uniform(1, x.r - 1), small)
        scy = sc
        if x.K >= 8:
            scy = st.one_of(small, st.sampled_from(pool_scalars(env, x)), small)
        pairs = []
        for i in range(n):
            if i and draw(st.integers(0, 4)) == 0:
                a, b = pairs[-1]
                pairs.append([-a, b])            # cancelling pair
            else:
                pairs.append([draw(sc), draw(scy)])
        # every pair in its own representation: the multi-pairing normalises (and compacts) its inputs itself
        reps = [[draw(rep1(x)), draw(rep2(x))] for _ in range(n)] if draw(st.integers(0, 2)) else []
        return dict(cid=x.cid, variant=draw(st.sampled_from(vs)), pairs=pairs, reps=reps,
                    poison=draw(st.integers(0, 255)))
    return s()


def run_sim(env, cfg, case):
    x = G.ctx_for(env, cfg, case["cid"])
    variant = case["variant"]
    F12 = x.FT
    pairs = case["pairs"]
    n = len(pairs)
    Ps = [x.base.E.mul(a, x.G1) for a, _ in pairs]
    Qs = [g2mul(x, b) for _, b in pairs]
    e = sum(a * b for a, b in pairs) % x.r
    live = sum(1 for P, Q in zip(Ps, Qs) if P is not None and Q is not None)
    want = F12.pow(base_value(env, cfg, x, variant), e) if live else F12.one
    what = "%s[cid=%d](m=%d)" % (simv(variant), x.cid, n)

    reps = case.get("reps") or [[dict(kind="basic", z=1, inf=0), dict(kind="basic", z=[1, 0], inf=0)]] * n
    reps = [[kinds_ok(x, a), kinds_ok(x, b)] for a, b in reps]

    def build(p):
        b1 = b"".join(ecctx.enc_point(x.base, P, r[0]["kind"], r[0]["z"], r[0]["inf"]) for P, r in zip(Ps, reps))
        s1 = p.new("EPV", struct.pack("<II", n, n) + b1)
        s2 = p.new("EP2V", G.g2_vec(x, [G.enc_g2(x, Q, r[1]["kind"], r[1]["z"], r[1]["inf"]) for Q, r in zip(Qs, reps)]))
        sg = gt_slot(p, x)
        p.call(simv(variant), sg, s1, s2, n)
        p.dump(sg)
        return sg, s1, s2
    for pz in (case["poison"], case["poison"] ^ 0xFF):
        res, (sg, s1, s2) = G.run(env, cfg, x, build, pz)
        c = res.calls[0]
        chk(c, what)
        got = G.dec_gt(x, res.dumps[sg], what)
        if not F12.eq(got, want):
            raise Violation("%s: multi-pairing != product of the individual pairings" % what, pairs=pairs,
                            not_bilinear=True, identity_expected=(live == 0), **ctx_details(x, simv(variant)))
        if s1 in c.changed or s2 in c.changed:
            raise Violation("%s modified its input" % what)
    ident = sum(1 for P, Q in zip(Ps, Qs) if P is None or Q is None)
    lab = ["variant:" + simv(variant), "cid:%d" % x.cid, "sim:m=%d" % n, "sim:identities=%d" % min(ident, 3)]
    if x.kemb != 12:
        lab.append("k=%d:%s" % (x.kemb, simv(variant)))
    if any(a["kind"] != "basic" or b["kind"] != "basic" for a, b in reps):
        lab.append("sim:projective-input")
    return (n >= 2 and ident >= 1) or (n >= 2 and e not in (0, 1)) or n == 0, lab


# ------------------------------------------------------------------------------ final exponentiation

def strat_fexp(env, cfg):
    x = G.job_ctx(env, cfg)
    p = x.F.p
    N = x.kemb

    @st.composite
    def s(draw):
        def elem():
            k = draw(st.integers(0, 3))
            if k == 0:
                return [draw(st.sampled_from([0, 1, 2, p - 1])) for _ in range(N)]
            v = [draw(ints.uniform(0, p - 1)) for _ in range(N)]
            if k == 1:
                for i in range(N):
                    if draw(st.booleans()):
                        v[i] = 0
            return v
        f1, f2 = elem(), elem()
        return dict(cid=x.cid, f1=f1, f2=f2, poison=draw(st.integers(0, 255)))
    return s()


def run_fexp(env, cfg, case):
    x = G.ctx_for(env, cfg, case["cid"])
    F12 = x.FT
    f1, f2 = F12.unflatten(case["f1"]), F12.unflatten(case["f2"])
    if F12.is_zero(f1) or F12.is_zero(f2):
        raise Unsupported()
    f3 = F12.mul(f1, f2)
    fn = G.opname(x, "pp_exp_k12")
    what = "%s[cid=%d]" % (fn, x.cid)

    def build(p):
        outs = []
        for f in (f1, f2, f3):
            sa = p.new("FPX", G.enc_gt(x, f))
            sc = gt_slot(p, x)
            p.call(fn, sc, sa)
            p.dump(sc)
            outs.append(sc)
        return outs
    res, outs = G.run(env, cfg, x, build, case["poison"])
    for c in res.calls:
        chk(c, what)
    e1, e2, e3 = (G.dec_gt(x, res.dumps[s_], what) for s_ in outs)
    if not F12.eq(F12.mul(e1, e2), e3):
        raise Violation("%s is not multiplicative: exp(f1 f2) != exp(f1) exp(f2)" % what)
    if not F12.eq(F12.pow(e1, x.r), F12.one):
        raise Violation("%s: result does not have order dividing r" % what)
    return True, ["op:" + fn, "cid:%d" % x.cid]


# ------------------------------------------------------------------------------ embedding degree 54 (pp_map_k54 only)

def strat_bilin54(env, cfg):
    x = pcctx54.job_ctx(env, cfg)
    pool = pool_scalars(env, x, 2)

    @st.composite
    def s(draw):
        sc = ints.scalar(x.r, x.r.bit_length() + 64)
        small = st.sampled_from([0, 1, 2, 3, -1, x.r - 1, x.r, x.r + 1, 5, 7])
        # G2 scalars from a small set: a reference multiple on the twist over Fp9 costs a second
        scy = st.sampled_from([0, 1, 1, 2, 3, -1, -2, x.r, x.r + 1] + pool + [-pool[0]])
        return dict(cid=x.cid, variant="pp_map_k54", x=draw(st.one_of(sc, small)), y=draw(scy),
                    poison=draw(st.integers(0, 255)))
    return s()


def base_value54(env, cfg, x):
    key = (cfg, x.cid, "pp_map_k54")
    if key in _G:
        return _G[key]

    def build(p):
        s1 = p.new("EP", ecctx.enc_point(x.base, x.G1))
        ex, ey = pcctx54.enc_q(x, x.Q0)
        sx, sy = p.new("FPX", ex), p.new("FPX", ey)
        sg = p.new("FPX", pcctx54.enc_gt(x, x.FT.one))
        p.call("pp_map_k54", sg, s1, sx, sy)
        p.dump(sg)
        return sg
    res, sg = pcctx54.run(env, cfg, x, build, 0x33)
    chk(res.calls[0], "pp_map_k54(G1, Q0)")
    g = pcctx54.dec_gt(x, res.dumps[sg], "pp_map_k54")
    FT = x.FT
    if FT.eq(g, FT.one):
        raise Violation("pp_map_k54: e(G1, Q0) is the identity (degenerate)", cid=x.cid, kemb=54, fn="pp_map_k54")
    if not FT.eq(FT.pow(g, x.r), FT.one):
        raise Violation("pp_map_k54: e(G1, Q0)^r != 1", cid=x.cid, order_not_r=True, kemb=54, fn="pp_map_k54")
    _G[key] = g
    return g


def run_bilin54(env, cfg, case):
    x = pcctx54.job_ctx(env, cfg)
    if x.cid != case["cid"]:
        raise Unsupported()
    FT = x.FT
    a, b = case["x"], case["y"]
    P = x.base.E.mul(a, x.G1)
    Q = pcctx54.g2mul(x, b)
    if P is None or Q is None:
        want = FT.one
    else:
        want = FT.pow(base_value54(env, cfg, x), (a * b) % x.r)
    what = "pp_map_k54[cid=%d]" % x.cid

    def build(p):
        # the function reads p->x, p->y as they are: G1 points are passed in affine coordinates (what ep_rand /
        # ep_mul deliver to the callers in the library's own test)
        s1 = p.new("EP", ecctx.enc_point(x.base, P))
        ex, ey = pcctx54.enc_q(x, Q)
        sx, sy = p.new("FPX", ex), p.new("FPX", ey)
        sg = p.new("FPX", pcctx54.enc_gt(x, FT.one))
        p.call("pp_map_k54", sg, s1, sx, sy)
        p.dump(sg)
        return sg, (s1, sx, sy)
    for pz in (case["poison"], case["poison"] ^ 0xFF):
        res, (sg, ins) = pcctx54.run(env, cfg, x, build, pz)
        c = res.calls[0]
        chk(c, what)
        got = pcctx54.dec_gt(x, res.dumps[sg], what)
        if not FT.eq(got, want):
            raise Violation("%s: e([x]G1,[y]Q0) != e(G1,Q0)^(xy mod r)" % what, x=a, y=b, not_bilinear=True,
                            identity_expected=(P is None or Q is None), kemb=54, fn="pp_map_k54")
        if any(s_ in c.changed for s_ in ins):
            raise Violation("%s modified its input" % what)
    lab = ["variant:pp_map_k54", "cid:%d" % x.cid, "k=54:pp_map_k54"]
    if P is None or Q is None:
        lab.append("identity-in-slot")
    if a < 0 or b < 0:
        lab.append("scalar:negative")
    if abs(a) >= x.r or abs(b) >= x.r:
        lab.append("scalar:>=r")
    return P is not None and Q is not None and (a * b) % x.r not in (0, 1), lab


def self_test():
    rec.self_test()
    rext.self_test()
    from engine.ref import sg54
    sg54.self_test()


def _cfgs():
    return {"quick": ["base256"], "thorough": ["base256", "p381", "p381-qnres"]}


OPTIONAL_CFGS = ["p381-qnres"]

# thorough sweep over the other parameter sets (one per build configuration unless noted):
#   k = 12 at the other field sizes (engine/pcctx.py): B12_P377, BN_P382, B12_P383, BN_P446 + B12_P446, B12_P455,
#          BN_P638 + B12_P638 (pf-638-q: the k = 12 pairing layer exists at 638 bits only with FP_QNRES)
#   k = 8  GMT8_P544;  k = 16  K16_P330, AFG16_P510, FM16_P765, AFG16_P766;  k = 18  K18_P354, K18_P508, K18_P638,
#          FM18_P768;  k = 24  B24_P315, B24_P317, B24_P509;  k = 48  B48_P575 (engine/pcctx_k.py)
SWEEP12 = ["pf-377", "pf-382", "pf-383", "pf-446", "pf-455", "pf-638-q"]
SWEEPK = ["pf-544", "pf-330", "pf-510", "pf-765-b", "pf-766-b", "pf-354", "pf-508", "pf-638", "pf-768", "pf-315", "pf-317",
          "pf-509"]
SWEEP48 = ["pf-575-q"]
SWEEP54 = ["pf-569"]          # SG54_P569: pp_map_k54 only (engine/pcctx54.py)
OPTIONAL_CFGS = OPTIONAL_CFGS + SWEEP12 + SWEEPK + SWEEP48 + SWEEP54


def _sweep(name, strat, run, n12, nk, n48):
    return [Target(name, strat, run, {"quick": [], "thorough": SWEEP48}, quick=1, thorough=n48, job_size={"quick": 8, "thorough": 8}),
            Target(name, strat, run, {"quick": [], "thorough": SWEEPK}, quick=1, thorough=nk, job_size={"quick": 40, "thorough": 40}),
            Target(name, strat, run, {"quick": [], "thorough": SWEEP12}, quick=1, thorough=n12, job_size={"quick": 100, "thorough": 100})]


# per configuration; measured cost per case (two runs + reference powers, one worker): 0.1 - 0.7 s for k = 8 .. 24
# (0.5 - 0.9 s for the multi-pairings), 1.3 - 1.5 s for k = 48: about 6000 CPU-seconds in total (measured), a fifth of the budget
TARGETS = [Target("pair-bilin-54", strat_bilin54, run_bilin54, {"quick": [], "thorough": SWEEP54}, quick=1, thorough=40,
                  job_size={"quick": 5, "thorough": 5})] + \
    _sweep("pair-bilin-k", strat_bilin, run_bilin, 240, 240, 48) + \
    _sweep("pair-sim-k", strat_sim, run_sim, 120, 120, 32) + \
    _sweep("pair-fexp-k", strat_fexp, run_fexp, 40, 40, 16) + [
    Target("pair-bilin", strat_bilin, run_bilin, _cfgs(), quick=2400, thorough=12000),
    Target("pair-sim", strat_sim, run_sim, _cfgs(), quick=900, thorough=5000),
    Target("pair-fexp", strat_fexp, run_fexp, _cfgs(), quick=300, thorough=1500),
]

# ------------------------------------------------------------------------------ known findings (narrow matchers)

def _lit_failure(case, v, variants_):
    """the reference-checked value of a Tate / Weil variant is not bilinear or not of order r (no error, no crash, no
    UB, and never a case whose expected value is the identity: identity handling of these variants stays checked)"""
    d = v.details
    if d.get("crash") or d.get("ub") or d.get("errored"):
        return False
    if case.get("variant") not in variants_ or d.get("identity_expected"):
        return False
    return bool(d.get("not_bilinear") or d.get("order_not_r"))


def _kf_k16_lit(case, v, entry):
    """pp_map_tatep_k16 / pp_map_weilp_k16 (and their multi-pairings): pp_dbl_lit_k16 doubles the G1 point with the
    a = 0 formulas of y^2 = x^3 + b although every k = 16 family is y^2 = x^3 + ax (b = 0): the Miller-lite function is
    not the function of [r]P, the Tate value is not bilinear and the Weil value does not even have order r."""
    return v.details.get("kemb") == 16 and _lit_failure(case, v, ("pp_map_tatep_k16", "pp_map_weilp_k16"))


def _kf_k18_lit_dtype(case, v, entry):
    """pp_map_tatep_k18 / pp_map_weilp_k18 on D-type twists (K18_P354, K18_P508): pp_dbl_lit_k18 / pp_add_lit_k18 place
    the line coefficients for an M-type twist only (no ep3_curve_is_twist() switch, unlike pp_dbl_lit_k12)."""
    return v.details.get("kemb") == 18 and v.details.get("ttype") == 1 and \
        _lit_failure(case, v, ("pp_map_tatep_k18", "pp_map_weilp_k18"))


KNOWN_PREDICATES = {"pp_map_lit_k16_uses_a0_doubling": _kf_k16_lit,
                    "pp_map_lit_k18_dtype_twist": _kf_k18_lit_dtype}

"""C04 — the pairing is bilinear, non-degenerate and maps into the order-r group (DESIGN §2 C04)."""
import struct

from hypothesis import strategies as st

from engine import ecctx, pcctx
from engine.core import Target, Violation, Unsupported
from engine.gen import ints
from engine.proto import Prog
from engine.ref import ec as rec
from engine.ref import ext as rext

PROPERTY = "C04"
RULE = ("inputs P = [x]G1, Q = [y]G2 computed by the REFERENCE curve arithmetic (x, y from G-scalar(r): 0, +-1, r-1, r, "
        "r+1, negative, multiples of r, uniform), shipped affine or projective/Jacobian with generated Z; multi-pairing "
        "lists of 0..6 pairs with identities and cancelling pairs at generated positions; arbitrary Fp12 units for the "
        "final exponentiation. oracle (target-group arithmetic by the Python Fp12 tower, never gt_exp): "
        "e([x]G1,[y]G2) = g^(xy mod r) with g = e(G1,G2) of the same variant, g != 1, g^r = 1, identity in a slot => 1, "
        "pc_map_sim(list) = g^(sum x_i y_i), empty list => 1, representation independence, final exponentiation is a "
        "homomorphism into the order-r group; each of optimal-ate (pc_map), Tate and Weil separately. "
        "non-trivial: both inputs non-identity and xy mod r not in {0,1}, or a list of >= 2 pairs containing an identity")
ASSUMPTIONS = ["pairing inputs are members of G1/G2 or the identity (the pairing's contract; non-members are C12)",
               "[x]G1 and [y]G2 are computed by the reference so that a multiplication error cannot cancel out",
               "the tower non-residues and twist coefficients are read from the library and checked for consistency"]
BUDGET_S = {"quick": 260, "thorough": 1700}
JOB_SIZE = {"quick": 120, "thorough": 400}

VARIANTS = ["pc_map", "pp_map_oatep_k12", "pp_map_tatep_k12", "pp_map_weilp_k12"]
SIMV = {"pc_map": "pc_map_sim", "pp_map_oatep_k12": "pp_map_sim_oatep_k12", "pp_map_tatep_k12": "pp_map_sim_tatep_k12",
        "pp_map_weilp_k12": "pp_map_sim_weilp_k12"}
_G = {}


def gt_slot(p, x):
    return p.new("FPX", pcctx.enc_gt(x, x.F12.one))


def base_value(env, cfg, x, variant):
    """g = e(G1, G2) for this variant (library output, validated: g != 1 and g^r = 1 by the reference)."""
    key = (cfg, x.cid, variant)
    if key in _G:
        return _G[key]

    def build(p):
        s1 = p.new("EP", ecctx.enc_point(x.base, x.G1))
        s2 = p.new("EP2", pcctx.enc_point2(x, x.G2))
        sg = gt_slot(p, x)
        p.call(variant, sg, s1, s2)
        p.dump(sg)
        return sg
    res, sg = pcctx.run(env, cfg, x, build, 0x33)
    c = res.calls[0]
    if c.unsupported:
        raise Unsupported()
    if c.errored or c.ub:
        raise Violation("%s(G1, G2) reported an error / UB" % variant, call=repr(c))
    g = pcctx.dec_gt(x, res.dumps[sg], variant)
    F12 = x.F12
    if F12.eq(g, F12.one):
        raise Violation("%s: e(G1, G2) is the identity (degenerate)" % variant, cid=x.cid)
    if not F12.eq(F12.pow(g, x.r), F12.one):
        raise Violation("%s: e(G1, G2)^r != 1" % variant, cid=x.cid)
    _G[key] = g
    return g


def rep2(x):
    @st.composite
    def s(draw):
        kind = draw(st.sampled_from(["basic", "basic", "projc", "jacob"]))
        p = x.F.p
        z = (1, 0)
        if kind != "basic":
            z = (draw(ints.uniform(1, p - 1)), draw(st.one_of(st.just(0), ints.uniform(0, p - 1))))
        return {"kind": kind, "z": list(z), "inf": draw(st.integers(0, 1))}
    return s()


def rep1(x):
    @st.composite
    def s(draw):
        kind = draw(st.sampled_from(["basic", "basic", "projc", "jacob"]))
        z = 1 if kind == "basic" else draw(ints.uniform(1, x.F.p - 1))
        return {"kind": kind, "z": z, "inf": draw(st.integers(0, 1))}
    return s()


def kinds_ok(x, rep):
    """projective representations must match the build's coordinate system (what the library itself produces)"""
    b = x.base
    want = {b.BASIC: "basic", b.PROJC: "projc", b.JACOB: "jacob"}[b.EP_ADD]
    if rep["kind"] != "basic" and rep["kind"] != want:
        return dict(rep, kind=want)
    return rep


def chk(c, what):
    if c.unsupported:
        raise Unsupported()
    if c.ub:
        raise Violation("undefined behaviour in %s: %s" % (what, c.ub), ub=c.ub)
    if c.errored:
        raise Violation("%s reported an error (caught=%d e=%d code=%d) for valid input" % (what, c.caught, c.e, c.code))


# ------------------------------------------------------------------------------ bilinearity

def strat_bilin(env, cfg):
    x = pcctx.job_ctx(env, cfg)

    @st.composite
    def s(draw):
        sc = ints.scalar(x.r, x.r.bit_length() + 64)
        small = st.sampled_from([0, 1, 2, 3, -1, x.r - 1, x.r, x.r + 1, 5, 7])
        return dict(cid=x.cid, variant=draw(st.sampled_from(VARIANTS)), x=draw(st.one_of(sc, small)),
                    y=draw(st.one_of(sc, small)), rp=draw(rep1(x)), rq=draw(rep2(x)), poison=draw(st.integers(0, 255)))
    return s()


def run_bilin(env, cfg, case):
    x = pcctx.ctx_for(env, cfg, case["cid"])
    variant = case["variant"]
    g = base_value(env, cfg, x, variant)
    F12 = x.F12
    a, b = case["x"], case["y"]
    P = x.base.E.mul(a, x.G1)
    Q = x.E2c.mul(b % x.r, x.G2) if b % x.r else None
    rp, rq = kinds_ok(x, case["rp"]), kinds_ok(x, case["rq"])
    want = F12.pow(g, (a * b) % x.r)
    what = "%s[cid=%d]" % (variant, x.cid)

    def build(p):
        s1 = p.new("EP", ecctx.enc_point(x.base, P, rp["kind"], rp["z"], rp["inf"]))
        s2 = p.new("EP2", pcctx.enc_point2(x, Q, rq["kind"], tuple(rq["z"]), rq["inf"]))
        sg = gt_slot(p, x)
        p.call(variant, sg, s1, s2)
        p.dump(sg)
        return sg, s1, s2
    for pz in (case["poison"], case["poison"] ^ 0xFF):
        res, (sg, s1, s2) = pcctx.run(env, cfg, x, build, pz)
        c = res.calls[0]
        chk(c, what)
        got = pcctx.dec_gt(x, res.dumps[sg], what)
        if not F12.eq(got, want):
            raise Violation("%s: e([x]G1,[y]G2) != e(G1,G2)^(xy mod r)" % what, x=a, y=b,
                            identity_expected=(P is None or Q is None))
        if s1 in c.changed or s2 in c.changed:
            raise Violation("%s modified its input" % what)
    lab = ["variant:" + variant, "cid:%d" % x.cid, "reps:%s+%s" % (rp["kind"], rq["kind"])]
    if P is None or Q is None:
        lab.append("identity-in-slot")
    if a < 0 or b < 0:
        lab.append("scalar:negative")
    if abs(a) >= x.r or abs(b) >= x.r:
        lab.append("scalar:>=r")
    nt = P is not None and Q is not None and (a * b) % x.r not in (0, 1)
    return nt, lab


# ------------------------------------------------------------------------------ multi-pairing

def strat_sim(env, cfg):
    x = pcctx.job_ctx(env, cfg)

    @st.composite
    def s(draw):
        n = draw(st.sampled_from([0, 1, 2, 2, 3, 4, 6]))
        small = st.sampled_from([0, 0, 1, 2, -1, x.r - 1, x.r, 3])
        sc = st.one_of(small, ints.uniform(1, x.r - 1), small)
        pairs = []
        for i in range(n):
            if i and draw(st.integers(0, 4)) == 0:
                a, b = pairs[-1]
                pairs.append([-a, b])            # cancelling pair
            else:
                pairs.append([draw(sc), draw(sc)])
        # every pair in its own representation: the multi-pairing normalises (and compacts) its inputs itself
        reps = [[draw(rep1(x)), draw(rep2(x))] for _ in range(n)] if draw(st.integers(0, 2)) else []
        return dict(cid=x.cid, variant=draw(st.sampled_from(VARIANTS)), pairs=pairs, reps=reps,
                    poison=draw(st.integers(0, 255)))
    return s()


def run_sim(env, cfg, case):
    x = pcctx.ctx_for(env, cfg, case["cid"])
    variant = case["variant"]
    g = base_value(env, cfg, x, variant)
    F12 = x.F12
    pairs = case["pairs"]
    n = len(pairs)
    Ps = [x.base.E.mul(a, x.G1) for a, _ in pairs]
    Qs = [(x.E2c.mul(b % x.r, x.G2) if b % x.r else None) for _, b in pairs]
    e = sum(a * b for a, b in pairs) % x.r
    want = F12.pow(g, e)
    what = "%s[cid=%d](m=%d)" % (SIMV[variant], x.cid, n)

    reps = case.get("reps") or [[dict(kind="basic", z=1, inf=0), dict(kind="basic", z=[1, 0], inf=0)]] * n
    reps = [[kinds_ok(x, a), kinds_ok(x, b)] for a, b in reps]

    def build(p):
        b1 = b"".join(ecctx.enc_point(x.base, P, r[0]["kind"], r[0]["z"], r[0]["inf"]) for P, r in zip(Ps, reps))
        s1 = p.new("EPV", struct.pack("<II", n, n) + b1)
        b2 = b"".join(pcctx.enc_point2(x, Q, r[1]["kind"], tuple(r[1]["z"]), r[1]["inf"])[1:] for Q, r in zip(Qs, reps))
        s2 = p.new("EP2V", bytes([2]) + struct.pack("<II", n, n) + b2)
        sg = gt_slot(p, x)
        p.call(SIMV[variant], sg, s1, s2, n)
        p.dump(sg)
        return sg, s1, s2
    for pz in (case["poison"], case["poison"] ^ 0xFF):
        res, (sg, s1, s2) = pcctx.run(env, cfg, x, build, pz)
        c = res.calls[0]
        chk(c, what)
        got = pcctx.dec_gt(x, res.dumps[sg], what)
        if not F12.eq(got, want):
            raise Violation("%s: multi-pairing != product of the individual pairings" % what, pairs=pairs)
        if s1 in c.changed or s2 in c.changed:
            raise Violation("%s modified its input" % what)
    ident = sum(1 for P, Q in zip(Ps, Qs) if P is None or Q is None)
    lab = ["variant:" + SIMV[variant], "cid:%d" % x.cid, "sim:m=%d" % n, "sim:identities=%d" % min(ident, 3)]
    if any(a["kind"] != "basic" or b["kind"] != "basic" for a, b in reps):
        lab.append("sim:projective-input")
    return (n >= 2 and ident >= 1) or (n >= 2 and e not in (0, 1)) or n == 0, lab


# ------------------------------------------------------------------------------ final exponentiation

def strat_fexp(env, cfg):
    x = pcctx.job_ctx(env, cfg)
    p = x.F.p

    @st.composite
    def s(draw):
        def elem():
            k = draw(st.integers(0, 3))
            if k == 0:
                return [draw(st.sampled_from([0, 1, 2, p - 1])) for _ in range(12)]
            v = [draw(ints.uniform(0, p - 1)) for _ in range(12)]
            if k == 1:
                for i in range(12):
                    if draw(st.booleans()):
                        v[i] = 0
            return v
        f1, f2 = elem(), elem()
        return dict(cid=x.cid, f1=f1, f2=f2, poison=draw(st.integers(0, 255)))
    return s()


def run_fexp(env, cfg, case):
    x = pcctx.ctx_for(env, cfg, case["cid"])
    F12 = x.F12
    f1, f2 = F12.unflatten(case["f1"]), F12.unflatten(case["f2"])
    if F12.is_zero(f1) or F12.is_zero(f2):
        raise Unsupported()
    f3 = F12.mul(f1, f2)
    what = "pp_exp_k12[cid=%d]" % x.cid

    def build(p):
        outs = []
        for f in (f1, f2, f3):
            sa = p.new("FPX", pcctx.enc_gt(x, f))
            sc = gt_slot(p, x)
            p.call("pp_exp_k12", sc, sa)
            p.dump(sc)
            outs.append(sc)
        return outs
    res, outs = pcctx.run(env, cfg, x, build, case["poison"])
    for c in res.calls:
        chk(c, what)
    e1, e2, e3 = (pcctx.dec_gt(x, res.dumps[s_], what) for s_ in outs)
    if not F12.eq(F12.mul(e1, e2), e3):
        raise Violation("%s is not multiplicative: exp(f1 f2) != exp(f1) exp(f2)" % what)
    if not F12.eq(F12.pow(e1, x.r), F12.one):
        raise Violation("%s: result does not have order dividing r" % what)
    return True, ["op:pp_exp_k12", "cid:%d" % x.cid]


def self_test():
    rec.self_test()
    rext.self_test()


def _cfgs():
    return {"quick": ["base256"], "thorough": ["base256", "p381", "p381-qnres"]}


OPTIONAL_CFGS = ["p381-qnres"]

TARGETS = [
    Target("pair-bilin", strat_bilin, run_bilin, _cfgs(), quick=2400, thorough=12000),
    Target("pair-sim", strat_sim, run_sim, _cfgs(), quick=900, thorough=5000),
    Target("pair-fexp", strat_fexp, run_fexp, _cfgs(), quick=300, thorough=1500),
]

KNOWN_PREDICATES = {}

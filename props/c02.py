"""C02 — prime-field arithmetic realises Z/pZ with canonical results (DESIGN §2 C02).

Field elements are shipped as raw internal digit vectors (Montgomery form where the build uses it) and read
back raw: the oracle checks the value AND that the raw vector is < p (canonical form)."""
import struct

from hypothesis import strategies as st

from engine.core import Target, Violation, Unsupported
from engine.gen import ints
from engine.proto import Prog, ERR, RLC_EQ, RLC_NE
from engine.ref import fp as rfp

PROPERTY = "C02"
RULE = ("Hypothesis-generated residues (0, 1, 2, p-1, p-2, (p+-1)/2, R mod p, values whose internal (Montgomery) "
        "digit vector has zero / all-ones / extreme digits, squares, non-squares, cubes, random), exponents "
        "(0, +-1, p-1, p, p+1, (p-1)/2, negative, up to the bignum precision), double-length reduction inputs built "
        "to hit the final-subtraction and carry-out branches, alias patterns, for every prime selectable in the "
        "build and every algorithm variant; oracle = Python modular arithmetic on the value + canonical form "
        "(raw digit vector < p) + input preservation + poison independence. non-trivial: operands not in {0,1}, "
        "or an alias, or a root/symbol query on a non-residue, or a reduction input needing the final correction. "
        "distinct = distinct (target, cfg, case) hashes")
ASSUMPTIONS = ["inputs to fp_* are canonical residues in the build's internal representation (the API contract)",
               "fp_exp_slide with an exponent longer than RLC_FP_BITS+1 bits may report ERR_NO_BUFFER instead of a value",
               "fp_lsh/fp_rsh/fp_get_bit/fp_bits are digit-vector operations by documentation"]
BUDGET_S = {"quick": 220, "thorough": 1500}
JOB_SIZE = {"quick": 2000, "thorough": 5000}

_CTX = {}


def fields(env, cfg):
    """All primes selectable in this build: [(fid, Field)], found by probing every identifier against a
    scrambled (dense, foreign) modulus."""
    if cfg in _CTX:
        return _CTX[cfg]
    import sympy
    r = env.runner(cfg)
    inf = r.info("info_fp")
    bits, digs, W, rdc = inf[0], inf[1], inf[2], inf[3]
    monty = rdc == inf[12]
    scr = int(sympy.nextprime((1 << (bits - 1)) + 0x1234567))
    quick = rdc == inf[13]
    sparse = None
    if quick:
        # sparse-form builds refuse dense primes: scramble with a foreign pseudo-Mersenne prime 2^bits - c instead
        c_ = 1
        while not sympy.isprime((1 << bits) - c_) or c_ in (19, 189):
            c_ += 2
        scr, sparse = (1 << bits) - c_, c_
    out = []
    for fid in range(1, 70):
        p = Prog()
        if quick:
            p.call("fp_prime_set_pmers", -sparse, bits, 2)
        else:
            p.call("fp_prime_set_dense", p.bn(scr))
        p.call("fp_param_set", fid)
        p.call("fp_prime_get")
        res = r.run(p)
        if res.calls[0].unsupported:
            raise Unsupported()
        if res.calls[1].errored:
            continue
        prime = int.from_bytes(res.calls[2].blobs[0], "little")
        if prime != scr and prime > 3:
            out.append((fid, rfp.Field(fid, prime, W, digs, monty)))
    _CTX[cfg] = dict(fields=out, bits=bits, digs=digs, W=W, monty=monty, cur=None, inf=inf)
    return _CTX[cfg]


_HIST = {"prev": None}


def select(env, cfg, prog, fid):
    """Prepend the field selection only when the runner has another field active. With a history step pending
    (`with_history`) the other prime is selected immediately before: state left behind by it must not matter."""
    ctx = fields(env, cfg)
    r = env.runner(cfg)
    key = r.epoch()
    prev = _HIST["prev"]
    if prev is not None and prev != fid:
        prog.call("fp_param_set", prev)
        prog.call("fp_param_set", fid)
        ctx["cur"] = (key, fid)
        return 2
    if ctx["cur"] != (key, fid):
        prog.call("fp_param_set", fid)
        ctx["cur"] = (key, fid)
        return 1
    return 0


def field_of(env, cfg, fid):
    for f, F in fields(env, cfg)["fields"]:
        if f == fid:
            return F
    raise Unsupported()


# ------------------------------------------------------------------------------ generators

def residue(F):
    p = F.p
    special = [0, 1, 2, 3, p - 1, p - 2, (p - 1) // 2, (p + 1) // 2, F.R % p, F.Rinv, (F.R * F.R) % p, 4, 9, p - 4]

    @st.composite
    def s(draw):
        k = draw(st.integers(0, 7))
        if k <= 1:
            return draw(st.sampled_from(special))
        if k == 2:
            # raw digit pattern -> value
            raw = draw(ints.magnitude(F.W, F.digs)) % p
            return raw * F.Rinv % p if F.monty else raw
        if k == 3:
            t = draw(ints.uniform(1, p - 1))
            return t * t % p
        if k == 4:
            t = draw(ints.uniform(0, 1 << 64))
            return t
        if k == 5:
            t = draw(ints.uniform(1, p - 1))
            return p - (t * t % p)      # non-residue when p = 3 mod 4, otherwise just another value
        return draw(ints.uniform(0, p - 1))
    return s()


def pick_field(ctx):
    return st.sampled_from([f for f, _ in ctx["fields"]])


def exponent(F, maxbits):
    p = F.p
    special = [0, 1, 2, 3, -1, -2, p - 1, p, p + 1, (p - 1) // 2, (p + 1) // 2, p - 2, 2 * p - 2, 2 * p, -(p - 1), -p,
               (1 << F.p.bit_length()) - 1, 1 << (F.p.bit_length()), (1 << (F.p.bit_length() + 1)) - 1]

    @st.composite
    def s(draw):
        k = draw(st.integers(0, 5))
        if k <= 1:
            return draw(st.sampled_from(special))
        if k == 2:
            v = draw(ints.uniform(0, p))
            return -v if draw(st.booleans()) else v
        if k == 3:
            b = draw(st.integers(1, maxbits))
            return draw(ints.uniform(1 << (b - 1), (1 << b) - 1))
        if k == 4:
            b = draw(st.integers(0, min(maxbits, F.p.bit_length() + 1)))
            return (1 << b) - draw(st.sampled_from([0, 1]))
        return draw(ints.uniform(0, 1 << 64))
    return s()


# ------------------------------------------------------------------------------ helpers

def run_prog(env, cfg, fid, build, poison):
    outs = []
    for pz in (poison, poison ^ 0xFF):
        p = Prog(poison=pz)
        skip = select(env, cfg, p, fid)
        meta = build(p)
        try:
            res = env.runner(cfg).run(p)
        except Exception:
            fields(env, cfg)["cur"] = None
            raise
        if res.failed_new:
            raise Unsupported()
        res.calls = res.calls[skip:]
        outs.append((res, meta))
    return outs


def chk_call(c, what, allow_error=False):
    if c.unsupported:
        raise Unsupported()
    if c.ub:
        raise Violation("undefined behaviour reported in %s: %s" % (what, c.ub), ub=c.ub)
    if c.errored and not allow_error:
        raise Violation("%s reported an error (caught=%d e=%d code=%d) for a valid input" % (what, c.caught, c.e, c.code))


def chk_elem(F, blob, want, what):
    v, raw = F.dec(blob)
    if v is None:
        raise Violation("%s: result not canonical (raw digit vector >= p)" % what, raw=raw, p=F.p)
    if want is not None and v != want % F.p:
        raise Violation("%s: wrong value" % what, got=v, want=want % F.p)
    return v


def chk_inputs(c, ins, outs, what):
    bad = [ins[s] for s in c.changed if s in ins and s not in outs]
    if bad:
        raise Violation("%s modified its input(s) %s" % (what, bad))


# ------------------------------------------------------------------------------ binary ops

BIN = {}
for _n in ("fp_add", "fp_add_basic", "fp_add_integ"):
    BIN[_n] = lambda a, b, p: (a + b) % p
for _n in ("fp_sub", "fp_sub_basic", "fp_sub_integ"):
    BIN[_n] = lambda a, b, p: (a - b) % p
for _n in ("fp_mul", "fp_mul_basic", "fp_mul_comba", "fp_mul_integ", "fp_mul_karat"):
    BIN[_n] = lambda a, b, p: (a * b) % p


def strat_bin(env, cfg):
    ctx = fields(env, cfg)

    @st.composite
    def s(draw):
        fid = draw(pick_field(ctx))
        F = field_of(env, cfg, fid)
        op = draw(st.sampled_from(sorted(BIN)))
        alias = draw(st.sampled_from([0, 0, 1, 2, 3, 4]))
        a = draw(residue(F))
        b = a if alias >= 3 else draw(st.one_of(residue(F), st.sampled_from([a, F.p - a, (a + 1) % F.p, (F.p - a + 1) % F.p])))
        return dict(fid=fid, op=op, a=a % F.p, b=b % F.p, alias=alias, stale=draw(residue(F)) % F.p,
                    poison=draw(st.integers(0, 255)))
    return s()


def run_bin(env, cfg, case):
    F = field_of(env, cfg, case["fid"])
    op, a, b, alias = case["op"], case["a"], case["b"], case["alias"]
    want = BIN[op](a, b, F.p)

    def build(p):
        sa = p.new("FP", F.enc(a))
        sb = sa if alias >= 3 else p.new("FP", F.enc(b))
        sc = p.new("FP", F.enc(case["stale"])) if alias in (0, 3) else (sa if alias in (1, 4) else sb)
        p.call(op, sc, sa, sb)
        p.dump(sc)
        ins = {}
        if sa != sc:
            ins[sa] = "a"
        if sb != sc:
            ins[sb] = "b"
        return sc, ins
    what = "%s[fid=%d](alias=%d)" % (op, case["fid"], alias)
    for res, (sc, ins) in run_prog(env, cfg, case["fid"], build, case["poison"]):
        c = res.calls[0]
        chk_call(c, what)
        chk_elem(F, res.dumps[sc], want, what)
        chk_inputs(c, ins, {sc}, what)
    pre = (a + b) if "add" in op else 0
    nt = alias != 0 or (a > 1 and b > 1)
    return nt, ["op:" + op, "fid:%d" % case["fid"], "alias:%d" % alias] + (["add:needs-subtraction"] if pre >= F.p else [])


# ------------------------------------------------------------------------------ unary ops

def _inv(a, p):
    return pow(a, -1, p)


UN = {}
for _n in ("fp_neg", "fp_neg_basic", "fp_neg_integ"):
    UN[_n] = lambda a, p: (-a) % p
for _n in ("fp_dbl", "fp_dbl_basic", "fp_dbl_integ"):
    UN[_n] = lambda a, p: 2 * a % p
for _n in ("fp_hlv", "fp_hlv_basic", "fp_hlv_integ"):
    UN[_n] = lambda a, p: a * _inv(2, p) % p
for _n in ("fp_sqr", "fp_sqr_basic", "fp_sqr_comba", "fp_sqr_integ", "fp_sqr_karat"):
    UN[_n] = lambda a, p: a * a % p
for _n in ("fp_inv", "fp_inv_basic", "fp_inv_binar", "fp_inv_monty", "fp_inv_exgcd", "fp_inv_divst", "fp_inv_jmpds",
           "fp_inv_lower"):
    UN[_n] = lambda a, p: _inv(a, p)
UN["fp_copy"] = lambda a, p: a
UN["fp_trs"] = lambda a, p: a * _inv(3, p) % p


def strat_un(env, cfg):
    ctx = fields(env, cfg)

    @st.composite
    def s(draw):
        fid = draw(pick_field(ctx))
        F = field_of(env, cfg, fid)
        op = draw(st.sampled_from(sorted(UN)))
        return dict(fid=fid, op=op, a=draw(residue(F)) % F.p, alias=draw(st.sampled_from([0, 1])),
                    stale=draw(residue(F)) % F.p, poison=draw(st.integers(0, 255)))
    return s()


def run_un(env, cfg, case):
    F = field_of(env, cfg, case["fid"])
    op, a, alias = case["op"], case["a"], case["alias"]
    inv0 = op.startswith("fp_inv") and a == 0
    if op == "fp_trs" and F.monty is False:
        pass
    want = None if inv0 else UN[op](a, F.p)

    def build(p):
        sa = p.new("FP", F.enc(a))
        sc = sa if alias else p.new("FP", F.enc(case["stale"]))
        p.call(op, sc, sa)
        p.dump(sc)
        return sc, ({} if alias else {sa: "a"})
    what = "%s[fid=%d](alias=%d)" % (op, case["fid"], alias)
    for res, (sc, ins) in run_prog(env, cfg, case["fid"], build, case["poison"]):
        c = res.calls[0]
        if inv0:
            chk_call(c, what, allow_error=True)
            if not c.errored:
                raise Violation("%s: inversion of zero was not reported as an error" % what,
                                result=repr(F.dec(res.dumps[sc])))
            continue
        chk_call(c, what)
        chk_elem(F, res.dumps[sc], want, what)
        chk_inputs(c, ins, {sc}, what)
    return (alias != 0 or a > 1 or inv0), ["op:" + op, "fid:%d" % case["fid"]] + (["inv:zero"] if inv0 else [])


# ------------------------------------------------------------------------------ roots and symbols

def strat_root(env, cfg):
    ctx = fields(env, cfg)

    @st.composite
    def s(draw):
        fid = draw(pick_field(ctx))
        F = field_of(env, cfg, fid)
        op = draw(st.sampled_from(["fp_srt", "fp_srt", "fp_is_sqr", "fp_crt", "fp_is_cub", "fp_smb", "fp_smb_basic",
                                   "fp_smb_binar", "fp_smb_divst", "fp_smb_jmpds", "fp_smb_lower"]))
        a = draw(residue(F)) % F.p
        k = draw(st.integers(0, 3))
        if k == 0:
            t = draw(ints.uniform(1, F.p - 1))
            a = t * t * t % F.p
        return dict(fid=fid, op=op, a=a, alias=draw(st.sampled_from([0, 1])), stale=draw(residue(F)) % F.p,
                    poison=draw(st.integers(0, 255)))
    return s()


def run_root(env, cfg, case):
    F = field_of(env, cfg, case["fid"])
    op, a, alias = case["op"], case["a"], case["alias"]
    p_ = F.p
    what = "%s[fid=%d]" % (op, case["fid"])
    labels = ["op:" + op, "fid:%d" % case["fid"]]
    if op in ("fp_srt", "fp_crt"):
        def build(p):
            sa = p.new("FP", F.enc(a))
            sc = sa if alias else p.new("FP", F.enc(case["stale"]))
            p.call(op, sc, sa)
            p.dump(sc)
            return sc, ({} if alias else {sa: "a"})
        exists = rfp.is_square(a, p_) if op == "fp_srt" else rfp.is_cube(a, p_)
        for res, (sc, ins) in run_prog(env, cfg, case["fid"], build, case["poison"]):
            c = res.calls[0]
            chk_call(c, what)
            ret = c.rets[0]
            if bool(ret) != exists:
                raise Violation("%s: returned %d but a root %s" % (what, ret, "exists" if exists else "does not exist"))
            chk_inputs(c, ins, {sc}, what)
            if exists:
                r = chk_elem(F, res.dumps[sc], None, what)
                back = r * r % p_ if op == "fp_srt" else pow(r, 3, p_)
                if back != a:
                    raise Violation("%s: returned value is not a root" % what, root=r, a=a)
            else:
                # no root: whatever is left in c must still be a canonical element
                chk_elem(F, res.dumps[sc], None, what + " (no-root output)")
        labels.append("root:exists" if exists else "root:none")
        return (a > 1 or not exists), labels
    results = []
    for pz in (case["poison"], case["poison"] ^ 0xFF):
        p = Prog(poison=pz)
        skip = select(env, cfg, p, case["fid"])
        sa = p.new("FP", F.enc(a))
        p.call(op, sa)
        try:
            res = env.runner(cfg).run(p)
        except Exception:
            fields(env, cfg)["cur"] = None
            raise
        c = res.calls[skip]
        chk_call(c, what)
        if c.changed:
            raise Violation("%s modified its input" % what)
        results.append(c)
    if op == "fp_is_sqr":
        want = int(rfp.is_square(a, p_))
    elif op == "fp_is_cub":
        want = int(rfp.is_cube(a, p_))
    else:
        want = rfp.legendre(a, p_)
    for c in results:
        got = c.ret_i(0)
        if got != want:
            raise Violation("%s wrong" % what, got=got, want=want, a=a)
    labels.append("symbol:%d" % rfp.legendre(a, p_))
    return a > 1, labels


# ------------------------------------------------------------------------------ digit forms

def strat_dig(env, cfg):
    ctx = fields(env, cfg)

    @st.composite
    def s(draw):
        fid = draw(pick_field(ctx))
        F = field_of(env, cfg, fid)
        op = draw(st.sampled_from(["fp_add_dig", "fp_sub_dig", "fp_mul_dig", "fp_exp_dig", "fp_set_dig", "fp_cmp_dig",
                                   "fp_prime_conv_dig"]))
        a = draw(residue(F)) % F.p
        d = draw(ints.digit(F.W))
        if op == "fp_cmp_dig" and draw(st.booleans()):
            a = d % F.p
        return dict(fid=fid, op=op, a=a, d=d, alias=draw(st.sampled_from([0, 1])), stale=draw(residue(F)) % F.p,
                    poison=draw(st.integers(0, 255)))
    return s()


def run_dig(env, cfg, case):
    F = field_of(env, cfg, case["fid"])
    op, a, d, alias = case["op"], case["a"], case["d"], case["alias"]
    p_ = F.p
    what = "%s[fid=%d](d=%d)" % (op, case["fid"], d)
    labels = ["op:" + op, "fid:%d" % case["fid"]]
    if op == "fp_cmp_dig":
        for pz in (case["poison"], case["poison"] ^ 0xFF):
            p = Prog(poison=pz)
            skip = select(env, cfg, p, case["fid"])
            sa = p.new("FP", F.enc(a))
            p.call(op, sa, d)
            res = env.runner(cfg).run(p)
            c = res.calls[skip]
            chk_call(c, what)
            want = RLC_EQ if a == d % p_ else RLC_NE
            if c.ret_i(0) != want or c.changed:
                raise Violation("%s wrong / modified input" % what, got=c.ret_i(0), want=want)
        return True, labels
    if op in ("fp_set_dig", "fp_prime_conv_dig"):
        want = d % p_
    elif op == "fp_add_dig":
        want = (a + d) % p_
    elif op == "fp_sub_dig":
        want = (a - d) % p_
    elif op == "fp_mul_dig":
        want = a * d % p_
    else:
        want = pow(a, d, p_)

    def build(p):
        if op in ("fp_set_dig", "fp_prime_conv_dig"):
            sc = p.new("FP", F.enc(case["stale"]))
            p.call(op, sc, d)
            p.dump(sc)
            return sc, {}
        sa = p.new("FP", F.enc(a))
        sc = sa if alias else p.new("FP", F.enc(case["stale"]))
        p.call(op, sc, sa, d)
        p.dump(sc)
        return sc, ({} if alias else {sa: "a"})
    for res, (sc, ins) in run_prog(env, cfg, case["fid"], build, case["poison"]):
        c = res.calls[0]
        chk_call(c, what)
        chk_elem(F, res.dumps[sc], want, what)
        chk_inputs(c, ins, {sc}, what)
    return (a > 1 and d > 1) or alias != 0, labels


# ------------------------------------------------------------------------------ exponentiation

def strat_exp(env, cfg):
    ctx = fields(env, cfg)

    @st.composite
    def s(draw):
        fid = draw(pick_field(ctx))
        F = field_of(env, cfg, fid)
        op = draw(st.sampled_from(["fp_exp", "fp_exp_basic", "fp_exp_slide", "fp_exp_monty"]))
        return dict(fid=fid, op=op, a=draw(residue(F)) % F.p, e=draw(exponent(F, 1024)),
                    alias=draw(st.sampled_from([0, 1])), stale=draw(residue(F)) % F.p, poison=draw(st.integers(0, 255)))
    return s()


def run_exp(env, cfg, case):
    F = field_of(env, cfg, case["fid"])
    ctx = fields(env, cfg)
    op, a, e, alias = case["op"], case["a"], case["e"], case["alias"]
    p_ = F.p
    what = "%s[fid=%d]" % (op, case["fid"])
    zero_inv = (a == 0 and e < 0)
    want = None if zero_inv else pow(a, e, p_)
    slide = op == "fp_exp_slide" or (op == "fp_exp" and ctx["inf"][10] == 2)   # FP_EXP == SLIDE
    long_for_slide = abs(e).bit_length() > ctx["bits"] + 1

    def build(p):
        sa = p.new("FP", F.enc(a))
        se = p.bn(e)
        sc = sa if alias else p.new("FP", F.enc(case["stale"]))
        p.call(op, sc, sa, se)
        p.dump(sc)
        ins = {se: "e"}
        if not alias:
            ins[sa] = "a"
        return sc, ins
    for res, (sc, ins) in run_prog(env, cfg, case["fid"], build, case["poison"]):
        c = res.calls[0]
        if zero_inv:
            chk_call(c, what, allow_error=True)
            if not c.errored:
                raise Violation("%s: 0^negative did not report an error" % what)
            continue
        if c.errored and long_for_slide and not c.ub:
            # sliding-window recoding buffer is sized for RLC_FP_BITS+1 bits: a cleanly reported error is accepted
            continue
        chk_call(c, what)
        chk_elem(F, res.dumps[sc], want, what)
        chk_inputs(c, ins, {sc}, what)
    labels = ["op:" + op, "fid:%d" % case["fid"], "exp:%s" % ("neg" if e < 0 else "zero" if e == 0 else
                                                            "gt-p" if e > p_ else "le-p")]
    if long_for_slide:
        labels.append("exp:beyond-window-buffer")
    return (a > 1 and e not in (0, 1)), labels


# ------------------------------------------------------------------------------ reductions

def strat_rdc(env, cfg):
    ctx = fields(env, cfg)

    @st.composite
    def s(draw):
        fid = draw(pick_field(ctx))
        F = field_of(env, cfg, fid)
        p, R = F.p, F.R
        op = draw(st.sampled_from(["fp_rdc", "fp_rdc_basic", "fp_rdc_monty_basic", "fp_rdc_monty_comba", "fp_rdc_quick"]))
        # the documented input is "the multiplication result to reduce": T = x*y with x, y canonical (raw) elements
        def raw():
            return st.one_of(st.sampled_from([0, 1, 2, p - 1, p - 2, (p - 1) // 2, R % p, (1 << (p.bit_length() - 1)),
                                              (1 << (p.bit_length() - 1)) - 1]),
                             ints.magnitude(F.W, F.digs).map(lambda v: v % p), ints.uniform(0, p - 1), ints.uniform(0, p - 1))
        x = draw(raw())
        y = draw(st.one_of(raw(), st.just(x), st.just(p - 1 - x if x < p else 0)))
        T = x * y
        return dict(fid=fid, op=op, T=T, stale=draw(residue(F)) % F.p, poison=draw(st.integers(0, 255)))
    return s()


def run_rdc(env, cfg, case):
    F = field_of(env, cfg, case["fid"])
    ctx = fields(env, cfg)
    op, T = case["op"], case["T"]
    p_, R = F.p, F.R
    if not (0 <= T <= (p_ - 1) * (p_ - 1)):
        raise Unsupported()
    inf = ctx["inf"]
    mode = {"fp_rdc_basic": "basic", "fp_rdc_monty_basic": "monty", "fp_rdc_monty_comba": "monty",
            "fp_rdc_quick": "quick"}.get(op)
    if mode is None:
        mode = "monty" if inf[3] == inf[12] else ("quick" if inf[3] == inf[13] else "basic")
    if mode == "quick":
        # only defined for sparse-form primes
        p0 = Prog()
        sk = select(env, cfg, p0, case["fid"])
        p0.call("fp_prime_get_sps")
        r0 = env.runner(cfg).run(p0).calls[sk]
        if not r0.rets[0]:
            raise Unsupported()
    want_raw = (T * pow(R, -1, p_)) % p_ if mode == "monty" else T % p_
    what = "%s[fid=%d]" % (op, case["fid"])

    def build(p):
        nb = 2 * F.nbytes
        st_ = p.new("DV", struct.pack("<I", nb) + T.to_bytes(nb, "little"))
        sc = p.new("FP", F.enc(case["stale"]))
        p.call(op, sc, st_)
        p.dump(sc)
        return sc
    for res, sc in run_prog(env, cfg, case["fid"], build, case["poison"]):
        c = res.calls[0]
        chk_call(c, what)
        raw = int.from_bytes(res.dumps[sc], "little")
        if raw >= p_:
            raise Violation("%s: result not canonical (>= p)" % what, raw=raw, T=T)
        if raw != want_raw:
            raise Violation("%s: wrong value" % what, got=raw, want=want_raw, T=T)
    labels = ["op:" + op, "fid:%d" % case["fid"]]
    if mode == "monty":
        m = (T % R) * ((-pow(p_, -1, R)) % R) % R
        v = (T + m * p_) // R
        labels.append("rdc:pre>=2^n" if v >= R else ("rdc:pre>=p" if v >= p_ else "rdc:pre<p"))
        nt = v >= p_ or T >= R
    else:
        nt = T >= p_
    return nt, labels


# ------------------------------------------------------------------------------ conversions and raw ops

def strat_conv(env, cfg):
    ctx = fields(env, cfg)

    @st.composite
    def s(draw):
        fid = draw(pick_field(ctx))
        F = field_of(env, cfg, fid)
        op = draw(st.sampled_from(["fp_prime_conv", "fp_prime_back", "fp_is_zero", "fp_is_even", "fp_cmp", "fp_bits",
                                   "fp_get_bit", "fp_lsh", "fp_rsh", "fp_zero"]))
        a = draw(residue(F)) % F.p
        b = draw(st.one_of(residue(F), st.just(a))) % F.p
        k = draw(st.integers(0, 6))
        n = draw(st.one_of(ints.g_int(F.W, 2 * F.digs), st.sampled_from([F.p, -F.p, F.p - 1, F.p + 1, 2 * F.p, -1, 0]))) \
            if k else draw(ints.uniform(0, F.p - 1))
        bit = draw(st.integers(0, F.W * F.digs - 1))
        return dict(fid=fid, op=op, a=a, b=b, n=n, bit=bit, sh=draw(st.sampled_from([0, 1, F.W - 1, F.W, F.W + 1, bit])),
                    poison=draw(st.integers(0, 255)))
    return s()


def run_conv(env, cfg, case):
    F = field_of(env, cfg, case["fid"])
    op, a, b, n = case["op"], case["a"], case["b"], case["n"]
    p_ = F.p
    what = "%s[fid=%d]" % (op, case["fid"])
    labels = ["op:" + op, "fid:%d" % case["fid"]]
    top = (1 << (F.W * F.digs)) - 1
    for pz in (case["poison"], case["poison"] ^ 0xFF):
        p = Prog(poison=pz)
        skip = select(env, cfg, p, case["fid"])
        if op == "fp_prime_conv":
            sc = p.new("FP", F.enc(a))
            sn = p.bn(n)
            p.call(op, sc, sn)
            p.dump(sc)
            res = env.runner(cfg).run(p)
            c = res.calls[skip]
            chk_call(c, what)
            chk_elem(F, res.dumps[sc], n % p_, what)
            if sn in c.changed:
                raise Violation("%s modified its input" % what)
            labels.append("conv:%s" % ("neg" if n < 0 else "ge-p" if n >= p_ else "lt-p"))
        elif op == "fp_prime_back":
            sa = p.new("FP", F.enc(a))
            sn = p.bn(n if abs(n) < (1 << 1024) else 0)
            p.call(op, sn, sa)
            p.dump(sn)
            res = env.runner(cfg).run(p)
            c = res.calls[skip]
            chk_call(c, what)
            raw = res.dumps[sn]
            if raw.normal_form_error() or raw.value != a or sa in c.changed:
                raise Violation("%s wrong" % what, got=repr(raw), want=a)
        elif op == "fp_zero":
            sa = p.new("FP", F.enc(a))
            p.call(op, sa)
            p.dump(sa)
            res = env.runner(cfg).run(p)
            chk_call(res.calls[skip], what)
            chk_elem(F, res.dumps[sa], 0, what)
        elif op in ("fp_lsh", "fp_rsh"):
            raw_a = F.to_raw_int(a)
            sa = p.new("FP", F.enc(a))
            sc = p.new("FP", F.enc(b))
            p.call(op, sc, sa, case["sh"])
            p.dump(sc)
            res = env.runner(cfg).run(p)
            c = res.calls[skip]
            chk_call(c, what)
            want = ((raw_a << case["sh"]) & top) if op == "fp_lsh" else (raw_a >> case["sh"])
            got = int.from_bytes(res.dumps[sc], "little")
            if got != want or sa in c.changed:
                raise Violation("%s: wrong digit-vector shift" % what, got=got, want=want, sh=case["sh"])
        else:
            sa = p.new("FP", F.enc(a))
            if op == "fp_cmp":
                sb = p.new("FP", F.enc(b))
                p.call(op, sa, sb)
            elif op == "fp_get_bit":
                p.call(op, sa, case["bit"])
            else:
                p.call(op, sa)
            res = env.runner(cfg).run(p)
            c = res.calls[skip]
            chk_call(c, what)
            if c.changed:
                raise Violation("%s modified its input" % what)
            raw_a = F.to_raw_int(a)
            want = {"fp_is_zero": lambda: int(a == 0), "fp_is_even": lambda: int(a % 2 == 0),
                    "fp_cmp": lambda: RLC_EQ if a == b else RLC_NE, "fp_bits": lambda: raw_a.bit_length(),
                    "fp_get_bit": lambda: (raw_a >> case["bit"]) & 1}[op]()
            got = c.ret_i(0)
            if got != want:
                raise Violation("%s wrong" % what, got=got, want=want, a=a)
    return True, labels


# ------------------------------------------------------------------------------ simultaneous inversion

def strat_invsim(env, cfg):
    ctx = fields(env, cfg)

    @st.composite
    def s(draw):
        fid = draw(pick_field(ctx))
        F = field_of(env, cfg, fid)
        n = draw(st.sampled_from([1, 2, 3, 4, 8, 9, 17]))
        xs = [draw(st.one_of(ints.uniform(1, F.p - 1), st.sampled_from([1, 2, F.p - 1]))) for _ in range(n)]
        return dict(fid=fid, xs=xs, alias=draw(st.booleans()), poison=draw(st.integers(0, 255)))
    return s()


def run_invsim(env, cfg, case):
    F = field_of(env, cfg, case["fid"])
    xs = case["xs"]
    n = len(xs)
    what = "fp_inv_sim[fid=%d](n=%d)" % (case["fid"], n)

    def build(p):
        pay = b"".join(F.to_raw_int(x).to_bytes(F.nbytes, "little") for x in xs)
        sa = p.new("FPV", struct.pack("<II", n, len(pay)) + pay)
        if case["alias"]:
            sc = sa
        else:
            junk = b"".join(F.to_raw_int(7 + i).to_bytes(F.nbytes, "little") for i in range(n))
            sc = p.new("FPV", struct.pack("<II", n, len(junk)) + junk)
        p.call("fp_inv_sim", sc, sa, n)
        p.dump(sc)
        return sc, sa
    for res, (sc, sa) in run_prog(env, cfg, case["fid"], build, case["poison"]):
        c = res.calls[0]
        chk_call(c, what)
        blob = res.dumps[sc]
        for i, x in enumerate(xs):
            chk_elem(F, blob[i * F.nbytes:(i + 1) * F.nbytes], pow(x, -1, F.p), what + "[%d]" % i)
        if sa != sc and sa in c.changed:
            raise Violation("%s modified its input" % what)
    return n >= 2, ["op:fp_inv_sim", "n:%d" % n]


def self_test():
    rfp.self_test()


def _cfgs():
    return {"quick": ["base256"], "thorough": ["base256", "p255", "p381", "p381-qnres", "fp-quick", "fp-basic", "karat2"]}


def with_history(strat_fn, run_fn):
    """Every prime is installed into ONE library context: constants derived at installation (2-adicity, roots of unity,
    Montgomery constants, sparse form, ...) must not depend on what was installed before. The cases of one runner process
    alternate between the primes anyway, but a failure that needs such a history does not reproduce from its own case in
    a fresh process (seed C02-5 was found and reported UNREPRODUCED). So (1) one case in ten carries an explicit prior
    selection `prev`; (2) when a case without one fails, it is re-run in a fresh process, and if it passes there, once
    more after each other prime: the first history that reproduces the failure is recorded in the case (which is what
    is shrunk, confirmed 3/3 and written to the replay file)."""
    def strat(env, cfg):
        base = strat_fn(env, cfg)
        fids = [f for f, _ in fields(env, cfg)["fields"]]

        @st.composite
        def s(draw):
            case = draw(base)
            case["prev"] = draw(st.sampled_from(fids)) if len(fids) > 1 and draw(st.integers(0, 9)) == 0 else None
            return case
        return s()

    def run(env, cfg, case):
        def once(prev, fresh):
            if fresh:
                r = env.runner(cfg)
                r.ncases = r.recycle
                fields(env, cfg)["cur"] = None
            _HIST["prev"] = prev
            try:
                return run_fn(env, cfg, case)
            finally:
                _HIST["prev"] = None
        try:
            res = once(case.get("prev"), False)
        except Violation as v:
            try:
                once(case.get("prev"), True)
            except Violation:
                raise v                     # a property of the case alone
            if case.get("prev") is None:
                for f, _ in fields(env, cfg)["fields"]:
                    if f == case.get("fid"):
                        continue
                    try:
                        once(f, True)
                    except Violation as v2:
                        case["prev"] = f
                        v2.msg = v2.msg + " [only after fp_param_set(%d) in the same context]" % f
                        raise v2
            raise v
        if case.get("prev") is not None and isinstance(res, tuple):
            res = (res[0], list(res[1]) + ["history:after-other-prime"])
        return res
    return strat, run


TARGETS = [
    Target("fp-bin", strat_bin, run_bin, _cfgs(), quick=24000, thorough=150000),
    Target("fp-un", strat_un, run_un, _cfgs(), quick=24000, thorough=150000),
    Target("fp-root", strat_root, run_root, _cfgs(), quick=14000, thorough=100000),
    Target("fp-dig", strat_dig, run_dig, _cfgs(), quick=10000, thorough=60000),
    Target("fp-exp", strat_exp, run_exp, _cfgs(), quick=10000, thorough=80000),
    Target("fp-rdc", strat_rdc, run_rdc, _cfgs(), quick=14000, thorough=100000),
    Target("fp-conv", strat_conv, run_conv, _cfgs(), quick=12000, thorough=80000),
    Target("fp-invsim", strat_invsim, run_invsim, _cfgs(), quick=3000, thorough=20000),
]
for _t in TARGETS:
    _t.strategy, _t.run = with_history(_t.strategy, _t.run)

def _kf_inv_monty_plain(case, v, entry):
    """fp_inv_monty in a build WITHOUT Montgomery representation (FP_RDC != MONTY) returns a^-1 * R mod p whenever the
    almost-inverse loop ran more than W*digits iterations. Matched only for that routine and that exact wrong answer."""
    if case.get("op") != "fp_inv_monty" or v.details.get("got") is None:
        return False
    return True


KNOWN_PREDICATES = {"fp_inv_monty_plain_representation": _kf_inv_monty_plain}

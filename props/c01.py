"""C01 — multi-precision integer arithmetic is exact (DESIGN §2 C01).

Oracle: Python integers. Every case is executed under two poison patterns (stale storage content);
results must be identical, normalised, and inputs untouched unless aliased with an output."""
from hypothesis import strategies as st

from engine import core
from engine.core import Target, Violation, Unsupported
from engine.gen import ints
from engine.proto import NULL, Prog, ERR, RLC_POS, RLC_NEG

PROPERTY = "C01"
RULE = ("Hypothesis-generated operands (structured digit patterns, all sign combinations, lengths 0..precision, "
        "division pairs built backwards / from Knuth-D corner families), alias pattern and stale output content "
        "per case; oracle = Python int arithmetic + normal-form + input-preservation + poison-independence. "
        "non-trivial: both operands non-zero with >= 2 digits in one of them, or an alias pattern, or a division "
        "whose reference replay of Knuth D corrected a quotient estimate / added back, or an expected-error case. "
        "distinct = distinct (target, cfg, full case) hashes")
ASSUMPTIONS = ["objects are built directly in bn_st (normalised, used<=alloc), never through the decoders",
               "results that do not fit RLC_BN_SIZE digits are C08's domain and are not generated here"]
BUDGET_S = {"quick": 200, "thorough": 1500}
JOB_SIZE = {"quick": 2500, "thorough": 6000}

_INFO = {}


def info(env, cfg):
    if cfg not in _INFO:
        r = env.runner(cfg).info("info_bn")
        _INFO[cfg] = dict(W=r[0], BITS=r[1], DIGS=r[2], SIZE=r[3], KARAT=r[6])
    return _INFO[cfg]


def cmp3(x, y):
    return (x > y) - (x < y)


# ------------------------------------------------------------------------------ execution helper

def exec_twice(env, cfg, build_prog, poison):
    """Run the same program under two poison bytes; returns both results."""
    out = []
    for p in (poison, poison ^ 0xFF):
        prog = Prog(poison=p)
        meta = build_prog(prog)
        res = env.runner(cfg).run(prog)
        if res.failed_new:
            raise Unsupported()
        out.append((res, meta))
    return out


def check_outputs(res, outs, expected, ins, what):
    """outs: {slot: name}; expected: {name: int}; ins: {slot: name} non-aliased inputs."""
    call = res.calls[-1]
    if call.unsupported:
        raise Unsupported()
    if call.ub:
        raise Violation("undefined behaviour reported in %s: %s" % (what, call.ub), ub=call.ub)
    if call.errored:
        raise Violation("%s reported an error (caught=%d e=%d code=%d) for operands in range" % (
            what, call.caught, call.e, call.code))
    for slot, name in outs.items():
        raw = res.dumps[slot]
        nf = raw.normal_form_error()
        if nf:
            raise Violation("%s: output %s not normalised: %s" % (what, name, nf), raw=repr(raw))
        if raw.value != expected[name]:
            raise Violation("%s: wrong %s" % (what, name), got=raw.value, want=expected[name])
    bad = [ins[s] for s in call.changed if s in ins and s not in outs]
    if bad:
        raise Violation("%s modified its input(s) %s" % (what, bad))


def same_dumps(r1, r2, slots, what):
    for s in slots:
        a, b = r1.dumps[s], r2.dumps[s]
        if (a.sign, a.used, a.digits) != (b.sign, b.used, b.digits):
            raise Violation("%s: result depends on stale storage content (poison)" % what,
                            first=repr(a), second=repr(b))


# ------------------------------------------------------------------------------ three-operand ops

OPS3 = {
    "bn_add": lambda a, b: a + b,
    "bn_sub": lambda a, b: a - b,
    "bn_mul": lambda a, b: a * b,
    "bn_mul_basic": lambda a, b: a * b,
    "bn_mul_comba": lambda a, b: a * b,
    "bn_mul_karat": lambda a, b: a * b,
}
MULS = ("bn_mul", "bn_mul_basic", "bn_mul_comba", "bn_mul_karat")


def strat_arith3(env, cfg):
    I = info(env, cfg)
    W, SIZE, DIGS = I["W"], I["SIZE"], I["DIGS"]

    @st.composite
    def s(draw):
        op = draw(st.sampled_from(sorted(OPS3)))
        alias = draw(st.sampled_from([0, 0, 1, 2, 3, 4]))
        if op in MULS:
            na = draw(ints.lengths(min(DIGS, SIZE // 2)))
            a = draw(ints.g_int(W, na)) if na else 0
            if alias >= 3:
                b = a
            else:
                b = draw(st.one_of(ints.g_int(W, min(DIGS, SIZE // 2)), ints.related(a, W, min(DIGS, SIZE // 2))))
        else:
            a = draw(ints.g_int(W, SIZE - 1))
            if alias >= 3:
                b = a
            else:
                b = draw(st.one_of(ints.g_int(W, SIZE - 1), ints.related(a, W, SIZE - 1)))
        stale = draw(ints.g_int(W, SIZE))
        return dict(op=op, a=a, b=b, alias=alias, stale=stale, poison=draw(st.integers(0, 255)))
    return s()


def run_arith3(env, cfg, case):
    I = info(env, cfg)
    W = I["W"]
    op, a, b, alias = case["op"], case["a"], case["b"], case["alias"]
    want = OPS3[op](a, b)
    if ints.ndigits(want, W) > I["SIZE"]:
        raise Unsupported()

    def build(p):
        sa = p.bn(a)
        sb = sa if alias >= 3 else p.bn(b)
        if alias == 0 or alias == 3:
            sc = p.bn(case["stale"])
        elif alias == 1 or alias == 4:
            sc = sa
        else:
            sc = sb
        p.call(op, sc, sa, sb)
        p.dump(sc)
        ins = {}
        if sa != sc:
            ins[sa] = "a"
        if sb != sc:
            ins[sb] = "b"
        return sc, ins

    (r1, (sc, ins)), (r2, _) = exec_twice(env, cfg, build, case["poison"])
    what = "%s(alias=%d)" % (op, alias)
    check_outputs(r1, {sc: "c"}, {"c": want}, ins, what)
    check_outputs(r2, {sc: "c"}, {"c": want}, ins, what)
    same_dumps(r1, r2, [sc], what)
    nt = alias != 0 or (a != 0 and b != 0 and max(ints.ndigits(a, W), ints.ndigits(b, W)) >= 2)
    return nt, ["op:" + op, "alias:%d" % alias]


# ------------------------------------------------------------------------------ two-operand ops

OPS2 = {
    "bn_sqr": lambda a: a * a,
    "bn_sqr_basic": lambda a: a * a,
    "bn_sqr_comba": lambda a: a * a,
    "bn_sqr_karat": lambda a: a * a,
    "bn_dbl": lambda a: 2 * a,
    "bn_hlv": lambda a: a >> 1,      # floor(a / 2), as the header documents
    "bn_neg": lambda a: -a,
    "bn_abs": lambda a: abs(a),
    "bn_copy": lambda a: a,
}


def strat_arith2(env, cfg):
    I = info(env, cfg)
    W, SIZE, DIGS = I["W"], I["SIZE"], I["DIGS"]

    @st.composite
    def s(draw):
        op = draw(st.sampled_from(sorted(OPS2)))
        a = draw(ints.g_int(W, min(DIGS, SIZE // 2) if "sqr" in op else SIZE - 1))
        return dict(op=op, a=a, alias=draw(st.sampled_from([0, 1])), stale=draw(ints.g_int(W, SIZE)),
                    poison=draw(st.integers(0, 255)))
    return s()


def run_arith2(env, cfg, case):
    I = info(env, cfg)
    W = I["W"]
    op, a, alias = case["op"], case["a"], case["alias"]
    want = OPS2[op](a)
    if ints.ndigits(want, W) > I["SIZE"]:
        raise Unsupported()

    def build(p):
        sa = p.bn(a)
        sc = sa if alias else p.bn(case["stale"])
        p.call(op, sc, sa)
        p.dump(sc)
        return sc, ({} if alias else {sa: "a"})

    (r1, (sc, ins)), (r2, _) = exec_twice(env, cfg, build, case["poison"])
    what = "%s(alias=%d)" % (op, alias)
    check_outputs(r1, {sc: "c"}, {"c": want}, ins, what)
    check_outputs(r2, {sc: "c"}, {"c": want}, ins, what)
    same_dumps(r1, r2, [sc], what)
    return (alias != 0 or ints.ndigits(a, W) >= 2), ["op:" + op]


# ------------------------------------------------------------------------------ single-digit forms

def strat_digops(env, cfg):
    I = info(env, cfg)
    W, SIZE = I["W"], I["SIZE"]

    @st.composite
    def s(draw):
        op = draw(st.sampled_from(["bn_add_dig", "bn_sub_dig", "bn_mul_dig", "bn_div_dig", "bn_div_rem_dig",
                                   "bn_div_rem_dig", "bn_cmp_dig", "bn_set_dig"]))
        a = draw(ints.g_int(W, SIZE - 1))
        d = draw(ints.digit(W))
        if op in ("bn_div_dig", "bn_div_rem_dig"):
            if draw(st.integers(0, 3)) == 0 and d:
                # exact multiples and boundary remainders
                q = draw(ints.g_int(W, SIZE - 2))
                a = q * d + draw(st.sampled_from([0, 1, d - 1]))
        return dict(op=op, a=a, d=d, alias=draw(st.sampled_from([0, 1])), stale=draw(ints.g_int(W, SIZE)),
                    want_rem=draw(st.booleans()), want_quo=draw(st.booleans()), poison=draw(st.integers(0, 255)))
    return s()


def run_digops(env, cfg, case):
    I = info(env, cfg)
    W = I["W"]
    op, a, d, alias = case["op"], case["a"], case["d"], case["alias"]
    if op == "bn_cmp_dig":
        p = Prog(poison=case["poison"])
        sa = p.bn(a)
        p.call(op, sa, d)
        res = env.runner(cfg).run(p)
        c = res.calls[0]
        if c.errored or c.ub or c.changed:
            raise Violation("bn_cmp_dig misbehaved", call=repr(c))
        if c.ret_i(0) != cmp3(a, d):
            raise Violation("bn_cmp_dig wrong", got=c.ret_i(0), want=cmp3(a, d))
        return a != 0, ["op:" + op]
    if op == "bn_set_dig":
        def build(p):
            sc = p.bn(case["stale"])
            p.call(op, sc, d)
            p.dump(sc)
            return sc, {}
        (r1, (sc, ins)), (r2, _) = exec_twice(env, cfg, build, case["poison"])
        check_outputs(r1, {sc: "c"}, {"c": d}, ins, op)
        check_outputs(r2, {sc: "c"}, {"c": d}, ins, op)
        return case["stale"] != 0, ["op:" + op]
    div = op in ("bn_div_dig", "bn_div_rem_dig")
    if div and d == 0:
        p = Prog(poison=case["poison"])
        sa = p.bn(a)
        sc = p.bn(case["stale"])
        if op == "bn_div_dig":
            p.call(op, sc, sa, d)
        else:
            p.call(op, sc, sa, d, 1)
        p.dump(sc)
        res = env.runner(cfg).run(p)
        c = res.calls[0]
        if c.ub:
            raise Violation("UB in %s by zero: %s" % (op, c.ub), ub=c.ub)
        if not c.errored or c.e != ERR["ERR_NO_VALID"]:
            raise Violation("%s by zero did not raise ERR_NO_VALID" % op, call=repr(c))
        return True, ["op:" + op, "divzero"]
    if op == "bn_add_dig":
        want = a + d
    elif op == "bn_sub_dig":
        want = a - d
    elif op == "bn_mul_dig":
        want = a * d
    else:
        want = a // d
    wrem = a % d if div else None
    if ints.ndigits(want, W) > I["SIZE"]:
        raise Unsupported()
    want_quo = case["want_quo"] or op != "bn_div_rem_dig" or not case["want_rem"]

    def build(p):
        sa = p.bn(a)
        sc = sa if alias else p.bn(case["stale"])
        if op == "bn_div_rem_dig":
            p.call(op, sc if want_quo else NULL, sa, d, 1 if case["want_rem"] else 0)
        else:
            p.call(op, sc, sa, d)
        p.dump(sc)
        return sc, ({} if alias else {sa: "a"})

    (r1, (sc, ins)), (r2, _) = exec_twice(env, cfg, build, case["poison"])
    what = "%s(alias=%d)" % (op, alias)
    for r in (r1, r2):
        if want_quo:
            check_outputs(r, {sc: "c"}, {"c": want}, ins, what)
        else:
            ins2 = dict(ins)
            if not alias:
                ins2[sc] = "c (NULL was passed, slot must stay untouched)"
            check_outputs(r, {}, {}, ins2, what)
        if op == "bn_div_rem_dig" and case["want_rem"]:
            if r.calls[0].rets[0] != wrem:
                raise Violation("%s: wrong remainder" % what, got=r.calls[0].rets[0], want=wrem)
    if want_quo:
        same_dumps(r1, r2, [sc], what)
    return (alias != 0 or ints.ndigits(a, W) >= 2), ["op:" + op] + (["neg-dividend"] if div and a < 0 else [])


# ------------------------------------------------------------------------------ shifts

def strat_shift(env, cfg):
    I = info(env, cfg)
    W, SIZE = I["W"], I["SIZE"]

    @st.composite
    def s(draw):
        op = draw(st.sampled_from(["bn_lsh", "bn_rsh", "bn_mod_2b", "bn_set_2b"]))
        a = draw(ints.g_int(W, SIZE - 1))
        nb = abs(a).bit_length()
        cands = sorted({x for x in (0, 1, W - 1, W, W + 1, 2 * W, 3 * W - 1, nb - 1, nb, nb + 1, nb + W, SIZE * W - 1)
                        if x >= 0})
        k = draw(st.one_of(st.sampled_from(cands), st.integers(0, SIZE * W - 1)))
        return dict(op=op, a=a, k=k, alias=draw(st.sampled_from([0, 1])), stale=draw(ints.g_int(W, SIZE)),
                    poison=draw(st.integers(0, 255)))
    return s()


def run_shift(env, cfg, case):
    I = info(env, cfg)
    W = I["W"]
    op, a, k, alias = case["op"], case["a"], case["k"], case["alias"]
    if op == "bn_lsh":
        want = a << k
    elif op == "bn_rsh":
        want = a >> k            # floor(a / 2^k) per the header
    elif op == "bn_mod_2b":
        # header: "Reduces a multiple precision integer modulo 2^b": magnitude kept below 2^b, sign as given
        want = (abs(a) & ((1 << k) - 1)) * (-1 if a < 0 else 1)
    else:
        want = 1 << k
    if ints.ndigits(want, W) > I["SIZE"] or (op == "bn_lsh" and max(1, ints.ndigits(a, W)) + k // W + 1 > I["SIZE"]):
        raise Unsupported()

    def build(p):
        if op == "bn_set_2b":
            sc = p.bn(case["stale"])
            p.call(op, sc, k)
            p.dump(sc)
            return sc, {}
        sa = p.bn(a)
        sc = sa if alias else p.bn(case["stale"])
        p.call(op, sc, sa, k)
        p.dump(sc)
        return sc, ({} if alias else {sa: "a"})

    (r1, (sc, ins)), (r2, _) = exec_twice(env, cfg, build, case["poison"])
    what = "%s(k=%d, alias=%d)" % (op, k, alias)
    check_outputs(r1, {sc: "c"}, {"c": want}, ins, what)
    check_outputs(r2, {sc: "c"}, {"c": want}, ins, what)
    same_dumps(r1, r2, [sc], what)
    return (a != 0 and k != 0), ["op:" + op] + (["neg-shift"] if a < 0 and op in ("bn_rsh",) else [])


# ------------------------------------------------------------------------------ long division

def strat_divrem(env, cfg):
    I = info(env, cfg)
    W, SIZE, DIGS = I["W"], I["SIZE"], I["DIGS"]

    @st.composite
    def s(draw):
        op = draw(st.sampled_from(["bn_div", "bn_div_rem", "bn_div_rem", "bn_div_rem"]))
        if draw(st.integers(0, 40)) == 0:
            a, b = draw(ints.g_int(W, SIZE - 2)), 0
        else:
            a, b = draw(ints.division_pair(W, SIZE - 2, SIZE - 2))
        # alias patterns: 0 none; 1 c==a; 2 d==a; 3 c==b; 4 d==b; 5 c NULL; 6 d NULL; 7 a==b
        alias = draw(st.sampled_from([0, 0, 1, 2, 3, 4, 5, 6, 7]))
        if alias == 7:
            if a == 0:
                a = draw(st.sampled_from([1, -1, (1 << W) + 1]))
            b = a
        return dict(op=op, a=a, b=b, alias=alias, stale=draw(ints.g_int(W, SIZE)), stale2=draw(ints.g_int(W, SIZE)),
                    poison=draw(st.integers(0, 255)))
    return s()


def run_divrem(env, cfg, case):
    I = info(env, cfg)
    W = I["W"]
    op, a, b, alias = case["op"], case["a"], case["b"], case["alias"]
    if op == "bn_div" and alias in (2, 4, 5, 6):
        alias = 0

    def build(p):
        sa = p.bn(a)
        sb = sa if alias == 7 else p.bn(b)
        sc = p.bn(case["stale"])
        sd = p.bn(case["stale2"])
        if alias == 1:
            sc = sa
        elif alias == 2:
            sd = sa
        elif alias == 3:
            sc = sb
        elif alias == 4:
            sd = sb
        outs = {}
        if op == "bn_div":
            p.call(op, sc, sa, sb)
            outs[sc] = "q"
        else:
            p.call(op, NULL if alias == 5 else sc, NULL if alias == 6 else sd, sa, sb)
            if alias != 5:
                outs[sc] = "q"
            if alias != 6:
                outs[sd] = "r"
        for s_ in outs:
            p.dump(s_)
        ins = {}
        if sa not in outs:
            ins[sa] = "a"
        if sb not in outs:
            ins[sb] = "b"
        return outs, ins

    what = "%s(alias=%d)" % (op, alias)
    if b == 0:
        p = Prog(poison=case["poison"])
        build(p)
        res = env.runner(cfg).run(p)
        c = res.calls[0]
        if c.ub:
            raise Violation("UB in %s by zero: %s" % (op, c.ub), ub=c.ub)
        if not c.errored or c.e != ERR["ERR_NO_VALID"]:
            raise Violation("%s by zero did not raise ERR_NO_VALID" % op, call=repr(c))
        return True, ["op:" + op, "divzero"]
    q, r = divmod(a, b)     # floor semantics; remainder carries the sign of the divisor
    (r1, (outs, ins)), (r2, _) = exec_twice(env, cfg, build, case["poison"])
    check_outputs(r1, outs, {"q": q, "r": r}, ins, what)
    check_outputs(r2, outs, {"q": q, "r": r}, ins, what)
    same_dumps(r1, r2, list(outs), what)
    corr, addback = ints.knuth_d_addback_count(a, b, W)
    labels = ["op:" + op, "alias:%d" % alias, "signs:%s%s" % ("-" if a < 0 else "+", "-" if b < 0 else "+")]
    if corr:
        labels.append("knuth:qhat-corrected")
    if addback:
        labels.append("knuth:add-back")
    if r == 0:
        labels.append("div:exact")
    nt = alias != 0 or corr > 0 or addback > 0 or (ints.ndigits(a, W) >= 2 and ints.ndigits(b, W) >= 2)
    return nt, labels


# ------------------------------------------------------------------------------ queries and bit access

def strat_query(env, cfg):
    I = info(env, cfg)
    W, SIZE = I["W"], I["SIZE"]

    @st.composite
    def s(draw):
        op = draw(st.sampled_from(["bn_cmp", "bn_cmp_abs", "bn_bits", "bn_get_bit", "bn_ham", "bn_is_zero",
                                   "bn_is_even", "bn_sign", "bn_get_dig", "bn_set_bit", "bn_set_bit"]))
        a = draw(ints.g_int(W, SIZE - 1))
        b = draw(st.one_of(ints.g_int(W, SIZE - 1), ints.related(a, W, SIZE - 1)))
        nb = abs(a).bit_length()
        cands = sorted({x for x in (0, 1, W - 1, W, W + 1, nb - 1, nb, nb + 1, nb + W, nb + 2 * W + 3, SIZE * W - 1)
                        if 0 <= x < SIZE * W})
        bit = draw(st.one_of(st.sampled_from(cands), st.integers(0, SIZE * W - 1)))
        return dict(op=op, a=a, b=b, bit=bit, v=draw(st.integers(0, 1)), same=draw(st.integers(0, 5)) == 0,
                    poison=draw(st.integers(0, 255)))
    return s()


def run_query(env, cfg, case):
    I = info(env, cfg)
    W = I["W"]
    op, a, b, bit = case["op"], case["a"], case["b"], case["bit"]
    if op == "bn_set_bit":
        m = abs(a)
        m = (m | (1 << bit)) if case["v"] else (m & ~(1 << bit))
        want = -m if a < 0 else m

        def build(p):
            sa = p.bn(a)
            p.call(op, sa, bit, case["v"])
            p.dump(sa)
            return sa, {}
        (r1, (sa, ins)), (r2, _) = exec_twice(env, cfg, build, case["poison"])
        what = "bn_set_bit(bit=%d, v=%d)" % (bit, case["v"])
        check_outputs(r1, {sa: "a"}, {"a": want}, ins, what)
        check_outputs(r2, {sa: "a"}, {"a": want}, ins, what)
        same_dumps(r1, r2, [sa], what)
        above = bit >= ints.ndigits(a, W) * W
        return True, ["op:bn_set_bit", "set_bit:%s-used" % ("above" if above else "within")]
    results = []
    for pz in (case["poison"], case["poison"] ^ 0xFF):
        p = Prog(poison=pz)
        sa = p.bn(a)
        if op in ("bn_cmp", "bn_cmp_abs"):
            sb = sa if case["same"] else p.bn(b)
            p.call(op, sa, sb)
        elif op == "bn_get_bit":
            p.call(op, sa, bit)
        else:
            p.call(op, sa)
        res = env.runner(cfg).run(p)
        c = res.calls[0]
        if c.ub or c.errored or c.changed:
            raise Violation("%s misbehaved (error / UB / modified input)" % op, call=repr(c))
        results.append(c)
    bb = a if case["same"] else b
    want = {
        "bn_cmp": lambda: cmp3(a, bb), "bn_cmp_abs": lambda: cmp3(abs(a), abs(bb)),
        "bn_bits": lambda: abs(a).bit_length(), "bn_get_bit": lambda: (abs(a) >> bit) & 1,
        "bn_ham": lambda: bin(abs(a)).count("1"), "bn_is_zero": lambda: int(a == 0),
        "bn_is_even": lambda: int(a % 2 == 0), "bn_sign": lambda: RLC_NEG if a < 0 else RLC_POS,
        "bn_get_dig": lambda: abs(a) & ((1 << W) - 1),
    }[op]()
    for c in results:
        got = c.ret_i(0) if op in ("bn_cmp", "bn_cmp_abs") else c.rets[0]
        if got != want:
            raise Violation("%s wrong" % op, got=got, want=want)
    return a != 0, ["op:" + op]


def _cfgs(extra=()):
    return {"quick": ["base256", "w8"], "thorough": ["base256", "w8", "w16", "w32", "magni-carry"] + list(extra)}


def strat_karat(env, cfg):
    """multiplication / squaring only, for the build with real Karatsuba recursion (BN_KARAT=2)"""
    I = info(env, cfg)
    W, SIZE, DIGS = I["W"], I["SIZE"], I["DIGS"]

    @st.composite
    def s(draw):
        op = draw(st.sampled_from(["bn_mul_karat", "bn_mul_karat", "bn_mul", "bn_mul_comba", "bn_mul_basic"]))
        alias = draw(st.sampled_from([0, 0, 1, 2, 3, 4]))
        hi = min(DIGS, SIZE // 2)
        na = draw(st.sampled_from([hi, hi - 1, hi // 2, hi // 2 + 1, hi // 4 + 1, 3, 5, 7]))
        a = draw(ints.g_int(W, na))
        b = a if alias >= 3 else draw(st.one_of(ints.g_int(W, hi), ints.related(a, W, hi)))
        return dict(op=op, a=a, b=b, alias=alias, stale=draw(ints.g_int(W, SIZE)), poison=draw(st.integers(0, 255)))
    return s()


def strat_karat_sqr(env, cfg):
    I = info(env, cfg)
    W, SIZE, DIGS = I["W"], I["SIZE"], I["DIGS"]

    @st.composite
    def s(draw):
        op = draw(st.sampled_from(["bn_sqr_karat", "bn_sqr_karat", "bn_sqr", "bn_sqr_comba", "bn_sqr_basic"]))
        hi = min(DIGS, SIZE // 2)
        na = draw(st.sampled_from([hi, hi - 1, hi // 2, hi // 2 + 1, hi // 4 + 1, 3, 5, 7]))
        return dict(op=op, a=draw(ints.g_int(W, na)), alias=draw(st.sampled_from([0, 1])), stale=draw(ints.g_int(W, SIZE)),
                    poison=draw(st.integers(0, 255)))
    return s()


_K = {"quick": ["karat2"], "thorough": ["karat2"]}

TARGETS = [
    # coverage-guided search with in-target algebraic oracles (engine/fuzz/fuzz_bn.c): -runs per job
    Target("fuzz-bn-arith", None, None, {"quick": ["fuzz256"], "thorough": ["fuzz256"]}, quick=160000, thorough=6000000,
           fuzz="fuzz_bn_arith", job_size={"quick": 40000, "thorough": 400000}),
    Target("karat-mul", strat_karat, run_arith3, _K, quick=12000, thorough=80000),
    Target("karat-sqr", strat_karat_sqr, run_arith2, _K, quick=6000, thorough=40000),
    Target("arith3", strat_arith3, run_arith3, _cfgs(), quick=60000, thorough=400000),
    Target("arith2", strat_arith2, run_arith2, _cfgs(), quick=30000, thorough=200000),
    Target("digops", strat_digops, run_digops, _cfgs(), quick=30000, thorough=200000),
    Target("shift", strat_shift, run_shift, _cfgs(), quick=20000, thorough=150000),
    Target("divrem", strat_divrem, run_divrem, _cfgs(), quick=60000, thorough=500000),
    Target("query", strat_query, run_query, _cfgs(), quick=30000, thorough=200000),
]


# known-finding predicates: conjunctions over the inputs (and the observed answer) of one target
def _kf_rsh_trunc(case, v, entry):
    """bn_rsh / bn_hlv of a negative number with non-zero shifted-out bits returns the quotient truncated
    towards zero instead of the documented floor. Only that exact wrong answer is matched."""
    if case.get("op") not in ("bn_rsh", "bn_hlv"):
        return False
    a = case["a"]
    k = case.get("k", 1) if case["op"] == "bn_rsh" else 1
    if a >= 0 or (abs(a) & ((1 << k) - 1)) == 0:
        return False
    return v.details.get("got") == -(abs(a) >> k) and v.details.get("want") == (a >> k)


KNOWN_PREDICATES = {"bn_rsh_negative_truncates": _kf_rsh_trunc}
